#!/usr/bin/env python3
"""baseline_check.py [-tags verif] — run the repository's own test suite (guard off by default) the way
/root/.vp/BASELINE.json does and report every stable-pass test that no longer passes."""
import json, subprocess, sys, os
tags = sys.argv[1:]  # e.g. -tags verif
base = json.load(open("/root/.vp/BASELINE.json"))
want = set(base["stable_pass"])
mods = [l.strip() for l in open(os.path.join(os.path.dirname(os.path.abspath(__file__)), "gomods.txt")) if l.strip()]
status = {}
for m in mods:
    p = subprocess.run(["go", "test"] + tags + ["-json", "-vet=off", "-count=1", "-timeout", "25m", "./..."],
                       cwd=os.path.join("/repo", m), capture_output=True, text=True)
    for line in p.stdout.splitlines():
        try:
            e = json.loads(line)
        except Exception:
            continue
        if e.get("Test") and e.get("Action") in ("pass", "fail", "skip"):
            status["%s::%s" % (e["Package"], e["Test"])] = e["Action"]
missing = sorted(t for t in want if status.get(t) != "pass")
print("baseline: %d stable-pass tests, %d pass now, %d not passing" % (len(want), len(want) - len(missing), len(missing)))
for t in missing[:50]:
    print("  NOT PASSING:", t, status.get(t))
sys.exit(1 if missing else 0)
