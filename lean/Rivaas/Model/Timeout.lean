import Rivaas.Basic
/-
C10 — model of `middleware/timeout/timeout.go` (`timeout.New`) as a **two-thread small-step system**
with the recovery middleware in front of it (chain `[recovery, timeout, handler]`).

* thread `R` — the request goroutine inside the middleware: install the guard `timeoutWriter` as
  `c.Response`, spawn the handler goroutine, `select` on `done` / `ctx.Done()`; on `ctx.Done()` with
  `DeadlineExceeded`: `timedOut = tw.timeout()` — true iff the chain has not started the response —
  and only then the timeout handler runs (on a context of its own that writes to the real writer:
  `c.JSON(408, …)`); on `ctx.Done()` with `Canceled` nothing; **in both cases `<-done`**. After the
  select: `c.Response` is restored unless `timedOut`, then whatever `panicChan` holds is re-`panic`ked.
* thread `H` — the handler goroutine: `defer { if r := recover(); r != nil { panicChan <- r }; close(done) }`
  around `c.Next()`, i.e. the timed handler's program. Its writes go through the guard: they start
  the response (`started`) unless `timedOut`, in which case they are dropped.
* after a timeout response the guard stays installed: recovery's 500 body for a re-raised panic is dropped.

This is the code after the `fix:` commits for K10b and K10a/K10d; the as-shipped middleware is
`Model/TimeoutAsIs.lean`.

A schedule is a list of tokens: which thread moves (for `R` at its `select`: which ready branch Go
picks), or an environment event (the deadline timer fires, the parent context is cancelled). A
blocked thread's token is a no-op. The synchronisation acts (`awaitCtx`, `awaitE`, `awaitT`, `signalH`,
`awaitRet`) are how the harness forces an order with channels — they are ordinary things a handler
can do. Core Lean only.
-/
namespace Rivaas.Timeout

/-- one statement of the timed handler -/
inductive HAct where
  /-- write a response (`c.JSON(2xx, …)`) -/
  | write
  /-- the deadline passes now (the context reports `DeadlineExceeded`) -/
  | fireDl
  /-- the parent (request) context is cancelled now (`Canceled`) -/
  | firePc
  /-- `<-c.Request.Context().Done()` -/
  | awaitCtx
  /-- wait until the middleware is logging the timeout (thread R is past its `select`, before `tw.timeout()`) -/
  | awaitL
  /-- wait until the timeout handler has been entered (thread R is past its `select`) -/
  | awaitE
  /-- wait until the timeout handler has written its response -/
  | awaitT
  /-- let a timeout handler that waits for the handler proceed -/
  | signalH
  /-- wait until `ServeHTTP` has returned -/
  | awaitRet
  /-- keep running for a long while (many budgets) unless `ServeHTTP` returns earlier; then go on -/
  | hold
  /-- `panic(v)` -/
  | panic (v : Nat)
  /-- The loop test of `Context.Next` in front of a position of the timed chain
      (`if err := c.Request.Context().Err(); err != nil { return }`, checks on by default): when the
      derived context is done, the next `n` acts — everything the positions behind the test would
      do — are skipped. The timed chain is flattened by the harness: a flat handler `h` followed by
      the rest `X` is `h ++ [guard |X|] ++ X`, a nesting one `pre; Next(); post` is
      `pre ++ [guard |X|] ++ X ++ post`. -/
  | guard (n : Nat)
  deriving Repr, DecidableEq, Inhabited

/-- schedule tokens -/
inductive Tok where
  /-- thread H moves -/
  | h
  /-- thread R moves; at the `select` it takes the `done` case when both are ready -/
  | rd
  /-- thread R moves; at the `select` it takes the `ctx.Done()` case when both are ready -/
  | rc
  /-- the deadline timer fires -/
  | dl
  /-- the parent context is cancelled (client went away) -/
  | pc
  deriving Repr, DecidableEq, Inhabited

inductive Ctx where
  | live | deadline | cancelled
  deriving Repr, DecidableEq, Inhabited

/-- where thread R is -/
inductive RPc where
  /-- at `select { case <-done: … case <-ctx.Done(): … }` -/
  | select
  /-- on the `ctx.Done()` arm with `DeadlineExceeded`: `cfg.logger.Warn("request timeout", …)`, before `tw.timeout()` -/
  | logging
  /-- inside `cfg.handler(c, cfg.duration)` -/
  | thandler
  /-- at `<-done` after a timeout -/
  | waitDone
  /-- the middleware (and `ServeHTTP`) has returned; the context is back in the pool -/
  | returned
  deriving Repr, DecidableEq, Inhabited

inductive Chunk where
  /-- the timed handler's own output -/
  | h
  /-- the timeout handler's 408 body -/
  | t408
  /-- recovery's 500 body -/
  | rec500
  /-- bytes that are no well-formed document of any of the three writers (never written by the model; an
      observation can contain it) -/
  | other
  deriving Repr, DecidableEq, Inhabited

structure St where
  /-- what H still has to do -/
  hprog : List HAct
  /-- `done` is closed -/
  hDone : Bool := false
  /-- content of `panicChan` (capacity 1) -/
  panicChan : Option Nat := none
  ctx : Ctx := .live
  rpc : RPc := .select
  /-- `timedOut` (= `tw.timedOut`): the response belongs to the timeout handler -/
  timedOut : Bool := false
  /-- `tw.started`: the handler chain has started the response -/
  started : Bool := false
  /-- the timeout is being logged (what `awaitL` waits for) -/
  tLogging : Bool := false
  /-- the timeout handler has been entered (what `awaitE` waits for) -/
  tEntered : Bool := false
  /-- the timeout handler has written (what `awaitT` waits for) -/
  tWritten : Bool := false
  /-- H let the timeout handler go (or has finished) -/
  hGo : Bool := false
  status : Option Chunk := none
  body : List Chunk := []
  /-- a panic value re-raised on R and answered by recovery -/
  recovered : Option Nat := none
  /-- `ServeHTTP` returned while the handler goroutine was still running -/
  releasedEarly : Bool := false
  deriving Repr, DecidableEq, Inhabited

def St.write (s : St) (c : Chunk) : St :=
  { s with status := s.status.or (some c), body := s.body ++ [c] }

/-- R leaves the middleware after `<-done`: `c.Response` is the real writer again unless the request
    timed out; re-panic what the goroutine caught. Recovery (position 0, same goroutine) catches it:
    `c.Abort()`, `c.JSON(500, …)` — dropped by the guard after a timeout response —, return. -/
def finishR (s : St) : St :=
  match s.panicChan with
  | some v =>
    if s.timedOut then { s with recovered := some v, rpc := .returned, releasedEarly := !s.hDone }
    else ({ s with recovered := some v, rpc := .returned, releasedEarly := !s.hDone }).write .rec500
  | none => { s with rpc := .returned, releasedEarly := !s.hDone }

def stepH (s : St) : St :=
  if s.hDone then s else
  match s.hprog with
  | [] => { s with hDone := true, hGo := true }
  | .write :: r =>
    -- `timeoutWriter.Write`: dropped after the timeout decision, otherwise the chain owns the response
    if s.timedOut then { s with hprog := r } else ({ s with hprog := r, started := true }).write .h
  | .fireDl :: r => { s with hprog := r, ctx := if s.ctx = .live then .deadline else s.ctx }
  | .firePc :: r => { s with hprog := r, ctx := if s.ctx = .live then .cancelled else s.ctx }
  | .awaitCtx :: r => if s.ctx = .live then s else { s with hprog := r }
  | .awaitL :: r => if s.tLogging then { s with hprog := r } else s
  | .awaitE :: r => if s.tEntered then { s with hprog := r } else s
  | .awaitT :: r => if s.tWritten then { s with hprog := r } else s
  | .signalH :: r => { s with hprog := r, hGo := true }
  | .awaitRet :: r => if s.rpc = .returned then { s with hprog := r } else s
  | .hold :: r => { s with hprog := r }
  | .panic v :: _ => { s with hprog := [], panicChan := some v, hDone := true, hGo := true }
  | .guard n :: r => { s with hprog := if s.ctx = .live then r else r.drop n }

/-- what the configured hooks do: `waitH` — the timeout handler (`timeout.WithHandler`) waits for the handler's
    signal before it writes; `waitL` — the logger (`timeout.WithLogger`) does, inside its `Warn` call -/
structure Hooks where
  waitH : Bool := false
  waitL : Bool := false
  deriving Repr, DecidableEq, Inhabited

instance : Coe Bool Hooks := ⟨fun b => { waitH := b }⟩

/-- `preferDone`: which ready `select` case Go picks -/
def stepR (waitH : Hooks) (preferDone : Bool) (s : St) : St :=
  match s.rpc with
  | .select =>
    -- `done` is ready and Go picks it (always when `ctx.Done()` is not ready)
    if s.hDone && (preferDone || s.ctx == .live) then finishR s
    -- nothing is ready: blocked
    else if s.ctx = .live then s
    -- `ctx.Done()`: errors.Is(ctx.Err(), context.DeadlineExceeded)? then the timeout is logged
    else if s.ctx = .deadline then { s with tLogging := true, rpc := .logging }
    -- the parent context was cancelled: nothing to send, `<-done`
    else { s with rpc := .waitDone }
  | .logging =>
    if waitH.waitL && !s.hGo then s
    -- `timedOut = tw.timeout()`: the claim succeeds iff the chain has not started the response
    else if s.started then { s with rpc := .waitDone }
    else { s with timedOut := true, tEntered := true, rpc := .thandler }
  | .thandler =>
    if waitH.waitH && !s.hGo then s
    else ({ s with tWritten := true, rpc := .waitDone }).write .t408
  | .waitDone => if s.hDone then finishR s else s
  | .returned => s

def step (waitH : Hooks) (s : St) : Tok → St
  | .h => stepH s
  | .rd => stepR waitH true s
  | .rc => stepR waitH false s
  | .dl => { s with ctx := if s.ctx = .live then .deadline else s.ctx }
  | .pc => { s with ctx := if s.ctx = .live then .cancelled else s.ctx }

def run (waitH : Hooks) (sched : List Tok) (s : St) : St := sched.foldl (step waitH) s

def init (prog : List HAct) : St := { hprog := prog }

/-- nothing more can happen without an environment event -/
def St.quiescent (waitH : Hooks) (s : St) : Bool :=
  stepH s == s && stepR waitH true s == s && stepR waitH false s == s

/-- The scheduler the driver uses for harness cases (whose order is forced by channels, so every
    fair schedule gives the same result): `first` moves as long as it can, then the other thread. -/
def fair (waitH : Hooks) (hFirst : Bool) : Nat → St → St
  | 0, s => s
  | n+1, s =>
    let a := if hFirst then stepH s else stepR waitH true s
    if a != s then fair waitH hFirst n a
    else
      let b := if hFirst then stepR waitH true s else stepH s
      if b != s then fair waitH hFirst n b else s

/-- `fair` for cases that run under a real (small) budget: when neither thread can move and the
    context is still live, time passes until the middleware's own timer fires (`dl`) -/
def fairT (waitH : Hooks) (hFirst : Bool) : Nat → St → St
  | 0, s => s
  | n+1, s =>
    let a := if hFirst then stepH s else stepR waitH true s
    if a != s then fairT waitH hFirst n a
    else
      let b := if hFirst then stepR waitH true s else stepH s
      if b != s then fairT waitH hFirst n b
      else if s.ctx = .live then fairT waitH hFirst n (step waitH s .dl) else s

end Rivaas.Timeout
