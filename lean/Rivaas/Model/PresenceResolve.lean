import Rivaas.Model.Presence
/-
C05 — model of the path resolution of partial validation (validation/tags.go): `getJSONFieldName`,
`buildFieldMap`, `isPromotedStruct`, `promotedField`, `resolvePath`, `elementTag`, and the use
`validatePartialLeafsOnly` makes of them, statement by statement, over a term grammar of the value's
*shape* — what `reflect` says about the value handed to `ValidatePartial`: struct fields with their Go
name, raw `json` tag, `Anonymous`, whether the field's type is a struct or pointer to struct, and the
`validate` tag; pointers (nil or not); slices/arrays with their elements; everything else (`other`).

Parameters: `reflect` itself (the harness reads the shape off the real value with the reflect API only)
and `validator.Var` (a table keyed by the location the path resolved to and the tag it is called with).
Core Lean only.
-/
namespace Rivaas.Presence

/-- what `reflect.StructField` says about one field -/
structure FieldInfo where
  /-- `field.Name` -/
  name : Bytes
  /-- `field.Tag.Get("json")` -/
  jsonTag : Bytes
  /-- `field.Anonymous` -/
  anonymous : Bool
  /-- `field.Type` is a struct or a pointer to a struct -/
  structy : Bool
  /-- `field.Tag.Get("validate")` -/
  validate : Bytes
  deriving Repr, DecidableEq, Inhabited

/-- the shape of a `reflect.Value` as far as `resolvePath` looks at it -/
inductive Shape where
  /-- neither pointer, struct, slice nor array (basic kinds, maps, interfaces, …) -/
  | other
  | nilPtr
  | ptr (s : Shape)
  /-- slice or array with its elements -/
  | seq (items : List Shape)
  /-- struct: position in the list = reflect field index -/
  | struct (fields : List (FieldInfo × Shape))
  /-- a non-nil interface value and what it holds; a nil interface (`resolvePath` does not look into
      either: to it they are like `other`; the redaction walk does) -/
  | iface (s : Shape)
  | nilIface
  /-- a map with its entries, keys as `fmt.Sprint` prints them (order immaterial) -/
  | map (entries : List (Bytes × Shape))
  deriving Repr, Inhabited

/-- where a path resolved to: field indices and element indices from the root, in order -/
abbrev Loc := List Nat

/-- `strings.Cut(s, ",")` -/
def cutComma : Bytes → Option (Bytes × Bytes)
  | [] => none
  | c :: rest =>
    if c == ',' then some ([], rest)
    else match cutComma rest with
      | some (a, b) => some (c :: a, b)
      | none => none

/-- `getJSONFieldName` -/
def jsonFieldName (f : FieldInfo) : Bytes :=
  if f.jsonTag.isEmpty || f.jsonTag == ['-'] then f.name
  else match cutComma f.jsonTag with
    | some (before, _) => if before.isEmpty then f.name else before
    | none => f.jsonTag

/-- `isPromotedStruct` -/
def isPromotedStruct (f : FieldInfo) : Bool := f.anonymous && f.jsonTag.isEmpty && f.structy

/-- does `buildFieldMap` enter field `f` under `name`: not `json:"-"`, not a promoted embedded struct (it has no
    JSON name of its own: after the `fix:` commit for K05m it is kept under a key no member name collides with),
    JSON name non-empty and equal -/
def mapsTo (f : FieldInfo) (name : Bytes) : Bool :=
  f.jsonTag != ['-'] && !isPromotedStruct f && !(jsonFieldName f).isEmpty && jsonFieldName f == name

/-- as shipped (K05m): a promoted embedded struct was entered under its Go name and could take the entry of an
    earlier field tagged with that name -/
def mapsToAsIs (f : FieldInfo) (name : Bytes) : Bool :=
  f.jsonTag != ['-'] && !(jsonFieldName f).isEmpty && jsonFieldName f == name

/-- `buildFieldMap(structType)[name]`: the map is filled in field order, a later field with the same JSON
    name overwrites an earlier one -/
def fieldIndexFrom (name : Bytes) : List (FieldInfo × Shape) → Nat → Option Nat → Option Nat
  | [], _, acc => acc
  | (f, _) :: rest, i, acc => fieldIndexFrom name rest (i + 1) (if mapsTo f name then some i else acc)

def fieldIndex (fields : List (FieldInfo × Shape)) (name : Bytes) : Option Nat := fieldIndexFrom name fields 0 none

/-- `buildFieldMap(structType)[name]` as shipped (K05m) -/
def fieldIndexAsIs (fields : List (FieldInfo × Shape)) (name : Bytes) : Option Nat :=
  (fields.zipIdx).foldl (fun acc fi => if mapsToAsIs fi.1.1 name then some fi.2 else acc) none

/-- `fieldMap[name]` found and the field is not a promoted struct: the field and its value -/
def directField (fields : List (FieldInfo × Shape)) (name : Bytes) : Option (Nat × FieldInfo × Shape) :=
  match fieldIndex fields name with
  | some i => match fields[i]? with
    | some (f, s) => if isPromotedStruct f then none else some (i, f, s)
    | none => none
  | none => none

/-- `for embedded.Kind() == reflect.Pointer && !embedded.IsNil() { embedded = embedded.Elem() }` -/
def derefSoft : Shape → Shape
  | .ptr s => derefSoft s
  | s => s

/-- `for currentVal.Kind() == reflect.Pointer { if currentVal.IsNil() { return false }; … }` -/
def derefHard : Shape → Option Shape
  | .ptr s => derefHard s
  | .nilPtr => none
  | s => some s

/-- `promotedField(val, name, depth)`; `fuel = maxRecursionDepth + 1 - depth` (the call with
    `depth > maxRecursionDepth` fails). The embedded structs are tried in field order; in each, a field of
    its own first, then what it promotes in turn. -/
def promotedField : Nat → List (FieldInfo × Shape) → Bytes → Option (Loc × FieldInfo × Shape)
  | 0, _, _ => none
  | fuel + 1, fields, name =>
    (fields.zipIdx).findSome? fun ((f, s), i) =>
      if !isPromotedStruct f then none
      else match derefSoft s with
        | .struct efs =>
          match directField efs name with
          | some (j, ef, es) => some ([i, j], ef, es)
          | none =>
            match promotedField fuel efs name with
            | some (loc, r) => some (i :: loc, r)
            | none => none
        | _ => none

/-- `strconv.Atoi(part)` succeeded with a value `≥ 0`: optional sign, at least one digit. A negative
    value and a value out of `int` range both make `resolvePath` give up on a slice, like an index past
    the end: they are `none` here. (`-0` is 0.) -/
def atoiIndex (part : Bytes) : Option Nat :=
  let (neg, ds) := match part with
    | '+' :: r => (false, r)
    | '-' :: r => (true, r)
    | r => (false, r)
  if ds.isEmpty || !ds.all (fun c => '0' ≤ c ∧ c ≤ '9') then none
  else
    let n := ds.foldl (fun acc c => acc * 10 + (c.toNat - '0'.toNat)) 0
    if neg then (if n == 0 then some 0 else none)
    else if n ≤ 9223372036854775807 then some n else none

/-- the four results of `resolvePath`: where, the value's shape, the last struct field passed (none =
    the zero `reflect.StructField`), the index steps since -/
structure Resolved where
  loc : Loc
  shape : Shape
  field : Option FieldInfo
  elemDepth : Nat
  deriving Repr

/-- the `for i, part := range parts` loop of `resolvePath` -/
def resolveFrom : List Bytes → Shape → Option FieldInfo → Nat → Loc → Option Resolved
  | [], cur, fld, d, loc => some { loc := loc, shape := cur, field := fld, elemDepth := d }
  | part :: rest, cur, fld, d, loc =>
    match derefHard cur with
    | none => none
    | some (.struct fields) =>
      let hit : Option (Loc × FieldInfo × Shape) :=
        match directField fields part with
        | some (i, f, s) => some ([i], f, s)
        | none => promotedField (maxRecursionDepth + 1) fields part
      (match hit with
       | some (l, f, s) =>
         -- "If this is the last part, return": the same as falling out of the loop with elemDepth 0
         resolveFrom rest s (some f) 0 (loc ++ l)
       | none => none)
    | some (.seq items) =>
      (match atoiIndex part with
       | some idx =>
         (match items[idx]? with
          | some it => resolveFrom rest it fld (d + 1) (loc ++ [idx])
          | none => none)
       | none => none)
    | some _ => none

/-- `strings.Split(path, ".")` -/
def splitDots : Bytes → List Bytes
  | [] => [[]]
  | c :: rest =>
    match splitDots rest with
    | [] => [[c]]
    | seg :: segs => if c == '.' then [] :: seg :: segs else (c :: seg) :: segs

/-- `resolvePath(val, path)` -/
def resolvePath (root : Shape) (path : Path) : Option Resolved := resolveFrom (splitDots path) root none 0 []

def diveRule : Bytes := ['d', 'i', 'v', 'e']

/-- one round of `elementTag`'s loop: the rest of the tag after the first rule that is exactly `dive` -/
def afterDive (tag : Bytes) : Option Bytes :=
  go tag tag.length
where
  go : Bytes → Nat → Option Bytes
  | _, 0 => none
  | rest, fuel + 1 =>
    if rest.isEmpty then none
    else match cutComma rest with
      | some (rule, r) => if rule == diveRule then some r else go r fuel
      | none => if rest == diveRule then some [] else none

/-- `elementTag(tag, elemDepth)` -/
def elementTag : Bytes → Nat → Bytes
  | tag, 0 => tag
  | tag, d + 1 =>
    match afterDive tag with
    | some rest => elementTag rest d
    | none => []

/-! ### the redaction walk (`coversValue`) -/

/-- `for val.Kind() == reflect.Pointer || val.Kind() == reflect.Interface { if val.IsNil() { return false }; … }` -/
def valDeref : Shape → Option Shape
  | .ptr s => valDeref s
  | .iface s => valDeref s
  | .nilPtr => none
  | .nilIface => none
  | s => some s

/-- what `for name, index := range v.getFieldMap(val.Type())` visits: per JSON name the field the map holds
    for it (the last one entered), never a `json:"-"` field; the iteration order of the map is immaterial -/
def mappedFields (fields : List (FieldInfo × Shape)) : List (Bytes × FieldInfo × Shape) :=
  (fields.zipIdx).filterMap fun ((f, s), i) =>
    if isPromotedStruct f then some ([], f, s)   -- every promoted struct is in the map (its key plays no part)
    else if mapsTo f (jsonFieldName f) && fieldIndex fields (jsonFieldName f) == some i then some (jsonFieldName f, f, s)
    else none

/-- the paths whose values printing the value reveals, as `coversValue` walks them: the path itself; below a
    struct its mapped fields (`path.name`; the fields of a promoted embedded struct belong to `path` itself),
    below a slice or array `path.i`, below a map `path.key`; pointers and interfaces are looked through.
    `fuel` = `maxRecursionDepth + 1 - depth`. -/
def reveals : Nat → Path → Shape → List Path
  | 0, p, _ => [p]
  | fuel + 1, p, s =>
    p :: (match valDeref s with
      | some (.struct fields) =>
        (mappedFields fields).flatMap fun (name, f, fs) =>
          reveals fuel (if isPromotedStruct f then p else p ++ '.' :: name) fs
      | some (.seq items) => (items.zipIdx).flatMap fun (it, i) => reveals fuel (p ++ '.' :: itoa i) it
      | some (.map es) => es.flatMap fun (k, v) => reveals fuel (p ++ '.' :: k) v
      | _ => [])

/-- `coversValue(redactor, path, val, depth)`: the redactor covers the path or something the value reveals;
    too deep to inspect (`depth > maxRecursionDepth`, here `fuel = 0`): hide rather than reveal -/
def coversValue (red : Path → Bool) : Nat → Path → Shape → Bool
  | 0, _, _ => true
  | fuel + 1, p, s =>
    red p || (match valDeref s with
      | some (.struct fields) =>
        (mappedFields fields).any fun (name, f, fs) =>
          coversValue red fuel (if isPromotedStruct f then p else p ++ '.' :: name) fs
      | some (.seq items) => (items.zipIdx).any fun (it, i) => coversValue red fuel (p ++ '.' :: itoa i) it
      | some (.map es) => es.any fun (k, v) => coversValue red fuel (p ++ '.' :: k) v
      | _ => false)

/-- `result.Add(path, "tag."+e.Tag(), msg, meta)` with the value hidden when `coversValue` says so -/
def mkErrT (o : Opts) (p : Path) (tag : Bytes) (value : Shape) : FieldErr :=
  { path := p, code := tagPrefix ++ tag, hidden := coversValue o.redacted.contains (maxRecursionDepth + 1) p value }

/-- `validator.Var(value, tag)` as a table: location of the value, the tag, what it reports: per error its tag
    and the shape of `e.Value()` (for a `dive` rule the failing element, else the value itself) -/
abbrev VarTable := List (Loc × Bytes × List (Bytes × Shape))

def varLookup (tab : VarTable) (loc : Loc) (tag : Bytes) : List (Bytes × Shape) :=
  match tab.find? fun e => e.1 == loc && e.2.1 == tag with
  | some e => e.2.2
  | none => []

/-- the tag partial validation validates the value at `p` with; `none` = the leaf is skipped
    (`resolvePath` fails, or there is no rule for it) -/
def ruleAt (root : Shape) (p : Path) : Option (Loc × Bytes) :=
  match resolvePath root p with
  | none => none
  | some r =>
    let t := elementTag ((r.field.map (·.validate)).getD []) r.elemDepth
    if t.isEmpty then none else some (r.loc, t)

/-- the body of the leaf loop of `validatePartialLeafsOnly` up to `Var`: what is reported for path `p`, with the
    paths each reported value reveals (`mkErr` hides the value when the redactor covers one of them, which is
    what `coversValue` computes: `Rivaas.C05.mkErr_is_coversValue`) -/
def ownTagsT (root : Shape) (var : VarTable) (p : Path) : List Viol :=
  match ruleAt root p with
  | some (loc, t) => (varLookup var loc t).map fun v => { tag := v.1, shows := reveals (maxRecursionDepth + 1) p v.2 }
  | none => []

/-- `validatePartialLeafsOnly(val, cfg)` with `cfg.presence = pm`, path resolution included -/
def validatePartialT (pm : List Path) (root : Shape) (var : VarTable) (o : Opts) : Option Result :=
  partialFrom mkErr (leafPaths pm) (ownTagsT root var) o

/-! ### `Validator.Validate`: custom validator, `WithRunAll`, strategy selection (validate.go) -/

/-- `cfg.strategy` -/
inductive Strat where
  | auto | iface | tags | schema
  deriving DecidableEq, Repr, Inhabited

/-- `isApplicable(ctx, val, strategy, cfg)` for the three strategies (reflect facts about the value: it or its
    pointer implements `Validate()` / `ValidateContext(ctx)`; it is a struct with a `validate` tag on a field of its
    own; a schema is available) — parameters -/
structure Applic where
  iface : Bool
  tags : Bool
  schema : Bool
  deriving DecidableEq, Repr, Inhabited

/-- what each strategy returns for the value (`validateWithInterface` ∘ `coerceToValidationErrors`,
    `validateWithTags` in partial or full mode, `validateWithSchema`) -/
structure StratRes where
  iface : Option Result
  tags : Option Result
  schema : Option Result
  deriving Repr

/-- `determineStrategy`: interface, then tags, then JSON Schema; tags by default -/
def determineStrategy (a : Applic) : Strat :=
  if a.iface then .iface else if a.tags then .tags else if a.schema then .schema else .tags

/-- `validateByStrategy` (an explicitly chosen strategy is run without asking `isApplicable`) -/
def byStrategy (s : Strat) (r : StratRes) : Option Result :=
  match s with
  | .iface => r.iface
  | .tags => r.tags
  | .schema => r.schema
  | .auto => r.tags

/-- the strategies `validateAll` runs, in its order, each only when applicable -/
def applicableParts (a : Applic) (r : StratRes) : List (Option Result) :=
  (if a.iface then [r.iface] else []) ++ (if a.tags then [r.tags] else []) ++ (if a.schema then [r.schema] else [])

/-- `Validator.Validate` after the nil / nil-pointer tests: the custom validator runs first and its error (a
    `*validation.Error` with these fields) ends the call; then `WithRunAll`; then the chosen or determined strategy -/
def validateTop (custom : Option (List FieldErr)) (runAll : Bool) (strategy : Strat) (a : Applic) (r : StratRes)
    (o : Opts) : Option Result :=
  match custom with
  | some errs => coerce errs o
  | none =>
    if runAll then validateAll (applicableParts a r) o
    else byStrategy (if strategy == .auto then determineStrategy a else strategy) r

/-! ### the app layer: `app.Context.Bind` / `Validate` / `BindPatch` fold their options into the validation call
(app/context.go `validateInternal`, `Validate`; app/bind_options.go; app/bind.go) -/

/-- the validation options that decide between partial and full validation -/
inductive VOpt where
  | part (b : Bool)
  | presence (pm : List Path)
  /-- any other option (limits, redactor, strategy, context …) -/
  | other
  deriving Repr

/-- the two fields of `validation.config` that `validateWithTags` tests -/
structure VCfg where
  isPartial : Bool
  presence : Option (List Path)
  deriving Repr

def applyVOpt (c : VCfg) : VOpt → VCfg
  | .part b => { c with isPartial := b }
  | .presence pm => { c with presence := some pm }
  | .other => c

/-- `app.BindOption`s -/
inductive BOpt where
  | part                          -- `app.WithPartial()`
  | presence (pm : List Path)     -- `app.WithPresence(pm)`
  | validation (vs : List VOpt)   -- `app.WithValidationOptions(vs...)`
  | other                         -- strict, binding options …
  deriving Repr

/-- `bindConfig` as far as validation reads it -/
structure BCfg where
  isPartial : Bool
  presence : Option (List Path)
  validationOpts : List VOpt
  deriving Repr

/-- `applyBindOptions` -/
def applyBOpt (c : BCfg) : BOpt → BCfg
  | .part => { c with isPartial := true }
  | .presence pm => { c with presence := some pm }
  | .validation vs => { c with validationOpts := c.validationOpts ++ vs }
  | .other => c

def mkBCfg (opts : List BOpt) : BCfg := opts.foldl applyBOpt { isPartial := false, presence := none, validationOpts := [] }

/-- the option list `validateInternal` hands to `validation.Validate`: `WithContext`, `WithPartial(true)` if the
    bind configuration says so, `WithPresence(pm)` with the explicit map or else the one the context computed from
    the JSON body it bound (`c.Presence()`), then the caller's validation options (later options win) -/
def validateInternalOpts (cfg : BCfg) (ctxPresence : Option (List Path)) : List VOpt :=
  [.other] ++ (if cfg.isPartial then [.part true] else []) ++
  (match cfg.presence with
   | some pm => [.presence pm]
   | none => match ctxPresence with
     | some pm => [.presence pm]
     | none => []) ++
  cfg.validationOpts

/-- `app.Context.Validate(v, opts...)`: `WithContext`, `WithPresence(c.Presence())` if any, then the caller's -/
def contextValidateOpts (ctxPresence : Option (List Path)) (opts : List VOpt) : List VOpt :=
  [.other] ++ (match ctxPresence with | some pm => [.presence pm] | none => []) ++ opts

def foldV (opts : List VOpt) : VCfg := opts.foldl applyVOpt { isPartial := false, presence := none }

/-- what `validateWithTags` does with the folded configuration: partial validation over that presence map
    (`cfg.partial && cfg.presence != nil`), else full validation -/
def tagsMode (c : VCfg) : Option (List Path) := if c.isPartial then c.presence else none

/-- `app.Context.Bind(out, opts...)`, validation step: `some pm` = partial validation over `pm`, `none` = full -/
def bindMode (opts : List BOpt) (ctxPresence : Option (List Path)) : Option (List Path) :=
  tagsMode (foldV (validateInternalOpts (mkBCfg opts) ctxPresence))

/-- `app.BindPatch[T](c, opts...)` = `Bind[T](c, WithPartial(), opts...)` -/
def bindPatchMode (opts : List BOpt) (ctxPresence : Option (List Path)) : Option (List Path) :=
  bindMode (.part :: opts) ctxPresence

/-- `c.BindOnly(out)` followed by `c.Validate(out, opts...)` -/
def validateMode (opts : List VOpt) (ctxPresence : Option (List Path)) : Option (List Path) :=
  tagsMode (foldV (contextValidateOpts ctxPresence opts))

end Rivaas.Presence
