import Rivaas.Model.RealIP
/-
C18 — the text layer of `router/proxies.go`: `splitAndTrim`, `parseOneIP` and the header lookup,
at byte level. `net.ParseIP`/`IPNet.Contains` stay parameters: the case carries a table
`trimmed item ↦ (canonical text, trusted?)` computed by the real `net` package, and the model looks
every item it produces up in that table. `strings.TrimSpace` is modelled completely (Unicode white space
included, by its UTF-8 byte patterns). Core Lean only.
-/
namespace Rivaas.RealIP

/-- the ASCII white space `strings.TrimSpace` removes -/
def isSpace (c : Char) : Bool :=
  c == ' ' || c == '\t' || c == '\n' || c == '\x0b' || c == '\x0c' || c == '\r'

private def b (n : Nat) : Char := Char.ofNat n

/-- every byte sequence `strings.TrimSpace` removes as one rune: the six ASCII spaces and the UTF-8
    encodings of the non-ASCII code points `unicode.IsSpace` accepts (U+0085, U+00A0, U+1680,
    U+2000–U+200A, U+2028, U+2029, U+202F, U+205F, U+3000). A pattern is a valid minimal UTF-8 sequence
    beginning with a start byte, so "is a prefix / suffix of the string" coincides with what
    `utf8.DecodeRune` / `utf8.DecodeLastRune` decode there; anything else (invalid bytes, a lone 0x85 or
    0xA0, other runes) stops the trim. -/
def spacePats : List Bytes :=
  [[' '], ['\t'], ['\n'], ['\x0b'], ['\x0c'], ['\r'],
   [b 0xC2, b 0x85], [b 0xC2, b 0xA0], [b 0xE1, b 0x9A, b 0x80],
   [b 0xE2, b 0x80, b 0x80], [b 0xE2, b 0x80, b 0x81], [b 0xE2, b 0x80, b 0x82], [b 0xE2, b 0x80, b 0x83],
   [b 0xE2, b 0x80, b 0x84], [b 0xE2, b 0x80, b 0x85], [b 0xE2, b 0x80, b 0x86], [b 0xE2, b 0x80, b 0x87],
   [b 0xE2, b 0x80, b 0x88], [b 0xE2, b 0x80, b 0x89], [b 0xE2, b 0x80, b 0x8A],
   [b 0xE2, b 0x80, b 0xA8], [b 0xE2, b 0x80, b 0xA9], [b 0xE2, b 0x80, b 0xAF],
   [b 0xE2, b 0x81, b 0x9F], [b 0xE3, b 0x80, b 0x80]]

/-- `some rest` when `p` is a prefix of `s` -/
def stripPrefix : Bytes → Bytes → Option Bytes
  | [], s => some s
  | _ :: _, [] => none
  | a :: p, c :: s => if a == c then stripPrefix p s else none

/-- remove one leading pattern, if any matches -/
def stripOne : List Bytes → Bytes → Option Bytes
  | [], _ => none
  | p :: ps, s => match stripPrefix p s with
    | some r => some r
    | none => stripOne ps s

/-- strip leading patterns while one matches (`fuel` ≥ length always suffices: every pattern is non-empty;
    adequacy is `lemma_trimWith_fixed` in Props/C18) -/
def trimWith (pats : List Bytes) : Nat → Bytes → Bytes
  | 0, s => s
  | fuel + 1, s => match stripOne pats s with
    | some r => trimWith pats fuel r
    | none => s

/-- `strings.TrimLeftFunc(s, unicode.IsSpace)` -/
def trimLeft (s : Bytes) : Bytes := trimWith spacePats s.length s

/-- `strings.TrimRightFunc(s, unicode.IsSpace)`: the same on the reversed string with reversed patterns -/
def trimRight (s : Bytes) : Bytes := (trimWith (spacePats.map List.reverse) s.length s.reverse).reverse

/-- `strings.TrimSpace` (its ASCII fast path is an optimisation of exactly this) -/
def trim (s : Bytes) : Bytes := trimRight (trimLeft s)

/-- `strings.Split(s, ",")`: the current field is accumulated in `cur` (reversed) -/
def splitComma : Bytes → Bytes → List Bytes
  | [], cur => [cur.reverse]
  | c :: cs, cur => if c == ',' then cur.reverse :: splitComma cs [] else splitComma cs (c :: cur)

/-- `splitAndTrim(s, ',')`: nil for "", else the non-empty trimmed fields -/
def splitAndTrim (s : Bytes) : List Bytes :=
  if s.isEmpty then [] else ((splitComma s []).map trim).filter (fun p => !p.isEmpty)

/-- what the real `net` package says about a trimmed, non-empty candidate:
    `none` = `net.ParseIP` fails, `some (canonical, trusted)` otherwise -/
abbrev Table := List (Bytes × Option (Bytes × Bool))

/-- `parseOneIP` followed by `isTrusted`, through the table; a candidate the table does not list is
    reported (`none` at the outer level) so that the driver can flag the case instead of guessing -/
def classify (tbl : Table) (raw : Bytes) : Option Item :=
  let t := trim raw
  if t.isEmpty then some none
  else match tbl.lookup t with
    | some r => some r
    | none => none

/-- a configured header as the request carries it, before any parsing -/
inductive RawHdr where
  | xff (value : Bytes)
  | single (value : Bytes)
  deriving Repr

structure RawReq where
  maxHops : Nat
  peer : Bytes
  peerTrusted : Bool
  hdrs : List RawHdr
  tbl : Table

def parseHdr (tbl : Table) : RawHdr → Option Hdr
  | .xff v => do
    let items ← (splitAndTrim v).mapM (classify tbl)
    pure (.xff items)
  | .single v => do
    let it ← classify tbl v
    pure (.single (it.map (·.1)))

/-- the abstract request the walk theorems are about; `none` = the table is incomplete -/
def RawReq.parse (r : RawReq) : Option Req := do
  let hs ← r.hdrs.mapM (parseHdr r.tbl)
  pure { maxHops := r.maxHops, peer := r.peer, peerTrusted := r.peerTrusted, hdrs := hs }

/-- `Context.ClientIP` on the raw header text -/
def clientIPRaw (r : RawReq) : Option Bytes := r.parse.map clientIP

end Rivaas.RealIP
