import Rivaas.Model.RealIP
/-
C18 — the text layer of `router/proxies.go`: `splitAndTrim`, `parseOneIP` and the header lookup,
at byte level. `net.ParseIP`/`IPNet.Contains` stay parameters: the case carries a table
`trimmed item ↦ (canonical text, trusted?)` computed by the real `net` package, and the model looks
every item it produces up in that table. Unicode white space (which `strings.TrimSpace` also trims)
is outside this model: the generator emits ASCII white space only. Core Lean only.
-/
namespace Rivaas.RealIP

/-- the ASCII white space `strings.TrimSpace` removes -/
def isSpace (c : Char) : Bool :=
  c == ' ' || c == '\t' || c == '\n' || c == '\x0b' || c == '\x0c' || c == '\r'

def trimLeft : Bytes → Bytes
  | [] => []
  | c :: cs => if isSpace c then trimLeft cs else c :: cs

/-- `strings.TrimSpace` on ASCII input -/
def trim (s : Bytes) : Bytes := (trimLeft (trimLeft s).reverse).reverse

/-- `strings.Split(s, ",")`: the current field is accumulated in `cur` (reversed) -/
def splitComma : Bytes → Bytes → List Bytes
  | [], cur => [cur.reverse]
  | c :: cs, cur => if c == ',' then cur.reverse :: splitComma cs [] else splitComma cs (c :: cur)

/-- `splitAndTrim(s, ',')`: nil for "", else the non-empty trimmed fields -/
def splitAndTrim (s : Bytes) : List Bytes :=
  if s.isEmpty then [] else ((splitComma s []).map trim).filter (fun p => !p.isEmpty)

/-- what the real `net` package says about a trimmed, non-empty candidate:
    `none` = `net.ParseIP` fails, `some (canonical, trusted)` otherwise -/
abbrev Table := List (Bytes × Option (Bytes × Bool))

/-- `parseOneIP` followed by `isTrusted`, through the table; a candidate the table does not list is
    reported (`none` at the outer level) so that the driver can flag the case instead of guessing -/
def classify (tbl : Table) (raw : Bytes) : Option Item :=
  let t := trim raw
  if t.isEmpty then some none
  else match tbl.lookup t with
    | some r => some r
    | none => none

/-- a configured header as the request carries it, before any parsing -/
inductive RawHdr where
  | xff (value : Bytes)
  | single (value : Bytes)
  deriving Repr

structure RawReq where
  maxHops : Nat
  peer : Bytes
  peerTrusted : Bool
  hdrs : List RawHdr
  tbl : Table

def parseHdr (tbl : Table) : RawHdr → Option Hdr
  | .xff v => do
    let items ← (splitAndTrim v).mapM (classify tbl)
    pure (.xff items)
  | .single v => do
    let it ← classify tbl v
    pure (.single (it.map (·.1)))

/-- the abstract request the walk theorems are about; `none` = the table is incomplete -/
def RawReq.parse (r : RawReq) : Option Req := do
  let hs ← r.hdrs.mapM (parseHdr r.tbl)
  pure { maxHops := r.maxHops, peer := r.peer, peerTrusted := r.peerTrusted, hdrs := hs }

/-- `Context.ClientIP` on the raw header text -/
def clientIPRaw (r : RawReq) : Option Bytes := r.parse.map clientIP

end Rivaas.RealIP
