import Rivaas.Basic
/-
Neutral vocabulary shared by the routing model (Model/Radix, Model/Compiler) and the routing oracle
(Spec/Match): byte-string order, a canonical finite map from byte strings to byte strings (what a Go
`map[string]string` denotes), the seven HTTP methods, and the observation record of one request.
Nothing here encodes behaviour of the router. Core Lean only.
-/
namespace Rivaas.Route

/-- lexicographic order on byte strings (what Go's `<` on strings and `sort.Strings` use) -/
def bytesLt : Bytes → Bytes → Bool
  | [], [] => false
  | [], _ :: _ => true
  | _ :: _, [] => false
  | a :: as, b :: bs => if a.toNat < b.toNat then true else if b.toNat < a.toNat then false else bytesLt as bs

/-- a Go `map[string]string` as an association list with unique keys kept in increasing key order:
two maps with the same content are the same list -/
abbrev SMap := List (Bytes × Bytes)

def SMap.set (k v : Bytes) : SMap → SMap
  | [] => [(k, v)]
  | (k', v') :: rest =>
    if k = k' then (k, v) :: rest
    else if bytesLt k k' then (k, v) :: (k', v') :: rest
    else (k', v') :: SMap.set k v rest

def SMap.get (k : Bytes) : SMap → Option Bytes
  | [] => none
  | (k', v') :: rest => if k = k' then some v' else SMap.get k rest

/-- `maps.Copy(dst, src)` / successive assignments `dst[k] = v` in list order -/
def SMap.setAll (dst : SMap) (src : List (Bytes × Bytes)) : SMap :=
  src.foldl (fun m kv => SMap.set kv.1 kv.2 m) dst

def SMap.ofList (l : List (Bytes × Bytes)) : SMap := SMap.setAll [] l

/-- insertion sort of byte strings (`sort.Strings`) -/
def insertSorted (x : Bytes) : List Bytes → List Bytes
  | [] => [x]
  | y :: ys => if bytesLt y x then y :: insertSorted x ys else x :: y :: ys

def sortBytes (l : List Bytes) : List Bytes := l.foldr insertSorted []

/-- `standardMethods` of `getAllowedMethodsForPath`, in the order the code probes them -/
def stdMethods : List Bytes :=
  ["GET".toList, "POST".toList, "PUT".toList, "PATCH".toList, "DELETE".toList, "HEAD".toList, "OPTIONS".toList]

/-- what one request through `ServeHTTP` is observed to do (harness side: httptest recorder plus the
probe inside the handler that ran) -/
structure Obs where
  status : Nat
  allow : List Bytes                  -- the `Allow` header split at ", " (empty when absent)
  ran : Option Nat                    -- id of the route whose handler chain ran
  noRoute : Bool                      -- the NoRoute handler ran
  pattern : Bytes                     -- `RoutePattern()` seen by the handler that ran
  params : SMap                       -- `AllParams()` seen by the handler that ran
  lookups : List (Bytes × Bytes)      -- `Param(n)` for every name the case asks about
deriving DecidableEq, Repr

/-- a request: method, raw `URL.Path`, and the parameter names the probe asks for -/
structure Req where
  method : Bytes
  path : Bytes
  ask : List Bytes
deriving DecidableEq, Repr

/-- one registration of the script: `r.METHOD(path)` directly or through nested groups with the given
prefixes (outermost first), with the constraints as `RegisterRoute` hands them to the engines; `mount = some
prefix`: the route was registered like that on a sub-router which is mounted with `r.Mount(prefix, sub)` -/
structure Reg where
  method : Bytes
  groups : List Bytes
  path : Bytes
  cons : List (Bytes × Nat)
  mount : Option Bytes := none
deriving DecidableEq, Repr

end Rivaas.Route
