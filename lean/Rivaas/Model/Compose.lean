import Rivaas.Basic
/-
C02 — model of chain *composition*: how `Router.Use`, `Router.Group` / `Group.Group` / `Group.Use`,
`Router.Version` / `VersionRouter.Group`, `Router.Mount` (+ `InheritMiddleware`, `WithMiddleware`),
deferred registration (`pendingRoutes`, `Warmup`, `Route.RegisterRoute`) and the app layer
(`App.Use`, `App.Group`, `Group.Use/Group`, `App.Version`, `VersionGroup.Use/Group`,
`WithBefore` / `WithAfter`) build the handler slice a matched route runs.

A configuration is a *script* of API calls (`Op`) applied to a `World` of routers and groups, in
order — each `apply` case follows the Go function it names. Go slices are modelled as values:
every place where the code copies (`make` + `append`) is a value copy here; `app.Group` copies its
variadic slice since the K02 `fix:` commit (the as-shipped aliasing is `Rivaas.ComposeAsIs`).
Paths are lists of numeric segment tags (routing itself is C01's subject): `fullPath = prefix + path`
is list append. Core Lean only.
-/
namespace Rivaas.Compose

abbrev Hid := Nat
abbrev Path := List Nat

/-- where a router-level route is declared -/
inductive Owner where
  | router (r : Nat)
  | group (g : Nat)
  | vrouter (v : Nat)
  | vgroup (vg : Nat)
  deriving Repr, DecidableEq, Inhabited

/-- where an app-level route is declared -/
inductive AOwner where
  | app
  | agroup (g : Nat)
  | avgroup (vg : Nat)
  deriving Repr, DecidableEq, Inhabited

/-- one API call of the configuration phase. Objects are numbered per class in creation order
    (router 0 exists from the start and is the one that serves; the app wraps router 0). -/
inductive Op where
  /-- `router.MustNew()` — a further router (to be mounted) -/
  | newRouter
  /-- `r.Use(hs...)` -/
  | use (r : Nat) (hs : List Hid)
  /-- `r.Group(prefix, hs...)` -/
  | group (r : Nat) (seg : Nat) (hs : List Hid)
  /-- `g.Group(prefix, hs...)` -/
  | subgroup (g : Nat) (seg : Nat) (hs : List Hid)
  /-- `g.Use(hs...)` -/
  | guse (g : Nat) (hs : List Hid)
  /-- `r.Version("v<ver>")` -/
  | version (r : Nat) (ver : Nat)
  /-- `vr.Group(prefix, hs...)` -/
  | vgroup (v : Nat) (seg : Nat) (hs : List Hid)
  /-- `owner.GET(path, hs...)` -/
  | route (o : Owner) (seg : Nat) (hs : List Hid)
  /-- `parent.Mount(prefix, sub, [InheritMiddleware()], [WithMiddleware(extra...)])` -/
  | mount (parent sub : Nat) (seg : Nat) (inherit : Bool) (extra : List Hid)
  /-- `r.Warmup()` -/
  | warmup (r : Nat)
  /-- `rt.Where…(…)` on the `*route.Route` that was declared on router `r` with this version tree and
      path (a constraint added to an existing route; routing by constraints is C01's subject, here
      only the re-registration it triggers matters) -/
  | whereOp (r : Nat) (ver : Option Nat) (path : Path)
  /-- `app.Use(hs...)` -/
  | ause (hs : List Hid)
  /-- `app.Group(prefix, arr[:len hs]...)` where the caller's array `arr` has capacity `cap`
      (`arr`, `cap` matter only to the as-shipped aliasing model) -/
  | agroup (seg : Nat) (hs : List Hid) (arr cap : Nat)
  /-- `g.Group(prefix, hs...)` on an app group -/
  | asubgroup (g : Nat) (seg : Nat) (hs : List Hid)
  /-- `g.Use(hs...)` on an app group -/
  | aguse (g : Nat) (hs : List Hid)
  /-- `app.Version("v<ver>")` -/
  | aversion (ver : Nat)
  /-- `vg.Group(prefix, hs...)` on an app version group -/
  | avsubgroup (vg : Nat) (seg : Nat) (hs : List Hid)
  /-- `vg.Use(hs...)` on an app version group -/
  | avuse (vg : Nat) (hs : List Hid)
  /-- `owner.GET(path, h, WithBefore(before...), WithAfter(after...))` -/
  | aroute (o : AOwner) (seg : Nat) (before : List Hid) (h : Hid) (after : List Hid)
  deriving Repr, Inhabited

/-- a `route.Route` waiting in `pendingRoutes`, or a registered tree node -/
structure RouteRec where
  /-- `route.version` (`none` = main tree) -/
  ver : Option Nat
  path : Path
  /-- `route.handlers`, resp. the node's handler slice -/
  hs : List Hid
  deriving Repr, DecidableEq, Inhabited

structure RouterSt where
  /-- `Router.middleware` -/
  mw : List Hid := []
  /-- `Router.pendingRoutes` -/
  pending : List RouteRec := []
  /-- `Router.warmedUp` -/
  warmed : Bool := false
  /-- the radix trees (main and per version), as the list of registered nodes, oldest first -/
  tree : List RouteRec := []
  /-- `len(routeTree.routes) > 0`: some route was ever declared on this router -/
  hasInfo : Bool := false
  /-- the `*route.Route` objects created on this router (`routeLog`), each with its own `route.handlers`
      (what `Where…` re-registers and what `Mount` reads) -/
  objs : List RouteRec := []
  deriving Repr, Inhabited

/-- `route.Group` / `router.VersionGroup` / `app.Group` / `app.VersionGroup`: owner, prefix, middleware -/
structure GroupSt where
  /-- the router (`Group.registrar`) resp. the version router (`VersionGroup.versionRouter`) -/
  owner : Nat
  pre : Path
  mw : List Hid
  deriving Repr, Inhabited

structure World where
  routers : List RouterSt := [{}]
  groups : List GroupSt := []
  /-- `VersionRouter`: (router, version) -/
  vrouters : List (Nat × Nat) := []
  vgroups : List GroupSt := []
  agroups : List GroupSt := []
  /-- app version groups: `owner` = index into `vrouters` -/
  avgroups : List GroupSt := []
  deriving Repr, Inhabited

def modifyAt {α} (l : List α) (i : Nat) (f : α → α) : List α :=
  match l, i with
  | [], _ => []
  | a :: r, 0 => f a :: r
  | a :: r, i+1 => a :: modifyAt r i f

/-- `Route.RegisterRoute`: `allHandlers = GetGlobalMiddleware() ++ r.handlers`, into the tree of
    `r.version` -/
def register (r : RouterSt) (rt : RouteRec) : RouterSt :=
  { r with tree := r.tree ++ [{ rt with hs := r.mw ++ rt.hs }] }

/-- `addRouteInternal` / `VersionRouter.addVersionRoute`: record the route info, then register at
    once when the router is already warmed up, else defer -/
def addRoute (r : RouterSt) (rt : RouteRec) : RouterSt :=
  let r := { r with hasInfo := true, objs := r.objs ++ [rt] }
  if r.warmed then register r rt else { r with pending := r.pending ++ [rt] }

/-- `doWarmup` (under `warmupOnce`): drain `pendingRoutes`, `RegisterRoute` each -/
def warmup (r : RouterSt) : RouterSt :=
  if r.warmed then r
  else r.pending.foldl register { r with warmed := true, pending := [] }

/-- `Route.Where…`: `wasRegistered := r.registered; r.registered = false; if wasRegistered { r.RegisterRoute() }` —
    a route that is already in a tree is registered again, with the global middleware of *now* -/
def reRegister (ver : Option Nat) (path : Path) (r : RouterSt) : RouterSt :=
  match r.objs.find? (fun o => o.ver == ver && o.path == path) with
  | some o => if r.tree.any (fun rt => rt.ver == ver && rt.path == path) then register r o else r
  | none => r

def World.addRouteOn (w : World) (r : Nat) (rt : RouteRec) : World :=
  { w with routers := modifyAt w.routers r (addRoute · rt) }

/-- `Router.Mount` + `mergeSubrouterRoutes` / `mountRoute` (after the K02b fix): every route ever created on the
    sub-router — still pending, or registered because the sub-router was warmed up earlier — is mounted from
    the `route.Route` itself (`routeLog`): mount chain, then the route's own handlers. -/
def mountOp (w : World) (parent sub seg : Nat) (inherit : Bool) (extra : List Hid) : World :=
  match w.routers[parent]?, w.routers[sub]? with
  | some p, some s =>
    -- middlewareChain = [parent.middleware if InheritMiddleware] ++ sub.middleware ++ ExtraMiddleware
    let chain := (if inherit then p.mw else []) ++ s.mw ++ extra
    -- every route of the sub-router (its version is not looked at): addRouteInternal on the parent
    s.objs.foldl (fun w rt => w.addRouteOn parent { ver := none, path := seg :: rt.path, hs := chain ++ rt.hs }) w
  | _, _ => w

def apply (w : World) : Op → World
  | .newRouter => { w with routers := w.routers ++ [{}] }
  | .use r hs => { w with routers := modifyAt w.routers r fun x => { x with mw := x.mw ++ hs } }
  -- Router.Group: copies the variadic slice into a fresh []route.Handler
  | .group r seg hs => { w with groups := w.groups ++ [{ owner := r, pre := [seg], mw := hs }] }
  -- Group.Group: fullPrefix = g.prefix + prefix; allMiddleware = copy(g.middleware) ++ middleware
  | .subgroup g seg hs =>
    match w.groups[g]? with
    | some p => { w with groups := w.groups ++ [{ owner := p.owner, pre := p.pre ++ [seg], mw := p.mw ++ hs }] }
    | none => w
  | .guse g hs => { w with groups := modifyAt w.groups g fun x => { x with mw := x.mw ++ hs } }
  | .version r ver => { w with vrouters := w.vrouters ++ [(r, ver)] }
  | .vgroup v seg hs => { w with vgroups := w.vgroups ++ [{ owner := v, pre := [seg], mw := hs }] }
  | .route o seg hs =>
    match o with
    | .router r => w.addRouteOn r { ver := none, path := [seg], hs := hs }
    -- Group.addRoute: fullPath = g.prefix + path; allHandlers = g.middleware ++ handlers
    | .group g =>
      match w.groups[g]? with
      | some p => w.addRouteOn p.owner { ver := none, path := p.pre ++ [seg], hs := p.mw ++ hs }
      | none => w
    | .vrouter v =>
      match w.vrouters[v]? with
      | some (r, ver) => w.addRouteOn r { ver := some ver, path := [seg], hs := hs }
      | none => w
    -- VersionGroup.Handle: fullPath = vg.prefix + path; allHandlers = vg.middleware ++ handlers
    | .vgroup vg =>
      match w.vgroups[vg]? with
      | some p =>
        match w.vrouters[p.owner]? with
        | some (r, ver) => w.addRouteOn r { ver := some ver, path := p.pre ++ [seg], hs := p.mw ++ hs }
        | none => w
      | none => w
  | .mount parent sub seg inherit extra => mountOp w parent sub seg inherit extra
  | .warmup r => { w with routers := modifyAt w.routers r warmup }
  | .whereOp r ver path => { w with routers := modifyAt w.routers r (reRegister ver path) }
  -- App.Use: a.router.Use(wrapped...)
  | .ause hs => { w with routers := modifyAt w.routers 0 fun x => { x with mw := x.mw ++ hs } }
  -- App.Group: router group without middleware + app group holding (a copy of) the variadic slice
  | .agroup seg hs _ _ => { w with agroups := w.agroups ++ [{ owner := 0, pre := [seg], mw := hs }] }
  | .asubgroup g seg hs =>
    match w.agroups[g]? with
    | some p => { w with agroups := w.agroups ++ [{ owner := p.owner, pre := p.pre ++ [seg], mw := p.mw ++ hs }] }
    | none => w
  | .aguse g hs => { w with agroups := modifyAt w.agroups g fun x => { x with mw := x.mw ++ hs } }
  -- App.Version: router.Version(v) + app VersionGroup with nil middleware and empty prefix
  | .aversion ver =>
    { w with vrouters := w.vrouters ++ [(0, ver)],
             avgroups := w.avgroups ++ [{ owner := w.vrouters.length, pre := [], mw := [] }] }
  | .avsubgroup vg seg hs =>
    match w.avgroups[vg]? with
    | some p => { w with avgroups := w.avgroups ++ [{ owner := p.owner, pre := p.pre ++ [seg], mw := p.mw ++ hs }] }
    | none => w
  | .avuse vg hs => { w with avgroups := modifyAt w.avgroups vg fun x => { x with mw := x.mw ++ hs } }
  | .aroute o seg before h after =>
    -- registerRoute / Group.addRoute / VersionGroup.addRoute: [group middleware] ++ before ++ [handler] ++ after
    let own := before ++ [h] ++ after
    match o with
    | .app => w.addRouteOn 0 { ver := none, path := [seg], hs := own }
    | .agroup g =>
      match w.agroups[g]? with
      -- g.router is `a.router.Group(prefix)` with no middleware: route.Group.addRoute adds nothing
      | some p => w.addRouteOn 0 { ver := none, path := p.pre ++ [seg], hs := p.mw ++ own }
      | none => w
    | .avgroup vg =>
      match w.avgroups[vg]? with
      | some p =>
        match w.vrouters[p.owner]? with
        | some (r, ver) => w.addRouteOn r { ver := some ver, path := p.pre ++ [seg], hs := p.mw ++ own }
        | none => w
      | none => w

def build (script : List Op) : World := script.foldl apply {}

/-- last registered node for (version, path) -/
def findRoute (tree : List RouteRec) (ver : Option Nat) (path : Path) : Option (List Hid) :=
  (tree.reverse.find? fun rt => rt.ver == ver && rt.path == path).map (·.hs)

/-- The chain a request for `path` (version tree `ver`, `none` = main tree) runs on router 0:
    `ServeHTTP` first freezes the router (which warms it up), then looks the route up. -/
def compose (script : List Op) (ver : Option Nat) (path : Path) : Option (List Hid) :=
  match (build script).routers[0]? with
  | some r => findRoute (warmup r).tree ver path
  | none => none

end Rivaas.Compose
