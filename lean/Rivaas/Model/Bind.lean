import Rivaas.Model.BindTypes
/-
C04 — executable model of `binding` (bind.go, convert.go, source.go) as it is in the repository
after the `fix:` commits for K04a–K04h. It follows the code function by function:

  parseTagWithAliases  -> parseTag          parseStructType      -> flatten (copying index paths)
  Query/Form/Path/Header/CookieGetter, prefixGetter              -> Getter.get / getAll / has
  convertValue + setFieldValue (range checks) -> convPrim / convTy      setField -> setField
  setSliceField -> setSlice      setMapField + bindMapFromValues + extractMapKey -> setMap
  fieldByIndex (alloc=false / true) -> reach / updAt
  bindFieldsWithDepth + setNestedStructWithDepth -> loopWith / bindAt

The as-shipped behaviours live in `BindAsIs.lean`. Core Lean only.
-/
namespace Rivaas.Bind

/-! ### getters (source.go, prefixGetter) -/

structure Getter where
  src : Src
  pre : Bytes := []        -- concatenation of the prefixes of the enclosing prefixGetters
  nested : Bool := false   -- behind at least one prefixGetter
  deriving Repr, Inhabited

def isQF (k : Tag) : Bool := k == .query || k == .form

def hdrEntry (s : Src) (k : Bytes) : Option (Bytes × List Bytes) :=
  s.kvs.find? (fun e => canonHeader e.1 == canonHeader k && !e.2.isEmpty)

def baseGet (s : Src) (k : Bytes) : Bytes :=
  match s.kind with
  | .header => match hdrEntry s k with
    | some e => e.2.headD []
    | none => []
  | _ => match assoc k s.kvs with
    | some (v :: _) => v
    | _ => []

def baseGetAll (s : Src) (k : Bytes) : List Bytes :=
  match s.kind with
  | .query | .form =>
    match assoc k s.kvs with
    | some (v :: vs) => v :: vs
    | _ => (assoc (k ++ B "[]") s.kvs).getD []
  | .path => (assoc k s.kvs).getD []
  | .cookie => (s.kvs.filter (fun e => e.1 == k)).flatMap (·.2)
  | .header => (assoc (canonHeader k) s.kvs).getD []

def baseHas (s : Src) (k : Bytes) : Bool :=
  match s.kind with
  | .query | .form => (assoc k s.kvs).isSome || (assoc (k ++ B "[]") s.kvs).isSome
  | .path | .cookie => (assoc k s.kvs).isSome
  | .header => (hdrEntry s k).isSome

def Getter.get (g : Getter) (k : Bytes) : Bytes := baseGet g.src (g.pre ++ k)
def Getter.getAll (g : Getter) (k : Bytes) : List Bytes := baseGetAll g.src (g.pre ++ k)

/-- prefixGetter.Has: direct check, then — only when the getter directly below the outermost
    prefixGetter is a query/form getter — a scan for keys that extend the full key with a dot -/
def Getter.has (g : Getter) (k : Bytes) : Bool :=
  let full := g.pre ++ k
  baseHas g.src full ||
    (g.nested && isQF g.src.kind && g.src.kvs.any (fun e => e.1 == full || hasPrefix e.1 (full ++ B ".")))

def Getter.push (g : Getter) (p : Bytes) : Getter := { g with pre := g.pre ++ p ++ B ".", nested := true }

/-! ### conversion (convert.go) -/

def inRangeInt (w : Nat) (i : Int) : Bool :=
  decide (-(2 ^ (bitsOf w - 1) : Int) ≤ i) && decide (i < (2 ^ (bitsOf w - 1) : Int))

def inRangeUint (w : Nat) (n : Nat) : Bool := decide (n < 2 ^ bitsOf w)

def trueWords : List Bytes := [B "true", B "1", B "yes", B "on", B "t", B "y"]
def falseWords : List Bytes := [B "false", B "0", B "no", B "off", B "f", B "n", B ""]

/-- parseBoolGenerous -/
def parseBool (s : Bytes) : Option Bool :=
  let l := (trimSpace s).map lowerB
  if trueWords.contains l then some true
  else if falseWords.contains l then some false
  else none

/-- convertValue + the Set* part of setFieldValue, with the overflow checks -/
def convPrim (P : Params) (cfg : Cfg) (p : Prim) (s : Bytes) : Option Val :=
  match p with
  | .str => some (.str s)
  | .int w =>
    match (if cfg.baseAuto then (P s).i0 else (P s).i10) with
    | some i => if inRangeInt w i then some (.int i) else none
    | none => none
  | .uint w =>
    match (if cfg.baseAuto then (P s).u0 else (P s).u10) with
    | some n => if inRangeUint w n then some (.uint n) else none
    | none => none
  | .f64 => match (P s).f with
    | some (b64, _, _, _) => some (.flt b64)
    | none => none
  | .f32 => match (P s).f with
    | some (_, b32, ovf, _) => if ovf then none else some (.flt b32)
    | none => none
  | .bool => (parseBool s).map .bool
  -- setFieldValue, priority 0: a registered converter decides alone
  | .time => match cfg.convs.lookup timeKey with
    | some c => ((P s).c.lookup c).map .time
    | none => (P s).t.map .time
  | .dur => (P s).d.map .int
  | .opq k => match cfg.convs.lookup k with
    | some c => ((P s).c.lookup c).map .time
    | none => ((P s).o.lookup k).map .time

/-- setFieldValue / convertToType on a type of the grammar: only leaves convert -/
def convTy (P : Params) (cfg : Cfg) : Ty → Bytes → Option Val
  | .prim p, s => convPrim P cfg p s
  | _, _ => none

/-- setField -/
def setField (P : Params) (cfg : Cfg) (ty : Ty) (cur : Val) (value : Bytes) : Option Val :=
  match ty with
  | .ptr t => if value == [] then some cur else (convTy P cfg t value).map .ptr
  | t => convTy P cfg t value

inductive Outcome
  | ok (v : Val)
  | err (e : Err)
  | panic
  deriving Repr, Inhabited

/-- what ends a bind early -/
inductive Stop
  | err (e : Err)
  | panic
  deriving Repr, Inhabited

def Stop.out : Stop → Outcome
  | .err e => .err e
  | .panic => .panic

def mapMOpt {α β} (f : α → Option β) : List α → Option (List β)
  | [] => some []
  | a :: r => match f a, mapMOpt f r with
    | some b, some bs => some (b :: bs)
    | _, _ => none

/-- setSliceField (field type `[]T` or `*[]T`) -/
def setSlice (P : Params) (cfg : Cfg) (ty : Ty) (cur : Val) (values : List Bytes) : Except Err Val :=
  if values.isEmpty then .ok cur else
  let values := if cfg.csv && values.length == 1 then (splitB ',' (values.headD [])).map trimSpace else values
  if cfg.maxSlice > 0 && values.length > cfg.maxSlice then .error .sliceLen else
  match ty with
  | .slice e => match mapMOpt (convTy P cfg e) values with
    | some vs => .ok (.list vs)
    | none => .error .conv
  | .ptr (.slice e) => match mapMOpt (convTy P cfg e) values with
    | some vs => .ok (.ptr (.list vs))
    | none => .error .conv
  | _ => .error .conv

def indexOfB (c : Char) : Bytes → Option Nat
  | [] => none
  | x :: r => if x == c then some 0 else (indexOfB c r).map (· + 1)

def trimQuotes (s : Bytes) : Bytes :=
  let q := fun c => c == '"' || c == '\''
  ((s.dropWhile q).reverse.dropWhile q).reverse

/-- extractBracketKey -/
def extractBracketKey (full pre : Bytes) : Bytes :=
  match cutPrefix full (pre ++ B "[") with
  | none => []
  | some after =>
    match indexOfB ']' after with
    | none => []
    | some cb =>
      let key := after.take cb
      if key.isEmpty then []
      else if (after.drop cb).contains '[' then []
      else trimQuotes key

/-- extractMapKey: `none` = the key does not belong to the map; `some []` = invalid notation -/
def extractMapKey (full pre : Bytes) : Option Bytes :=
  match cutPrefix full (pre ++ B ".") with
  | some k => some k
  | none => if hasPrefix full (pre ++ B "[") then some (extractBracketKey full pre) else none

def mapInsert (k : Bytes) (v : Val) : List (Bytes × Val) → List (Bytes × Val)
  | [] => [(k, v)]
  | (k', v') :: r =>
    if k' == k then (k, v) :: r
    else if k < k' then (k, v) :: (k', v') :: r
    else (k', v') :: mapInsert k v r

/-- bindMapFromValues over the matching entries (in the order of the container) -/
def bindMapEntries (P : Params) (cfg : Cfg) (vty : Ty) (pre : Bytes) :
    List (Bytes × List Bytes) → Nat → List (Bytes × Val) → Except Err (List (Bytes × Val))
  | [], _, m => .ok m
  | (key, vals) :: rest, count, m =>
    match extractMapKey key pre with
    | none => bindMapEntries P cfg vty pre rest count m
    | some mk =>
      if mk.isEmpty then .error .conv
      else if cfg.maxMap > 0 && count + 1 > cfg.maxMap then .error .mapSize
      else match convTy P cfg vty (vals.headD []) with
        | none => .error .conv
        | some v => bindMapEntries P cfg vty pre rest (count + 1) (mapInsert mk v m)

/-- parseJSONToMap, the decoded object shipped as `(P value).j` -/
def jsonEntries (P : Params) (cfg : Cfg) (vty : Ty) : List (Bytes × Bytes) → List (Bytes × Val) → Except Err (List (Bytes × Val))
  | [], m => .ok m
  | (k, sv) :: rest, m => match convTy P cfg vty sv with
    | none => .error .conv
    | some v => jsonEntries P cfg vty rest (mapInsert k v m)

def mapKeyMatches (full : Bytes) (e : Bytes × List Bytes) : Bool :=
  hasPrefix e.1 (full ++ B ".") || hasPrefix e.1 (full ++ B "[")

/-- the entries the map field holds already (nil map, nil pointer: none) -/
def curMap : Val → List (Bytes × Val)
  | .map kvs => kvs
  | .ptr (.map kvs) => kvs
  | _ => []

/-- setMapField (field type `map[string]V` or `*map[string]V`) -/
def setMap (P : Params) (cfg : Cfg) (ty : Ty) (cur : Val) (g : Getter) (name : Bytes) : Except Err Val :=
  let full := g.pre ++ name
  let qf := isQF g.src.kind
  -- estimateMapCapacity: ApproxLen of the underlying query/form getter; only a counted size can trip the limit
  let count := if qf then (g.src.kvs.filter (mapKeyMatches full)).length else 0
  if count > 0 && cfg.maxMap > 0 && count > cfg.maxMap then .error .mapSize else
  let (vty, isPtr) : Ty × Bool := match ty with
    | .map v => (v, false)
    | .ptr (.map v) => (v, true)
    | _ => (ty, false)
  let m0 : List (Bytes × Val) := curMap cur
  let wrap := fun (m : List (Bytes × Val)) => if isPtr then Val.ptr (.map m) else Val.map m
  match (if qf then bindMapEntries P cfg vty full g.src.kvs 0 m0 else .ok m0) with
  | .error e => .error e
  | .ok m1 =>
    let found := qf && g.src.kvs.any (fun e => (extractMapKey e.1 full).isSome)
    if !found && g.has name then
      let jv := g.get name
      if jv.isEmpty then .ok (wrap m1)
      else match (P jv).j with
        | none => .ok (wrap m1)
        | some es =>
          if cfg.maxMap > 0 && es.length > cfg.maxMap then .error .mapSize
          else match jsonEntries P cfg vty es m1 with
            | .error e => .error e
            | .ok m2 => .ok (wrap m2)
    else .ok (wrap m1)

/-! ### struct metadata (parseStructType) -/

structure FieldInfo where
  index : List Nat
  name : Bytes
  tagName : Bytes
  aliases : List Bytes
  ty : Ty
  dflt : Bytes
  typedDefault : Option Val
  deriving Repr, Inhabited

/-- parseTagWithAliases -/
def parseTag (tag name : Bytes) (isForm : Bool) : Bytes × List Bytes :=
  let parts := splitB ',' tag
  let primary := trimSpace (parts.headD [])
  let aliases := ((parts.drop 1).map trimSpace).filter (fun p => !p.isEmpty && !(isForm && p == B "omitempty"))
  (if primary.isEmpty && isForm then name else primary, aliases)

def isSliceTy : Ty → Bool
  | .slice _ => true
  | .ptr (.slice _) => true
  | _ => false

def isMapTy : Ty → Bool
  | .map _ => true
  | .ptr (.map _) => true
  | _ => false

def isStructTy (t : Ty) : Bool := (structFields? t).isSome

/-- the non-embedded part of the loop body of parseStructType: `none` = field skipped -/
def mkInfo (P : Params) (tag : Tag) (index : List Nat) (h : FieldHdr) (t : Ty) : Option FieldInfo :=
  let tv := h.tag tag
  if tv.isEmpty && tag != .form then none
  else if tag == .form && tv == B "-" then none
  else
    let (primary, aliases) := parseTag tv h.name (tag == .form)
    let td := if !h.dflt.isEmpty && !isSliceTy t && !isMapTy t then convTy P Cfg.default t h.dflt else none
    some { index := index, name := h.name, tagName := primary, aliases := aliases, ty := t,
           dflt := h.dflt, typedDefault := td }

mutual
/-- one iteration of the loop of parseStructType (field `i` of the struct, header `h`, type in the
    last argument), with the copying index construction `pre ++ [i]` (after the fix for K04a) -/
def flattenFld (P : Params) (tag : Tag) (pre : List Nat) (i : Nat) (h : FieldHdr) : Ty → List FieldInfo
  | .struct fs =>
    if !h.exported then []
    else if h.anon then flattenFs P tag (pre ++ [i]) 0 fs
    else (mkInfo P tag (pre ++ [i]) h (.struct fs)).toList
  | .ptr (.struct fs) =>
    if !h.exported then []
    else if h.anon then flattenFs P tag (pre ++ [i]) 0 fs
    else (mkInfo P tag (pre ++ [i]) h (.ptr (.struct fs))).toList
  | t => if !h.exported then [] else (mkInfo P tag (pre ++ [i]) h t).toList
/-- parseStructType over the fields from position `i` on -/
def flattenFs (P : Params) (tag : Tag) (pre : List Nat) : Nat → List Fld → List FieldInfo
  | _, [] => []
  | i, (h, t) :: rest => flattenFld P tag pre i h t ++ flattenFs P tag pre (i+1) rest
end

/-- parseStructInfo: the cached field table of a struct type under a tag -/
def flatten (P : Params) (tag : Tag) (fs : List Fld) : List FieldInfo := flattenFs P tag [] 0 fs

/-! ### field access (fieldByIndex) -/

inductive Reach
  | ok (v : Val)
  | nilptr        -- the path crosses a nil embedded pointer
  | bad           -- reflect would panic: not a struct / index out of range
  deriving Repr, Inhabited

/-- fieldByIndex(v, index, alloc=false) -/
def reach : Val → List Nat → Reach
  | v, [] => .ok v
  | .struct vs, i :: rest =>
    match vs[i]? with
    | none => .bad
    | some x =>
      match rest with
      | [] => .ok x
      | _ :: _ =>
        match x with
        | .nil => .nilptr
        | .ptr y => reach y rest
        | y => reach y rest
  | _, _ :: _ => .bad

/-- fieldByIndex(v, index, alloc=true) followed by a store: nil embedded pointers on the path are
    allocated (zero struct), `f` is applied to the field -/
def updAt : Ty → Val → List Nat → (Val → Val) → Val
  | _, v, [], f => f v
  | .struct fs, .struct vs, i :: rest, f =>
    match fs[i]?, vs[i]? with
    | some (_, t), some x =>
      match rest with
      | [] => .struct (vs.set i (f x))
      | _ :: _ =>
        match t, x with
        | .ptr t', .nil => .struct (vs.set i (.ptr (updAt t' (zero t') rest f)))
        | .ptr t', .ptr y => .struct (vs.set i (.ptr (updAt t' y rest f)))
        | t', y => .struct (vs.set i (updAt t' y rest f))
    | _, _ => .struct vs
  | _, v, _ :: _, _ => v

/-! ### bindFieldsWithDepth -/

/-- primary name, then aliases: (key the value was found under, value, hasValue) -/
def lookupField (g : Getter) (f : FieldInfo) : Bytes × Bytes × Bool :=
  if g.has f.tagName then (f.tagName, g.get f.tagName, true)
  else match f.aliases.find? (fun a => g.has a) with
    | some a => (a, g.get a, true)
    | none => (f.tagName, g.get f.tagName, false)

def structTyOf : Ty → List Fld
  | .struct fs => fs
  | .ptr (.struct fs) => fs
  | _ => []

/-- what setNestedStructWithDepth + the recursive bindFieldsWithDepth do to a nested struct value:
    (fields of the nested struct type, current struct value, getter, depth) ↦ outcome -/
abbrev Nest := List Fld → Val → Getter → Nat → Outcome

/-- setNestedStructWithDepth: the struct value the nested bind works on — the field itself, what
    its pointer points to, or a freshly allocated zero struct for a nil pointer -/
def innerOf (nfs : List Fld) : Val → Val
  | .ptr v => v
  | .nil => zero (.struct nfs)
  | v => v

/-- … and how the bound struct is stored back into a field of type `ty` -/
def rewrap : Ty → Val → Val
  | .ptr _, nv => .ptr nv
  | _, nv => nv

/-- the field is resolved (and nil embedded pointers on its path are allocated): file, map and
    nested struct fields always; other fields when a value was found or a default is declared -/
def wants (g : Getter) (f : FieldInfo) : Bool :=
  isMapTy f.ty || isStructTy f.ty || (lookupField g f).2.2 || !f.dflt.isEmpty

/-- one iteration of the loop of bindFieldsWithDepth on a resolved field whose current value is
    `cur`: the value to store, or the outcome that ends the bind -/
def fieldAction (P : Params) (cfg : Cfg) (nest : Nest) (g : Getter) (depth : Nat) (f : FieldInfo) (cur : Val) :
    Val ⊕ Stop :=
  if isMapTy f.ty then
    match setMap P cfg f.ty cur g f.tagName with
    | .error e => .inr (.err (.bind f.name e))
    | .ok nv => .inl nv
  else if isStructTy f.ty then
    -- setNestedStructWithDepth (the depth check of the callee is made here)
    if cfg.maxDepth < depth + 1 then .inr (.err (.bind f.name .depth))
    else
      let nfs := structTyOf f.ty
      match nest nfs (innerOf nfs cur) (g.push f.tagName) (depth + 1) with
      | .ok nv => .inl (rewrap f.ty nv)
      | .err e => .inr (.err (.bind f.name e))
      | .panic => .inr .panic
  else
    let (key, value, has) := lookupField g f
    match (if has then none else f.typedDefault) with
    | some d => .inl d
    | none =>
      let value := if has then value else f.dflt
      if isSliceTy f.ty then
        match setSlice P cfg f.ty cur (g.getAll key) with
        | .error e => .inr (.err (.bind f.name e))
        | .ok nv => .inl nv
      else
        match setField P cfg f.ty cur value with
        | none => .inr (.err (.bind f.name .conv))
        | some nv => .inl nv

/-- the loop of bindFieldsWithDepth over the cached field table of struct type `sty`; the binding
    of a nested struct is the parameter `nest` -/
def loopWith (P : Params) (cfg : Cfg) (nest : Nest) (sty : List Fld) :
    List FieldInfo → Val → Getter → Nat → Outcome
  | [], elem, _, _ => .ok elem
  | f :: rest, elem, g, depth =>
    match reach elem f.index with          -- fieldByIndex(elem, index, false)
    | .bad => .panic
    | _ =>
      if !wants g f then loopWith P cfg nest sty rest elem g depth
      else
        let elem1 := updAt (.struct sty) elem f.index id      -- fieldByIndex(elem, index, true)
        match reach elem1 f.index with
        | .ok cur =>
          match fieldAction P cfg nest g depth f cur with
          | .inl nv => loopWith P cfg nest sty rest (updAt (.struct sty) elem1 f.index (fun _ => nv)) g depth
          | .inr o => o.out
        | _ => .panic

/-- bindFieldsWithDepth with `n` levels of nesting still allowed below this one. The recursion
    follows the code's own bound: a nested struct is entered only while `depth + 1 ≤ maxDepth`, so
    with `n = maxDepth - depth` the `nest` of level 0 is never called. -/
def bindAt (P : Params) (cfg : Cfg) (tag : Tag) : Nat → Nest
  | 0 => fun sty elem g depth =>
    loopWith P cfg (fun _ _ _ _ => .err .depth) sty (flatten P tag sty) elem g depth
  | n + 1 => fun sty elem g depth =>
    loopWith P cfg (bindAt P cfg tag n) sty (flatten P tag sty) elem g depth

/-- Query / Path / Form / Header / Cookie and their `…To` forms: bindFromSource -/
def bind (P : Params) (cfg : Cfg) (tag : Tag) (ty : Ty) (init : Val) (src : Src) : Outcome :=
  match ty with
  | .struct fs => bindAt P cfg tag cfg.maxDepth fs init { src := src } 0
  | _ => .err .conv


/-! ### several sources: Bind / BindTo (bindMultiSource), app.Context.Bind -/

def taggedUnder (tag : Tag) (h : FieldHdr) : Bool := !(h.tag tag).isEmpty && (h.tag tag) != B "-"

mutual
/-- HasStructTag: an exported field carries the tag, here or in an embedded struct -/
def hasTagFld (tag : Tag) (h : FieldHdr) : Ty → Bool
  | .struct fs => h.exported && (taggedUnder tag h || (h.anon && hasTagFs tag fs))
  | .ptr (.struct fs) => h.exported && (taggedUnder tag h || (h.anon && hasTagFs tag fs))
  | _ => h.exported && taggedUnder tag h
def hasTagFs (tag : Tag) : List Fld → Bool
  | [] => false
  | (h, t) :: rest => hasTagFld tag h t || hasTagFs tag rest
end

mutual
/-- the type with its `default` tags removed: a pass of bindFieldsWithDepth with `skipDefaults` -/
def stripTy : Ty → Ty
  | .struct fs => .struct (stripFs fs)
  | .ptr t => .ptr (stripTy t)
  | .slice t => .slice t
  | .map t => .map t
  | .prim p => .prim p
def stripFs : List Fld → List Fld
  | [] => []
  | (h, t) :: rest => ({ h with dflt := [] }, stripTy t) :: stripFs rest
end

/-- one pass over the sources: each source whose tag occurs in the type binds in turn, the first
    error ends the bind -/
def bindPass (P : Params) (cfg : Cfg) (fs : List Fld) (ty : Tag → Ty) : List Src → Val → Outcome
  | [], cur => .ok cur
  | s :: rest, cur =>
    if hasTagFs s.kind fs then
      match bind P cfg s.kind (ty s.kind) cur s with
      | .ok v => bindPass P cfg fs ty rest v
      | o => o
    else bindPass P cfg fs ty rest cur

/-- bindMultiSource as shipped: every source applies the defaults of the fields it does not find -/
def bindMultiAsIs (P : Params) (cfg : Cfg) (fs : List Fld) (init : Val) (srcs : List Src) : Outcome :=
  if srcs.isEmpty then .err .conv else bindPass P cfg fs (fun _ => .struct fs) srcs init

/-- bindMultiSource: with one source the plain bind; with several, the defaults are applied first
    (a bind from a source without values) and the sources then bind without defaults — so a source
    that lacks a key never overwrites what an earlier source bound -/
def bindMulti (P : Params) (cfg : Cfg) (fs : List Fld) (init : Val) (srcs : List Src) : Outcome :=
  if srcs.isEmpty then .err .conv
  else if srcs.length == 1 then bindPass P cfg fs (fun _ => .struct fs) srcs init
  else
    match bindPass P cfg fs (fun _ => .struct fs) (srcs.map fun s => { s with kvs := [] }) init with
    | .ok v => bindPass P cfg fs (fun _ => .struct (stripFs fs)) srcs v
    | o => o

end Rivaas.Bind
