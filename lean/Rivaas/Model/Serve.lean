import Rivaas.Basic
/-
Model of `(*Router).ServeHTTP` and its helpers (router/serve.go, router/router.go) at the granularity
C08 needs: which observability callbacks run, in which order, around which handler, with which
route label, and what status / size the wrapped writer saw. Core Lean only.

The model follows serve.go statement by statement *after* the `fix:` commit 91ac4e5 (K08). The
as-shipped behaviour is kept as `serveAsIs` (flag `asIs := true`), with `decide` witnesses in
`Props/C08.lean`.

Route lookups (`LookupStatic`, `MatchDynamic`, `tree.getRoute`, `compiled.getRouteWithPath`,
`processVersioning`, `SetLifecycleHeaders`, `getAllowedMethodsForPath`) are *parameters*: their
outcome for the request is a field of `Facts` (C01/C11/C13 model them). The harness supplies the
facts from the route table it registered.
-/
namespace Rivaas.Serve

/-- a matched route: the handler-chain id the harness gave it and its registered pattern -/
structure Route where
  hid : Nat
  pattern : Bytes
  deriving DecidableEq, Repr

/-- what the lookups answer for one request, in the order ServeHTTP asks -/
structure Facts where
  obs : Bool                    -- r.observability != nil
  live : Bool                   -- OnRequestStart returned a non-nil state (request not excluded)
  useCompiled : Bool            -- r.useCompiledRoutes && r.routeCompiler != nil
  hasStatic : Bool              -- r.routeCompiler.HasStatic()
  lookupStatic : Option Route   -- r.routeCompiler.LookupStatic(method, path)
  matchDynamic : Option Route   -- r.routeCompiler.MatchDynamic(method, path, poolCtx)
  tree : Bool                   -- r.getTreeForMethodDirect(method) != nil
  treeCompiled : Bool           -- r.useCompiledRoutes && tree.compiled != nil
  treeStatic : Option Route     -- tree.compiled.getRoute(path) (the label is the path itself)
  treeRoute : Option Route      -- tree.getRoute(path, c)
  versionEngine : Bool          -- r.versionEngine != nil
  vcTree : Bool                 -- processVersioning(...).tree != nil
  version : Bytes               -- processVersioning(...).version
  vCache : Option Route         -- versionCache hit: compiled.getRouteWithPath(routingPath)
  vRoute : Option Route         -- version tree: tree.getRoute(routingPath, c)
  sunset : Bool                 -- SetLifecycleHeaders(w, version, pattern) reports past sunset
  allowed : Bool                -- len(getAllowedMethodsForPath(path)) > 0
  noRoute : Bool                -- a NoRoute handler is installed
  detected : Bytes              -- versionEngine.DetectVersion(req) (version seen by the NoRoute handler)
  path : Bytes                  -- req.URL.Path
  deriving Repr

/-- what the handler chain of the matched route does with the response (the harness's probe handlers) -/
inductive Prog
  | explicit (status size : Nat)      -- WriteHeader(status); Write(size bytes)
  | silent                            -- writes nothing
  | writeOnly (size : Nat)            -- Write(size bytes) without WriteHeader
  | twice (status size : Nat)         -- WriteHeader(status); WriteHeader(500); Write(size bytes)
  | abort (status size : Nat)         -- a middleware writes (status, size), calls Abort, the handler is not entered
  | panics (size : Nat)               -- the handler panics, the recovery middleware answers 500 with `size` bytes (library body)
  | copy (status size : Nat)          -- WriteHeader(status); io.Copy(w, reader of `size` bytes) — the wrapper's ReadFrom
  | copyOnly (size : Nat)             -- io.Copy(w, reader) without WriteHeader
  | flushed (status size : Nat)       -- Flush() first (commits an implied 200), then WriteHeader(status); Write(size bytes)
  deriving DecidableEq, Repr

/-- events the counting recorder and the probe handlers log, in order -/
inductive MEv
  | start (live : Bool)                         -- OnRequestStart, and whether it returned a state
  | wrap                                        -- WrapResponseWriter
  | handler (hid : Nat) (pattern version : Bytes) -- a probe handler was entered and read RoutePattern()/Version()
  | endCb (label : Bytes) (wrapped : Bool)      -- OnRequestEnd with its label; `wrapped`: it got the writer WrapResponseWriter returned
  deriving DecidableEq, Repr

structure Out where
  log : List MEv
  status : Nat        -- what the client received
  size : Nat
  deriving DecidableEq, Repr

/-- the response of a probe chain: (status, size, was the final handler entered) -/
def Prog.resp : Prog → Nat × Nat × Bool
  | .explicit st n => (st, n, true)
  | .silent => (200, 0, true)
  | .writeOnly n => (200, n, true)
  | .twice st n => (st, n, true)
  | .abort st n => (st, n, false)
  | .panics n => (500, n, true)
  | .copy st n => (st, n, true)
  | .copyOnly n => (200, n, true)
  | .flushed _ n => (200, n, true)

/-- ids the harness gives the middleware in front of the `abort` / `panics` routes -/
def mwHid : Nat := 90
def noRouteHid : Nat := 99

def sNotFound : Bytes := "_not_found".toList
def sMethodNotAllowed : Bytes := "_method_not_allowed".toList
def sUnmatched : Bytes := "_unmatched".toList

/-- c.Next() on a matched route: which probe handlers log, with the pattern/version they read -/
def chainLog (rt : Route) (cpat ver : Bytes) (p : Prog) : List MEv :=
  (match p with
    | .abort .. => [MEv.handler mwHid cpat ver]
    | _ => []) ++ (if p.resp.2.2 then [MEv.handler rt.hid cpat ver] else [])

/-- `if c.routePattern == "" { c.routePattern = "_unmatched" }` -/
def orUnmatched (p : Bytes) : Bytes := if p = [] then sUnmatched else p

/-- the 410 body of the sunset branch -/
def sunsetBody (ver : Bytes) : Nat :=
  ("API ".toList ++ ver ++ " was removed. Please upgrade to a supported version.".toList).length

/-- the router-level operations on the response, in source order (what `Tie/C08.model_exits_are_skeleton_exits`
    compares with the regenerated skeleton) -/
inductive ROp
  | lifecycle          -- r.versionEngine.SetLifecycleHeaders(w, version, pattern)
  | next               -- c.Next(): the handler chain
  | noRoute            -- handler(c): the NoRoute handler
  | notFound           -- c.NotFound()
  | methodNotAllowed   -- c.MethodNotAllowed(allowed)
  | writeHeader        -- w.WriteHeader(http.StatusGone)
  | writeBody          -- w.Write(…)
  deriving DecidableEq, Repr

/-- result of the dispatch: handler events, the label handed to the guarded end callback (`none`: the path
    returns without reaching an end callback), status and size of the response, router-level operations -/
structure Disp where
  hs : List MEv
  label : Option Bytes
  status : Nat
  size : Nat
  ops : List ROp
  deriving DecidableEq, Repr

/-- a matched route runs its chain; the end callback gets `label`; versioned routes set lifecycle headers first -/
def matched (rt : Route) (cpat ver label : Bytes) (p : Prog) (pre : List ROp := []) : Disp :=
  ⟨chainLog rt cpat ver p, some label, p.resp.1, p.resp.2.1, pre ++ [.next]⟩

/-- handleNotFound: 405 when another method has the path, else the NoRoute handler, else the default 404 -/
def notFound (f : Facts) (p : Prog) (label : Option Bytes) : Disp :=
  if f.allowed then ⟨[], label, 405, "Method Not Allowed\n".length, [.methodNotAllowed]⟩
  else if f.noRoute then
    -- the NoRoute handler is a probe handler: it logs and runs the program's final-handler part
    ⟨[MEv.handler noRouteHid sNotFound (if f.versionEngine then f.detected else [])], label, p.resp.1, p.resp.2.1, [.noRoute]⟩
  else ⟨[], label, 404, "Not Found\n".length, [.notFound]⟩

/-- `if r.useCompiledRoutes && r.routeCompiler != nil { if r.routeCompiler.HasStatic() { LookupStatic … } }` -/
def Facts.q1 (f : Facts) : Option Route := if f.useCompiled then (if f.hasStatic then f.lookupStatic else none) else none
/-- `… MatchDynamic(req.Method, path, poolCtx)` inside the same block -/
def Facts.q2 (f : Facts) : Option Route := if f.useCompiled then f.matchDynamic else none
/-- `if tree != nil { if r.useCompiledRoutes && tree.compiled != nil { tree.compiled.getRoute(path) … } }` -/
def Facts.q3 (f : Facts) : Option Route := if f.tree then (if f.treeCompiled then f.treeStatic else none) else none
/-- `… tree.getRoute(path, c)` inside the same block -/
def Facts.q4 (f : Facts) : Option Route := if f.tree then f.treeRoute else none

/-- the 410 branch of serveVersionedHandlers / serveVersionedRequest -/
def gone (asIs : Bool) (f : Facts) (rt : Route) : Disp :=
  ⟨[], if asIs then none else some rt.pattern, 410, sunsetBody f.version, [.lifecycle, .writeHeader, .writeBody]⟩

/-- serveVersionedRequest (with serveVersionedHandlers) -/
def versioned (asIs : Bool) (f : Facts) (p : Prog) : Disp :=
  match f.vCache with
  | some rt =>
    -- serveVersionedHandlers
    if f.versionEngine && f.sunset then gone asIs f rt
    else matched rt rt.pattern f.version rt.pattern p (if f.versionEngine then [.lifecycle] else [])
  | none =>
  match f.vRoute with
  | none => notFound f p (if asIs then none else some sNotFound)
  | some rt =>
    if f.versionEngine && f.sunset then gone asIs f rt
    else matched rt (orUnmatched rt.pattern) f.version rt.pattern p (if f.versionEngine then [.lifecycle] else [])

/-- ServeHTTP after start/wrap. `asIs = true` reproduces the code before commit 91ac4e5 (K08). -/
def dispatch (asIs : Bool) (f : Facts) (p : Prog) : Disp :=
  match f.q1 with
  | some rt => matched rt rt.pattern [] rt.pattern p               -- serveCompiledRoute
  | none =>
  match f.q2 with
  | some rt => matched rt rt.pattern [] rt.pattern p               -- serveCompiledRouteWithParams
  | none =>
  match f.q3 with
  | some rt => matched rt f.path [] f.path p                       -- serveStaticRoute(…, path, "", false, …)
  | none =>
  match f.q4 with
  | some rt => matched rt (orUnmatched rt.pattern) [] rt.pattern p -- tail of the tree traversal in ServeHTTP
  | none =>
  if f.versionEngine && f.vcTree then versioned asIs f p
  else notFound f p (some sNotFound)                               -- handleNotFoundWithObs

/-- the guarded end callback: `if obsState != nil { r.observability.OnRequestEnd(ctx, obsState, w, label) }` -/
def endG (f : Facts) : Option Bytes → List MEv
  | some label => if f.obs && f.live then [MEv.endCb label true] else []
  | none => []

/-- start idiom and wrap idiom at the top of ServeHTTP -/
def pre (f : Facts) : List MEv :=
  (if f.obs then [MEv.start f.live] else []) ++ (if f.obs && f.live then [MEv.wrap] else [])

def serveWith (asIs : Bool) (f : Facts) (p : Prog) : Out :=
  let d := dispatch asIs f p
  ⟨pre f ++ d.hs ++ endG f d.label, d.status, d.size⟩

/-- the model of the code as it is now -/
def serve (f : Facts) (p : Prog) : Out := serveWith false f p
/-- the code as shipped (before the K08 fix) -/
def serveAsIs (f : Facts) (p : Prog) : Out := serveWith true f p

/-! ### the response-writer wrapper (app/observability.go `observabilityResponseWriter`) -/

/-- what a handler does to its ResponseWriter -/
inductive WOp
  | header (code : Nat)   -- WriteHeader(code)
  | write (n : Nat)       -- Write(n bytes), fully accepted by the underlying writer
  | readFrom (n : Nat)    -- ReadFrom(r) with n bytes in r (io.Copy into the writer)
  | flush                 -- Flush() on a writer whose underlying writer is an http.Flusher: commits the header
  deriving DecidableEq, Repr

/-- net/http's (and httptest's) writer as the client sees it: the first WriteHeader wins, a Write without
    one implies 200, a response without either is `200` with no body -/
structure Wire where
  status : Option Nat := none
  size : Nat := 0
  deriving DecidableEq, Repr

/-- an informational status (1xx except 101 Switching Protocols): net/http sends it at once and keeps waiting for the
    final status -/
def isInfo (c : Nat) : Bool := 100 ≤ c && c ≤ 199 && c != 101

def Wire.step (w : Wire) : WOp → Wire
  | .header c => if isInfo c then w else if w.status.isNone then { w with status := some c } else w
  | .write n => { status := some (w.status.getD 200), size := w.size + n }
  | .readFrom n => { status := some (w.status.getD 200), size := w.size + n }
  | .flush => { w with status := some (w.status.getD 200) }

def Wire.clientStatus (w : Wire) : Nat := w.status.getD 200

/-- the wrapper: fields and methods as in app/observability.go -/
structure RW where
  under : Wire := {}
  statusCode : Nat := 0
  size : Nat := 0
  written : Bool := false
  deriving DecidableEq, Repr

def RW.step (rw : RW) : WOp → RW
  | .header c =>
    -- after /repo fix K08g: `if code >= 100 && code <= 199 && code != 101 { rw.ResponseWriter.WriteHeader(code); return }`
    if !rw.written then
      (if isInfo c then { rw with under := rw.under.step (.header c) }
       else { rw with statusCode := c, under := rw.under.step (.header c), written := true })
    else rw
  | .write n =>
    let rw1 := if !rw.written then { rw with written := true, statusCode := 200 } else rw
    { rw1 with under := rw1.under.step (.write n), size := rw1.size + n }
  | .readFrom n =>
    -- both branches of ReadFrom (underlying io.ReaderFrom, or io.Copy into the underlying writer): the bytes go to the
    -- underlying writer, `rw.size += n`, `if !rw.written { rw.written = true; if rw.statusCode == 0 { rw.statusCode = 200 } }`
    let rw1 := { rw with under := rw.under.step (.readFrom n), size := rw.size + n }
    if !rw1.written then { rw1 with written := true, statusCode := if rw1.statusCode = 0 then 200 else rw1.statusCode } else rw1
  | .flush =>
    -- after /repo fix K08h: `if !rw.written { rw.written = true; if rw.statusCode == 0 { rw.statusCode = 200 } }; flusher.Flush()`
    let rw1 := if !rw.written then { rw with written := true, statusCode := if rw.statusCode = 0 then 200 else rw.statusCode } else rw
    { rw1 with under := rw1.under.step .flush }

/-- Flush as shipped before K08h: forwarded without noticing that it commits the header -/
def RW.flushAsIs (rw : RW) : RW := { rw with under := rw.under.step .flush }

/-- WriteHeader as shipped before K08g: an informational code was taken for the final status and every later
    WriteHeader was swallowed -/
def RW.stepAsIs (rw : RW) : WOp → RW
  | .header c =>
    if !rw.written then { rw with statusCode := c, under := rw.under.step (.header c), written := true } else rw
  | .flush => rw.flushAsIs
  | op => rw.step op

/-- StatusCode(): `if rw.statusCode == 0 { return http.StatusOK }` -/
def RW.StatusCode (rw : RW) : Nat := if rw.statusCode = 0 then 200 else rw.statusCode

def RW.run (rw : RW) (ops : List WOp) : RW := ops.foldl RW.step rw
def RW.runAsIs (rw : RW) (ops : List WOp) : RW := ops.foldl RW.stepAsIs rw

/-- the writer operations of the probe programs -/
def Prog.ops : Prog → List WOp
  | .explicit st n => [.header st, .write n]
  | .silent => []
  | .writeOnly n => [.write n]
  | .twice st n => [.header st, .header 500, .write n]
  | .abort st n => [.header st, .write n]
  | .panics n => [.header 500, .write n]
  | .copy st n => [.header st, .readFrom n]
  | .copyOnly n => [.readFrom n]
  | .flushed st n => [.flush, .header st, .write n]

end Rivaas.Serve
