import Rivaas.Basic
/-
C20 (redaction half) — model of how an attribute reaches the output of a `logging.Logger`.

Anchors: logging/logger.go (`buildReplaceAttr`, `initializeHandler`, `With`, `WithGroup`, `log`),
logging/handlers.go (`consoleHandler.Handle/WithAttrs/WithGroup/appendAttr`), logging/buffer.go
(`bufferingHandler.Handle`, `flush`).

`log/slog`'s JSON and text handlers are a *parameter*: `slogEmit` states the contract we rely on
("ReplaceAttr is called on every non-group attribute at any depth — call arguments, `With`,
`WithGroup`, `slog.Group` values — with the open groups as first argument; an attribute replaced by
the zero Attr is elided; a group with an empty key is inlined"). The harness runs the real handlers
and the driver compares their output with `slogEmit` pair by pair, so the contract is
differential-checked on every run. The console handler is rivaas code and is modelled statement by
statement. Core Lean only.
-/
namespace Rivaas.Log

/-- `slog.Attr` after `Value.Resolve`: a key with a scalar value (its text) or a group -/
inductive Attr where
  | leaf (key : Bytes) (val : Bytes)
  | group (key : Bytes) (attrs : List Attr)
  deriving Repr, Inhabited

/-- how a `*slog.Logger` is derived from `Logger.Logger()` -/
inductive ChainOp where
  /-- `.With(attrs…)` -/
  | withAttrs (attrs : List Attr)
  /-- `.WithGroup(name)`; slog returns the receiver unchanged for the empty name -/
  | withGroup (name : Bytes)
  deriving Repr, Inhabited

inductive HType where
  | json | text | console
  deriving DecidableEq, Repr, Inhabited

/-- the user function given with `WithReplaceAttr` (the shapes the harness installs) -/
inductive UserRep where
  | none
  /-- `if len(groups) == 0 && a.Key == k { return slog.Attr{} }` (the "drop the time" idiom) -/
  | dropTop (k : Bytes)
  /-- `if a.Key == k { return slog.Attr{} }` -/
  | dropAny (k : Bytes)
  /-- a key-renaming replacer: `a.Key = p + a.Key; return a` -/
  | addPrefix (p : Bytes)
  deriving Repr, Inhabited

def redactedVal : Bytes := "***REDACTED***".toList

/-- the `case` list of the switch in `buildReplaceAttr` -/
def sensitive : List Bytes :=
  ["password".toList, "token".toList, "secret".toList, "api_key".toList, "authorization".toList]

/-- `buildReplaceAttr`: the closure handed to `slog.HandlerOptions.ReplaceAttr`.
    `none` = the zero Attr (elided by every handler). -/
def replaceAttr (u : UserRep) (groups : List Bytes) (k v : Bytes) : Option (Bytes × Bytes) :=
  if k ∈ sensitive then some (k, redactedVal)
  else match u with
    | .none => some (k, v)
    | .dropTop d => if groups.isEmpty && k == d then Option.none else some (k, v)
    | .dropAny d => if k == d then Option.none else some (k, v)
    | .addPrefix p => some (p ++ k, v)

/-- one `key=value` of the output: the key path (enclosing groups, then the key) and the value text -/
abbrev Pair := List Bytes × Bytes

/-- `groups ++ [k]` unless `k` is empty (slog inlines a group with an empty key) -/
def openGroup (groups : List Bytes) (k : Bytes) : List Bytes :=
  if k.isEmpty then groups else groups ++ [k]

/-! ### log/slog's built-in handlers (parameter, see the header) -/

mutual
  /-- `handleState.appendAttr` -/
  def slogAttr (u : UserRep) (groups : List Bytes) : Attr → List Pair
    | .leaf k v => match replaceAttr u groups k v with
      | some (k', v') => [(groups ++ [k'], v')]
      | none => []
    | .group k as => slogAttrs u (openGroup groups k) as
  def slogAttrs (u : UserRep) (groups : List Bytes) : List Attr → List Pair
    | [] => []
    | a :: as => slogAttr u groups a ++ slogAttrs u groups as
end

/-- preformatted `With` attributes and `WithGroup` prefixes, then the record's own attributes -/
def slogChain (u : UserRep) (groups : List Bytes) : List ChainOp → List Attr → List Pair
  | [], call => slogAttrs u groups call
  | .withAttrs as :: rest, call => slogAttrs u groups as ++ slogChain u groups rest call
  | .withGroup n :: rest, call => slogChain u (openGroup groups n) rest call

/-! ### consoleHandler (logging/handlers.go) -/

mutual
  /-- `consoleHandler.replaceAttr`: resolve, descend into groups, apply `opts.ReplaceAttr` to every
      non-group attribute; `none` = elided. (Added by the K20a repair.) -/
  def consoleReplace (u : UserRep) (groups : List Bytes) : Attr → Option Attr
    | .leaf k v => (replaceAttr u groups k v).map fun kv => .leaf kv.1 kv.2
    | .group k as => some (.group k (consoleReplaceAll u (openGroup groups k) as))
  def consoleReplaceAll (u : UserRep) (groups : List Bytes) : List Attr → List Attr
    | [] => []
    | a :: as => match consoleReplace u groups a with
      | some a' => a' :: consoleReplaceAll u groups as
      | none => consoleReplaceAll u groups as
end

mutual
  /-- `appendAttr`: `key=value `, a group prints as `key=[k1=v1 k2=v2]` (fmt of `[]slog.Attr`);
      the handler's `groups` (from `WithGroup`) are not printed. `pre` = enclosing group keys. -/
  def consolePrint (pre : List Bytes) : Attr → List Pair
    | .leaf k v => [(pre ++ [k], v)]
    | .group k as => consolePrintAll (pre ++ [k]) as
  def consolePrintAll (pre : List Bytes) : List Attr → List Pair
    | [] => []
    | a :: as => consolePrint pre a ++ consolePrintAll pre as
end

/-- state of a `consoleHandler` value: `attrs` (already replaced, see `WithAttrs`) and `groups` -/
structure Console where
  attrs : List Attr := []
  groups : List Bytes := []
  deriving Repr, Inhabited

/-- `consoleHandler.WithAttrs` / `WithGroup` along a derivation chain -/
def consoleChain (u : UserRep) (h : Console) : List ChainOp → Console
  | [] => h
  | .withAttrs as :: rest => consoleChain u { h with attrs := h.attrs ++ consoleReplaceAll u h.groups as } rest
  | .withGroup n :: rest => consoleChain u (if n.isEmpty then h else { h with groups := h.groups ++ [n] }) rest

/-- `consoleHandler.Handle`: pre-existing attributes, then the record's attributes -/
def consoleHandle (u : UserRep) (h : Console) (call : List Attr) : List Pair :=
  consolePrintAll [] h.attrs ++ consolePrintAll [] (consoleReplaceAll u h.groups call)

/-- the handler as shipped (finding K20a): `opts.ReplaceAttr` is never consulted -/
def consoleChainAsIs (h : Console) : List ChainOp → Console
  | [] => h
  | .withAttrs as :: rest => consoleChainAsIs { h with attrs := h.attrs ++ as } rest
  | .withGroup n :: rest => consoleChainAsIs (if n.isEmpty then h else { h with groups := h.groups ++ [n] }) rest

def consoleHandleAsIs (h : Console) (call : List Attr) : List Pair :=
  consolePrintAll [] h.attrs ++ consolePrintAll [] call

/-! ### one log call through a `logging.Logger` -/

structure Case where
  h : HType
  user : UserRep
  /-- `WithServiceName/Version/Environment`: bound with `With` on the root logger in `initializeHandler` -/
  root : List Attr
  /-- derivation from `Logger.Logger()`: `With` / `WithGroup` calls in order -/
  chain : List ChainOp
  /-- attributes of the log call itself -/
  call : List Attr
  /-- the call happens between `StartBuffering` and `FlushBuffer` -/
  buffered : Bool := false
  deriving Repr, Inhabited

/-- what reaches the writer for one record (time, level and message are not attributes of interest).
    Buffering does not change it: a buffered record is replayed through the handler it was logged
    through (after the K20b/K20d repair). -/
def emit (c : Case) : List Pair :=
  match c.h with
  | .json | .text => slogChain c.user [] (.withAttrs c.root :: c.chain) c.call
  | .console => consoleHandle c.user (consoleChain c.user {} (.withAttrs c.root :: c.chain)) c.call

/-- the same through a given derivation chain -/
def emitVia (chain : List ChainOp) (c : Case) : List Pair :=
  match c.h with
  | .json | .text => slogChain c.user [] (.withAttrs c.root :: chain) c.call
  | .console => consoleHandle c.user (consoleChain c.user {} (.withAttrs c.root :: chain)) c.call

/-- the replay path of a buffered record (`bufferingHandler.Handle` stores `handler: h.underlying`, `flush` calls
    `br.handler.Handle`): with `keepHandler` the record goes through the handler chain it was logged through, without it
    (as shipped, K20d) through the root handler, i.e. the empty chain. `keepHandler` is `LogBuf.Flags.keepHandler`, tied to
    the source by `Tie/C20Handlers.flush_matches_fixed_flags` (`bufferedRecordKeepsHandler ∧ replayThroughRecordHandler`). -/
def emitReplayed (keepHandler : Bool) (c : Case) : List Pair :=
  emitVia (if keepHandler then c.chain else []) c

/-- as shipped: the console handler never consults ReplaceAttr (K20a), and a buffered record is
    replayed through the *root* handler, so whatever `With`/`WithGroup` bound is dropped (K20d) -/
def emitAsIs (c : Case) : List Pair :=
  let chain := if c.buffered then [] else c.chain
  match c.h with
  | .json | .text => slogChain c.user [] (.withAttrs c.root :: chain) c.call
  | .console => consoleHandleAsIs (consoleChainAsIs {} (.withAttrs c.root :: chain)) c.call

end Rivaas.Log
