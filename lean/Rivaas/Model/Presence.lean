import Rivaas.Basic
/-
C05 — model of `validation/presence.go` (`ComputePresence`/`markPresence`, `PresenceMap.LeafPaths`)
and of the error pipeline of `validation/tags.go` (`validatePartialLeafsOnly`, `formatTagErrors`)
with `validation/errors.go` (`Error.Add`, `Error.Sort`).

Parameters (evaluated for real by the harness and shipped per case, see `trusted_base`):
`encoding/json` (the body arrives decoded, as a `Json` term whose objects have unique keys),
`reflect` + go-playground/validator (`Rule`: does a dotted path resolve to a value that has a
rule of its own, and which tags does `Validate.Var` report for it), `validator.Struct`
(`fullErrs`: the error list in the validator's order).

Go maps become lists; every function whose Go original ranges over a map has a
permutation-invariance theorem in `Props/C05.lean`. Core Lean only.
-/
namespace Rivaas.Presence

/-- a decoded JSON value; scalars and `null` carry no information the code looks at -/
inductive Json where
  | leaf
  | obj (kvs : List (Bytes × Json))
  | arr (items : List Json)
  deriving Repr, Inhabited

/-- a dotted path such as `items.2.price`, as the Go code builds it (a byte string) -/
abbrev Path := Bytes

/-- `maxRecursionDepth` of validation/jsonschema.go -/
def maxRecursionDepth : Nat := 100

/-- `strconv.Itoa` on a non-negative int -/
def itoa (n : Nat) : Bytes := (Nat.repr n).toList

/-! ### ComputePresence -/

/-- how `markPresence` builds the path of key `k` at recursion depth `d` under `prefix`.
    After the `fix:` commit for K05b: `if depth > 0 { path = prefix + "." + k }`. -/
def joinKey (d : Nat) (pre k : Bytes) : Bytes :=
  if d = 0 then k else pre ++ '.' :: k

/-- as shipped: `if prefix != "" { path = prefix + "." + k }` — an empty top-level key makes its
    children look like top-level keys (K05b) -/
def joinKeyAsIs (_d : Nat) (pre k : Bytes) : Bytes :=
  if pre = [] then k else pre ++ '.' :: k

mutual
  /-- the `for k, v := range m` loop of `markPresence(m, pre, pm, d)` (after its depth test) -/
  def markEntries (join : Nat → Bytes → Bytes → Bytes) (d : Nat) (pre : Bytes) :
      List (Bytes × Json) → List Path
    | [] => []
    | (k, v) :: rest =>
      (join d pre k :: markBelow join d (join d pre k) v) ++ markEntries join d pre rest
  /-- one iteration, after `pm[path] = true`: the two type switches on `v` -/
  def markBelow (join : Nat → Bytes → Bytes → Bytes) (d : Nat) (path : Bytes) : Json → List Path
    | .leaf => []
    | .obj kvs => if d + 1 > maxRecursionDepth then [] else markEntries join (d + 1) path kvs
    | .arr items => markItems join d path 0 items
  /-- `for i, item := range arr` -/
  def markItems (join : Nat → Bytes → Bytes → Bytes) (d : Nat) (path : Bytes) :
      Nat → List Json → List Path
    | _, [] => []
    | i, item :: rest =>
      ((path ++ '.' :: itoa i) :: markItem join d (path ++ '.' :: itoa i) item)
        ++ markItems join d path (i + 1) rest
  /-- only items that are objects are descended (arrays directly inside arrays are not) -/
  def markItem (join : Nat → Bytes → Bytes → Bytes) (d : Nat) (itemPath : Bytes) : Json → List Path
    | .obj kvs => if d + 1 > maxRecursionDepth then [] else markEntries join (d + 1) itemPath kvs
    | _ => []
end

/-- every `pm[...] = true` executed by `ComputePresence` on the decoded top-level object
    (`markPresence(data, "", pm, 0)`; the depth test `0 > 100` is false) -/
def marks (top : List (Bytes × Json)) : List Path := markEntries joinKey 0 [] top

def marksAsIs (top : List (Bytes × Json)) : List Path := markEntries joinKeyAsIs 0 [] top

/-! ### byte-wise order (`sort.Strings`, `<` on Go strings) -/

/-- `a <= b` for Go strings (lexicographic on bytes) -/
def leB : Bytes → Bytes → Bool
  | [], _ => true
  | _ :: _, [] => false
  | a :: as, b :: bs =>
    if a.toNat < b.toNat then true else if b.toNat < a.toNat then false else leB as bs

def sortPaths (l : List Path) : List Path := l.mergeSort leB

/-- drop adjacent duplicates (on a sorted list: all duplicates) -/
def dedupAdj : List Path → List Path
  | [] => []
  | [p] => [p]
  | p :: q :: rest => if p = q then dedupAdj (q :: rest) else p :: dedupAdj (q :: rest)

/-- the key set of the PresenceMap in canonical (sorted) form: what the harness observes -/
def presence (top : List (Bytes × Json)) : List Path := dedupAdj (sortPaths (marks top))

def presenceAsIs (top : List (Bytes × Json)) : List Path := dedupAdj (sortPaths (marksAsIs top))

/-! ### LeafPaths -/

/-- all proper dotted prefixes of a path: `a.b.c` ↦ `a`, `a.b` (the `parents` set of the repaired
    `LeafPaths`: `for i := range p { if p[i] == '.' { parents[p[:i]] = … } }`) -/
def dottedPrefixes : Path → List Path
  | [] => []
  | c :: cs =>
    if c = '.' then [] :: (dottedPrefixes cs).map (c :: ·) else (dottedPrefixes cs).map (c :: ·)

/-- `LeafPaths` after the `fix:` commit for K05: a present path is a leaf iff it is not a proper
    dotted prefix of a present path; the result is sorted. `pm` = the map's keys in any order. -/
def leafPaths (pm : List Path) : List Path :=
  sortPaths (pm.filter fun p => !(pm.flatMap dottedPrefixes).contains p)

/-- the single pass of the shipped algorithm over the sorted keys: only the *next* path is tested -/
def leafAdj : List Path → List Path
  | [] => []
  | [p] => [p]
  | p :: q :: rest =>
    if (p ++ ['.']).isPrefixOf q then leafAdj (q :: rest) else p :: leafAdj (q :: rest)

/-- `LeafPaths` as shipped (K05) -/
def leafPathsAsIs (pm : List Path) : List Path := leafAdj (sortPaths pm)

/-! ### the error pipeline -/

/-- one error reported by the validator for a value: its tag, and the paths whose values printing
    `e.Value()` reveals — the error's own path and, for a struct, slice, array or map value, the
    paths of everything nested in it (computed by the harness by reflection) -/
structure Viol where
  tag : Bytes
  shows : List Path
  deriving Repr, DecidableEq

/-- what reflection and the validator say about one dotted path (a parameter of the model) -/
structure Rule where
  path : Path
  /-- the path resolves to a value that has a rule of its own: a struct field with a non-empty
      `validate` tag, or a slice/array element whose container's tag has a part after `dive` -/
  resolves : Bool
  /-- the errors `tagValidator.Var(value, ownTag)` reports, in order -/
  tags : List Viol
  /-- a struct field whose JSON name is a number lies on the path (as shipped, `resolvePath` took
      every numeric segment for an index and gave up on a struct: K05d) -/
  num : Bool
  /-- a field promoted from an embedded struct lies on the path (as shipped, `resolvePath` did not
      look into embedded structs: K05h) -/
  emb : Bool
  /-- as shipped (K05c): `resolvePath` pairs a slice/array *element* with the StructField of its
      *container*; `cresolves` = the path resolves and that field's tag is non-empty -/
  cresolves : Bool
  /-- what `tagValidator.Var(value, containerTag)` reports; `none` = it panics
      ("dive error! can't dive on a non slice or map"). Equal to `some tags` for struct-field paths. -/
  ctags : Option (List Bytes)
  deriving Repr

structure Opts where
  /-- `cfg.maxErrors` (0 = unlimited) -/
  maxErrors : Nat
  /-- `cfg.maxFields` (0 = default 10000) -/
  maxFields : Nat
  /-- the paths for which `cfg.redactor` answers true (nil redactor = none) -/
  redacted : List Path
  deriving Repr

/-- one `FieldError` as observed: path, code, and whether `Meta["value"]` is the redaction marker -/
structure FieldErr where
  path : Path
  code : Bytes
  hidden : Bool
  deriving Repr, DecidableEq

/-- `*validation.Error` -/
structure Result where
  fields : List FieldErr
  truncated : Bool
  deriving Repr, DecidableEq

/-- `rules[path]` — the rule table is keyed by path (first entry wins; the harness emits unique keys) -/
def ruleFor (rules : List Rule) (p : Path) : Option Rule := rules.find? fun r => r.path == p

/-- the tags reported for a path: `resolvePath` fails or the tag is empty → nothing (`continue`) -/
def ownTags (rules : List Rule) (p : Path) : List Viol :=
  match ruleFor rules p with
  | some r => if r.resolves then r.tags else []
  | none => []

def tagPrefix : Bytes := "tag.".toList

/-- `result.Add(path, "tag."+e.Tag(), msg, meta)`; the value is hidden when the redactor covers the
    path or the path of anything nested in the value (after the `fix:` commit for K05f) -/
def mkErr (o : Opts) (p : Path) (v : Viol) : FieldErr :=
  { path := p, code := tagPrefix ++ v.tag,
    hidden := o.redacted.contains p || v.shows.any o.redacted.contains }

/-- as shipped (K05f): only the error's own path is put to the redactor, so the printed value of a
    struct or slice reveals nested values the redactor covers -/
def mkErrAsIs (o : Opts) (p : Path) (v : Viol) : FieldErr :=
  { path := p, code := tagPrefix ++ v.tag, hidden := o.redacted.contains p }

/-- the `for _, path := range leaves` loop of `validatePartialLeafsOnly`: `acc` is `result.Fields`,
    `own p` the tags `Var` reports for the value at `p` under its own rule (nothing if the path does
    not resolve or has no rule) -/
def partialLoop (mk : Opts → Path → Viol → FieldErr) (own : Path → List Viol) (o : Opts) :
    List Path → List FieldErr → Result
  | [], acc => { fields := acc, truncated := false }
  | p :: rest, acc =>
    let acc' := acc ++ (own p).map (mk o p)
    -- after the `fix:` commit for K05l: `result.Fields = result.Fields[:cfg.maxErrors]` (one leaf may have
    -- contributed several errors, e.g. a `dive` rule failing on several elements)
    if o.maxErrors > 0 ∧ acc'.length ≥ o.maxErrors then { fields := acc'.take o.maxErrors, truncated := true }
    else partialLoop mk own o rest acc'

/-- as shipped (K05l): all errors of the leaf that reaches the maximum stay in the list -/
def partialLoopK05l (mk : Opts → Path → Viol → FieldErr) (own : Path → List Viol) (o : Opts) :
    List Path → List FieldErr → Result
  | [], acc => { fields := acc, truncated := false }
  | p :: rest, acc =>
    let acc' := acc ++ (own p).map (mk o p)
    if o.maxErrors > 0 ∧ acc'.length ≥ o.maxErrors then { fields := acc', truncated := true }
    else partialLoopK05l mk own o rest acc'

/-- the order of `Error.Sort`: by path, then by code -/
def errLe (a b : FieldErr) : Bool :=
  if a.path = b.path then leB a.code b.code else leB a.path b.path

def sortErrs (l : List FieldErr) : List FieldErr := l.mergeSort errLe

/-- `leaves[:maxLeaves]` -/
def maxLeaves (o : Opts) : Nat := if o.maxFields > 0 then o.maxFields else 10000

/-- `validatePartialLeafsOnly` on given leaves: `none` = returns nil -/
def partialFrom (mk : Opts → Path → Viol → FieldErr) (leaves : List Path) (own : Path → List Viol)
    (o : Opts) : Option Result :=
  let r := partialLoop mk own o (leaves.take (maxLeaves o)) []
  if r.fields.isEmpty then none else some { r with fields := sortErrs r.fields }

/-- `validatePartialLeafsOnly(val, cfg)` with `cfg.presence = pm` -/
def validatePartial (pm : List Path) (rules : List Rule) (o : Opts) : Option Result :=
  partialFrom mkErr (leafPaths pm) (ownTags rules) o

/-- K05–K05e repaired, K05f as shipped -/
def validatePartialF (pm : List Path) (rules : List Rule) (o : Opts) : Option Result :=
  partialFrom mkErrAsIs (leafPaths pm) (ownTags rules) o

/-- as shipped (K05c, K05d): the tags reported for a path when an element is validated with its
    container's rule and numeric field names do not resolve; outer `none` = `Var` panics -/
def ownTagsAsIs (rules : List Rule) (p : Path) : Option (List Bytes) :=
  match ruleFor rules p with
  | some r => if r.cresolves && !r.num then r.ctags else some []
  | none => some []

/-- K05c repaired, K05d as shipped: a path through a numerically named struct field does not resolve -/
def ownTagsNum (rules : List Rule) (p : Path) : List Viol :=
  match ruleFor rules p with
  | some r => if r.resolves && !r.num then r.tags else []
  | none => []

/-- K05h as shipped: a path through a field promoted from an embedded struct does not resolve -/
def ownTagsEmb (rules : List Rule) (p : Path) : List Viol :=
  match ruleFor rules p with
  | some r => if r.resolves && !r.emb then r.tags else []
  | none => []

/-- K05, K05b, K05c repaired, K05d as shipped -/
def validatePartialNum (pm : List Path) (rules : List Rule) (o : Opts) : Option Result :=
  partialFrom mkErrAsIs (leafPaths pm) (ownTagsNum rules) o

/-- the loop as shipped; `none` = a panic left `validatePartialLeafsOnly` -/
def partialLoopAsIs (rules : List Rule) (o : Opts) : List Path → List FieldErr → Option Result
  | [], acc => some { fields := acc, truncated := false }
  | p :: rest, acc =>
    match ownTagsAsIs rules p with
    | none => none
    | some ts =>
      let acc' := acc ++ ts.map (fun t => mkErrAsIs o p ⟨t, []⟩)
      if o.maxErrors > 0 ∧ acc'.length ≥ o.maxErrors then some { fields := acc', truncated := true }
      else partialLoopAsIs rules o rest acc'

/-- `validatePartialLeafsOnly` as shipped (K05 leaf test, K05c element rule);
    outer `none` = panic, `some none` = nil -/
def validatePartialAsIs (leaf : List Path → List Path) (pm : List Path) (rules : List Rule) (o : Opts) :
    Option (Option Result) :=
  match partialLoopAsIs rules o ((leaf pm).take (maxLeaves o)) [] with
  | none => none
  | some r => some (if r.fields.isEmpty then none else some { r with fields := sortErrs r.fields })

/-- the loop of `formatTagErrors` over `validator.ValidationErrors` (path, tag) in the validator's
    order: add, then `if maxErrors > 0 && len >= maxErrors { Truncated = true; break }` -/
def fullLoop (mk : Opts → Path → Viol → FieldErr) (o : Opts) :
    List (Path × Viol) → List FieldErr → Result
  | [], acc => { fields := acc, truncated := false }
  | (p, t) :: rest, acc =>
    let acc' := acc ++ [mk o p t]
    if o.maxErrors > 0 ∧ acc'.length ≥ o.maxErrors then { fields := acc', truncated := true }
    else fullLoop mk o rest acc'

/-- `validateWithTags` in full mode: nil when the validator reports nothing, else
    `formatTagErrors` (which sorts) -/
def validateFullWith (mk : Opts → Path → Viol → FieldErr) (errs : List (Path × Viol)) (o : Opts) :
    Option Result :=
  if errs.isEmpty then none
  else
    let r := fullLoop mk o errs []
    some { r with fields := sortErrs r.fields }

def validateFull (errs : List (Path × Viol)) (o : Opts) : Option Result := validateFullWith mkErr errs o

/-- K05f as shipped -/
def validateFullAsIs (errs : List (Path × Viol)) (o : Opts) : Option Result :=
  validateFullWith mkErrAsIs errs o

/-! ### several strategies (`WithRunAll`) and the interface strategy -/

/-- `coerceToValidationErrors` on the `*Error` a `Validate()` method returned (non-empty): cut to
    the maximum with `Truncated`, then sort -/
def coerce (errs : List FieldErr) (o : Opts) : Option Result :=
  if errs.isEmpty then none
  else if o.maxErrors > 0 ∧ errs.length > o.maxErrors then
    some { fields := sortErrs (errs.take o.maxErrors), truncated := true }
  else some { fields := sortErrs errs, truncated := false }

/-- the loop of `validateAll` over the results of the applicable strategies, in order:
    `all.AddError(err)`, then the cap test. After the `fix:` commit for K05g the list is cut to the
    maximum (`trim`); as shipped it was not. -/
def allLoop (trim : Bool) (o : Opts) : List (Option Result) → List FieldErr → Bool → Result
  | [], acc, t => { fields := acc, truncated := t }
  | none :: rest, acc, t => allLoop trim o rest acc t
  | some r :: rest, acc, t =>
    if o.maxErrors > 0 ∧ (acc ++ r.fields).length ≥ o.maxErrors then
      { fields := if trim then (acc ++ r.fields).take o.maxErrors else acc ++ r.fields, truncated := true }
    else allLoop trim o rest (acc ++ r.fields) (t || r.truncated)

/-- `validateAll` (without `requireAny`) -/
def validateAllWith (trim : Bool) (parts : List (Option Result)) (o : Opts) : Option Result :=
  let r := allLoop trim o parts [] false
  if r.fields.isEmpty then none else some { r with fields := sortErrs r.fields }

def validateAll (parts : List (Option Result)) (o : Opts) : Option Result := validateAllWith true parts o

/-- as shipped (K05g) -/
def validateAllAsIs (parts : List (Option Result)) (o : Opts) : Option Result := validateAllWith false parts o

end Rivaas.Presence
