import Rivaas.Model.Radix
/-
Executable model of the compiled routing engine (`WithRouteCompilation(true)`), as the code is in
/repo now:

  router/compiler/compiler.go  CompileRoute, AddRoute, RemoveRoute, sortRoutesBySpecificity, Freeze
  router/compiler/dynamic.go   MatchDynamic, buildFirstSegmentIndex, matchAndExtract
  router/compiler/static.go    LookupStatic
  router/compiler/bloom.go     BloomFilter
  router/radix.go              compileStaticRoutes(Recursive), countStaticRoutes, CompiledRouteTable.getRoute(WithPath)
  router/compile.go            optimalBloomFilterSize, compileRoutesForMethod, compileVersionRoutes
  router/serve.go              ServeHTTP (compiled static, compiled dynamic, per-tree table, tree), serveVersionedRequest
  router/route/route.go        RegisterRoute (compiler first, then the tree)

The hash function (FNV-1a 64) is a parameter `hash : Bytes → Nat`: tables are keyed by hash value only,
exactly like the Go maps, so a collision behaves here as it does there. The tree engine and the 404/405
path are those of Model/Radix.

Core Lean only.

Constants that mirror literals of the Go source are named defs (`@[reducible]`), tied to the regenerated
`Gen/Consts.lean` by `Tie/Consts*.lean` (added by the owner of extract/; behaviour unchanged).
-/
namespace Rivaas.Compiler
open Rivaas.Route Rivaas.Radix

/-! ### bloom filter -/

structure Bloom where
  size : Nat
  seeds : List Nat          -- `seeds[i] = i + 1`
  bits : List Nat           -- positions that are set
deriving Repr

def Bloom.new (size k : Nat) : Bloom := ⟨size, (List.range k).map (· + 1), []⟩

/-- `hashWithSeed` -/
def Bloom.pos (b : Bloom) (h seed : Nat) : Nat := (h ^^^ seed) % b.size

/-- `Add` (with the base hash already computed) -/
def Bloom.add (b : Bloom) (h : Nat) : Bloom := { b with bits := b.seeds.map (b.pos h) ++ b.bits }

/-- `Test` / `TestWithPrecomputedHash` -/
def Bloom.test (b : Bloom) (h : Nat) : Bool := b.seeds.all fun s => b.bits.contains (b.pos h s)

/-! ### compiled routes -/

structure CRoute where
  method : Bytes
  pattern : Bytes
  segCount : Nat
  statics : List (Nat × Bytes)                 -- `staticPos[i], staticSegments[i]`
  params : List (Nat × Bytes × List Nat)       -- `paramPos[i], paramNames[i], constraints[i]` (all of them)
  isStatic : Bool
  hasWildcard : Bool
  rid : Nat
deriving DecidableEq, Repr

def isSpace (c : Char) : Bool := c = ' ' || c = '\t' || c = '\n' || c = '\r' || c.toNat = 11 || c.toNat = 12

/-- `strings.TrimSpace` (ASCII white space) -/
def trimSpace (s : Bytes) : Bytes := ((s.dropWhile isSpace).reverse.dropWhile isSpace).reverse

def firstCons (name : Bytes) : List (Bytes × Nat) → Option Nat
  | [] => none
  | (n, cid) :: rest => if n = name then some cid else firstCons name rest

/-- every constraint registered under the parameter name, in order (since 6caf0d2; as shipped only the
first one was kept: `firstOnly`) -/
def consFor (firstOnly : Bool) (name : Bytes) (cons : List (Bytes × Nat)) : List Nat :=
  if firstOnly then (firstCons name cons).toList
  else (cons.filter fun c => c.1 = name).map (·.2)

/-- the per-segment analysis loop of `CompileRoute` -/
def analyse (cons : List (Bytes × Nat)) : Nat → List Bytes → List (Nat × Bytes) × List (Nat × Bytes × List Nat)
  | _, [] => ([], [])
  | i, seg :: rest =>
    let (st, ps) := analyse cons (i + 1) rest
    match seg with
    | ':' :: name => (st, (i, name, consFor false name cons) :: ps)
    | _ => ((i, seg) :: st, ps)

/-- the same loop as shipped before 6caf0d2: only the first constraint of a parameter is kept -/
def analyseAsIs (cons : List (Bytes × Nat)) : Nat → List Bytes → List (Nat × Bytes) × List (Nat × Bytes × List Nat)
  | _, [] => ([], [])
  | i, seg :: rest =>
    let (st, ps) := analyseAsIs cons (i + 1) rest
    match seg with
    | ':' :: name => (st, (i, name, consFor true name cons) :: ps)
    | _ => ((i, seg) :: st, ps)

/-- `strings.HasSuffix(segments[len(segments)-1], "*")` -/
def lastStar (segs : List Bytes) : Bool :=
  match segs.getLast? with
  | some s => s.getLast? == some '*'
  | none => false

/-- `CompileRoute(method, pattern, handlers, constraints)`. `trim` / `firstOnly` select the code as shipped
before 59d7821 (K11f: `strings.TrimSpace(pattern)`) and 6caf0d2 (K11d: first constraint per parameter). -/
def compileRouteGen (trim firstOnly : Bool) (method pattern0 : Bytes) (cons : List (Bytes × Nat)) (rid : Nat) : CRoute :=
  let p1 := if trim then trimSpace pattern0 else pattern0
  let pattern := if p1 = [] then ['/'] else p1
  if pattern = ['/'] then
    ⟨method, pattern, 0, [], [], true, false, rid⟩
  else
    let segs := splitSlash (trimSlashes pattern)
    if lastStar segs then
      ⟨method, pattern, segs.length, [], [], false, true, rid⟩
    else
      let (st, ps) := if firstOnly then analyseAsIs cons 0 segs else analyse cons 0 segs
      ⟨method, pattern, segs.length, st, ps, ps.isEmpty, false, rid⟩

def compileRoute := compileRouteGen false false

/-- the state of `RouteCompiler` -/
structure RC where
  staticRoutes : List (Nat × CRoute)     -- map keyed by `hash(method+pattern)`
  staticBloom : Bloom
  dynamic : List CRoute
  hasIndex : Bool
  hasStatic : Bool
deriving Repr

def mapSet {α} (k : Nat) (v : α) : List (Nat × α) → List (Nat × α)
  | [] => [(k, v)]
  | (k', v') :: rest => if k' = k then (k, v) :: rest else (k', v') :: mapSet k v rest

def mapGet {α} (k : Nat) : List (Nat × α) → Option α
  | [] => none
  | (k', v') :: rest => if k' = k then some v' else mapGet k rest

def mapDel {α} (k : Nat) : List (Nat × α) → List (Nat × α)
  | [] => []
  | (k', v') :: rest => if k' = k then rest else (k', v') :: mapDel k rest

/-- the inner loop of the insertion sort: put `key` after every element that is at least as specific -/
def insertSpec (key : CRoute) : List CRoute → List CRoute
  | [] => [key]
  | r :: rest => if r.statics.length < key.statics.length then key :: r :: rest else r :: insertSpec key rest

/-- `sortRoutesBySpecificity` (insertion sort, more static segments first, stable) -/
def sortSpec (l : List CRoute) : List CRoute := l.foldl (fun acc r => insertSpec r acc) []

/-- remove the first route with this method and pattern by swapping the last one into its place -/
def swapRemove (method pattern : Bytes) : List CRoute → List CRoute
  | [] => []
  | r :: rest =>
    if r.method = method ∧ r.pattern = pattern then
      match rest.getLast? with
      | some l => l :: rest.dropLast
      | none => []
    else r :: swapRemove method pattern rest

/-- `RemoveRoute(method, pattern)` -/
def RC.remove (hash : Bytes → Nat) (rc : RC) (method pattern : Bytes) : RC :=
  let dyn := swapRemove method pattern rc.dynamic
  { rc with staticRoutes := mapDel (hash (method ++ pattern)) rc.staticRoutes,
            dynamic := dyn,
            hasIndex := if dyn.length = rc.dynamic.length then rc.hasIndex else false }

/-- `AddRoute(route)` -/
def RC.add (hash : Bytes → Nat) (rc : RC) (r : CRoute) : RC :=
  if r.isStatic then
    { rc with staticRoutes := mapSet (hash (r.method ++ r.pattern)) r rc.staticRoutes,
              staticBloom := rc.staticBloom.add (hash (r.method ++ r.pattern)) }
  else if !r.hasWildcard then
    { rc with dynamic := sortSpec (rc.dynamic ++ [r]), hasIndex := false }
  else rc

def minRoutesForIndexing : Nat := 10

/-- `len(rc.staticRoutes) < 10` in LookupStatic: below it the bloom filter is skipped -/
@[reducible] def staticDirectThreshold : Nat := 10
/-- `len(table.routes) < 10` in (*CompiledRouteTable).getRoute / getRouteWithPath -/
@[reducible] def tableDirectThreshold : Nat := 10
/-- `var segments [16]string` in matchAndExtract -/
@[reducible] def maxSegments : Nat := 16
/-- inline parameter slots (`i < 8` in matchAndExtract) -/
@[reducible] def inlineSlots : Nat := 8
/-- `defaultBloomFilterSize`, `defaultBloomHashFunctions` of router.go -/
@[reducible] def defaultBloomFilterSize : Nat := 1000
@[reducible] def defaultBloomHashFunctions : Nat := 3
/-- `optimalBloomFilterSize`: bits per route and the two clamps; `max(bloomFilterSize, 100)` of compileStaticRoutes -/
@[reducible] def bloomBitsPerRoute : Nat := 10
@[reducible] def bloomMinSize : Nat := 100
@[reducible] def bloomMaxSize : Nat := 1000000
@[reducible] def tableBloomMinSize : Nat := 100

/-- `Freeze()` -/
def RC.freeze (rc : RC) : RC :=
  { rc with hasIndex := rc.hasIndex || decide (minRoutesForIndexing ≤ rc.dynamic.length),
            hasStatic := !rc.staticRoutes.isEmpty }

/-- `firstSegmentIndex[c]` as `buildFirstSegmentIndex` fills it -/
def bucket (rc : RC) (c : Char) : List CRoute :=
  rc.dynamic.filter fun r =>
    match r.pattern with
    | '/' :: f :: _ => f = c && decide (f.toNat < 128)
    | _ => false

/-- `LookupStatic(method, path)` -/
def RC.lookupStatic (hash : Bytes → Nat) (rc : RC) (method path : Bytes) : Option CRoute :=
  if !rc.hasStatic then none
  else
    let h := hash (method ++ path)
    if rc.staticRoutes.length < staticDirectThreshold then mapGet h rc.staticRoutes
    else if !rc.staticBloom.test h then none
    else mapGet h rc.staticRoutes

/-! ### matchAndExtract -/

/-- `strings.IndexByte(s, '/')` -/
def indexSlash : Bytes → Option Nat
  | [] => none
  | c :: cs => if c = '/' then some 0 else (indexSlash cs).map (· + 1)

def countSlashes (s : Bytes) : Nat := (s.filter (· = '/')).length

/-- the single-pass path parsing of the general path: like `getRoute`, the text after a trailing slash
is not a segment; at most 16 segments -/
def parseSegs16 (path : Bytes) : List Bytes := (parsePath path).1.take maxSegments

/-- what a successful match leaves in the context: the inline slots (`paramCount` of them) and the
overflow map -/
structure Extract where
  slots : List (Bytes × Bytes)
  over : SMap
deriving DecidableEq, Repr

/-- the inline constraint test: some constraint of the parameter rejects the value -/
def rejects (sat : Nat → Bytes → Bool) (cs : List Nat) (value : Bytes) : Bool :=
  cs.any fun cid => !sat cid value

/-- the first parameter loop of the general path: every position exists and every constraint accepts
its segment (nothing is written yet) -/
def paramsValid (sat : Nat → Bytes → Bool) (segs : List Bytes) : List (Nat × Bytes × List Nat) → Bool
  | [] => true
  | (pos, _, c) :: rest =>
    match segs[pos]? with
    | none => false
    | some value =>
      if rejects sat c value then false
      else paramsValid sat segs rest

/-- the second parameter loop: the writes, the first eight into the inline slots, the rest into the map -/
def paramsWrite (segs : List Bytes) :
    Nat → List (Nat × Bytes × List Nat) → List (Bytes × Bytes) → SMap → List (Bytes × Bytes) × SMap
  | _, [], slots, over => (slots, over)
  | i, (pos, name, _) :: rest, slots, over =>
    let value := (segs[pos]?).getD []
    if i < inlineSlots then paramsWrite segs (i + 1) rest (slots ++ [(name, value)]) over
    else paramsWrite segs (i + 1) rest slots (SMap.set name value over)

/-- `len(r.staticSegments) > 0 && firstSeg != r.staticSegments[0]` -/
def firstMismatch (st : Option Bytes) (seg : Bytes) : Bool :=
  match st with
  | some s => seg != s
  | none => false

/-- the two-segment fast path of `matchAndExtract` (`/resource/:id`): `st` is the static first segment,
`name`/`c` the parameter and its constraint. `emptyOK` selects the code as shipped before the K11b repair. -/
def fastMatch (emptyOK : Bool) (sat : Nat → Bytes → Bool) (st : Option Bytes) (name : Bytes) (c : List Nat)
    (path : Bytes) (over : SMap) : Bool × Extract :=
  match path with
  | '/' :: rest =>
    if path.length < 3 then (false, ⟨[], over⟩)
    else match indexSlash rest with
      | none => (false, ⟨[], over⟩)                                   -- no second segment
      | some k =>
        if (indexSlash (rest.drop (k + 1))).isSome then (false, ⟨[], over⟩)      -- a third segment
        else if firstMismatch st (rest.take k) then (false, ⟨[], over⟩)
        else if !emptyOK && (rest.drop (k + 1)).isEmpty then (false, ⟨[], over⟩)   -- K11b repair
        else if rejects sat c (rest.drop (k + 1)) then (false, ⟨[], over⟩)
        else (true, ⟨[(name, rest.drop (k + 1))], over⟩)
  | _ => (false, ⟨[], over⟩)

/-- `expectedSlashes`: the segment count, one less when the path has no leading slash -/
def expectedSlashes (n : Nat) (path : Bytes) : Nat :=
  match path with
  | '/' :: _ => n
  | _ => n - 1

/-- the general path of `matchAndExtract`: length and slash count, parse into at most 16 segments,
static segments by position, then the two parameter loops -/
def generalMatch (sat : Nat → Bytes → Bool) (r : CRoute) (path : Bytes) (over : SMap) : Bool × Extract :=
  let n := r.segCount
  if path.length < n + (n - 1) then (false, ⟨[], over⟩)
  else if countSlashes path ≠ expectedSlashes n path then (false, ⟨[], over⟩)
  else if (parseSegs16 path).length ≠ n then (false, ⟨[], over⟩)
  else if !(r.statics.all fun (x : Nat × Bytes) => (parseSegs16 path)[x.1]? == some x.2) then (false, ⟨[], over⟩)
  else if !paramsValid sat (parseSegs16 path) r.params then (false, ⟨[], over⟩)
  else (true, ⟨(paramsWrite (parseSegs16 path) 0 r.params [] over).1, (paramsWrite (parseSegs16 path) 0 r.params [] over).2⟩)

/-- `(*CompiledRoute).matchAndExtract(path, ctx)`; `over` is the context's overflow map on entry -/
def matchAndExtractGen (emptyOK : Bool) (sat : Nat → Bytes → Bool) (r : CRoute) (path : Bytes) (over : SMap) : Bool × Extract :=
  if r.segCount = 0 then (path = ['/'] || path = [], ⟨[], over⟩)
  else if r.segCount = 2 ∧ r.params.length = 1 ∧ (r.params.head?.map (·.1)) = some 1 then
    match r.params.head? with
    | some (_, name, c) => fastMatch emptyOK sat (r.statics.head?.map (·.2)) name c path over
    | none => (false, ⟨[], over⟩)
  else generalMatch sat r path over

def matchAndExtract := matchAndExtractGen false

/-- the candidate scan of `MatchDynamic`: first route of the method that matches (a candidate that
fails writes nothing since 47bf5ea; the context is threaded through all the same) -/
def scan (sat : Nat → Bytes → Bool) (method path : Bytes) : List CRoute → SMap → Option (CRoute × Extract)
  | [], _ => none
  | r :: rest, over =>
    if r.method = method then
      match matchAndExtract sat r path over with
      | (true, e) => some (r, e)
      | (false, e) => scan sat method path rest e.over
    else scan sat method path rest over

/-- `MatchDynamic(method, path, ctx)` after `Freeze` -/
def RC.matchDynamic (sat : Nat → Bytes → Bool) (rc : RC) (method path : Bytes) : Option (CRoute × Extract) :=
  match rc.hasIndex, path with
  | true, _ :: c :: _ =>
    if c.toNat < 128 then scan sat method path (bucket rc c) []
    else scan sat method path rc.dynamic []
  | _, _ => scan sat method path rc.dynamic []

/-! ### per-tree table of static routes -/

structure Table where
  routes : List (Nat × (Bytes × Leaf))   -- keyed by `hash(path)`
  bloom : Bloom
deriving Repr

/-- `countStaticRoutes` of a method tree: `staticPaths` entries plus the root when it carries "/" -/
def countStatic (t : Tree) : Nat :=
  t.statics.length +
  (match (getK t.nodes []).leaf with
   | some lf => if lf.path ≠ [] ∧ ¬ lf.path.contains ':' ∧ lf.path.getLast? ≠ some '*' then 1 else 0
   | none => 0)

/-- `optimalBloomFilterSize` -/
def optimalBloom (count : Nat) : Nat :=
  if count = 0 then defaultBloomFilterSize
  else if count * bloomBitsPerRoute < bloomMinSize then bloomMinSize
  else if count * bloomBitsPerRoute > bloomMaxSize then bloomMaxSize
  else count * bloomBitsPerRoute

/-- `compileStaticRoutesRecursive(table, "")`: only `staticPaths` entries qualify (a node reached through
edges carries a path with a `:`) -/
def fillTable (hash : Bytes → Nat) (t : Tree) (tb : Table) : Table :=
  t.statics.foldl (fun tb (p, lf) =>
    if p = [] ∨ p.contains ':' then tb
    else { routes := mapSet (hash p) (p, lf) tb.routes, bloom := tb.bloom.add (hash p) }) tb

/-- `compileRoutesForMethod` + `compileStaticRoutes`: the table hung on a main-tree root at warm-up -/
def mainTable (hash : Bytes → Nat) (bloomSize bloomK : Nat) (t : Tree) : Table :=
  let size := if bloomSize = defaultBloomFilterSize then optimalBloom (countStatic t) else bloomSize
  fillTable hash t ⟨[], Bloom.new (max size tableBloomMinSize) bloomK⟩

/-- `compileVersionRoutes` for one (version, method) tree: `none` when no table is stored -/
def versionTable (hash : Bytes → Nat) (bloomSize bloomK : Nat) (t : Tree) : Option Table :=
  if countStatic t = 0 then none
  else
    let size := if bloomSize = defaultBloomFilterSize then optimalBloom (countStatic t) else bloomSize
    let tb := fillTable hash t ⟨[], Bloom.new size bloomK⟩
    if tb.routes.isEmpty then none else some tb

/-- `CompiledRouteTable.getRoute` / `getRouteWithPath` -/
def Table.get (hash : Bytes → Nat) (tb : Table) (path : Bytes) : Option (Bytes × Leaf) :=
  if tb.routes.length < tableDirectThreshold then mapGet (hash path) tb.routes
  else if !tb.bloom.test (hash path) then none
  else mapGet (hash path) tb.routes

/-! ### the router with compilation on -/

/-- router options that matter here -/
structure Opts where
  compiled : Bool
  bloomSize : Nat      -- `WithBloomFilterSize` (0 = not given: 1000)
  bloomK : Nat         -- `WithBloomFilterHashFunctions` argument (0 = not given: 3)
  versioned : Bool     -- every route is registered in one version tree that every request selects
  /-- version tree only: `some k` = `Warmup()` is called explicitly before the k-th registration of the
  script (the version cache is compiled from the first k routes and never refreshed; later routes are
  registered immediately, every chained `Where*` re-registers them in place); `none` = warm-up after
  the last registration -/
  warmAt : Option Nat := none
deriving DecidableEq, Repr

def Opts.size (o : Opts) : Nat := if o.bloomSize = 0 then defaultBloomFilterSize else o.bloomSize
def Opts.k (o : Opts) : Nat := if o.bloomK = 0 then defaultBloomHashFunctions else max 1 (min o.bloomK 10)

def RC.empty : RC := ⟨[], Bloom.new defaultBloomFilterSize defaultBloomHashFunctions, [], false, false⟩

/-- `RegisterRoute` for a main-tree route, compiler part -/
def rcRegister (hash : Bytes → Nat) (rc : RC) (rid : Nat) (g : Reg) : RC :=
  let cr := compileRoute g.method (fullPathOf g) g.cons rid
  (rc.remove hash g.method (fullPathOf g)).add hash cr

def rcBuildFrom (hash : Bytes → Nat) (rc : RC) : Nat → List Reg → RC
  | _, [] => rc
  | i, g :: gs => rcBuildFrom hash (rcRegister hash rc i g) (i + 1) gs

/-- the compiler after warm-up and `Freeze` -/
def rcBuild (hash : Bytes → Nat) (script : List Reg) : RC := (rcBuildFrom hash RC.empty 0 script).freeze

/-- `serveCompiledRoute`: static hit, no parameters -/
def servedStatic (cr : CRoute) (req : Req) : Obs :=
  { status := 200, allow := [], ran := some cr.rid, noRoute := false, pattern := cr.pattern,
    params := [], lookups := req.ask.map fun n => (n, []) }

/-- `serveCompiledRouteWithParams` -/
def servedDynamic (cr : CRoute) (e : Extract) (req : Req) : Obs :=
  served ⟨cr.rid, [], cr.pattern, []⟩ ⟨e.slots, e.over⟩ req

/-- `serveStaticRoute(handlers, path, …)`: hit in the per-tree table, the pattern reported is the path -/
def servedTable (lf : Leaf) (path : Bytes) (req : Req) : Obs :=
  { status := 200, allow := [], ran := some lf.rid, noRoute := false, pattern := path,
    params := [], lookups := req.ask.map fun n => (n, []) }

/-- `ServeHTTP`, main tree, compilation on -/
def serveCompiled (hash : Bytes → Nat) (sat : Nat → Bytes → Bool) (o : Opts) (script : List Reg) (noRoute : Bool) (req : Req) : Obs :=
  let rc := rcBuild hash script
  let r := build noRoute script
  match rc.lookupStatic hash req.method req.path with
  | some cr => servedStatic cr req
  | none =>
    match rc.matchDynamic sat req.method req.path with
    | some (cr, e) => servedDynamic cr e req
    | none =>
      match treeOf r req.method with
      | some t =>
        match (mainTable hash o.size o.k t).get hash req.path with
        | some (_, lf) => servedTable lf req.path req
        | none =>
          match getRoute sat t req.path Ctx.fresh with
          | (some lf, ctx) => served lf ctx req
          | (none, _) => notFound sat r req
      | none => notFound sat r req

/-- the registrations that warm-up has seen -/
def Opts.warmed (o : Opts) (script : List Reg) : List Reg :=
  match o.warmAt with
  | some k => script.take k
  | none => script

/-- `compileVersionRoutes` at warm-up, then `versionCache.Load(version + ":" + method)` and
`getRouteWithPath`: the table of the method tree as it was at warm-up -/
def versionLookup (hash : Bytes → Nat) (o : Opts) (warmed : List Reg) (m path : Bytes) : Option (Bytes × Leaf) :=
  (((build false warmed).trees.find? (·.1 = m)).map (·.2)).bind fun tw =>
    (versionTable hash o.size o.k tw).bind (·.get hash path)

/-- `ServeHTTP` when every route lives in the version tree the request selects: the main trees are
empty, `serveVersionedRequest` consults the version cache (compiled at warm-up) and then the tree; a
miss ends in `handleNotFound` against the (empty) main trees. Route compilation does not enter. -/
def serveVersioned (hash : Bytes → Nat) (sat : Nat → Bytes → Bool) (o : Opts) (script : List Reg) (noRoute : Bool) (req : Req) : Obs :=
  let r := build noRoute script
  let empty : Router := ⟨[], noRoute⟩
  match (r.trees.find? (·.1 = req.method)).map (·.2) with
  | some t =>
    match versionLookup hash o (o.warmed script) req.method req.path with
    | some (p, lf) => servedTable lf p req
    | none =>
      match getRoute sat t req.path Ctx.fresh with
      | (some lf, ctx) => served lf ctx req
      | (none, _) => notFound sat empty req
  | none => notFound sat empty req

/-- the engine selected by the options -/
def serveWith (hash : Bytes → Nat) (sat : Nat → Bytes → Bool) (o : Opts) (script : List Reg) (noRoute : Bool) (req : Req) : Obs :=
  if o.versioned then serveVersioned hash sat o script noRoute req
  else if o.compiled then serveCompiled hash sat o script noRoute req
  else serve sat (build noRoute script) req

end Rivaas.Compiler
