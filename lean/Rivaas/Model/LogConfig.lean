import Rivaas.Basic
/-
C20 — construction of a `logging.Logger` and what it then *accepts*: option handling (`logging/options.go`),
`Validate`, and the acceptance path of the level methods (`Logger.log`: shutdown check → `Enabled` → `shouldSample`
→ `slog.Logger.Log`). Anchors: logging/options.go, logging/logger.go (`defaultLogger`, `New`, `Validate`,
`shouldSample`, `log`, `SetLevel`, `Shutdown`).

"Accepted" is the notion the buffering half of the property quantifies over ("every record accepted while buffering is
delivered"); this file says which calls are accepted for a given option list, statement by statement:

* options are applied left to right, the last one wins; `WithDebugMode(true)` also sets `addSource` and the level
  Debug, `WithDebugMode(false)` only clears the flag;
* `Validate`: nil output → error; `WithCustomLogger(nil)` → error; negative `Initial` / `Thereafter` → error;
* `log`: dropped when shutting down, dropped below the level, errors (level ≥ Error) bypass sampling *without
  counting*, every other enabled call increments the counter and passes iff `count ≤ Initial`, or `Thereafter = 0`, or
  `(count - Initial) % Thereafter = 0`.

The ticker that resets the counter (`Tick > 0`) is timing and is not modelled (the harness uses `Tick = 0`).
Levels: 0 debug, 1 info, 2 warn, 3 error. Core Lean only.
-/
namespace Rivaas.LogConfig

inductive Opt where
  /-- WithJSONHandler / WithTextHandler / WithConsoleHandler / WithHandlerType: 0 json 1 text 2 console 3 unknown -/
  | handler (h : Nat)
  | level (l : Nat)
  | debugLevel
  | source (b : Bool)
  | debugMode (b : Bool)
  /-- WithSampling{Initial, Thereafter} (Tick = 0) -/
  | sampling (initial thereafter : Int)
  /-- WithOutput(nil) / WithOutput(w) -/
  | output (isNil : Bool)
  /-- WithCustomLogger(nil) / WithCustomLogger(l) -/
  | custom (isNil : Bool)
  deriving DecidableEq, Repr

structure Cfg where
  handler : Nat := 0
  level : Nat := 1
  addSource : Bool := false
  debugMode : Bool := false
  sampling : Option (Int × Int) := none
  outputNil : Bool := false
  useCustom : Bool := false
  customNil : Bool := false
  deriving DecidableEq, Repr

/-- one option function applied to the Logger under construction -/
def apply (c : Cfg) : Opt → Cfg
  | .handler h => { c with handler := h }
  | .level l => { c with level := l }
  | .debugLevel => { c with level := 0 }
  | .source b => { c with addSource := b }
  | .debugMode b => if b then { c with debugMode := true, addSource := true, level := 0 } else { c with debugMode := false }
  | .sampling i t => { c with sampling := some (i, t) }
  | .output n => { c with outputNil := n }
  | .custom n => { c with useCustom := true, customNil := n }

/-- `New`: `defaultLogger()` then every option in order -/
def configure (opts : List Opt) : Cfg := opts.foldl apply {}

inductive NewRes where
  | ok
  /-- "invalid configuration: …" from `Validate` -/
  | invalid
  /-- `ErrInvalidHandler` from `initializeHandler` -/
  | badHandler
  deriving DecidableEq, Repr

/-- `Validate` then `initialize` -/
def newRes (c : Cfg) : NewRes :=
  if c.outputNil then .invalid
  else if c.useCustom && c.customNil then .invalid
  else if (match c.sampling with | some (i, t) => decide (i < 0) || decide (t < 0) | none => false) then .invalid
  else if !c.useCustom && decide (c.handler > 2) then .badHandler
  else .ok

/-- `shouldSample` for a non-error call, `count` = the counter after its increment -/
def samplePass (s : Option (Int × Int)) (count : Nat) : Bool :=
  match s with
  | none => true
  | some (i, t) =>
    if (count : Int) ≤ i then true
    else if t == 0 then true
    else ((count : Int) - i) % t == 0

/-- an event in the life of the Logger as far as acceptance goes -/
inductive Call where
  | log (lvl : Nat)
  | setLevel (lvl : Nat)
  | shutdown
  deriving DecidableEq, Repr

structure ASt where
  level : Nat
  count : Nat := 0
  down : Bool := false
  deriving Repr

/-- `Logger.log` / `SetLevel` / `Shutdown`: the new state and, for a log call, whether the record goes on to the
    handler (the custom logger's own level is not rivaas code: `useCustom` loggers are not driven here) -/
def stepCall (c : Cfg) (st : ASt) : Call → ASt × Option Bool
  | .setLevel l => ({ st with level := l }, none)
  | .shutdown => ({ st with down := true }, none)
  | .log lvl =>
    if st.down then (st, some false)
    else if lvl < st.level then (st, some false)
    else if lvl ≥ 3 then (st, some true)
    else if c.sampling.isNone then (st, some true)   -- the counter is touched only with a sampling config
    else
      let n := st.count + 1
      ({ st with count := n }, some (samplePass c.sampling n))

def runCalls (c : Cfg) : ASt → List Call → List Bool
  | _, [] => []
  | st, x :: rest =>
    let r := stepCall c st x
    match r.2 with
    | some b => b :: runCalls c r.1 rest
    | none => runCalls c r.1 rest

/-- which log calls of a history are accepted (one Boolean per log call, in order) -/
def accepted (opts : List Opt) (calls : List Call) : List Bool :=
  let c := configure opts
  runCalls c { level := c.level } calls

end Rivaas.LogConfig
