import Rivaas.Model.CompressAsIs
/-
middleware/compression as it is now (after the `fix:` commits of C15): `chooseEncoding` /
`parseCoding` / `parseQValue` at character level, the early exits of `New`, and the repaired
compressWriter, statement by statement after compression.go.

Writer in three phases (`decided`, `compress`):
  undecided   — status recorded, headers snapshotted at the logical commit (`committed`), body bytes
                held back in `buffer` until `holdBack` = max(threshold, 512 when no Content-Type was
                committed) is reached, a Flush arrives, or the middleware closes;
  passthrough — skip status (204/304/206), excluded / streaming content type, handler-set
                Content-Encoding, response below the threshold: everything goes to the base writer;
  compressing — header block sent with Content-Encoding / Vary (Content-Length dropped, Content-Type
                sniffed from the held-back bytes when the handler set none), body through the encoder.

`Flush` returns at once when the writer underneath is not an http.Flusher; the handler's Flush operation
exists for the model only when it is one (the harness's dry run decides that the same way the plain
handler's type assertion does).

The encoder is abstract: `plain` records what was handed to it, `closed` whether its stream was
finished; the codec contract (decode ∘ encode-stream = concatenation, for the real gzip / brotli
codecs) is what the harness checks by decoding, and what `Codec` states for the theorems.
Shares `Cfg`, `shouldSkipStatus`, `shouldSkipContentType` and the byte-string helpers with
`CompressAsIs` (those parts of the code did not change).  Core Lean only.

Constants that mirror literals of the Go source are named defs (`@[reducible]`), tied to the regenerated
`Gen/Consts.lean` by `Tie/Consts*.lean` (added by the owner of extract/; behaviour unchanged).
-/
namespace Rivaas.Compress
open Rivaas.Http

/-! ### Accept-Encoding, token by token -/

/-- strings.Cut(s, sep) for a one-byte separator: (before, after, found) -/
def cut (sep : Char) : Bytes → Bytes × Bytes × Bool
  | [] => ([], [], false)
  | c :: cs =>
    if c == sep then ([], cs, true)
    else let r := cut sep cs; (c :: r.1, r.2.1, r.2.2)

theorem cut_after_le (sep : Char) (s : Bytes) : (cut sep s).2.1.length ≤ s.length := by
  induction s with
  | nil => simp [cut]
  | cons c cs ih =>
    simp only [cut]
    split
    · simp
    · simp; omega

def isTabSp (c : Char) : Bool := c == ' ' || c == '\t'
/-- strings.Trim(s, " \t") -/
def trimTS (s : Bytes) : Bytes := ((s.dropWhile isTabSp).reverse.dropWhile isTabSp).reverse

/-- strings.EqualFold against an ASCII word without `k`/`s` (then only ASCII case variants fold to it) -/
def eqFold (a b : Bytes) : Bool := lowerA a == lowerA b

/-- parseQValue: an RFC 9110 qvalue in thousandths, 0 for anything else -/
def parseQValue (s : Bytes) : Nat :=
  match s with
  | [] => 0
  | c0 :: rest =>
    if s.length > 5 || (c0 != '0' && c0 != '1') then 0
    else
      let q0 := (c0.toNat - 48) * 1000
      match rest with
      | [] => q0
      | d :: frac =>
        if d != '.' then 0
        else if !(frac.all (fun c => '0' ≤ c && c ≤ '9')) then 0
        else
          let q := q0 + (frac.zip [100, 10, 1]).foldl (fun a p => a + (p.1.toNat - 48) * p.2) 0
          if q > 1000 then 0 else q

/-- the parameter loop of parseCoding: the last `q` wins -/
def paramsQ (params : Bytes) (q : Nat) : Nat :=
  if h : params = [] then q
  else
    let r := cut ';' params
    let nv := cut '=' r.1
    let q' := if nv.2.2 && eqFold (trimTS nv.1) ['q'] then parseQValue (trimTS nv.2.1) else q
    paramsQ r.2.1 q'
termination_by params.length
decreasing_by
  have := cut_after_le ';' params
  cases params with
  | nil => exact absurd rfl h
  | cons c cs =>
    simp only [cut] at *
    split
    · simp
    · simp; have := cut_after_le ';' cs; omega

/-- parseCoding: coding token (trimmed) and quality in thousandths -/
def parseCoding (element : Bytes) : Bytes × Nat :=
  let r := cut ';' element
  (trimTS r.1, paramsQ r.2.1 1000)

/-- the element loop of chooseEncoding: quality of `br` and of `gzip`, `none` = not listed -/
def scanAE (ae : Bytes) (brQ gzQ : Option Nat) : Option Nat × Option Nat :=
  if h : ae = [] then (brQ, gzQ)
  else
    let r := cut ',' ae
    let cq := parseCoding r.1
    if eqFold cq.1 brB then scanAE r.2.1 (some cq.2) gzQ
    else if eqFold cq.1 gzipB then scanAE r.2.1 brQ (some cq.2)
    else scanAE r.2.1 brQ gzQ
termination_by ae.length
decreasing_by
  all_goals
    cases ae with
    | nil => exact absurd rfl h
    | cons c cs =>
      simp only [cut]
      split
      · simp
      · simp; have := cut_after_le ',' cs; omega

/-- `brQ >= gzipQ` with -1 for "not listed" -/
def qGe (a : Nat) (b : Option Nat) : Bool :=
  match b with
  | none => true
  | some y => a ≥ y

def chooseEncoding (ae : Bytes) (cfg : Cfg) : Bytes :=
  let r := scanAE ae none none
  let brOK := match r.1 with
    | some b => cfg.br && b > 0 && qGe b r.2
    | none => false
  let gzOK := match r.2 with
    | some g => cfg.gzip && g > 0
    | none => false
  if brOK then brB else if gzOK then gzipB else []

/-- the early exits of `New` -/
def active (cfg : Cfg) (path ae : Bytes) (h0 : Hdrs) : Bytes :=
  if cfg.exclPaths.any (· == path) then []
  else if cfg.exclExts.any (fun e => hasSuffix path e) then []
  else if !(hfirst h0 kCE).isEmpty then []       -- "already compressed": an outer middleware set Content-Encoding
  else chooseEncoding ae cfg

/-! ### options.go: `defaultConfig()` and the `With…` options, folded in the order `New` applies them -/

/-- the functional options of compression/options.go -/
inductive Opt
  | gzipLevel (n : Int)
  | brotliLevel (n : Int)
  | brotliDisabled
  | gzipDisabled
  | minSize (n : Int)
  | exclPaths (l : List Bytes)
  | exclExts (l : List Bytes)
  | exclCT (l : List Bytes)
  | logger
  deriving DecidableEq, Repr

/-- the Go `config` (the three exclusion maps as lists: a map insert is an append, lookups are memberships) -/
structure Config where
  gzipLevel : Int
  brotliLevel : Int
  minSize : Int
  enableGzip : Bool
  enableBrotli : Bool
  exclPaths : List Bytes
  exclExts : List Bytes
  exclCT : List Bytes
  deriving DecidableEq, Repr

/-- `defaultConfig()`: gzip.DefaultCompression (-1), brotli 4, no threshold, both codings, nothing excluded -/
def defaultConfig : Config :=
  { gzipLevel := -1, brotliLevel := 4, minSize := 0, enableGzip := true, enableBrotli := true,
    exclPaths := [], exclExts := [], exclCT := [] }

/-- one option applied (`WithBrotliLevel` clamps to [0, 11]: `max(0, min(level, 11))`; the exclusion options
    insert into the maps; `WithLogger` does not touch anything the response depends on) -/
def applyOpt (c : Config) : Opt → Config
  | .gzipLevel n => { c with gzipLevel := n }
  | .brotliLevel n => { c with brotliLevel := max 0 (min n 11) }
  | .brotliDisabled => { c with enableBrotli := false }
  | .gzipDisabled => { c with enableGzip := false }
  | .minSize n => { c with minSize := n }
  | .exclPaths l => { c with exclPaths := c.exclPaths ++ l }
  | .exclExts l => { c with exclExts := c.exclExts ++ l }
  | .exclCT l => { c with exclCT := c.exclCT ++ l }
  | .logger => c

/-- `cfg := defaultConfig(); for _, opt := range opts { opt(cfg) }` -/
def config (opts : List Opt) : Config := opts.foldl applyOpt defaultConfig

/-- what the handler closure reads of the configuration. The threshold is an `int` that is only ever compared
    with lengths (`len(buffer)+len(data) < holdBack()`, `len(buffer) >= threshold`, `threshold < sniffLen`,
    `minSize > 0`): a negative value behaves as 0. The levels select the encoder pool only (codec parameter). -/
def Config.toCfg (c : Config) : Cfg :=
  { minSize := c.minSize.toNat, gzip := c.enableGzip, br := c.enableBrotli,
    exclCT := c.exclCT, exclPaths := c.exclPaths, exclExts := c.exclExts }

/-! ### the repaired compressWriter -/

structure CW where
  base : Base := {}
  thr : Nat
  enc : Bytes
  exclCT : List Bytes
  buffer : Bytes := []
  committed : Option Hdrs := none
  trailers : Option (Hdrs × Hdrs) := none   -- (committed map, trailer entries taken aside) between restoreHeader and restoreTrailers
  headersSent : Bool := false
  status : Nat := 0
  decided : Bool := false
  compress : Bool := false
  hasWriter : Bool := false
  evs : List (Option Bytes) := []   -- what the encoder saw, in order: `some d` a Write, `none` a Flush
  closed : Bool := false       -- the encoder's stream was finished
  restored : Bool := false     -- the deferred finalisation ran (handler panic): c.Response is the base writer again
  deriving Repr

def CW.panicked (w : CW) : Bool := w.base.panicked

/-- the bytes handed to the encoder, concatenated -/
def plainOf (evs : List (Option Bytes)) : Bytes := (evs.filterMap id).flatten
def CW.plain (w : CW) : Bytes := plainOf w.evs

def CW.initCompression (w : CW) : CW :=
  let h := hdel w.base.live kCL
  let h := hset h kCE [w.enc]
  let h := hset h kVary ["Accept-Encoding".toList]
  let w := { w with base := { w.base with live := h } }
  let w := if !w.headersSent then { w with base := w.base.writeHeader w.status, headersSent := true } else w
  { w with hasWriter := true }

/-- restoreHeader: the live map goes back to what the handler committed; the trailer entries of the map
    as the handler left it (set, changed or — by their absence — deleted since the commit) are taken aside,
    together with the committed map that says which keys are trailers -/
def CW.restoreHeader (w : CW) : CW :=
  match w.committed with
  | none => w
  | some h =>
    { w with base := { w.base with live := h }, committed := none,
             trailers := some (h, w.base.live.filter (fun kv => isTrailerKey h kv.1)) }

/-- restoreTrailers, after the header block: every trailer key gets the value taken aside (a trailer the
    handler deleted ends up without a value: as a map, absent) -/
def CW.restoreTrailers (w : CW) : CW :=
  match w.trailers with
  | none => w
  | some (h, late) =>
    { w with base := { w.base with live := w.base.live.filter (fun kv => !isTrailerKey h kv.1) ++ late },
             trailers := none }

/-- `const sniffLen = 512` -/
@[reducible] def sniffLen : Nat := 512

/-- start(pending, compress): the decision; returns the error of the write it performs -/
def CW.start (sn : Sniff) (w : CW) (pending : Bytes) (compress : Bool) : CW × Err :=
  let w := w.restoreHeader
  let compress := if !(hfirst w.base.live kCE).isEmpty then false else compress
  let w := { w with decided := true, compress := compress, buffer := [] }
  if !compress then
    let w := if w.status != 0 && !w.headersSent then
        { w with base := w.base.writeHeader w.status, headersSent := true } else w
    let w := w.restoreTrailers
    if !pending.isEmpty then
      let r := w.base.write sn pending
      ({ w with base := r.1 }, r.2.err)
    else (w, .ok)
  else
    let live := w.base.live
    let live := if !hhas live kCT && !pending.isEmpty then hset live kCT [sn (pending.take sniffLen)] else live
    let w := (({ w with base := { w.base with live := live } }).initCompression).restoreTrailers
    if !pending.isEmpty then ({ w with evs := w.evs ++ [some pending] }, .ok) else (w, .ok)

def CW.writeHeader (w : CW) (c : Nat) : CW :=
  if w.headersSent || w.status != 0 then w
  else if informational c then { w with base := w.base.writeHeader c }
  else
    let w := { w with status := c }
    if shouldSkipStatus c || shouldSkipContentType (hfirst w.base.live kCT) w.exclCT then
      { w with compress := false, decided := true, base := w.base.writeHeader c, headersSent := true }
    else { w with committed := some w.base.live }

def CW.holdBack (w : CW) : Nat :=
  let haveType := match w.committed with
    | some h => hhas h kCT
    | none => false
  if !haveType && w.thr < sniffLen then sniffLen else w.thr

def CW.implicitOK (w : CW) : CW :=
  if w.status == 0 && !w.headersSent then w.writeHeader 200 else w

def CW.write (sn : Sniff) (w : CW) (d : Bytes) : CW × WOut :=
  let w := w.implicitOK
  if w.decided then
    if w.compress then ({ w with evs := w.evs ++ [some d] }, ⟨d.length, .ok⟩)
    else let r := w.base.write sn d; ({ w with base := r.1 }, r.2)
  else if w.buffer.length + d.length < w.holdBack then
    ({ w with buffer := w.buffer ++ d }, ⟨d.length, .ok⟩)
  else
    let r := w.start sn (w.buffer ++ d) true
    (r.1, if r.2 != .ok then ⟨0, r.2⟩ else ⟨d.length, .ok⟩)

def CW.flush (sn : Sniff) (w : CW) : CW :=
  let w := w.implicitOK
  let w := if !w.decided then (w.start sn w.buffer (w.buffer.length ≥ w.thr)).1 else w
  let w := if w.compress && w.hasWriter then { w with evs := w.evs ++ [none] } else w
  { w with base := w.base.flush sn }

def CW.close (sn : Sniff) (w : CW) : CW :=
  let r := if !w.decided then w.start sn w.buffer (w.buffer.length > 0 && w.buffer.length ≥ w.thr) else (w, .ok)
  if r.2 != .ok then r.1
  else if r.1.compress && r.1.hasWriter then { r.1 with closed := true }
  else r.1

def CW.step (sn : Sniff) (w : CW) (o : Op) : CW × Option WOut :=
  if w.restored then
    -- after the deferred restore the handler chain (the recovery middleware) talks to the base writer
    let r := plainStep sn w.base o
    ({ w with base := r.1 }, r.2)
  else
    match o with
    | .setH k vs => ({ w with base := { w.base with live := hset w.base.live k vs } }, none)
    | .delH k => ({ w with base := { w.base with live := hdel w.base.live k } }, none)
    | .writeHeader c => (w.writeHeader c, none)
    | .write d => let r := w.write sn d; (r.1, some r.2)
    | .flush => (w.flush sn, none)
    | .copy cs => let r := copyLoop (CW.write sn) w cs 0; (r.1, some r.2)
    | .panic => ({ w.close sn with restored := true }, none)

/-- the state in which the middleware leaves the writer when the chain has returned -/
def finalCW (sn : Sniff) (cfg : Cfg) (enc : Bytes) (h0 : Hdrs) (ops : List Op) : CW × List WOut :=
  let r := runOps (CW.step sn) ({ base := { live := h0 }, thr := cfg.minSize, enc := enc, exclCT := cfg.exclCT } : CW) ops
  (if r.1.restored then r.1 else r.1.close sn, r.2)

/-- the trailers of the exchange with the middleware; `wireBig`: the encoder produced more than 2048
    bytes (a property of the codec, shipped by the harness) -/
def withTrailers (sn : Sniff) (cfg : Cfg) (path ae : Bytes) (h0 : Hdrs) (ops : List Op) (wireBig : Bool) : Hdrs :=
  let enc := active cfg path ae h0
  if enc.isEmpty then (runOps (plainStep sn) { live := h0 } ops).1.trailersAtFinish sn false
  else
    let w := (finalCW sn cfg enc h0 ops).1
    w.base.trailersAtFinish sn (w.compress && w.hasWriter && wireBig)

def runWith (sn : Sniff) (cfg : Cfg) (path ae : Bytes) (h0 : Hdrs) (ops : List Op) : WithResp :=
  let enc := active cfg path ae h0
  if enc.isEmpty then
    let r := runPlain sn h0 ops
    { panicked := r.1.panicked, resp := r.1.resp, decoded := some r.1.resp.body, outs := r.2 }
  else
    let r := finalCW sn cfg enc h0 ops
    let w := r.1
    let b := w.base.finish sn
    if w.compress && w.hasWriter then
      -- the body on the wire is the encoder's output (followed by whatever was written raw after a
      -- restore); it decodes to `plain` iff the stream was finished and nothing follows it
      { panicked := w.panicked, resp := { b.resp with body := [] },
        decoded := if w.closed && b.body.isEmpty then some w.plain else none, outs := r.2 }
    else
      { panicked := w.panicked, resp := b.resp, decoded := some b.resp.body, outs := r.2 }

/-! ### an outer middleware that uses the writer before the chain reaches the compression middleware -/

/-- the bare writer after a middleware in front ran `pre` on it (`h0`: headers set before that) -/
def preBase (sn : Sniff) (h0 : Hdrs) (pre : List Op) : Base := (runOps (plainStep sn) { live := h0 } pre).1

/-- the exchange without the middleware: `pre` by the outer middleware, `ops` by the handler (its results only) -/
def runPlainFrom (sn : Sniff) (h0 : Hdrs) (pre ops : List Op) : Base × List WOut :=
  let r := runOps (plainStep sn) (preBase sn h0 pre) ops
  (r.1.finish sn, r.2)

/-- the state in which the middleware leaves a writer it found in state `b0` -/
def finalCWFrom (sn : Sniff) (cfg : Cfg) (enc : Bytes) (b0 : Base) (ops : List Op) : CW × List WOut :=
  let r := runOps (CW.step sn) ({ base := b0, thr := cfg.minSize, enc := enc, exclCT := cfg.exclCT } : CW) ops
  (if r.1.restored then r.1 else r.1.close sn, r.2)

/-- the exchange with the middleware when the writer it wraps has already been used: `New` reads the live header map
    for its early exit and wraps the writer in the state it finds it — it cannot see whether the header block is
    already committed. `runWithFrom … [] ops` is `runWith … ops`. -/
def runWithFrom (sn : Sniff) (cfg : Cfg) (path ae : Bytes) (h0 : Hdrs) (pre ops : List Op) : WithResp :=
  let b0 := preBase sn h0 pre
  let enc := active cfg path ae b0.live
  if enc.isEmpty then
    let r := runPlainFrom sn h0 pre ops
    { panicked := r.1.panicked, resp := r.1.resp, decoded := some r.1.resp.body, outs := r.2 }
  else
    let r := finalCWFrom sn cfg enc b0 ops
    let w := r.1
    let b := w.base.finish sn
    if w.compress && w.hasWriter then
      { panicked := w.panicked, resp := { b.resp with body := [] },
        decoded := if w.closed && b.body.isEmpty then some w.plain else none, outs := r.2 }
    else
      { panicked := w.panicked, resp := b.resp, decoded := some b.resp.body, outs := r.2 }

/-- the encoder ran but the header block that went out does not announce the coding (it was committed before the
    middleware set Content-Encoding): the client takes the encoded bytes for the body -/
def CW.unlabelled (sn : Sniff) (w : CW) : Bool :=
  w.compress && w.hasWriter && (hfirst (w.base.finish sn).resp.hdrs kCE != w.enc)

def unlabelled (sn : Sniff) (cfg : Cfg) (path ae : Bytes) (h0 : Hdrs) (pre ops : List Op) : Bool :=
  let b0 := preBase sn h0 pre
  let enc := active cfg path ae b0.live
  if enc.isEmpty then false else (finalCWFrom sn cfg enc b0 ops).1.unlabelled sn

end Rivaas.Compress
