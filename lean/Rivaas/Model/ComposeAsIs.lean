import Rivaas.Model.Compose
/-
C02 — the as-shipped `app.Group` (before the K02 `fix:` commit): `App.Group` stored the caller's
variadic slice itself, and `Group.Use` is `g.middleware = append(g.middleware, …)`. Go slices are
(array, len, cap): two groups built from one caller slice with spare capacity share the array, and
`append` within capacity writes into it. Only the app-group fragment of the script language is
interpreted here (`agroup`, `aguse`, `aroute` on an app group); it exists for the witness theorem
`Rivaas.C02.asis_sibling_alias`.
-/
namespace Rivaas.ComposeAsIs
open Rivaas.Compose

/-- a Go slice header over the array store -/
structure Slice where
  arr : Nat
  len : Nat
  cap : Nat
  deriving Repr, DecidableEq, Inhabited

structure AW where
  /-- backing arrays: caller arrays are keyed by the id in the script, arrays allocated by
      `append` get fresh keys from `next` -/
  arrays : List (Nat × List Hid) := []
  next : Nat := 1000
  groups : List (Path × Slice) := []
  routes : List (Path × List Hid) := []
  deriving Repr, Inhabited

def getArr (w : AW) (a : Nat) : List Hid := ((w.arrays.find? (·.1 == a)).map (·.2)).getD []

def setArr (w : AW) (a : Nat) (v : List Hid) : AW :=
  { w with arrays := (a, v) :: w.arrays.filter (·.1 != a) }

def readSlice (w : AW) (s : Slice) : List Hid := (getArr w s.arr).take s.len

/-- `append(s, hs...)` -/
def appendSlice (w : AW) (s : Slice) (hs : List Hid) : AW × Slice :=
  if s.len + hs.length ≤ s.cap then
    -- within capacity: write into the shared array
    let old := getArr w s.arr
    let new := old.take s.len ++ hs ++ old.drop (s.len + hs.length)
    (setArr w s.arr new, { s with len := s.len + hs.length })
  else
    -- grow: a fresh array owned by this slice alone
    let new := readSlice w s ++ hs
    (setArr { w with next := w.next + 1 } w.next new, { arr := w.next, len := new.length, cap := new.length })

def apply (w : AW) : Op → AW
  | .agroup seg hs arr cap =>
    if arr = 0 then
      let w := setArr { w with next := w.next + 1 } w.next hs
      { w with groups := w.groups ++ [([seg], { arr := w.next - 1, len := hs.length, cap := hs.length })] }
    else
      -- the caller's array `arr` (created on first use, `cap` slots) sliced to `[:len hs]`
      let w := if w.arrays.any (·.1 == arr) then w else setArr w arr (hs ++ List.replicate (cap - hs.length) 0)
      { w with groups := w.groups ++ [([seg], { arr := arr, len := hs.length, cap := cap })] }
  | .aguse g hs =>
    match w.groups[g]? with
    | some (p, s) =>
      let (w, s') := appendSlice w s hs
      { w with groups := modifyAt w.groups g fun _ => (p, s') }
    | none => w
  | .aroute (.agroup g) seg before h after =>
    match w.groups[g]? with
    | some (p, s) => { w with routes := w.routes ++ [(p ++ [seg], readSlice w s ++ before ++ [h] ++ after)] }
    | none => w
  | _ => w

def composeAsIs (script : List Op) (path : Path) : Option (List Hid) :=
  ((script.foldl apply {}).routes.find? (·.1 == path)).map (·.2)

/-! ### `Router.Mount` as shipped (before the K02b `fix:` commit) -/

/-- `mergeSubrouterRoutes` as shipped: the pending routes from the `Route` objects; and, when there are routes but
    none is pending (the sub-router was warmed up), the registered ones read back from the sub-router's main trees
    — whose handler slices already start with the sub-router's middleware of registration time -/
def mountOpAsIs (w : World) (parent sub seg : Nat) (inherit : Bool) (extra : List Hid) : World :=
  match w.routers[parent]?, w.routers[sub]? with
  | some p, some s =>
    let chain := (if inherit then p.mw else []) ++ s.mw ++ extra
    let w1 := s.pending.foldl (fun w rt => w.addRouteOn parent { ver := none, path := seg :: rt.path, hs := chain ++ rt.hs }) w
    if s.hasInfo && s.pending.isEmpty then
      (s.tree.filter (·.ver.isNone)).foldl
        (fun w rt => w.addRouteOn parent { ver := none, path := seg :: rt.path, hs := chain ++ rt.hs }) w1
    else w1
  | _, _ => w

def applyMountAsIs (w : World) : Op → World
  | .mount parent sub seg inherit extra => mountOpAsIs w parent sub seg inherit extra
  | op => Rivaas.Compose.apply w op

/-- `compose` with the as-shipped `Mount` -/
def composeMountAsIs (script : List Op) (ver : Option Nat) (path : Path) : Option (List Hid) :=
  match (script.foldl applyMountAsIs {}).routers[0]? with
  | some r => findRoute (warmup r).tree ver path
  | none => none

end Rivaas.ComposeAsIs
