import Rivaas.Basic
/-
Model of router/accept.go (content negotiation) as it is in /repo after the C19 `fix:` commits,
statement by statement at byte level, plus the as-shipped variants (`…AsIs`) kept for the witness
theorems. Core Lean only.

Go strings are `Bytes` (one `Char` per byte). `float64` qualities are naturals in millionths:
`float64(q)/1000.0` and the `strconv.ParseFloat` fallback are both correctly rounded doubles of a
decimal with at most six fractional digits on every input the harness generates, so `<`/`==` on the
doubles is `<`/`=` on the millionths. `strconv.ParseFloat` itself is a parameter `pf` (evaluated by the
harness, shipped as a table): `pf raw = some m` iff the fallback accepts `raw` with `0 ≤ q ≤ 1`.

Constants that mirror literals of the Go source are named defs (`@[reducible]`), tied to the regenerated
`Gen/Consts.lean` by `Tie/Consts*.lean` (added by the owner of extract/; behaviour unchanged).
-/
namespace Rivaas.Accept

/-- `acceptSpec` restricted to what the matchers read: value and quality (millionths) -/
structure ASpec where
  value : Bytes
  q : Nat
  deriving DecidableEq, Repr, Inhabited

abbrev PF := Bytes → Option Nat

/-! ### trimWhitespace, scanning loops -/

def isWS (c : Char) : Bool := c == ' ' || c == '\t'

def trimL (s : Bytes) : Bytes := s.dropWhile isWS
def trimR (s : Bytes) : Bytes := (s.reverse.dropWhile isWS).reverse
/-- `s[start:end]` for `start, end := trimWhitespace(s)` -/
def trimWS (s : Bytes) : Bytes := trimR (trimL s)

/-- the "find first `sep`" index loops: `(s[:i], s[i+1:])` for the first `i` with `s[i] == sep` -/
def cutFirst (sep : Char) : Bytes → Option (Bytes × Bytes)
  | [] => none
  | c :: r =>
    if c == sep then some ([], r)
    else match cutFirst sep r with
      | some (a, b) => some (c :: a, b)
      | none => none

/-- `start := 0; for i := 0; i <= len(s); i++ { if i == len(s) || s[i] == sep { if i > start { yield s[start:i] }; start = i+1 } }`:
    the non-empty segments between separators, in order; `cur` is the open segment, reversed -/
def scanSegs (sep : Char) : Bytes → Bytes → List Bytes
  | [], cur => if cur.isEmpty then [] else [cur.reverse]
  | c :: r, cur =>
    if c == sep then
      (if cur.isEmpty then scanSegs sep r [] else cur.reverse :: scanSegs sep r [])
    else scanSegs sep r (c :: cur)

/-! ### parseQuality -/

def isDigit (c : Char) : Bool := '0'.toNat ≤ c.toNat && c.toNat ≤ '9'.toNat
def digitVal (c : Char) : Nat := c.toNat - '0'.toNat

/-- the digit loop of `parseQuality`: `result += int(s[i]-'0') * multiplier; multiplier /= 10` -/
def qDigits : Bytes → Nat → Nat → Option Nat
  | [], _, acc => some acc
  | d :: r, mult, acc => if isDigit d then qDigits r (mult / 10) (acc + digitVal d * mult) else none

/-- `parseQuality`: thousandths, `none` for the `-1` result -/
def parseQuality (s : Bytes) : Option Nat :=
  if s.length == 0 || s.length > 5 then none
  else match s with
    | [] => none
    | c0 :: rest =>
      if c0 == '1' then
        if s.length == 1 then some 1000
        else if s.length < 3 || rest.head? != some '.' then none
        else if (rest.drop 1).all (· == '0') then some 1000 else none
      else if c0 == '0' then
        if s.length == 1 then some 0
        else if s.length < 3 || rest.head? != some '.' then none
        else qDigits ((rest.drop 1).take 3) 100 0
      else none

/-! ### parseAcceptParam / parseAcceptPart / parseAccept -/

def unquote (v : Bytes) : Bytes :=
  if v.length ≥ 2 && v.head? == some '"' && v.getLast? == some '"' then (v.drop 1).dropLast else v

/-- as shipped: the length test was `> 0`, so a lone `"` sliced `[1:0]` and panicked (`none`) -/
def unquoteAsIs (v : Bytes) : Option Bytes :=
  if v.length ≥ 1 && v.head? == some '"' && v.getLast? == some '"' then
    (if v.length ≥ 2 then some ((v.drop 1).dropLast) else none)
  else some v

def isQKey (key : Bytes) : Bool := key == ['q'] || key == ['Q']

/-- the quality a raw value denotes: integer parser first, `ParseFloat` fallback second, else keep -/
def applyQ (pf : PF) (raw : Bytes) (spec : ASpec) : ASpec :=
  match parseQuality raw with
  | some n => { spec with q := n * 1000 }
  | none =>
    match pf raw with
    | some m => { spec with q := m }
    | none => spec

def parseAcceptParam (pf : PF) (param : Bytes) (spec : ASpec) : ASpec :=
  let p := trimWS param
  if p.isEmpty then spec
  else match cutFirst '=' p with
    | none => spec
    | some (k, v) =>
      let key := trimWS k
      if key.isEmpty then spec
      else
        let val := trimWS v
        if val.isEmpty then spec
        else
          let value := unquote val
          if isQKey key then applyQ pf value spec else spec

/-- `parseAcceptPart`; a spec with empty value is dropped by the caller -/
def parseAcceptPart (pf : PF) (part : Bytes) : ASpec :=
  let t := trimWS part
  if t.isEmpty then { value := [], q := 1000000 }
  else match cutFirst ';' t with
    | none => { value := t, q := 1000000 }
    | some (v, params) =>
      (scanSegs ';' params []).foldl (fun sp p => parseAcceptParam pf p sp) { value := trimR v, q := 1000000 }

def parseAccept (pf : PF) (header : Bytes) : List ASpec :=
  ((scanSegs ',' header []).map (parseAcceptPart pf)).filter (fun sp => !sp.value.isEmpty)

/-! ### media types -/

def lowerC (c : Char) : Char := if 'A'.toNat ≤ c.toNat && c.toNat ≤ 'Z'.toNat then Char.ofNat (c.toNat + 32) else c
/-- `strings.ToLower` on ASCII input -/
def lower (s : Bytes) : Bytes := s.map lowerC

def isSpace (c : Char) : Bool := c == ' ' || (9 ≤ c.toNat && c.toNat ≤ 13)
/-- `strings.TrimSpace` on ASCII input -/
def trimSpace (s : Bytes) : Bytes := ((s.dropWhile isSpace).reverse.dropWhile isSpace).reverse

def bs (x : String) : Bytes := x.toList

/-- the short-name table of `normalizeMediaType` -/
def mimeTable : List (Bytes × Bytes) :=
  [ (bs "html", bs "text/html"), (bs "json", bs "application/json"), (bs "xml", bs "application/xml"),
    (bs "text", bs "text/plain"), (bs "txt", bs "text/plain"), (bs "png", bs "image/png"),
    (bs "jpg", bs "image/jpeg"), (bs "jpeg", bs "image/jpeg"), (bs "gif", bs "image/gif"),
    (bs "webp", bs "image/webp"), (bs "svg", bs "image/svg+xml"), (bs "css", bs "text/css"),
    (bs "js", bs "application/javascript"), (bs "javascript", bs "application/javascript"),
    (bs "pdf", bs "application/pdf"), (bs "zip", bs "application/zip"), (bs "mp4", bs "video/mp4"),
    (bs "webm", bs "video/webm"), (bs "mp3", bs "audio/mpeg"), (bs "wav", bs "audio/wav") ]

def normalizeMediaType (mt : Bytes) : Bytes :=
  let m := lower (trimSpace mt)
  match mimeTable.lookup m with
  | some full => full
  | none => m

def splitMediaType (mt : Bytes) : Bytes × Bytes :=
  let m := match cutFirst ';' mt with
    | some (a, _) => a
    | none => mt
  let m := trimWS m
  match cutFirst '/' m with
  | some (t, s) => (lower t, lower s)
  | none => (lower m, ['*'])

/-- `matchMediaType`: (quality, specificity) -/
def matchMediaType (offer : Bytes) (spec : ASpec) : Nat × Nat :=
  let (ot, os) := splitMediaType offer
  let (st, ss) := splitMediaType spec.value
  if st == ['*'] && ss == ['*'] then (spec.q, 1)
  else if st == ot && ss == ['*'] then (spec.q, 2)
  else if st == ot && ss == os then (spec.q, 3)
  else (0, 0)

/-- inner loop (after the K19b fix): the most specific matching spec decides, the first among equals -/
def bestSpec (m : ASpec → Nat × Nat) (specs : List ASpec) : Nat × Nat :=
  specs.foldl (fun (acc : Nat × Nat) sp => if (m sp).2 > acc.2 then m sp else acc) (0, 0)

structure Best where
  offer : Bytes
  q : Int
  spec : Int
  deriving DecidableEq, Repr

/-- outer loop of `Accepts` -/
def acceptsLoop (specs : List ASpec) (norm : List Bytes) : Best :=
  norm.foldl (fun (b : Best) offer =>
    let (q, s) := bestSpec (matchMediaType offer) specs
    if q > 0 && ((q : Int) > b.q || ((q : Int) == b.q && (s : Int) > b.spec)) then { offer := offer, q := q, spec := s } else b)
    { offer := [], q := -1, spec := -1 }

/-- "Return original offer format if match found" -/
def originalOf (offers norm : List Bytes) (best : Bytes) : Bytes :=
  match offers, norm with
  | o :: os, n :: ns => if n == best then o else originalOf os ns best
  | _, _ => []

/-- `Accepts` once the specs are known -/
def acceptsWith (specs : List ASpec) (offers : List Bytes) : Bytes :=
  if specs.isEmpty then offers.headD []
  else
    let norm := offers.map normalizeMediaType
    let best := acceptsLoop specs norm
    if best.offer != [] then originalOf offers norm best.offer else []

/-! ### Accept-Charset / -Encoding / -Language -/

def isPrefix : Bytes → Bytes → Bool
  | [], _ => true
  | _ :: _, [] => false
  | a :: as, b :: bs => a == b && isPrefix as bs

/-- specificity of one spec for one (lower-cased, trimmed) offer, after the K19b fix -/
def tokSpecificity (offerLower : Bytes) (spec : ASpec) : Nat × Nat :=
  let sv := lower spec.value
  if sv == offerLower then (spec.q, 3)
  else if isPrefix (offerLower ++ ['-']) sv || isPrefix (sv ++ ['-']) offerLower then (spec.q, 2)
  else if sv == ['*'] then (spec.q, 1)
  else (0, 0)

/-- `acceptHeaderMatch` -/
def acceptHeaderMatch (specs : List ASpec) (offers : List Bytes) : Bytes :=
  if offers.isEmpty then []
  else if specs.isEmpty then offers.headD []
  else
    (offers.foldl (fun (b : Bytes × Int) offer =>
      let (q, _) := bestSpec (tokSpecificity (lower (trimSpace offer))) specs
      if q > 0 && (q : Int) > b.2 then (offer, (q : Int)) else b) ([], -1)).1

/-! ### the four calls on one context: cache and arena are explicit state -/

inductive Kind | accept | charset | encoding | language
  deriving DecidableEq, Repr

structure Call where
  kind : Kind
  header : Bytes
  offers : List Bytes
  deriving Repr

/-- what the answer is documented to be a function of -/
def answer (pf : PF) (c : Call) : Bytes :=
  match c.kind with
  | .accept =>
    if c.offers.isEmpty then []
    else if c.header.isEmpty then c.offers.headD []
    else acceptsWith (parseAccept pf c.header) c.offers
  | _ => acceptHeaderMatch (if c.header.isEmpty then [] else parseAccept pf c.header) c.offers

/-- `headerArena.specs [16]acceptSpec` -/
@[reducible] def arenaSpecs : Nat := 16

/-- `append` into `arena.specs[:0]`: the first 16 results land in the arena cells -/
def writeArena (arena specs : List ASpec) : List ASpec :=
  specs.take arenaSpecs ++ arena.drop (min arenaSpecs specs.length)

/-- per-request state: `cachedAcceptHeader`, `cachedAcceptSpecs` (own backing array after the K19a fix;
    `none` = nil), and the contents of `cachedArena.specs` -/
structure Ctx where
  cachedHeader : Bytes
  cachedSpecs : Option (List ASpec)
  arena : List ASpec
  deriving Repr

def Ctx.fresh : Ctx := { cachedHeader := [], cachedSpecs := none, arena := List.replicate arenaSpecs { value := [], q := 0 } }

def step (pf : PF) (ctx : Ctx) (c : Call) : Ctx × Bytes :=
  match c.kind with
  | .accept =>
    if c.offers.isEmpty then (ctx, [])
    else if c.header.isEmpty then (ctx, c.offers.headD [])
    else
      match (if ctx.cachedHeader == c.header then ctx.cachedSpecs else none) with
      | some specs => (ctx, acceptsWith specs c.offers)
      | none =>
        let specs := parseAccept pf c.header
        ({ cachedHeader := c.header, cachedSpecs := some specs, arena := writeArena ctx.arena specs },
         acceptsWith specs c.offers)
  | _ =>
    if c.header.isEmpty then (ctx, acceptHeaderMatch [] c.offers)
    else
      let specs := parseAccept pf c.header
      ({ ctx with arena := writeArena ctx.arena specs }, acceptHeaderMatch specs c.offers)

def run (pf : PF) : Ctx → List Call → List Bytes
  | _, [] => []
  | ctx, c :: cs => let (ctx', a) := step pf ctx c; a :: run pf ctx' cs

/-! ### as shipped (before the fixes): the cached specs alias the arena -/

/-- cached specs as shipped: a view of the first `n` arena cells (parse results of at most 16 specs),
    or a heap slice (more than 16) -/
inductive CachedAsIs
  | view (n : Nat)
  | heap (specs : List ASpec)
  deriving Repr

structure CtxAsIs where
  cachedHeader : Bytes
  cachedSpecs : Option CachedAsIs
  arena : List ASpec
  deriving Repr

def CtxAsIs.fresh : CtxAsIs := { cachedHeader := [], cachedSpecs := none, arena := List.replicate arenaSpecs { value := [], q := 0 } }

def readCached (arena : List ASpec) : CachedAsIs → List ASpec
  | .view n => arena.take n
  | .heap specs => specs

/-- the matcher loops as shipped (K19b): any matching spec of positive quality may raise an offer, and
    `acceptHeaderMatch` stops at the first exact-or-wildcard spec and never tests `quality > 0` -/
def acceptsLoopAsIs (specs : List ASpec) (norm : List Bytes) : Best :=
  norm.foldl (fun (b : Best) offer =>
    specs.foldl (fun (b : Best) sp =>
      let (q, s) := matchMediaType offer sp
      if q > 0 && ((q : Int) > b.q || ((q : Int) == b.q && (s : Int) > b.spec)) then { offer := offer, q := q, spec := s } else b) b)
    { offer := [], q := -1, spec := -1 }

def acceptsWithAsIs (specs : List ASpec) (offers : List Bytes) : Bytes :=
  if specs.isEmpty then offers.headD []
  else
    let norm := offers.map normalizeMediaType
    let best := acceptsLoopAsIs specs norm
    if best.offer != [] then originalOf offers norm best.offer else []

def tokInnerAsIs (offer offerLower : Bytes) : List ASpec → Bytes × Int → Bytes × Int
  | [], b => b
  | sp :: rest, b =>
    let sv := lower sp.value
    if sv == offerLower || sv == ['*'] then
      (if (sp.q : Int) > b.2 then (offer, (sp.q : Int)) else b)      -- … break
    else if isPrefix (offerLower ++ ['-']) sv || isPrefix (sv ++ ['-']) offerLower then
      tokInnerAsIs offer offerLower rest (if (sp.q : Int) > b.2 then (offer, (sp.q : Int)) else b)
    else tokInnerAsIs offer offerLower rest b

def acceptHeaderMatchAsIs (specs : List ASpec) (offers : List Bytes) : Bytes :=
  if offers.isEmpty then []
  else if specs.isEmpty then offers.headD []
  else (offers.foldl (fun b offer => tokInnerAsIs offer (lower (trimSpace offer)) specs b) ([], -1)).1

/-- the parser as shipped: `q` only in lower case (K19f), the blank before `;` kept in the value (K19g),
    a lone double quote as parameter value slices out of range (K19e, `none` = panic) -/
def parseAcceptParamAsIs (pf : PF) (param : Bytes) (spec : ASpec) : Option ASpec :=
  let p := trimWS param
  if p.isEmpty then some spec
  else match cutFirst '=' p with
    | none => some spec
    | some (k, v) =>
      let key := trimWS k
      if key.isEmpty then some spec
      else
        let val := trimWS v
        if val.isEmpty then some spec
        else match unquoteAsIs val with
          | none => none
          | some value => if key == ['q'] then some (applyQ pf value spec) else some spec

def parseAcceptPartAsIs (pf : PF) (part : Bytes) : Option ASpec :=
  let t := trimWS part
  if t.isEmpty then some { value := [], q := 1000000 }
  else match cutFirst ';' t with
    | none => some { value := t, q := 1000000 }
    | some (v, params) =>
      (scanSegs ';' params []).foldl (fun sp p => sp.bind (parseAcceptParamAsIs pf p)) (some { value := v, q := 1000000 })

def parseAcceptAsIs (pf : PF) (header : Bytes) : Option (List ASpec) :=
  ((scanSegs ',' header []).foldr (fun part acc =>
    match parseAcceptPartAsIs pf part, acc with
    | some sp, some l => some (if sp.value.isEmpty then l else sp :: l)
    | _, _ => none) (some []))

def stepAsIs (pf : PF) (ctx : CtxAsIs) (c : Call) : CtxAsIs × Bytes :=
  match c.kind with
  | .accept =>
    if c.offers.isEmpty then (ctx, [])
    else if c.header.isEmpty then (ctx, c.offers.headD [])
    else
      match (if ctx.cachedHeader == c.header then ctx.cachedSpecs else none) with
      | some cached => (ctx, acceptsWithAsIs (readCached ctx.arena cached) c.offers)
      | none =>
        let specs := parseAccept pf c.header
        ({ cachedHeader := c.header,
           cachedSpecs := some (if specs.length ≤ arenaSpecs then .view specs.length else .heap specs),
           arena := writeArena ctx.arena specs },
         acceptsWithAsIs specs c.offers)
  | _ =>
    if c.header.isEmpty then (ctx, acceptHeaderMatchAsIs [] c.offers)
    else
      let specs := parseAccept pf c.header
      ({ ctx with arena := writeArena ctx.arena specs }, acceptHeaderMatchAsIs specs c.offers)

def runAsIs (pf : PF) : CtxAsIs → List Call → List Bytes
  | _, [] => []
  | ctx, c :: cs => let (ctx', a) := stepAsIs pf ctx c; a :: runAsIs pf ctx' cs

end Rivaas.Accept
