import Rivaas.Model.Bind
/-
C04 — the behaviours of `binding` as shipped (before the `fix:` commits K04a–K04g), kept next to
the model of the repaired code for the witness theorems of `Props/C04.lean`:

  * `flattenAsIs`   — `index := append(indexPrefix, i)` with Go's append semantics made explicit
                      (backing array, len, cap): siblings share the prefix's spare capacity (K04a)
  * `convPrimAsIs`  — `SetInt/SetUint/SetFloat` without range check: truncation / wrap / Inf (K04b)
  * `reachAsIs`     — `reflect.Value.FieldByIndex`: panics on a nil embedded pointer (K04c)
  * `sliceKeyAsIs`  — `GetAll` with the primary name although an alias matched (K04d)
  * `setSliceAsIs`  — `reflect.MakeSlice(field.Type())` on a `*[]T` field: panic (K04e)
  * `mapLimitAsIs`  — the fallback capacity 8 compared with the limit (K04g)
  * `mapVisibleAsIs`— dot/bracket entries only when the getter itself is a query/form getter (K04f)
Core Lean only.
-/
namespace Rivaas.Bind

/-! ### K04a: Go slices with explicit backing arrays -/

structure Sl where
  arr : Nat := 0
  len : Nat := 0
  cap : Nat := 0
  deriving Repr, Inhabited, DecidableEq

abbrev Heap := List (List Nat)

/-- runtime.growslice for 8-byte elements below 256: double (the size classes 8,16,32,64,128 are exact) -/
def growCap (old need : Nat) : Nat := if need > 2 * old then need else 2 * old

/-- `append(s, x)` -/
def appendS (hp : Heap) (s : Sl) (x : Nat) : Heap × Sl :=
  if s.len < s.cap then
    (hp.set s.arr ((hp.getD s.arr []).set s.len x), { s with len := s.len + 1 })
  else
    let cap' := growCap s.cap (s.len + 1)
    let cells := (hp.getD s.arr []).take s.len ++ [x] ++ List.replicate (cap' - (s.len + 1)) 0
    (hp ++ [cells], { arr := hp.length, len := s.len + 1, cap := cap' })

mutual
def flattenFldA (P : Params) (tag : Tag) (hp : Heap) (pre : Sl) (i : Nat) (h : FieldHdr) :
    Ty → Heap × List (Sl × FieldInfo)
  | .struct fs =>
    if !h.exported then (hp, [])
    else
      let r := appendS hp pre i
      if h.anon then flattenFsA P tag r.1 r.2 0 fs
      else (r.1, (mkInfo P tag [] h (.struct fs)).toList.map (fun f => (r.2, f)))
  | .ptr (.struct fs) =>
    if !h.exported then (hp, [])
    else
      let r := appendS hp pre i
      if h.anon then flattenFsA P tag r.1 r.2 0 fs
      else (r.1, (mkInfo P tag [] h (.ptr (.struct fs))).toList.map (fun f => (r.2, f)))
  | t =>
    if !h.exported then (hp, [])
    else
      let r := appendS hp pre i
      (r.1, (mkInfo P tag [] h t).toList.map (fun f => (r.2, f)))
def flattenFsA (P : Params) (tag : Tag) (hp : Heap) (pre : Sl) : Nat → List Fld → Heap × List (Sl × FieldInfo)
  | _, [] => (hp, [])
  | i, (h, t) :: rest =>
    let a := flattenFldA P tag hp pre i h t
    let b := flattenFsA P tag a.1 pre (i+1) rest
    (b.1, a.2 ++ b.2)
end

/-- parseStructInfo as shipped: the index of every field is read from the heap *after* the whole
    type has been parsed (the cached `fieldInfo.index` slices alias each other) -/
def flattenAsIs (P : Params) (tag : Tag) (fs : List Fld) : List FieldInfo :=
  let r := flattenFsA P tag [] {} 0 fs
  r.2.map fun e => { e.2 with index := (r.1.getD e.1.arr []).take e.1.len }

/-! ### K04b: conversion without range checks -/

/-- two's complement wrap of SetInt on a `w`-bit field -/
def wrapInt (w : Nat) (i : Int) : Int :=
  let m : Int := 2 ^ bitsOf w
  let r := i % m
  if r ≥ m / 2 then r - m else r

def convPrimAsIs (P : Params) (cfg : Cfg) (p : Prim) (s : Bytes) : Option Val :=
  match p with
  | .int w => match (if cfg.baseAuto then (P s).i0 else (P s).i10) with
    | some i => some (.int (wrapInt w i))
    | none => none
  | .uint w => match (if cfg.baseAuto then (P s).u0 else (P s).u10) with
    | some n => some (.uint (n % 2 ^ bitsOf w))
    | none => none
  | .f32 => match (P s).f with
    | some (_, b32, _, _) => some (.flt b32)
    | none => none
  | p => convPrim P cfg p s

/-! ### K04c: reflect.Value.FieldByIndex -/

/-- `elem.FieldByIndex(index)`: `none` is a reflect panic (nil embedded pointer, bad index) -/
def reachAsIs (v : Val) (idx : List Nat) : Option Val :=
  match reach v idx with
  | .ok x => some x
  | _ => none

/-! ### K04d, K04e, K04f, K04g -/

/-- the key handed to GetAll for a slice field: always the primary name -/
def sliceKeyAsIs (f : FieldInfo) (_matched : Bytes) : Bytes := f.tagName

/-- setSliceField as shipped: `none` is the panic `reflect.MakeSlice of non-slice type` -/
def setSliceAsIs (P : Params) (cfg : Cfg) (ty : Ty) (cur : Val) (values : List Bytes) : Option (Except Err Val) :=
  if values.isEmpty then some (.ok cur) else
  match ty with
  | .ptr (.slice _) =>
    let values := if cfg.csv && values.length == 1 then (splitB ',' (values.headD [])).map trimSpace else values
    if cfg.maxSlice > 0 && values.length > cfg.maxSlice then some (.error .sliceLen) else none
  | _ => some (setSlice P cfg ty cur values)

/-- the pre-check of setMapField as shipped: `estimateMapCapacity` falls back to 8 -/
def mapLimitAsIs (cfg : Cfg) (count : Nat) : Bool :=
  let capacity := if count > 0 then count else 8
  cfg.maxMap > 0 && capacity > cfg.maxMap

/-- the entries setMapField looked at: none at all behind a prefixGetter -/
def mapVisibleAsIs (g : Getter) : Bool := isQF g.src.kind && !g.nested

end Rivaas.Bind
