import Rivaas.Model.RealIPText
/-
C18 — `clientIPFromRemoteAddr` and Go's `net.SplitHostPort` (host part only), at byte level, so that the
three RemoteAddr forms of the statement (`ip:port`, `[v6]:port`, bare) are inside the model instead of
being a harness-side parameter. Follows net/ipsock.go statement by statement. Core Lean only.
-/
namespace Rivaas.RealIP

/-- `strings.IndexByte` -/
def idxOf (c : Char) : Bytes → Option Nat
  | [] => none
  | x :: xs => if x == c then some 0 else (idxOf c xs).map (· + 1)

/-- `strings.LastIndexByte` -/
def lastIdxOf (c : Char) (s : Bytes) : Option Nat :=
  (idxOf c s.reverse).map fun k => s.length - 1 - k

/-- the host result of `net.SplitHostPort`, `none` = it returns an error -/
def splitHostPort (hp : Bytes) : Option Bytes :=
  match lastIdxOf ':' hp with
  | none => none                                             -- missing port in address
  | some i =>
    if hp.head? == some '[' then
      match idxOf ']' hp with
      | none => none                                         -- missing ']' in address
      | some e =>
        if e + 1 == hp.length then none                      -- missing port
        else if e + 1 == i then
          if (idxOf '[' (hp.drop 1)).isSome then none        -- unexpected '['
          else if (idxOf ']' (hp.drop (e + 1))).isSome then none  -- unexpected ']'
          else some ((hp.take e).drop 1)
        else none                                            -- too many colons / missing port
    else
      let host := hp.take i
      if (idxOf ':' host).isSome then none                   -- too many colons
      else if (idxOf '[' hp).isSome then none                -- unexpected '['
      else if (idxOf ']' hp).isSome then none                -- unexpected ']'
      else some host

/-- `clientIPFromRemoteAddr` -/
def peerOf (remoteAddr : Bytes) : Bytes :=
  if remoteAddr.isEmpty then []
  else match splitHostPort remoteAddr with
    | some host => host
    | none => remoteAddr

/-- `cfg.isTrusted(peer)`: `net.ParseIP` on the string as it is (no trimming), through the table -/
def peerTrusted (tbl : Table) (peer : Bytes) : Option Bool :=
  if peer.isEmpty then some false
  else match tbl.lookup peer with
    | some (some (_, t)) => some t
    | some none => some false
    | none => none

/-- the request as it arrives: RemoteAddr and header text -/
structure WireReq where
  maxHops : Nat
  remoteAddr : Bytes
  hdrs : List RawHdr
  tbl : Table

def WireReq.toRaw (w : WireReq) : Option RawReq := do
  let peer := peerOf w.remoteAddr
  let pt ← peerTrusted w.tbl peer
  pure { maxHops := w.maxHops, peer := peer, peerTrusted := pt, hdrs := w.hdrs, tbl := w.tbl }

/-- `Context.ClientIP` from RemoteAddr and raw headers -/
def clientIPWire (w : WireReq) : Option Bytes := w.toRaw.bind clientIPRaw

end Rivaas.RealIP
