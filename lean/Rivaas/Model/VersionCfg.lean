import Rivaas.Model.Version
/-
C13 — model of the configuration step: the option functions of `router/version/options.go` applied by
`version.NewConfig` (`config.go`) left to right, the first error ends the construction, then `Config.validate`.
Follows the code statement by statement:

* `WithPathDetection(p)`: `p == ""` → ErrEmptyPathPattern; no `{version}` → ErrMissingVersionPlaceholder; append.
* `WithHeaderDetection(n)` / `WithQueryDetection(q)`: empty → ErrEmptyHeaderName / ErrEmptyQueryParam; append.
* `WithAcceptDetection(p)`: empty → ErrEmptyAcceptPattern; no `{version}` → ErrMissingVersionPlaceholder; append.
* `WithCustomDetection(fn)`: nil → ErrNilCustomDetector; inserted at the FRONT.
* `WithDefault(v)`: empty → ErrEmptyDefaultVersion; `WithValidVersions(vs…)`: none → ErrNoValidVersions, an empty
  entry → ErrEmptyVersionEntry (with its index); both replace what an earlier option set.
* `WithResponseHeaders`, `WithWarning299`, `WithSunsetEnforcement`, `WithObserver`, `WithClock`: never fail.
* `NewConfig`: starts from default version `"v1"`; `validate`: empty default → ErrDefaultRequired, a path detector
  whose pattern lacks the placeholder → ErrMissingVersionPlaceholder (both unreachable after the options, see
  `Props/C13.lean`, `validate_redundant`).
Core Lean only.
-/
namespace Rivaas.Version

/-- `strings.Contains(s, sub)` -/
def containsSub (s sub : Bytes) : Bool := (index s sub).isSome

/-- one argument of `version.New` / `router.WithVersioning` -/
inductive Opt where
  /-- the five detection options (a custom detector with a non-nil function) -/
  | det (d : DetOpt)
  /-- `WithCustomDetection(nil)` -/
  | customNil
  | dflt (v : Bytes)
  | valid (vs : List Bytes)
  | responseHeaders
  | warning299
  | sunsetEnforcement
  /-- `WithObserver(…)`, `WithClock(f)` -/
  | observer
  | clock
  deriving Repr, DecidableEq

/-- the sentinel errors of `errors.go` that configuration can return -/
inductive CfgErr where
  | emptyPathPattern | emptyHeaderName | emptyQueryParam | emptyAcceptPattern | missingPlaceholder
  | nilCustom | emptyDefault | noValidVersions | emptyVersionEntry (idx : Nat) | defaultRequired
  deriving Repr, DecidableEq

/-- the `Config` under construction (what the accessors of `config.go` expose) -/
structure Built where
  dets : List Det
  dflt : Bytes
  valid : List Bytes
  sendVersionHeader : Bool
  sendWarning299 : Bool
  enforceSunset : Bool
  hasObserver : Bool
  hasClock : Bool
  deriving Repr, DecidableEq

/-- `NewConfig`: `&Config{defaultVersion: "v1", …}` -/
def Built.init : Built :=
  { dets := [], dflt := vb!"v1", valid := [], sendVersionHeader := false, sendWarning299 := false,
    enforceSunset := false, hasObserver := false, hasClock := false }

/-- index of the first empty entry (`for i, v := range versions { if v == "" {…} }`) -/
def firstEmpty : List Bytes → Nat → Option Nat
  | [], _ => none
  | v :: rest, i => if v = [] then some i else firstEmpty rest (i + 1)

/-- one option function applied to the configuration -/
def applyOption (b : Built) : Opt → Except CfgErr Built
  | .det (.path p) =>
    if p = [] then .error .emptyPathPattern
    else if !containsSub p versionPlaceholder then .error .missingPlaceholder
    else .ok { b with dets := b.dets ++ [.path (newPathDetector p)] }
  | .det (.header n) =>
    if n = [] then .error .emptyHeaderName else .ok { b with dets := b.dets ++ [.header n] }
  | .det (.query q) =>
    if q = [] then .error .emptyQueryParam else .ok { b with dets := b.dets ++ [.query q] }
  | .det (.accept p) =>
    if p = [] then .error .emptyAcceptPattern
    else if !containsSub p versionPlaceholder then .error .missingPlaceholder
    else .ok { b with dets := b.dets ++ [.accept p] }
  | .det (.custom i) => .ok { b with dets := .custom i :: b.dets }
  | .customNil => .error .nilCustom
  | .dflt v => if v = [] then .error .emptyDefault else .ok { b with dflt := v }
  | .valid vs =>
    if vs.length = 0 then .error .noValidVersions
    else match firstEmpty vs 0 with
      | some i => .error (.emptyVersionEntry i)
      | none => .ok { b with valid := vs }
  | .responseHeaders => .ok { b with sendVersionHeader := true }
  | .warning299 => .ok { b with sendWarning299 := true }
  | .sunsetEnforcement => .ok { b with enforceSunset := true }
  | .observer => .ok { b with hasObserver := true }
  | .clock => .ok { b with hasClock := true }

/-- the loop of `NewConfig` over the options: the first error ends it -/
def applyAll : Built → List Opt → Except CfgErr Built
  | b, [] => .ok b
  | b, o :: rest =>
    match applyOption b o with
    | .error e => .error e
    | .ok b' => applyAll b' rest

/-- the body of the loop of `Config.validate`: a path detector whose pattern lacks the placeholder -/
def Det.lacksPlaceholder : Det → Bool
  | .path pd => !containsSub pd.pattern versionPlaceholder
  | _ => false

/-- `Config.validate` -/
def validate (b : Built) : Except CfgErr Built :=
  if b.dflt = [] then .error .defaultRequired
  else if b.dets.any Det.lacksPlaceholder then .error .missingPlaceholder
  else .ok b

/-- `version.NewConfig(opts…)` -/
def newConfig (opts : List Opt) : Except CfgErr Built :=
  match applyAll Built.init opts with
  | .error e => .error e
  | .ok b => validate b

/-- what can be seen of a configuration attempt through the public API of `router/version` -/
inductive CfgObs where
  | rejected (e : CfgErr)
  /-- `Detectors()` as their `Method()` names, `DefaultVersion()`, `ValidVersions()`, `SendVersionHeader()`,
      `SendWarning299()`, `EnforceSunset()`, `Observer() != nil` -/
  | accepted (methods : List Bytes) (dflt : Bytes) (valid : List Bytes) (svh sw enf obs : Bool)
  deriving Repr, DecidableEq

/-- the observation of `version.New(opts…)` through the accessors -/
def observeCfg (opts : List Opt) : CfgObs :=
  match newConfig opts with
  | .error e => .rejected e
  | .ok b => .accepted (b.dets.map Det.method) b.dflt b.valid b.sendVersionHeader b.sendWarning299 b.enforceSunset b.hasObserver

end Rivaas.Version
