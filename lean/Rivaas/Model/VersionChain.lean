import Rivaas.Basic
/-
C13, app layer — model of the handler chain `app/version_group.go` builds (`VersionGroup.Use`, `VersionGroup.Group`,
`VersionGroup.addRoute` with `app.WithBefore` / `app.WithAfter`) under `app.Use` (global router middleware):

* `Use(mw…)` appends to THIS group's list;
* `Group(prefix, mw…)` COPIES the parent's list as it is at that moment and appends its own (a later `Use` on the
  parent does not reach the child);
* a route's chain is fixed when it is registered: group middleware → before options → handler → after options;
* the router puts its global middleware (every `app.Use` made before serving began, whenever it was made) in front
  when the route enters the tree at warm-up.
Middleware are numbered; `0` is the handler. Core Lean only.
-/
namespace Rivaas.VersionChain

inductive GOp where
  | use (g : Nat) (ids : List Nat)
  | sub (parent child : Nat) (ids : List Nat)
  | route (g r : Nat) (before after : List Nat)
  | appUse (ids : List Nat)
  deriving Repr, DecidableEq

structure GSt where
  /-- group → its middleware list (newest binding first); group 0 is `app.Version(v)` itself -/
  groups : List (Nat × List Nat)
  /-- route → its chain as composed at registration, in registration order -/
  routes : List (Nat × List Nat)
  /-- `Router.Use` list -/
  global : List Nat
  deriving Repr, DecidableEq

def GSt.init : GSt := { groups := [(0, [])], routes := [], global := [] }

def GSt.step (s : GSt) : GOp → GSt
  | .use g ids =>
    match s.groups.lookup g with
    | some mw => { s with groups := (g, mw ++ ids) :: s.groups }
    | none => s
  | .sub p c ids =>
    match s.groups.lookup p with
    | some mw => { s with groups := (c, mw ++ ids) :: s.groups }
    | none => s
  | .route g r before after =>
    match s.groups.lookup g with
    | some mw => { s with routes := s.routes ++ [(r, mw ++ before ++ [0] ++ after)] }
    | none => s
  | .appUse ids => { s with global := s.global ++ ids }

def runOps (ops : List GOp) : GSt := ops.foldl GSt.step GSt.init

/-- what a request for each route reports: the numbers in the order the handlers ran -/
def chains (ops : List GOp) : List (Nat × List Nat) :=
  let s := runOps ops
  s.routes.map fun (r, c) => (r, s.global ++ c)

end Rivaas.VersionChain
