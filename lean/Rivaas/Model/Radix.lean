import Rivaas.Model.RouteBase
/-
Executable model of the plain (tree) routing engine of `rivaas.dev/router`, as the code is in /repo now:

  router/radix.go    addRouteWithConstraints, getRoute, validateConstraints, CompiledRouteTable.getRoute
  router/serve.go    ServeHTTP (main-tree part, compilation off)
  router/router.go   handleNotFound, getAllowedMethodsForPath, handleMethodNotAllowed, RouteExists
  router/context.go  Param, AllParams (8 inline slots + overflow map), reset
  router/route/group.go  Group.Group / Group.addRoute (prefix concatenation)
  router/route/route.go  RegisterRoute (deferred registration in script order)

The Go pointer tree is represented as a map from *access paths* to node records: a Go node is reachable
by exactly one sequence of edge labels (`findOrCreateChild` never duplicates a label, `param` and
`wildcard` are single slots), so `nodes : List (Key × NodeRec)` with `Key = List ESeg` is the same data.
`findChild x` at the node with key `π` is "key `π ++ [s x]` is present"; the `param` child of `π` lives at
`π ++ [p]` and exists iff `pname` of `π` is set.

Regular expressions are a parameter: `sat cid v` is the verdict of constraint number `cid` on value `v`
(the harness evaluates the real `regexp.MatchString` and ships the table).

Core Lean only (linked into the drivers).

Constants that mirror literals of the Go source are named defs (`@[reducible]`), tied to the regenerated
`Gen/Consts.lean` by `Tie/Consts*.lean` (added by the owner of extract/; behaviour unchanged).
-/
namespace Rivaas.Radix
open Rivaas.Route

/-! ### strings -/

/-- `strings.Split(s, "/")`: always at least one piece -/
def splitSlash : Bytes → List Bytes
  | [] => [[]]
  | c :: cs =>
    if c = '/' then [] :: splitSlash cs
    else match splitSlash cs with
      | [] => [[c]]
      | h :: t => (c :: h) :: t

def dropSlashes : Bytes → Bytes
  | [] => []
  | c :: cs => if c = '/' then dropSlashes cs else c :: cs

/-- `strings.Trim(s, "/")` -/
def trimSlashes (s : Bytes) : Bytes := (dropSlashes (dropSlashes s).reverse).reverse

/-- `strings.CutSuffix(path, "/*")` -/
def cutWildSuffix (path : Bytes) : Option Bytes :=
  match path.reverse with
  | '*' :: '/' :: r => some r.reverse
  | _ => none

/-- `strings.Join(segs, "/")` -/
def joinSlash : List Bytes → Bytes
  | [] => []
  | [a] => a
  | a :: b :: rest => a ++ '/' :: joinSlash (b :: rest)

/-! ### the tree -/

/-- edge labels: a static edge `edges[i].label`, or the single `param` child -/
inductive ESeg where
  | s (x : Bytes)
  | p
deriving DecidableEq, Repr

abbrev Key := List ESeg

/-- `handlers`, `constraints`, `path` of a node that carries a route (`handlers != nil`) -/
structure Leaf where
  rid : Nat                    -- identifies the handler chain (index of the registration)
  cons : List (Bytes × Nat)    -- `[]route.Constraint` as (parameter name, constraint id)
  path : Bytes                 -- `node.path`
  names : List Bytes           -- `node.paramNames`: the parameter names of the route's own pattern, in path order
deriving DecidableEq, Repr

structure NodeRec where
  leaf : Option Leaf           -- handlers/constraints/path of this node
  pname : Option Bytes         -- `param.key` when `param != nil`
  wild : Option Leaf           -- `wildcard.node` when `wildcard != nil` (`paramName` is always "filepath")
deriving DecidableEq, Repr

def NodeRec.empty : NodeRec := ⟨none, none, none⟩

abbrev Nodes := List (Key × NodeRec)

def lookupK (k : Key) : Nodes → Option NodeRec
  | [] => none
  | (k', r) :: rest => if k' = k then some r else lookupK k rest

/-- update the record at `k`, creating an empty node there first when it does not exist -/
def setK (k : Key) (f : NodeRec → NodeRec) : Nodes → Nodes
  | [] => [(k, f NodeRec.empty)]
  | (k', r) :: rest => if k' = k then (k', f r) :: rest else (k', r) :: setK k f rest

def getK (ns : Nodes) (k : Key) : NodeRec := (lookupK k ns).getD NodeRec.empty
def hasK (ns : Nodes) (k : Key) : Bool := (lookupK k ns).isSome

/-- one method tree: the node map plus `staticPaths` of the root -/
structure Tree where
  nodes : Nodes
  statics : List (Bytes × Leaf)
deriving DecidableEq, Repr

def Tree.empty : Tree := ⟨[], []⟩

def wildParam : Bytes := "filepath".toList

/-- `staticPaths[path] = …` (replace or add) -/
def setStatic (path : Bytes) (lf : Leaf) : List (Bytes × Leaf) → List (Bytes × Leaf)
  | [] => [(path, lf)]
  | (k, v) :: rest => if k = path then (k, lf) :: rest else (k, v) :: setStatic path lf rest

def getStatic (path : Bytes) : List (Bytes × Leaf) → Option Leaf
  | [] => none
  | (k, v) :: rest => if k = path then some v else getStatic path rest

/-- one step of the descent during registration: `:name` goes to the `param` child (created with this
name when there is none yet), anything else to `findOrCreateChild(segment)` -/
def childFor (ns : Nodes) (cur : Key) (seg : Bytes) : Nodes × Key :=
  match seg with
  | ':' :: name =>
    (setK (cur ++ [ESeg.p]) id
      (setK cur (fun r => if r.pname.isNone then { r with pname := some name } else r) ns),
     cur ++ [ESeg.p])
  | _ => (setK (cur ++ [ESeg.s seg]) id ns, cur ++ [ESeg.s seg])

/-- the standard branch of `addRouteWithConstraints` (path contains a `:`), loop over `segments` -/
def insertStd (lf : Leaf) : Nodes → Key → List Bytes → Nodes
  | ns, _, [] => ns
  | ns, cur, seg :: rest =>
    if seg = [] then insertStd lf ns cur rest                 -- `continue`
    else
      let (ns1, cur1) := childFor ns cur seg
      let ns2 := if rest.isEmpty then setK cur1 (fun r => { r with leaf := some lf }) ns1 else ns1  -- `isLast`
      insertStd lf ns2 cur1 rest

/-- the prefix walk of the `/*` branch (after the K01d repair: `:name` segments use the `param` child) -/
def descendPrefix : Nodes → Key → List Bytes → Nodes × Key
  | ns, cur, [] => (ns, cur)
  | ns, cur, seg :: rest =>
    if seg = [] then descendPrefix ns cur rest
    else
      let (ns1, cur1) := childFor ns cur seg
      descendPrefix ns1 cur1 rest

/-- the same walk as shipped before the repair: every prefix segment, `:id` included, became a static edge -/
def descendPrefixAsIs : Nodes → Key → List Bytes → Nodes × Key
  | ns, cur, [] => (ns, cur)
  | ns, cur, seg :: rest =>
    if seg = [] then descendPrefixAsIs ns cur rest
    else descendPrefixAsIs (setK (cur ++ [ESeg.s seg]) id ns) (cur ++ [ESeg.s seg]) rest

/-- the `names = append(names, segment[1:])` of the two registration loops: the `:name` segments in order -/
def segNames : List Bytes → List Bytes
  | [] => []
  | (':' :: n) :: rest => n :: segNames rest
  | _ :: rest => segNames rest

/-- `node.paramNames` as `addRouteWithConstraints` leaves it next to `node.path` (since the K01a repair):
nothing for the root and for a parameter-free path (`staticPaths`), `filepath` after the prefix's names
for a `/*` route, the `:name` segments for the standard branch. The Go code collects the list inside the
branch loops; it is a function of the path alone. -/
def paramNamesOf (path : Bytes) : List Bytes :=
  if path = ['/'] ∨ path = [] then []
  else match cutWildSuffix path with
    | some pre => if pre = [] then [wildParam] else segNames (splitSlash (trimSlashes pre)) ++ [wildParam]
    | none => if ¬ path.contains ':' then [] else segNames (splitSlash (trimSlashes path))

/-- `(*node).addRouteWithConstraints(path, handlers, constraints)`; `asIs` selects the wildcard-prefix
walk as shipped (only used by the K01d witness) -/
def addLeafGen (asIs : Bool) (t : Tree) (path : Bytes) (lf : Leaf) : Tree :=
  if path = ['/'] ∨ path = [] then
    { t with nodes := setK [] (fun r => { r with leaf := some lf }) t.nodes }
  else match cutWildSuffix path with
    | some pre =>
      if pre = [] then
        { t with nodes := setK [] (fun r => { r with wild := some lf }) t.nodes }
      else
        let segs := splitSlash (trimSlashes pre)
        let (ns1, cur) := if asIs then descendPrefixAsIs t.nodes [] segs else descendPrefix t.nodes [] segs
        { t with nodes := setK cur (fun r => { r with wild := some lf }) ns1 }
    | none =>
      if ¬ path.contains ':' then
        { t with statics := setStatic path lf t.statics }
      else
        { t with nodes := insertStd lf t.nodes [] (splitSlash (trimSlashes path)) }

def addRouteGen (asIs : Bool) (t : Tree) (path : Bytes) (rid : Nat) (cons : List (Bytes × Nat)) : Tree :=
  addLeafGen asIs t path ⟨rid, cons, path, paramNamesOf path⟩

def addRoute := addRouteGen false

/-! ### the request context: 8 inline parameter slots and the overflow map -/

structure Ctx where
  slots : List (Bytes × Bytes)   -- `paramKeys[i], paramValues[i]` for `i < paramCount` (≤ 8)
  over : SMap                    -- `Params`
deriving DecidableEq, Repr

def Ctx.fresh : Ctx := ⟨[], []⟩

/-- number of inline parameter slots (`paramKeys [8]string`, `paramIdx < 8`) -/
@[reducible] def inlineSlots : Nat := 8

/-- a parameter write into the inline slots or, past them, straight into the overflow map (the compiled
matcher, and `getRoute` as shipped before the K01a repair) -/
def Ctx.push (c : Ctx) (k v : Bytes) : Ctx :=
  if c.slots.length < inlineSlots then { c with slots := c.slots ++ [(k, v)] }
  else { c with over := SMap.set k v c.over }

/-- the parameter write of `getRoute` (since the K01a repair): inline slot under the node's name while
there is one, otherwise `overflow = append(overflow, value)` — a local of `getRoute`, kept by position.
(The Go slice holds the values only; the model keeps the node's name next to each value for the
as-shipped variant, `bindNames` ignores it.) -/
def pushT (st : Ctx × List (Bytes × Bytes)) (k v : Bytes) : Ctx × List (Bytes × Bytes) :=
  if st.1.slots.length < inlineSlots then ({ st.1 with slots := st.1.slots ++ [(k, v)] }, st.2)
  else (st.1, st.2 ++ [(k, v)])

/-- `paramKeys[i] = name` for the slots in use -/
def renameSlots : List Bytes → List (Bytes × Bytes) → List (Bytes × Bytes)
  | n :: ns, (_, v) :: rest => (n, v) :: renameSlots ns rest
  | _, rest => rest

/-- `bindParamNames(ctx, names, overflow)`: the captured values are named after the matched route's own
pattern — slot `i` gets `names[i]`, the values past the inline slots go into `Params` under `names[8+j]` -/
def bindNames (c : Ctx) (names : List Bytes) (ovf : List (Bytes × Bytes)) : Ctx :=
  { slots := renameSlots (names.take inlineSlots) c.slots,
    over := SMap.setAll c.over ((names.drop inlineSlots).zip (ovf.map (·.2))) }

/-- as shipped before the repair: the names the nodes hold stay, overflow values sit in `Params` under them -/
def bindNamesAsIs (c : Ctx) (ovf : List (Bytes × Bytes)) : Ctx :=
  { c with over := SMap.setAll c.over ovf }

def slotGet (k : Bytes) : List (Bytes × Bytes) → Option Bytes
  | [] => none
  | (k', v) :: rest => if k' = k then some v else slotGet k rest

/-- `Context.Param` -/
def Ctx.param (c : Ctx) (k : Bytes) : Bytes :=
  match slotGet k c.slots with
  | some v => v
  | none => (SMap.get k c.over).getD []

/-- `Context.AllParams` -/
def Ctx.all (c : Ctx) : SMap := SMap.setAll (SMap.ofList c.slots) c.over

/-- `validateConstraints` -/
def validate (sat : Nat → Bytes → Bool) (cons : List (Bytes × Nat)) (c : Ctx) : Bool :=
  if cons.isEmpty then true
  else if cons.length ≤ 3 ∨ c.slots.length ≤ 4 then
    cons.all fun (n, cid) =>
      match slotGet n c.slots with
      | some v => sat cid v
      | none => match SMap.get n c.over with
        | some v => sat cid v
        | none => false
  else
    let params := c.all
    cons.all fun (n, cid) =>
      match SMap.get n params with
      | some v => sat cid v
      | none => false

/-! ### lookup -/

/-- how `getRoute` cuts `URL.Path`: the segments its loop visits, and whether the path ends in a slash
(then the loop runs out after the last segment without ever seeing `isLast`) -/
def parsePath (path : Bytes) : List Bytes × Bool :=
  let rest := match path with
    | '/' :: r => r
    | _ => path
  let pieces := splitSlash rest
  if pieces.getLast? = some [] then (pieces.dropLast, true) else (pieces, false)

/-- `path[start:]` at a wildcard -/
def restOfPath (segs : List Bytes) (trail : Bool) : Bytes :=
  joinSlash segs ++ (if trail then ['/'] else [])

/-- the context a leaf's constraints are validated on and its handler sees: `bindParamNames` with the
leaf's own names (`namesAsIs`: as shipped before the K01a repair, the nodes' names) -/
def boundCtx (namesAsIs : Bool) (lf : Leaf) (st : Ctx × List (Bytes × Bytes)) : Ctx :=
  if namesAsIs then bindNamesAsIs st.1 st.2 else bindNames st.1 lf.names st.2

/-- `(*node).accepts`: the node carries a route, the captured values are named after it, its constraints
accept them; the result is the leaf with the context its handler sees -/
def acceptsGen (namesAsIs : Bool) (sat : Nat → Bytes → Bool) (l : Option Leaf) (st : Ctx × List (Bytes × Bytes)) : Option (Leaf × Ctx) :=
  match l with
  | some lf =>
    let ctx1 := boundCtx namesAsIs lf st
    if validate sat lf.cons ctx1 then some (lf, ctx1) else none
  | none => none

/-- `(*node).descend` from the node with key `cur`; the state is the context and the local `overflow`
(an abandoned alternative's captures are dropped: the state is simply not threaded through). The three
alternatives for a segment — static child, parameter child, wildcard — are tried in this order and the
first that leads to an accepting route wins (since the K01b/K01f repair).
`wildUnchecked` selects the wildcard branch as shipped before the K01e repair (constraints of a wildcard
route never validated), `namesAsIs` the parameter naming as shipped before the K01a repair, `noBacktrack`
the descent as shipped before the K01b/K01f repair (the first alternative that exists is final). -/
def walkGen (wildUnchecked namesAsIs noBacktrack : Bool) (sat : Nat → Bytes → Bool) (ns : Nodes) (trail : Bool) :
    Key → Ctx × List (Bytes × Bytes) → List Bytes → Option (Leaf × Ctx)
  | _, _, [] => none                               -- the path ended (trailing slash) before a route did
  | cur, st, seg :: rest =>
    let isLast := rest.isEmpty && !trail
    let next (cur1 : Key) (st1 : Ctx × List (Bytes × Bytes)) : Option (Leaf × Ctx) :=
      if isLast then acceptsGen namesAsIs sat (getK ns cur1).leaf st1
      else walkGen wildUnchecked namesAsIs noBacktrack sat ns trail cur1 st1 rest
    let viaParam (_ : Unit) : Option (Leaf × Ctx) :=
      match (getK ns cur).pname with
      | some key => next (cur ++ [ESeg.p]) (pushT st key seg)
      | none => none
    let viaWild (_ : Unit) : Option (Leaf × Ctx) :=
      match (getK ns cur).wild with
      | some lf =>
        let st1 := pushT st wildParam (restOfPath (seg :: rest) trail)
        if wildUnchecked then some (lf, boundCtx namesAsIs lf st1) else acceptsGen namesAsIs sat (some lf) st1
      | none => none
    if noBacktrack then
      if hasK ns (cur ++ [ESeg.s seg]) then next (cur ++ [ESeg.s seg]) st
      else if (getK ns cur).pname.isSome then viaParam ()
      else viaWild ()
    else
      match (if hasK ns (cur ++ [ESeg.s seg]) then next (cur ++ [ESeg.s seg]) st else none) with
      | some r => some r
      | none =>
        match viaParam () with
        | some r => some r
        | none => viaWild ()

def walk := walkGen false false false

/-- `(*node).getRoute(path, ctx)` -/
def getRouteGen (wildUnchecked namesAsIs noBacktrack : Bool) (sat : Nat → Bytes → Bool) (t : Tree) (path : Bytes) (ctx : Ctx) : Option Leaf × Ctx :=
  if path = ['/'] ∨ path = [] then ((getK t.nodes []).leaf, ctx)
  else match getStatic path t.statics with
    | some lf => (some lf, ctx)
    | none =>
      let (segs, trail) := parsePath path
      match walkGen wildUnchecked namesAsIs noBacktrack sat t.nodes trail [] (ctx, []) segs with
      | some (lf, c) => (some lf, c)
      | none => (none, ctx)

def getRoute := getRouteGen false false false

/-- `tree.compiled.getRoute(path)`: the per-tree table of static routes built at warm-up holds exactly the
`staticPaths` entries (nodes reached through edges never carry a parameter-free path); bloom filter and
hash keys are modelled in Model/Compiler -/
def compiledStatic (t : Tree) (path : Bytes) : Bool := (getStatic path t.statics).isSome

/-! ### registration script and the router -/

/-- `Group.Group` / `Group.addRoute`: the three-way concatenation of prefix and path -/
def concatPrefix (pre path : Bytes) : Bytes :=
  if pre.length = 0 then path else if path.length = 0 then pre else pre ++ path

/-- `strings.TrimSuffix(prefix, "/")` -/
def trimSuffixSlash (s : Bytes) : Bytes :=
  match s.reverse with
  | '/' :: r => r.reverse
  | _ => s

/-- `Router.Mount` (the prefix loses one trailing slash, gets a leading one when it is empty or has none) and
`mountRoute` (the sub-router's route `/` is the prefix itself, any other route the prefix followed by its path) -/
def mountPath (pre sub : Bytes) : Bytes :=
  let p := trimSuffixSlash pre
  let p := if p = [] ∨ p.head? ≠ some '/' then '/' :: p else p
  if sub = ['/'] then p else p ++ sub

def fullPathOf (r : Reg) : Bytes :=
  let sub := concatPrefix (r.groups.foldl concatPrefix []) r.path
  match r.mount with
  | none => sub
  | some pre => mountPath pre sub

structure Router where
  trees : List (Bytes × Tree)   -- method trees that exist (`getTree(method) != nil`)
  noRoute : Bool
deriving Repr

def treeOf (r : Router) (m : Bytes) : Option Tree :=
  if m ∈ stdMethods then (r.trees.find? (·.1 = m)).map (·.2) else none

def setTree (m : Bytes) (t : Tree) : List (Bytes × Tree) → List (Bytes × Tree)
  | [] => [(m, t)]
  | (k, v) :: rest => if k = m then (k, t) :: rest else (k, v) :: setTree m t rest

/-- `addRouteToTree`: create the method tree on first use, then insert -/
def register (asIs : Bool) (r : Router) (rid : Nat) (g : Reg) : Router :=
  let t := (treeOf r g.method).getD Tree.empty
  { r with trees := setTree g.method (addRouteGen asIs t (fullPathOf g) rid g.cons) r.trees }

def buildFrom (asIs : Bool) (r : Router) : Nat → List Reg → Router
  | _, [] => r
  | i, g :: gs => buildFrom asIs (register asIs r i g) (i + 1) gs

/-- warm-up: pending routes are registered in script order; route `i` gets handler id `i` -/
def build (noRoute : Bool) (script : List Reg) : Router := buildFrom false ⟨[], noRoute⟩ 0 script
def buildAsIs (noRoute : Bool) (script : List Reg) : Router := buildFrom true ⟨[], noRoute⟩ 0 script

def unmatched : Bytes := "_unmatched".toList
def notFoundPattern : Bytes := "_not_found".toList

/-- the tail of `ServeHTTP` for a matched route: the probe handler answers 200 -/
def served (lf : Leaf) (ctx : Ctx) (req : Req) : Obs :=
  { status := 200, allow := [], ran := some lf.rid, noRoute := false,
    pattern := if lf.path = [] then unmatched else lf.path,
    params := ctx.all, lookups := req.ask.map fun n => (n, ctx.param n) }

/-- `getAllowedMethodsForPath` -/
def allowedMethods (sat : Nat → Bytes → Bool) (r : Router) (path : Bytes) : List Bytes :=
  stdMethods.filter fun m =>
    match treeOf r m with
    | some t => (getRoute sat t path Ctx.fresh).1.isSome || compiledStatic t path
    | none => false

/-- `handleNotFound` -/
def notFound (sat : Nat → Bytes → Bool) (r : Router) (req : Req) : Obs :=
  let allowed := allowedMethods sat r req.path
  if allowed ≠ [] then
    { status := 405, allow := sortBytes allowed, ran := none, noRoute := false, pattern := [], params := [], lookups := [] }
  else if r.noRoute then
    { status := 404, allow := [], ran := none, noRoute := true, pattern := notFoundPattern,
      params := Ctx.fresh.all, lookups := req.ask.map fun n => (n, Ctx.fresh.param n) }
  else
    { status := 404, allow := [], ran := none, noRoute := false, pattern := [], params := [], lookups := [] }

/-- `ServeHTTP` with route compilation off and no version engine -/
def serve (sat : Nat → Bytes → Bool) (r : Router) (req : Req) : Obs :=
  match treeOf r req.method with
  | some t =>
    match getRoute sat t req.path Ctx.fresh with
    | (some lf, ctx) => served lf ctx req
    | (none, _) => notFound sat r req
  | none => notFound sat r req

/-- `RouteExists(method, path)` -/
def routeExists (sat : Nat → Bytes → Bool) (r : Router) (method path : Bytes) : Bool :=
  match (r.trees.find? (·.1 = method)).map (·.2) with
  | some t => (getRoute sat t path Ctx.fresh).1.isSome || compiledStatic t path
  | none => false

end Rivaas.Radix
