import Rivaas.Basic
/-
C12 — model of the router's two phases (configuration, serving):
`Router.Freeze` (`route_bridge.go`), `Router.Warmup` / `doWarmup` (`compile.go`), the entry of
`ServeHTTP` (`serve.go`), `addRouteInternal` (`route_bridge.go`), `VersionRouter.addVersionRoute`
(`versioning.go`), `Route.RegisterRoute`, `Route.Where*`, `Route.SetName` (`route/route.go`), `URLFor`.

Granularity: one atomic step = what a goroutine does between two `verifYield` points (the points are
`serve.entry`, `freeze.flags`, `warmup.drained`, `warmup.registered`, `warmup.compiled`, `freeze.done`,
`serve.frozen`, and `register.checked` between the unlocked flag test of a registration and its enqueue). The code between two points takes its locks and releases them again, so at this
granularity every step is atomic. `sync.Once` is a parameter with its documented contract: the first
caller runs the body, every other caller blocks until the body has returned.

Two layers:
* `Core` / `Op` / `Core.step` — the state the goroutines share and the atomic operations on it;
* `St` / `step` — goroutines ("actors") with their program position; a schedule is a list of actor
  indices, `step s i` lets actor `i` run to its next yield point (or block, or finish).

The model follows the code after the `fix:` commits for K12 (`Where*` panics when frozen), K12b
(`VersionRouter.addVersionRoute` panics when serving/frozen) and K12e (a registration re-tests the flags
under `pendingRoutesMu`, under which `Freeze` stores them); `Core.stepAsIs` / `stepActorAsIs` keep the shipped
behaviour.
Core Lean only.
-/
namespace Rivaas.Phases

abbrev RouteId := Nat

/-- position of the goroutine inside the `freezeOnce` body -/
inductive FPc where
  | idle      -- nobody has entered
  | flags     -- `serving`, `frozen` stored; parked at `freeze.flags`
  | inWarmup  -- inside the call `r.Warmup()` (running `doWarmup` itself, or blocked on `warmupOnce`)
  | tail      -- compiler frozen, snapshot built; parked at `freeze.done`
  | done      -- body returned: `freezeOnce` is done
  deriving DecidableEq, Repr

/-- position of the goroutine inside the `warmupOnce` body (`doWarmup`) -/
inductive WPc where
  | idle
  | drained     -- `warmedUp = true`, pending list taken; parked at `warmup.drained`
  | registered  -- taken routes registered; parked at `warmup.registered`
  | compiled    -- compiled; parked at `warmup.compiled`
  | done
  deriving DecidableEq, Repr

/-- what the goroutines share -/
structure Core where
  /-- route objects that exist (a registration returned one) -/
  objs : List RouteId
  /-- `Router.pendingRoutes` -/
  pending : List RouteId
  /-- the local `routes` of `doWarmup` between draining and registering -/
  taken : List RouteId
  /-- routes in the trees, each with "was registered with the integer constraint" -/
  table : List (RouteId × Bool)
  /-- route objects that carry the constraint (`typedConstraints` non-empty) -/
  cons : List RouteId
  /-- route objects with `registered = true` -/
  regd : List RouteId
  /-- `Router.namedRoutes` -/
  named : List RouteId
  serving : Bool
  frozen : Bool
  warmedUp : Bool
  fpc : FPc
  wpc : WPc
  deriving Repr, DecidableEq

def Core.init : Core :=
  { objs := [], pending := [], taken := [], table := [], cons := [], regd := [], named := [],
    serving := false, frozen := false, warmedUp := false, fpc := .idle, wpc := .idle }

/-- `Route.RegisterRoute`: once per `registered` flag; adds (or replaces) the tree entry with the
    constraints the route object carries now -/
def registerRoute (c : Core) (r : RouteId) : Core :=
  if c.regd.contains r then c
  else { c with regd := r :: c.regd,
                table := c.table.filter (fun e => e.1 != r) ++ [(r, c.cons.contains r)] }

/-- the first statements of `doWarmup`, under `pendingRoutesMu`: the flag is set *before* the list is taken -/
def drain (c : Core) : Core :=
  { c with warmedUp := true, taken := c.pending, pending := [], wpc := .drained }

inductive Op where
  /-- first caller of `freezeOnce.Do`: `serving.Store(true); frozen.Store(true)` -/
  | enterFreeze
  /-- the body calls `r.Warmup()` -/
  | freezeCallWarmup
  /-- first caller of `warmupOnce.Do` from an explicit `Warmup()` -/
  | enterWarmup
  /-- the goroutine inside `doWarmup` runs to its next yield point -/
  | warmupStep
  /-- the body returns -/
  | freezeFinish
  /-- `r.GET(…)`, `group.GET(…)`, `r.Mount(…)`, `r.Version(v).GET(…)`: a new route object `r` -/
  | register (r : RouteId)
  /-- `route.WhereInt(…)` on a retained route object -/
  | whereInt (r : RouteId)
  /-- `route.SetName(…)` -/
  | setName (r : RouteId)
  deriving DecidableEq, Repr

def Core.step (c : Core) : Op → Core
  | .enterFreeze =>
    if c.fpc = .idle then { c with serving := true, frozen := true, fpc := .flags } else c
  | .freezeCallWarmup =>
    if c.fpc = .flags then
      match c.wpc with
      | .done => { c with fpc := .tail }
      | .idle => { drain c with fpc := .inWarmup }
      | _ => { c with fpc := .inWarmup }
    else c
  | .enterWarmup => if c.wpc = .idle then drain c else c
  | .warmupStep =>
    match c.wpc with
    | .drained => { c.taken.foldl registerRoute { c with taken := [] } with wpc := .registered }
    | .registered => { c with wpc := .compiled }
    | .compiled => { c with wpc := .done, fpc := if c.fpc = .inWarmup then .tail else c.fpc }
    | _ => c
  | .freezeFinish => if c.fpc = .tail then { c with fpc := .done } else c
  | .register r =>
    if c.objs.contains r then c                          -- not a new object: outside the model
    else if c.serving || c.frozen then c                 -- panics
    else if c.warmedUp then registerRoute { c with objs := r :: c.objs } r
    else { c with objs := r :: c.objs, pending := c.pending ++ [r] }
  | .whereInt r =>
    if !c.objs.contains r then c                         -- no such object
    else if c.frozen then c                              -- panics (K12 repaired)
    else
      let c1 := { c with cons := r :: c.cons }
      if c.regd.contains r then registerRoute { c1 with regd := c1.regd.filter (· != r) } r else c1
  | .setName r =>
    if !c.objs.contains r then c
    else if c.frozen then c                              -- panics
    else { c with named := r :: c.named }

/-- what a mutation attempt reports -/
inductive Res where
  | accepted
  | rejected      -- panicked
  | na            -- no such route object (its registration was rejected): nothing was called
  deriving DecidableEq, Repr

def registerRes (c : Core) (r : RouteId) : Res :=
  if c.objs.contains r then .na else if c.serving || c.frozen then .rejected else .accepted

def mutateRes (c : Core) (r : RouteId) : Res :=
  if !c.objs.contains r then .na else if c.frozen then .rejected else .accepted

inductive UrlRes where
  | ok | notFrozen | notFound
  deriving DecidableEq, Repr

/-- `Router.URLFor` on the name of route `r` -/
def urlFor (c : Core) (r : RouteId) : UrlRes :=
  if !c.frozen then .notFrozen else if c.named.contains r then .ok else .notFound

/-- a request for the path of route `target`; `valInt`: the parameter value is an integer -/
def lookup (c : Core) (target : RouteId) (valInt : Bool) : Option RouteId :=
  match c.table.find? (fun e => e.1 == target) with
  | some (_, constrained) => if constrained && !valInt then none else some target
  | none => none

/-! ### goroutines -/

inductive Kind where
  /-- `gone`: the request's context is already done when it is handed to `ServeHTTP` (client went away, deadline
      expired in the accept queue): it passes `serve.entry`, `Freeze()`, `serve.frozen` like every request — the
      first such request ends the configuration phase —, then `Next()` stops in front of the first handler; what it
      is answered is not observed -/
  | request (target : RouteId) (valInt : Bool) (gone : Bool := false)
  | freeze
  | warmup
  | register (r : RouteId)
  | whereInt (r : RouteId)
  | setName (r : RouteId)
  | urlFor (r : RouteId)
  /-- `route.WhereRegex("zz", pattern)` with a pattern `regexp.Compile` rejects: the typed constraint is stored,
      `ParamConstraint.ToRegexConstraint` returns nil for it, so every (re-)registration writes the entry the
      route had before — no effect on routing; panics when frozen like every `Where*` -/
  | whereBad (r : RouteId)
  deriving DecidableEq, Repr

inductive Status where
  | start
  | atEntry    -- request parked at `serve.entry`
  | inFreeze   -- owns the `freezeOnce` body (position: `Core.fpc`)
  | inWarmup   -- owns the `warmupOnce` body through an explicit `Warmup()` (position: `Core.wpc`)
  | blockedF   -- blocked in `freezeOnce.Do`
  | blockedW   -- explicit `Warmup()` blocked in `warmupOnce.Do`
  | atFrozen   -- request parked at `serve.frozen`
  | atChecked  -- registration parked at `register.checked`: the unlocked flag test has passed
  | finished
  deriving DecidableEq, Repr

/-- what the scheduler sees of a goroutine: the yield point it is parked at, blocked, done -/
inductive Vis where
  | notStarted | serveEntry | freezeFlags | warmupDrained | warmupRegistered | warmupCompiled
  | freezeDone | serveFrozen | registerChecked | blocked | done
  deriving DecidableEq, Repr

/-- what one step reports besides the position -/
inductive Out where
  | none
  | mut (r : Res)
  | hit (h : Option RouteId)
  | url (u : UrlRes)
  /-- `ServeHTTP` has returned for a request whose context was done on arrival (no answer is looked at) -/
  | gone
  /-- an unexpected panic (never produced by the model; the oracle rejects it) -/
  | crash
  deriving DecidableEq, Repr

structure St where
  core : Core
  status : List Status
  /-- the goroutine that owns the `freezeOnce` body is the one running `doWarmup` -/
  wByFreeze : Bool
  deriving Repr, DecidableEq

def St.init (n : Nat) : St := { core := Core.init, status := List.replicate n .start, wByFreeze := false }

def wpcVis : WPc → Vis
  | .idle => .blocked | .drained => .warmupDrained | .registered => .warmupRegistered
  | .compiled => .warmupCompiled | .done => .done

def vis (s : St) (st : Status) : Vis :=
  match st with
  | .start => .notStarted
  | .atEntry => .serveEntry
  | .inFreeze =>
    (match s.core.fpc with
     | .flags => .freezeFlags
     | .inWarmup => if s.wByFreeze then wpcVis s.core.wpc else .blocked
     | .tail => .freezeDone
     | _ => .blocked)
  | .inWarmup => wpcVis s.core.wpc
  | .blockedF => .blocked
  | .blockedW => .blocked
  | .atFrozen => .serveFrozen
  | .atChecked => .registerChecked
  | .finished => .done

/-- `Freeze()` has returned in this goroutine -/
def afterFreeze : Kind → Status
  | .request _ _ _ => .atFrozen
  | _ => .finished

def setStatus (s : St) (i : Nat) (st : Status) : St := { s with status := s.status.set i st }

/-- `freezeOnce` is done: every goroutine blocked in `freezeOnce.Do` returns from `Freeze()` -/
def wakeF (kinds : List Kind) (s : St) : St :=
  { s with status := (s.status.zip kinds).map fun (st, k) => if st = .blockedF then afterFreeze k else st }

/-- `warmupOnce` is done: every explicit `Warmup()` blocked in `warmupOnce.Do` returns -/
def wakeW (s : St) : St :=
  { s with status := s.status.map fun st => if st = .blockedW then .finished else st }

/-- the call `r.Freeze()` by goroutine `i` -/
def callFreeze (s : St) (i : Nat) (k : Kind) : St :=
  match s.core.fpc with
  | .done => setStatus s i (afterFreeze k)
  | .idle => setStatus { s with core := s.core.step .enterFreeze } i .inFreeze
  | _ => setStatus s i .blockedF

/-- goroutine `i` (of kind `k`, in status `st`) runs until its next yield point, blocks or finishes -/
def stepActor (kinds : List Kind) (s : St) (i : Nat) (k : Kind) (st : Status) : St × Out :=
  match st, k with
  | .start, .request _ _ _ => (setStatus s i .atEntry, .none)
  | .atEntry, .request _ _ _ => (callFreeze s i k, .none)
  | .start, .freeze => (callFreeze s i k, .none)
  | .start, .warmup =>
    (match s.core.wpc with
     | .done => setStatus s i .finished
     | .idle => setStatus { s with core := s.core.step .enterWarmup } i .inWarmup
     | _ => setStatus s i .blockedW, .none)
  | .start, .register r =>
    -- the unlocked test of `serving` / `frozen` at the top of `addRouteInternal` / `addVersionRoute`
    (match registerRes s.core r with
     | .accepted => (setStatus s i .atChecked, .none)
     | res => (setStatus s i .finished, .mut res))
  | .atChecked, .register r =>
    -- under `pendingRoutesMu`: test again, then enqueue or register (K12e repaired)
    (setStatus { s with core := s.core.step (.register r) } i .finished, .mut (registerRes s.core r))
  | .start, .whereInt r =>
    (setStatus { s with core := s.core.step (.whereInt r) } i .finished, .mut (mutateRes s.core r))
  | .start, .setName r =>
    (setStatus { s with core := s.core.step (.setName r) } i .finished, .mut (mutateRes s.core r))
  | .start, .urlFor r => (setStatus s i .finished, .url (urlFor s.core r))
  | .start, .whereBad r => (setStatus s i .finished, .mut (mutateRes s.core r))
  | .inFreeze, _ =>
    (match s.core.fpc with
     | .flags =>
       { s with core := s.core.step .freezeCallWarmup, wByFreeze := decide (s.core.wpc = .idle) }
     | .inWarmup =>
       if s.wByFreeze then
         let s' := { s with core := s.core.step .warmupStep }
         if s.core.wpc = .compiled then wakeW s' else s'
       else s                                              -- blocked on `warmupOnce`
     | .tail => setStatus (wakeF kinds { s with core := s.core.step .freezeFinish }) i (afterFreeze k)
     | _ => s, .none)
  | .inWarmup, _ =>
    (let s' := { s with core := s.core.step .warmupStep }
     if s.core.wpc = .compiled then setStatus (wakeW s') i .finished else s', .none)
  | .atFrozen, .request t v g => (setStatus s i .finished, if g then .gone else .hit (lookup s.core t v))
  | _, _ => (s, .none)

/-- one scheduler step: release goroutine `i` -/
def step (kinds : List Kind) (s : St) (i : Nat) : St × Out :=
  match kinds[i]?, s.status[i]? with
  | some k, some st => stepActor kinds s i k st
  | _, _ => (s, .none)

/-- one entry of the observable trace: who was released, where it is afterwards, what it reported -/
structure Ev where
  actor : Nat
  vis : Vis
  out : Out
  deriving DecidableEq, Repr

def visOf (s : St) (i : Nat) : Vis :=
  match s.status[i]? with
  | some st => vis s st
  | none => .done

def runFrom (kinds : List Kind) : St → List Nat → St × List Ev
  | s, [] => (s, [])
  | s, i :: rest =>
    let (s1, out) := step kinds s i
    let (s2, evs) := runFrom kinds s1 rest
    (s2, { actor := i, vis := visOf s1 i, out := out } :: evs)

def run (kinds : List Kind) (sched : List Nat) : St × List Ev := runFrom kinds (St.init kinds.length) sched

/-- the first request after the schedule completes a freeze that nobody started (sequential) -/
def completeFreeze (c : Core) : Core :=
  [Op.enterFreeze, .freezeCallWarmup, .warmupStep, .warmupStep, .warmupStep, .freezeFinish].foldl Core.step c

/-- final probes: for every route id of the case, a request with an integer and one with a
    non-integer parameter value -/
def probes (c : Core) (ids : List RouteId) : List (Option RouteId × Option RouteId) :=
  ids.map fun r => (lookup (completeFreeze c) r true, lookup (completeFreeze c) r false)

/-! ### the code as shipped -/

/-- K12: `Where*` had no frozen check; K12b: `VersionRouter.addVersionRoute` had no serving/frozen check
    (`versioned r` says which registrations went through it) -/
def Core.stepAsIs (versioned : RouteId → Bool) (c : Core) : Op → Core
  | .whereInt r =>
    if !c.objs.contains r then c
    else
      let c1 := { c with cons := r :: c.cons }
      if c.regd.contains r then registerRoute { c1 with regd := c1.regd.filter (· != r) } r else c1
  | .register r =>
    if c.objs.contains r then c
    else if (c.serving || c.frozen) && !versioned r then c
    else if c.warmedUp then registerRoute { c with objs := r :: c.objs } r
    else { c with objs := r :: c.objs, pending := c.pending ++ [r] }
  | op => c.step op

/-- K12e: as shipped the second half of a registration did not look at the flags again: a registration
    that had passed the test before the freeze was enqueued — or, warm-up being over, written into the live
    tree — after serving had begun -/
def enqueueAsIs (c : Core) (r : RouteId) : Core :=
  if c.objs.contains r then c
  else if c.warmedUp then registerRoute { c with objs := r :: c.objs } r
  else { c with objs := r :: c.objs, pending := c.pending ++ [r] }

/-- K12f (open): the exported registrar-bridge methods `Router.AddRouteToTree` / `Router.AddVersionRoute` (the
    `route.Registrar` interface, called by `Route.RegisterRoute`) write into the tree without looking at `serving` /
    `frozen`: called directly after serving began they add a route to the live tree. `c` after such a call for route `r`. -/
def bridgeCallAsIs (c : Core) (r : RouteId) : Core :=
  { c with table := c.table.filter (fun e => e.1 != r) ++ [(r, false)] }

/-- what the probe of K12f observes: (the call panicked, the route is routable afterwards) -/
def bridgeProbeAsIs (c : Core) (r : RouteId) : Bool × Bool := (false, (lookup (bridgeCallAsIs c r) r true).isSome)

end Rivaas.Phases
