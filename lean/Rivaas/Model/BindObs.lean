import Rivaas.Model.Bind
import Rivaas.Spec.Bind
/- C04: the model's outcome as an observation the oracle judges (shared by the driver and the theorems). -/
namespace Rivaas.Bind

def toObs : Outcome → Spec.Obs
  | .ok v => .ok v
  | .err e => .err e
  | .panic => .panic

end Rivaas.Bind
