import Rivaas.Basic
/-
C20 (buffering half) — model of `Logger.StartBuffering / FlushBuffer / SetLevel / Shutdown` and of
logging through the `bufferingHandler` family, as a small-step machine over worker goroutines.

Anchors: logging/buffer.go (`bufferState`, `bufferingHandler.Handle/WithAttrs/flush`,
`Logger.StartBuffering/FlushBuffer`), logging/logger.go (`log`, `SetLevel`, `initializeHandler`,
`Shutdown`).

Atomic steps. A worker executes its program op by op. One *segment* of a worker runs from where it
stands to the next point where it blocks inside the handler that finally writes the record (the
"gate": a custom `slog.Handler` given with `WithCustomLogger`, or — ungated — the built-in handler
writing to a plain buffer, which never blocks) or to the end of the op. Everything inside a segment
happens under one of the two mutexes (`Logger.mu`, `bufferState.mu`) or touches only the worker's
own state, so segments are the atomic steps; a schedule is the list of workers advanced.
`FlushBuffer` holds `Logger.mu` from begin to end: `StartBuffering`, `SetLevel` and other
`FlushBuffer` calls cannot start meanwhile (the harness never schedules them then; here they stutter).

The observation is the event trace: `begin g i`, `done g i` for op `i` of worker `g`, and
`write g seq intact` whenever a record reaches the output (`intact` = it still carries the attribute
bound by the `With` logger it was logged through). Core Lean only.
-/
namespace Rivaas.LogBuf

/-- the four repairs as switches, so that the as-shipped machine stays available for the witnesses -/
structure Flags where
  /-- K20b: `SetLevel` re-wraps the new handler with the live buffer state -/
  rewrap : Bool
  /-- K20d: a buffered record keeps the handler it was logged through -/
  keepHandler : Bool
  /-- K20c: `flush` keeps `buffering` on until a locked check finds the buffer empty -/
  loopFlush : Bool
  /-- K20e: a handler error during replay does not drop the rest of the batch -/
  continueOnError : Bool
  /-- K20f: the buffering wrapper (on the Logger's one `bufferState`) is part of every handler chain from
      construction on (`initializeHandler`), instead of being installed by the first `StartBuffering` -/
  stable : Bool
  deriving Repr, DecidableEq

def Flags.fixed : Flags := ⟨true, true, true, true, true⟩
def Flags.asIs : Flags := ⟨false, false, false, false, false⟩

/-- a log call: sequence number within its worker, level (0 debug … 3 error), whether it goes through
    `l.With("w", g)` (else `l.Info` …), whether the environment fails the write of this record -/
structure LogCall where
  seq : Nat
  lvl : Nat
  derived : Bool
  fail : Bool
  /-- logged through a `*slog.Logger` obtained (`Logger()`) before any `StartBuffering`: it holds the
      handler chain as it was then — level as configured at construction; as shipped that chain had no
      buffering wrapper (finding K20f), repaired it has the wrapper on the Logger's buffer state -/
  stale : Bool := false
  deriving Repr, DecidableEq

inductive Op where
  | log (c : LogCall)
  | startBuffering
  | flush
  | setLevel (lvl : Nat)
  | shutdown
  deriving Repr, DecidableEq

inductive Ev where
  | begin (g i : Nat)
  | done (g i : Nat)
  | write (g seq : Nat) (intact : Bool)
  deriving Repr, DecidableEq

/-- a record on its way: who logged it and the call -/
structure BRec where
  g : Nat
  c : LogCall
  deriving Repr, DecidableEq

/-- where a worker is blocked -/
inductive Gate where
  /-- `Handle` decided to pass the worker's own record through; it now sits in the final handler -/
  | pass (r : BRec)
  /-- `flush` is replaying: the head of `St.batch` sits in the final handler -/
  | replay
  deriving Repr, DecidableEq

structure Worker where
  /-- remaining ops; the head is the op in progress when `gate` is `some` -/
  ops : List Op
  /-- index of the head op in the worker's program -/
  idx : Nat
  gate : Option Gate
  deriving Repr, DecidableEq

structure St where
  ws : List Worker
  /-- current minimum level (`Logger.level` as wired into the handler options) -/
  level : Nat
  /-- `isShuttingDown` -/
  shutdown : Bool
  /-- `WithCustomLogger`: `SetLevel` is refused -/
  custom : Bool
  /-- the current `slog.Logger`'s handler is a `*bufferingHandler` -/
  wrapped : Bool
  /-- `bufferState.buffering` of that handler -/
  buffering : Bool
  /-- `bufferState.records` -/
  buffer : List BRec
  /-- the worker whose `FlushBuffer` in progress holds `Logger.mu` -/
  flusher : Option Nat
  /-- the local `records` slice of that `flush` call: what it still has to replay, head first
      (`Logger.mu` admits one `FlushBuffer` at a time, so there is one such slice) -/
  batch : List BRec
  trace : List Ev
  deriving Repr

def emit (s : St) (evs : List Ev) : St := { s with trace := s.trace ++ evs }

def setWorker (s : St) (g : Nat) (w : Worker) : St := { s with ws := s.ws.set g w }

/-- the op in progress of worker `w` ends: event, program counter -/
def finishOp (s : St) (g : Nat) (w : Worker) : St :=
  setWorker (emit s [.done g w.idx]) g { ops := w.ops.tail, idx := w.idx + 1, gate := none }

/-- the final handler writes `r` (or fails to, if the environment says so) -/
def writeEv (fl : Flags) (replayed : Bool) (r : BRec) : List Ev :=
  if r.c.fail then []
  else [.write r.g r.c.seq (if replayed && r.c.derived then fl.keepHandler else true)]

/-- `flush`, at the beginning (`first`) or after a batch has been replayed: as shipped there is one
    batch and `buffering` is switched off when it is taken; repaired, the buffer is inspected again
    under the lock and `buffering` is switched off only when it is found empty. The batch taken (if
    any) becomes `St.batch`. -/
def flushTake (fl : Flags) (s : St) (first : Bool) : St :=
  if fl.loopFlush then
    match s.buffer with
    | [] => { s with buffering := false }
    | r :: rest => { s with buffer := [], batch := r :: rest }
  else if first then { s with buffer := [], batch := s.buffer, buffering := false }
  else s

/-- the flusher continues after `flushTake`: block on the next record or return -/
def flushContinue (s : St) (g : Nat) (w : Worker) : St :=
  if s.batch.isEmpty then finishOp { s with flusher := none } g w
  else setWorker { s with flusher := some g } g { w with gate := some .replay }

/-- one segment of worker `g` -/
def advance (fl : Flags) (s : St) (g : Nat) : St :=
  match s.ws[g]? with
  | none => s
  | some w =>
    match w.gate with
    | some (.pass r) =>
      -- the stalled pass-through write completes
      finishOp (emit s (writeEv fl false r)) g w
    | some .replay =>
      match s.batch with
      | [] => flushContinue (flushTake fl s false) g w
      | r :: rest =>
        let s := emit s (writeEv fl true r)
        if r.c.fail && !fl.continueOnError then
          -- `return err`: the rest of the batch is dropped
          finishOp { s with flusher := none, batch := [] } g w
        else if rest.isEmpty then flushContinue (flushTake fl { s with batch := [] } false) g w
        else { s with batch := rest }
    | none =>
      match w.ops with
      | [] => s
      | op :: _ =>
        match op with
        | .log c =>
          let s := emit s [.begin g w.idx]
          if c.stale && !fl.stable then
            -- as shipped, a stale slog.Logger: the level it was built with (Info), no shutdown check, no buffer
            if decide (1 ≤ c.lvl) then setWorker s g { w with gate := some (.pass { g := g, c := c }) }
            else finishOp s g w
          else
          -- `Logger.log`: shutdown check (only on the Logger's own methods), level check; a stale
          -- slog.Logger has the level it was built with (Info) and, like every slog.Logger, no shutdown check
          let accepted := bif c.stale then decide (1 ≤ c.lvl) else decide (s.level ≤ c.lvl) && (c.derived || !s.shutdown)
          if !accepted then finishOp s g w
          else if s.wrapped && s.buffering then
            finishOp { s with buffer := s.buffer ++ [{ g := g, c := c }] } g w
          else setWorker s g { w with gate := some (.pass { g := g, c := c }) }
        | .startBuffering =>
          if s.flusher.isSome then s
          else
            let s := emit s [.begin g w.idx]
            let s := if s.wrapped then { s with buffering := true }
                     else { s with wrapped := true, buffering := true, buffer := [] }
            finishOp s g w
        | .setLevel lvl =>
          if s.flusher.isSome then s
          else
            let s := emit s [.begin g w.idx]
            if s.custom then finishOp s g w   -- ErrCannotChangeLevel
            else
              let keep := fl.rewrap && s.wrapped && s.buffering
              let s := if keep then { s with level := lvl }
                       else { s with level := lvl, wrapped := fl.stable, buffering := false, buffer := [] }
              finishOp s g w
        | .shutdown => finishOp { (emit s [.begin g w.idx]) with shutdown := true } g w
        | .flush =>
          if s.flusher.isSome then s
          else
            let s := emit s [.begin g w.idx]
            if !s.wrapped then finishOp s g w
            else flushContinue (flushTake fl s true) g w

/-- ungated mode: the final handler never blocks, so a worker that reaches it goes straight on; `fuel`
    bounds the number of records that can be in flight -/
def runToIdle (fl : Flags) : Nat → St → Nat → St
  | 0, s, _ => s
  | fuel+1, s, g =>
    let s := advance fl s g
    match s.ws[g]? with
    | some w => if w.gate.isSome then runToIdle fl fuel s g else s
    | none => s

/-- a schedule entry: advance worker `g` by one segment, or (ungated) until it is not blocked -/
inductive Step where
  | seg (g : Nat)
  | run (g : Nat)
  deriving Repr, DecidableEq

def step (fl : Flags) (fuel : Nat) (s : St) : Step → St
  | .seg g => advance fl s g
  | .run g => runToIdle fl fuel s g

/-- `stable` (K20f repaired): `New` already builds the chain with the buffering wrapper -/
def initSt (stable custom : Bool) (progs : List (List Op)) : St :=
  { ws := progs.map fun p => { ops := p, idx := 0, gate := none }, level := 1, shutdown := false, custom := custom,
    wrapped := stable, buffering := false, buffer := [], flusher := none, batch := [], trace := [] }

def totalOps (progs : List (List Op)) : Nat := (progs.map List.length).foldl (· + ·) 0

/-- the trace of a history: worker programs and a schedule -/
def run (fl : Flags) (custom : Bool) (progs : List (List Op)) (sched : List Step) : List Ev :=
  (sched.foldl (step fl (totalOps progs + 2)) (initSt fl.stable custom progs)).trace

end Rivaas.LogBuf
