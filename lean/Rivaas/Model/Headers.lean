import Rivaas.Basic
/-
Model of the header setters of router/context.go and router/response.go (after the C19 `fix:`
commits): Header, AppendHeader, Vary, Link, Redirect, Location, ContentType, Download,
MethodNotAllowed, SetCookie, Data, DataFromReader — as functions on the response header map.
Parameters (evaluated by the harness): textproto.CanonicalMIMEHeaderKey (the canonical key travels
with the operation), mime.TypeByExtension, http.Cookie.String. Core Lean only.
-/
namespace Rivaas.Headers

/-- `http.Header`: canonical key ↦ values -/
abbrev HMap := List (Bytes × List Bytes)

def hget (m : HMap) (k : Bytes) : Bytes :=
  match m.lookup k with
  | some (v :: _) => v
  | _ => []

def hvals (m : HMap) (k : Bytes) : List Bytes := (m.lookup k).getD []

def hset (m : HMap) (k v : Bytes) : HMap := (k, [v]) :: m.filter (fun p => p.1 != k)

def hadd (m : HMap) (k v : Bytes) : HMap := (k, hvals m k ++ [v]) :: m.filter (fun p => p.1 != k)

def isCRLF (c : Char) : Bool := c == '\r' || c == '\n'

/-- `strings.ReplaceAll(strings.ReplaceAll(v, "\r", ""), "\n", "")` (a no-op when neither occurs) -/
def sanitize (v : Bytes) : Bytes := v.filter (fun c => !isCRLF c)

/-- `c.Header(key, value)` -/
def header (m : HMap) (ck v : Bytes) : HMap := hset m ck (sanitize v)

def isPrefixOf : Bytes → Bytes → Bool
  | [], _ => true
  | _ :: _, [] => false
  | a :: as, b :: bs => a == b && isPrefixOf as bs

/-- `strings.Contains` -/
def contains : Bytes → Bytes → Bool
  | [], sub => sub.isEmpty
  | c :: r, sub => isPrefixOf sub (c :: r) || contains r sub

def sep : Bytes := [',', ' ']

/-- `c.AppendHeader(key, value)` -/
def appendHeader (m : HMap) (ck v : Bytes) : HMap :=
  let existing := hget m ck
  if existing.isEmpty then header m ck v else header m ck (existing ++ sep ++ v)

/-- as shipped (K19d): the second call wrote the joined value without sanitising -/
def appendHeaderAsIs (m : HMap) (ck v : Bytes) : HMap :=
  let existing := hget m ck
  if existing.isEmpty then header m ck v else hset m ck (existing ++ sep ++ v)

def varyLoop (existing : Bytes) : List Bytes → Bytes
  | [] => existing
  | f :: fs =>
    if !existing.isEmpty && contains existing f then varyLoop existing fs
    else if existing.isEmpty then varyLoop f fs
    else varyLoop (existing ++ sep ++ f) fs

def varyKey : Bytes := "Vary".toList

/-- `c.Vary(fields...)` -/
def vary (m : HMap) (fields : List Bytes) : HMap := header m varyKey (varyLoop (hget m varyKey) fields)
def varyAsIs (m : HMap) (fields : List Bytes) : HMap := hset m varyKey (varyLoop (hget m varyKey) fields)

/-- `c.Link(url, rel)`: `<url>; rel="rel"` appended to Link -/
def link (m : HMap) (url rel : Bytes) : HMap :=
  appendHeader m "Link".toList (['<'] ++ url ++ ">; rel=\"".toList ++ rel ++ ['"'])

def location (m : HMap) (url : Bytes) : HMap := header m "Location".toList url

/-- `c.ContentType(value)`; `mimeRes` = `mime.TypeByExtension` of the dotted extension -/
def contentType (m : HMap) (value mimeRes : Bytes) : HMap :=
  if value.contains '/' then header m "Content-Type".toList value
  else
    let ext := if value.head? == some '.' then value else '.' :: value
    let mt :=
      if !mimeRes.isEmpty then mimeRes
      else if ext == ".json".toList then "application/json".toList
      else if ext == ".html".toList || ext == ".htm".toList then "text/html".toList
      else if ext == ".xml".toList then "application/xml".toList
      else if ext == ".txt".toList then "text/plain".toList
      else "application/octet-stream".toList
    header m "Content-Type".toList mt

/-- `filepath[strings.LastIndex(filepath, "/")+1:]` -/
def baseName (p : Bytes) : Bytes := (p.reverse.takeWhile (· != '/')).reverse

/-- the header part of `c.Download(filepath, filename...)` -/
def download (m : HMap) (path : Bytes) (name : Option Bytes) : HMap :=
  let dn := match name with
    | some n => if !n.isEmpty then n else (let b := baseName path; if b.isEmpty then "download".toList else b)
    | none => (let b := baseName path; if b.isEmpty then "download".toList else b)
  header m "Content-Disposition".toList ("attachment; filename=\"".toList ++ dn ++ ['"'])

def bytesLt : Bytes → Bytes → Bool
  | [], [] => false
  | [], _ :: _ => true
  | _ :: _, [] => false
  | a :: as, b :: bs => a.toNat < b.toNat || (a == b && bytesLt as bs)

def insertSorted (x : Bytes) : List Bytes → List Bytes
  | [] => [x]
  | y :: ys => if bytesLt x y then x :: y :: ys else y :: insertSorted x ys

/-- `sort.Strings` -/
def sortBytes (l : List Bytes) : List Bytes := l.foldr insertSorted []

def join (s : Bytes) : List Bytes → Bytes
  | [] => []
  | [x] => x
  | x :: xs => x ++ s ++ join s xs

/-- `c.MethodNotAllowed(allowed)`: Allow, then the plain-text error body's Content-Type -/
def methodNotAllowed (m : HMap) (allowed : List Bytes) : HMap :=
  header (header m "Allow".toList (join sep (sortBytes allowed))) "Content-Type".toList "text/plain; charset=utf-8".toList

/-- `http.SetCookie`: adds `cookie.String()` unless it is empty -/
def setCookie (m : HMap) (cookieStr : Bytes) : HMap :=
  if cookieStr.isEmpty then m else hadd m "Set-Cookie".toList cookieStr

/-- the Content-Type of `c.Data` -/
def data (m : HMap) (ct : Bytes) : HMap :=
  header m "Content-Type".toList (if ct.isEmpty then "application/octet-stream".toList else ct)

/-- the headers of `c.DataFromReader` (content length unknown, one extra header) -/
def reader (m : HMap) (ct ck v : Bytes) : HMap :=
  let m1 := if ct.isEmpty then m else header m "Content-Type".toList ct
  header m1 ck v

/-- `app.Context.fail` (app/context.go), the loop over `response.Headers` and the content type -/
def failHeaders (m : HMap) (ck : Bytes) (vs : List Bytes) (ct : Bytes) : HMap :=
  header (vs.foldl (fun m v => header m ck v) m) "Content-Type".toList
    (if ct.isEmpty then "application/json; charset=utf-8".toList else ct)

inductive Op
  | header (ck v : Bytes)
  | append (ck v : Bytes)
  | vary (fields : List Bytes)
  | link (url rel : Bytes)
  | location (url : Bytes)            -- Location and Redirect
  | contentType (v mimeRes : Bytes)
  | download (path : Bytes) (name : Option Bytes)
  | notAllowed (ms : List Bytes)
  | setCookie (cookieStr : Bytes)
  | data (ct : Bytes)
  | reader (ct ck v : Bytes)
  /-- the header part of `app.Context.fail`: every value the error formatter returns for a header goes
      through `c.Header` (each one replacing the one before), then the formatter's content type -/
  | failHeaders (ck : Bytes) (vs : List Bytes) (ct : Bytes)
  deriving Repr

def apply (m : HMap) : Op → HMap
  | .header ck v => header m ck v
  | .append ck v => appendHeader m ck v
  | .vary fs => vary m fs
  | .link u r => link m u r
  | .location u => location m u
  | .contentType v mr => contentType m v mr
  | .download p n => download m p n
  | .notAllowed ms => methodNotAllowed m ms
  | .setCookie s => setCookie m s
  | .data ct => data m ct
  | .reader ct ck v => reader m ct ck v
  | .failHeaders ck vs ct => failHeaders m ck vs ct

/-- as shipped: AppendHeader, Vary, Data and DataFromReader bypass the sanitiser -/
def applyAsIs (m : HMap) : Op → HMap
  | .append ck v => appendHeaderAsIs m ck v
  | .vary fs => varyAsIs m fs
  | .link u r => appendHeaderAsIs m "Link".toList (['<'] ++ u ++ ">; rel=\"".toList ++ r ++ ['"'])
  | .data ct => hset m "Content-Type".toList (if ct.isEmpty then "application/octet-stream".toList else ct)
  | .reader ct ck v => hset (if ct.isEmpty then m else hset m "Content-Type".toList ct) ck v
  | op => apply m op

def run (m : HMap) (ops : List Op) : HMap := ops.foldl apply m

/-- every value of every header is free of CR and LF -/
def clean (m : HMap) : Bool := m.all (fun p => p.2.all (fun v => v.all (fun c => !isCRLF c)))

end Rivaas.Headers
