import Rivaas.Model.Bind
/-
C04 — setNestedStructWithDepth's shortcut: a nested struct field whose *own* key carries a value that
looks like a JSON object or array and that `json.Unmarshal` accepts for the field is that decoded
struct; the dotted keys, the defaults and the limits inside it play no part. What `encoding/json`
makes of the string is shipped (`PEntry.nj`). `bindJ` is `bind` with this step in front of every nested
bind, behind the depth test setNestedStructWithDepth makes first (after the fix for K04k; as shipped the shortcut came
before any depth test: `fieldActionJAsIs`); where no shipped entry says a string decodes, it *is* `bind`
(`bindJ_eq_bind`), so everything proved about `bind` carries over to the cases without a shortcut. Core Lean only.
-/
namespace Rivaas.Bind

def lastB : Bytes → Option Char
  | [] => none
  | [c] => some c
  | _ :: r => lastB r

/-- "looks like JSON": trimmed, `{…}` or `[…]` -/
def looksJSON (s : Bytes) : Bool :=
  let t := trimSpace s
  (t.head? == some '{' && lastB t == some '}') || (t.head? == some '[' && lastB t == some ']')

/-- the struct decoded from the value under the nested struct's own key; `g` is the nested struct's prefix
    getter: its own key is the prefix without the final dot -/
def nestShortcut (P : Params) (g : Getter) : Option Val :=
  let v := baseGet g.src g.pre.dropLast
  if v != [] && looksJSON v then (P v).nj else none

/-- one iteration of the loop with the shortcut of setNestedStructWithDepth in front of the nested bind: a nested struct
    field *within the depth limit* whose own key holds a JSON value the decoder accepts *is* that value -/
def fieldActionJ (P : Params) (cfg : Cfg) (nest : Nest) (g : Getter) (depth : Nat) (f : FieldInfo) (cur : Val) :
    Val ⊕ Stop :=
  -- after the fix for K04k: the depth test of setNestedStructWithDepth comes first
  if !isMapTy f.ty && isStructTy f.ty && !decide (cfg.maxDepth < depth + 1) then
    match nestShortcut P (g.push f.tagName) with
    | some dv => .inl (rewrap f.ty dv)
    | none => fieldAction P cfg nest g depth f cur
  else fieldAction P cfg nest g depth f cur

/-- as shipped (K04k): the shortcut was taken before any depth test -/
def fieldActionJAsIs (P : Params) (cfg : Cfg) (nest : Nest) (g : Getter) (depth : Nat) (f : FieldInfo) (cur : Val) :
    Val ⊕ Stop :=
  if !isMapTy f.ty && isStructTy f.ty then
    match nestShortcut P (g.push f.tagName) with
    | some dv => .inl (rewrap f.ty dv)
    | none => fieldAction P cfg nest g depth f cur
  else fieldAction P cfg nest g depth f cur

/-- `loopWith` with `fieldActionJ` -/
def loopWithJ (P : Params) (cfg : Cfg) (nest : Nest) (sty : List Fld) :
    List FieldInfo → Val → Getter → Nat → Outcome
  | [], elem, _, _ => .ok elem
  | f :: rest, elem, g, depth =>
    match reach elem f.index with
    | .bad => .panic
    | _ =>
      if !wants g f then loopWithJ P cfg nest sty rest elem g depth
      else
        let elem1 := updAt (.struct sty) elem f.index id
        match reach elem1 f.index with
        | .ok cur =>
          match fieldActionJ P cfg nest g depth f cur with
          | .inl nv => loopWithJ P cfg nest sty rest (updAt (.struct sty) elem1 f.index (fun _ => nv)) g depth
          | .inr o => o.out
        | _ => .panic

def bindAtJ (P : Params) (cfg : Cfg) (tag : Tag) : Nat → Nest
  | 0 => fun sty elem g depth =>
    loopWithJ P cfg (fun _ _ _ _ => .err .depth) sty (flatten P tag sty) elem g depth
  | n + 1 => fun sty elem g depth =>
    loopWithJ P cfg (bindAtJ P cfg tag n) sty (flatten P tag sty) elem g depth

def bindJ (P : Params) (cfg : Cfg) (tag : Tag) (ty : Ty) (init : Val) (src : Src) : Outcome :=
  match ty with
  | .struct fs => bindAtJ P cfg tag cfg.maxDepth fs init { src := src } 0
  | _ => .err .conv

theorem lemma_nestShortcut_none (P : Params) (h : ∀ s, (P s).nj = none) (g : Getter) : nestShortcut P g = none := by
  simp only [nestShortcut, h]
  split <;> rfl

theorem lemma_fieldActionJ_eq (P : Params) (cfg : Cfg) (nest : Nest) (h : ∀ s, (P s).nj = none) (g : Getter) (depth : Nat)
    (f : FieldInfo) (cur : Val) : fieldActionJ P cfg nest g depth f cur = fieldAction P cfg nest g depth f cur := by
  unfold fieldActionJ
  split
  · simp only [lemma_nestShortcut_none P h]
  · rfl

theorem lemma_loopWithJ_eq (P : Params) (cfg : Cfg) (nest : Nest) (sty : List Fld) (h : ∀ s, (P s).nj = none) :
    ∀ (fis : List FieldInfo) (elem : Val) (g : Getter) (depth : Nat),
      loopWithJ P cfg nest sty fis elem g depth = loopWith P cfg nest sty fis elem g depth
  | [], _, _, _ => rfl
  | f :: rest, elem, g, depth => by
    have tail : (if (!wants g f) = true then loopWithJ P cfg nest sty rest elem g depth
        else match reach (updAt (.struct sty) elem f.index id) f.index with
          | .ok cur =>
            match fieldActionJ P cfg nest g depth f cur with
            | .inl nv => loopWithJ P cfg nest sty rest (updAt (.struct sty) (updAt (.struct sty) elem f.index id) f.index (fun _ => nv)) g depth
            | .inr o => o.out
          | _ => .panic) =
        (if (!wants g f) = true then loopWith P cfg nest sty rest elem g depth
        else match reach (updAt (.struct sty) elem f.index id) f.index with
          | .ok cur =>
            match fieldAction P cfg nest g depth f cur with
            | .inl nv => loopWith P cfg nest sty rest (updAt (.struct sty) (updAt (.struct sty) elem f.index id) f.index (fun _ => nv)) g depth
            | .inr o => o.out
          | _ => .panic) := by
      by_cases hw : (!wants g f) = true
      · simp only [hw, if_true]
        exact lemma_loopWithJ_eq P cfg nest sty h rest elem g depth
      · simp only [hw, Bool.false_eq_true, if_false]
        cases reach (updAt (.struct sty) elem f.index id) f.index with
        | ok cur =>
          simp only [lemma_fieldActionJ_eq P cfg nest h]
          cases fieldAction P cfg nest g depth f cur with
          | inl nv => exact lemma_loopWithJ_eq P cfg nest sty h rest _ g depth
          | inr o => rfl
        | nilptr => rfl
        | bad => rfl
    unfold loopWithJ loopWith
    cases reach elem f.index with
    | bad => rfl
    | nilptr => exact tail
    | ok v => exact tail

theorem lemma_bindAtJ_eq (P : Params) (cfg : Cfg) (tag : Tag) (h : ∀ s, (P s).nj = none) :
    ∀ n, bindAtJ P cfg tag n = bindAt P cfg tag n
  | 0 => by
    funext sty elem g depth
    simp only [bindAtJ, bindAt, lemma_loopWithJ_eq P cfg _ sty h]
  | n + 1 => by
    have ih := lemma_bindAtJ_eq P cfg tag h n
    funext sty elem g depth
    simp only [bindAtJ, bindAt, ih, lemma_loopWithJ_eq P cfg _ sty h]

end Rivaas.Bind
