import Rivaas.Model.Bind
/-
C04 — setNestedStructWithDepth's shortcut: a nested struct field whose *own* key carries a value that
looks like a JSON object or array and that `json.Unmarshal` accepts for the field is that decoded
struct; the dotted keys, the defaults and the limits inside it play no part. What `encoding/json`
makes of the string is shipped (`PEntry.nj`). `bindJ` is `bind` with this step in front of every nested
bind; where no shipped entry says a string decodes, it *is* `bind` (`bindJ_eq_bind`), so everything
proved about `bind` carries over to the cases without a shortcut. Core Lean only.
-/
namespace Rivaas.Bind

def lastB : Bytes → Option Char
  | [] => none
  | [c] => some c
  | _ :: r => lastB r

/-- "looks like JSON": trimmed, `{…}` or `[…]` -/
def looksJSON (s : Bytes) : Bool :=
  let t := trimSpace s
  (t.head? == some '{' && lastB t == some '}') || (t.head? == some '[' && lastB t == some ']')

/-- the struct decoded from the value under the nested struct's own key; `g` is the nested struct's prefix
    getter: its own key is the prefix without the final dot -/
def nestShortcut (P : Params) (g : Getter) : Option Val :=
  let v := baseGet g.src g.pre.dropLast
  if v != [] && looksJSON v then (P v).nj else none

def withShortcut (P : Params) (nest : Nest) : Nest := fun nfs v g d =>
  match nestShortcut P g with
  | some dv => .ok dv
  | none => nest nfs v g d

def bindAtJ (P : Params) (cfg : Cfg) (tag : Tag) : Nat → Nest
  | 0 => fun sty elem g depth =>
    loopWith P cfg (fun _ _ _ _ => .err .depth) sty (flatten P tag sty) elem g depth
  | n + 1 => fun sty elem g depth =>
    loopWith P cfg (withShortcut P (bindAtJ P cfg tag n)) sty (flatten P tag sty) elem g depth

def bindJ (P : Params) (cfg : Cfg) (tag : Tag) (ty : Ty) (init : Val) (src : Src) : Outcome :=
  match ty with
  | .struct fs => bindAtJ P cfg tag cfg.maxDepth fs init { src := src } 0
  | _ => .err .conv

theorem lemma_bindAtJ_eq (P : Params) (cfg : Cfg) (tag : Tag) (h : ∀ s, (P s).nj = none) :
    ∀ n, bindAtJ P cfg tag n = bindAt P cfg tag n
  | 0 => rfl
  | n + 1 => by
    have ih := lemma_bindAtJ_eq P cfg tag h n
    have hw : withShortcut P (bindAtJ P cfg tag n) = bindAt P cfg tag n := by
      funext nfs v g d
      simp only [withShortcut, nestShortcut, h, ih]
      split <;> simp_all
    simp only [bindAtJ, bindAt, hw]

end Rivaas.Bind
