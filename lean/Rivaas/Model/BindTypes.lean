import Rivaas.Basic
/-
C04 — request binding. Shared vocabulary of the model and the spec: the type grammar `Ty`, the
value grammar `Val`, sources, options, the shipped results of the standard library (`Params`) and the
byte-string helpers (`strings.TrimSpace`, `strings.Split`, `http.CanonicalHeaderKey` on ASCII).
Core Lean only.

Constants that mirror literals of the Go source are named defs (`@[reducible]`), tied to the regenerated
`Gen/Consts.lean` by `Tie/Consts*.lean` (added by the owner of extract/; behaviour unchanged).
-/
namespace Rivaas.Bind

/-- leaf kinds; `w = 0` is Go's `int`/`uint` (64 bit on the platform the harness runs on) -/
inductive Prim
  | int (w : Nat) | uint (w : Nat) | f32 | f64 | bool | str | time | dur
  /-- a leaf type with its own text form, parsed by the standard library or by the type's own
      `UnmarshalText` (`k`: 0 url.URL, 1 net.IP, 2 net.IPNet, 3 regexp.Regexp, ≥ 4 a
      `encoding.TextUnmarshaler` type of the corpus); its values are canonical renderings -/
  | opq (k : Nat)
  deriving DecidableEq, Repr, Inhabited

def bitsOf (w : Nat) : Nat := if w = 0 then 64 else w

/-- what `reflect.StructField` says about a field (the tag values are the results of `Tag.Get` for
    query, path, form, header, cookie — in that order — and for `default`) -/
structure FieldHdr where
  name : Bytes
  exported : Bool
  anon : Bool
  tags : List Bytes
  dflt : Bytes
  deriving DecidableEq, Repr, Inhabited

inductive Ty
  | prim (p : Prim)
  | ptr (t : Ty)
  | slice (t : Ty)
  | map (t : Ty)                       -- map[string]t
  | struct (fs : List (FieldHdr × Ty))  -- position in the list = reflect field index
  deriving Repr, Inhabited

abbrev Fld := FieldHdr × Ty

inductive Val
  | int (i : Int) | uint (n : Nat) | flt (bits : Nat) | bool (b : Bool) | str (s : Bytes) | time (s : Bytes)
  | nil                                 -- nil pointer / slice / map
  | ptr (v : Val)
  | list (vs : List Val)
  | map (kvs : List (Bytes × Val))     -- sorted by key at the observation boundary
  | struct (vs : List Val)
  deriving Repr, Inhabited

mutual
def Val.beq : Val → Val → Bool
  | .int a, .int b => a == b
  | .uint a, .uint b => a == b
  | .flt a, .flt b => a == b
  | .bool a, .bool b => a == b
  | .str a, .str b => a == b
  | .time a, .time b => a == b
  | .nil, .nil => true
  | .ptr a, .ptr b => Val.beq a b
  | .list a, .list b => Val.beqList a b
  | .map a, .map b => Val.beqKVs a b
  | .struct a, .struct b => Val.beqList a b
  | _, _ => false
def Val.beqList : List Val → List Val → Bool
  | [], [] => true
  | a :: as, b :: bs => Val.beq a b && Val.beqList as bs
  | _, _ => false
def Val.beqKVs : List (Bytes × Val) → List (Bytes × Val) → Bool
  | [], [] => true
  | (k, a) :: as, (k', b) :: bs => k == k' && Val.beq a b && Val.beqKVs as bs
  | _, _ => false
end

instance : BEq Val := ⟨Val.beq⟩

/-- error classes observed at the API: `BindError` chains end in a limit sentinel or in a
    conversion failure (`conv`: anything else — malformed, out of range, unsupported) -/
inductive Err
  | depth | sliceLen | mapSize | conv
  | bind (field : Bytes) (inner : Err)
  deriving Repr, Inhabited, DecidableEq

/-- tag kinds, numbered as in `FieldHdr.tags` -/
inductive Tag | query | path | form | header | cookie
  deriving DecidableEq, Repr, Inhabited

def Tag.idx : Tag → Nat
  | .query => 0 | .path => 1 | .form => 2 | .header => 3 | .cookie => 4

def FieldHdr.tag (h : FieldHdr) (t : Tag) : Bytes := h.tags.getD t.idx []

/-- a source: the tag selects the getter type. `kvs` is the underlying container:
    url.Values / http.Header (key ↦ values, distinct keys), path map (singleton lists),
    cookies in request order (singleton lists, names may repeat; values already unescaped). -/
structure Src where
  kind : Tag
  kvs : List (Bytes × List Bytes)
  deriving Repr, Inhabited

structure Cfg where
  maxDepth : Nat
  maxSlice : Nat
  maxMap : Nat
  csv : Bool
  baseAuto : Bool
  /-- registered converters (WithConverter / WithTypeConverter, the Binder's overridden by per-call ones):
      leaf type ↦ converter, for time.Time (`timeKey`) and the opaque kinds (their number) -/
  convs : List (Nat × Nat) := []
  deriving Repr, Inhabited

@[reducible] def timeKey : Nat := 100

/-- `DefaultMaxDepth`, `DefaultMaxSliceLen`, `DefaultMaxMapSize` of binding/options.go -/
@[reducible] def defaultMaxDepth : Nat := 32
@[reducible] def defaultMaxSliceLen : Nat := 10000
@[reducible] def defaultMaxMapSize : Nat := 1000

def Cfg.default : Cfg :=
  { maxDepth := defaultMaxDepth, maxSlice := defaultMaxSliceLen, maxMap := defaultMaxMapSize, csv := false, baseAuto := false }

/-- results of the standard library on one string, shipped by the harness (never recomputed):
    strconv.ParseInt/ParseUint base 10 and base 0, strconv.ParseFloat 64 (float64 bits, bits of
    float32(f), |f| > MaxFloat32 for a finite f, float32(f) infinite for a finite f), parseTime's layouts (canonical rendering),
    time.ParseDuration, encoding/json into map[string]any rendered with fmt.Sprint. -/
structure PEntry where
  i10 : Option Int := none
  i0 : Option Int := none
  u10 : Option Nat := none
  u0 : Option Nat := none
  f : Option (Nat × Nat × Bool × Bool) := none
  t : Option Bytes := none
  d : Option Int := none
  j : Option (List (Bytes × Bytes)) := none
  /-- opaque kinds: kind ↦ canonical rendering of the parsed value (absent: the parse fails) -/
  o : List (Nat × Bytes) := []
  /-- registered converters: converter ↦ canonical rendering of its result (absent: it returns an error) -/
  c : List (Nat × Bytes) := []
  /-- the string as one JSON value for a nested struct (setNestedStructWithDepth's shortcut): the struct
      `json.Unmarshal` makes of it on the nested field as it is before the bind (absent: it fails) -/
  nj : Option Val := none
  deriving Repr, Inhabited

abbrev Params := Bytes → PEntry

/-! ### byte-string helpers -/

def isSpaceB (c : Char) : Bool :=
  c == ' ' || c == '\t' || c == '\n' || c == '\r' || c == Char.ofNat 11 || c == Char.ofNat 12

def trimLeft (s : Bytes) : Bytes := s.dropWhile isSpaceB
def trimSpace (s : Bytes) : Bytes := (trimLeft (trimLeft s).reverse).reverse

def lowerB (c : Char) : Char := if 'A' ≤ c ∧ c ≤ 'Z' then Char.ofNat (c.toNat + 32) else c
def upperB (c : Char) : Char := if 'a' ≤ c ∧ c ≤ 'z' then Char.ofNat (c.toNat - 32) else c

/-- strings.Split(s, sep) for a one-byte separator -/
def splitB (sep : Char) : Bytes → List Bytes
  | [] => [[]]
  | c :: r =>
    if c == sep then [] :: splitB sep r
    else match splitB sep r with
      | [] => [[c]]
      | h :: t => (c :: h) :: t

def hasPrefix (s p : Bytes) : Bool := p.isPrefixOf s

def cutPrefix (s p : Bytes) : Option Bytes := if p.isPrefixOf s then some (s.drop p.length) else none

def B (s : String) : Bytes := s.toList

/-- `httpguts`/`textproto` token table -/
def isTokenB (c : Char) : Bool :=
  ('a' ≤ c ∧ c ≤ 'z') || ('A' ≤ c ∧ c ≤ 'Z') || ('0' ≤ c ∧ c ≤ '9') ||
  (B "!#$%&'*+-.^_`|~").contains c

def canonGo : Bool → Bytes → Bytes
  | _, [] => []
  | up, c :: r => (if up then upperB c else lowerB c) :: canonGo (c == '-') r

/-- http.CanonicalHeaderKey -/
def canonHeader (s : Bytes) : Bytes := if s.all isTokenB then canonGo true s else s

def assoc {β} (k : Bytes) : List (Bytes × β) → Option β
  | [] => none
  | (k', v) :: r => if k' == k then some v else assoc k r

/-! ### zero values and shape helpers -/

def zeroTime : Bytes := B "0001-01-01T00:00:00Z"

def zeroPrim : Prim → Val
  | .int _ => .int 0 | .uint _ => .uint 0 | .f32 => .flt 0 | .f64 => .flt 0
  | .bool => .bool false | .str => .str [] | .time => .time zeroTime | .dur => .int 0
  | .opq _ => .time []

mutual
def zero : Ty → Val
  | .prim p => zeroPrim p
  | .ptr _ => .nil
  | .slice _ => .nil
  | .map _ => .nil
  | .struct fs => .struct (zeroFs fs)
def zeroFs : List Fld → List Val
  | [] => []
  | (_, t) :: r => zero t :: zeroFs r
end

/-- struct or pointer to struct: the fields (the test `parseStructType` makes for embedding) -/
def structFields? : Ty → Option (List Fld)
  | .struct fs => some fs
  | .ptr (.struct fs) => some fs
  | _ => none

end Rivaas.Bind
