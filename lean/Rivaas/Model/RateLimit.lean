import Rivaas.Basic
/-
C16 — executable model of `middleware/ratelimit` (stores.go, ratelimit.go), following the Go code
statement by statement as it is in the repository now.

Token bucket. The Go code keeps `tokens float64` and `lastUpdate time.Time`. The model keeps tokens in
exact units of 1/512 token and time in ticks of 1/512 s; `rate` is tokens per second, so `k` ticks add
`k * rate` units. On the inputs the harness generates (timestamps on the 1/512 s grid, moderate
magnitudes) every float operation of `Allow` is exact, so the integer model is the exact image of
the float code; no float is ever compared.

Sliding window. `GetCounts` and `Incr` are two atomic steps (each holds the entry mutex) with an
interleaving point between them — the middleware calls them one after the other without a lock.
Time is in nanoseconds since the Unix epoch; the window length is a whole number of seconds, and
`now.Truncate(window).Unix()` is computed on the grid anchored at Go's zero time (`windowStart`).
Core Lean only.
-/
namespace Rivaas.RateLimit

/-! ## token bucket store -/

/-- `tokenBucketEntry{tokens, lastUpdate}`: `tok` in 1/512 token, `last` in 1/512 s -/
structure Bucket where
  tok : Int
  last : Int
  deriving DecidableEq, Repr

/-- `(allowed, remaining, resetSeconds)` -/
structure Out where
  allowed : Bool
  remaining : Int
  reset : Int
  deriving DecidableEq, Repr

/-- the refill part of `Allow`: `tokens += elapsed * rate`, cap at burst, `lastUpdate = now`.
    `r` = rate, `B` = burst in units (burst * 512). A regressing clock makes `elapsed` negative and
    takes tokens away, exactly as the Go code does. -/
def refill (r B : Int) (s : Bucket) (now : Int) : Bucket :=
  let t := s.tok + (now - s.last) * r
  { tok := if t > B then B else t, last := now }

/-- `resetSeconds` of a rejected call after the `fix:` commit for K16a:
    `max(int(math.Ceil(tokensNeeded / rate)), 1)` with `tokensNeeded = 1.0 - tokens`, in seconds -/
def resetFor (r : Int) (tok : Int) : Int :=
  max (((512 - tok) + 512 * r - 1) / (512 * r)) 1

/-- as shipped before the repair: `max(int(tokensNeeded / rate * float64(time.Second)), 1)` —
    a number of nanoseconds -/
def resetForAsIs (r : Int) (tok : Int) : Int :=
  max ((512 - tok) * 1000000000 / (512 * r)) 1

/-- the take part of `Allow` on the refilled entry: with a whole token there, take it, report the
    whole tokens left and `resetSeconds = 1`; otherwise reject with `remaining = 0` and the time to the
    next token. (Entry and answer are written as separate expressions so that projections reduce.) -/
def take (reset : Int → Int → Int) (r : Int) (s : Bucket) : Bucket × Out :=
  ({ tok := if s.tok ≥ 512 then s.tok - 512 else s.tok, last := s.last },
   { allowed := decide (s.tok ≥ 512),
     remaining := if s.tok ≥ 512 then (s.tok - 512) / 512 else 0,
     reset := if s.tok ≥ 512 then 1 else reset r s.tok })

/-- `InMemoryTokenBucketStore.Allow` on the key's entry (the entry mutex makes it atomic) -/
def allow (r B : Int) (s : Bucket) (now : Int) : Bucket × Out := take resetFor r (refill r B s now)
def allowAsIs (r B : Int) (s : Bucket) (now : Int) : Bucket × Out := take resetForAsIs r (refill r B s now)

/-- the store: key ↦ entry (a Go map; association list, most recently created first) -/
abbrev Store := List (Bytes × Bucket)

def Store.get (st : Store) (key : Bytes) : Option Bucket := st.lookup key

def Store.set (st : Store) (key : Bytes) (b : Bucket) : Store :=
  match st with
  | [] => [(key, b)]
  | (k, v) :: rest => if key == k then (k, b) :: rest else (k, v) :: Store.set rest key b

/-- `Allow(key, now)`: a missing entry is created full (`tokens = burst, lastUpdate = now`) -/
def Store.allowWith (f : Int → Int → Bucket → Int → Bucket × Out) (r B : Int) (st : Store) (key : Bytes) (now : Int) :
    Store × Out :=
  let s := (st.get key).getD { tok := B, last := now }
  let res := f r B s now
  (st.set key res.1, res.2)

def Store.allow (r B : Int) (st : Store) (key : Bytes) (now : Int) : Store × Out :=
  Store.allowWith RateLimit.allow r B st key now

/-- a trace of `Allow(key, now)` calls, results in call order -/
def runStoreWith (f : Int → Int → Bucket → Int → Bucket × Out) (r B : Int) : Store → List (Bytes × Int) → List Out
  | _, [] => []
  | st, (k, t) :: rest =>
    let res := Store.allowWith f r B st k t
    res.2 :: runStoreWith f r B res.1 rest

def runStore (r B : Int) (st : Store) (calls : List (Bytes × Int)) : List Out := runStoreWith allow r B st calls
def runStoreAsIs (r B : Int) (st : Store) (calls : List (Bytes × Int)) : List Out := runStoreWith allowAsIs r B st calls

/-- a trace on one entry: final entry and the decisions -/
def run (r B : Int) : Bucket → List Int → Bucket × List Bool
  | s, [] => (s, [])
  | s, t :: ts =>
    let a := allow r B s t
    let rest := run r B a.1 ts
    (rest.1, a.2.allowed :: rest.2)

def countTrue (l : List Bool) : Nat := (l.filter id).length

/-! ## the store's cleanup loop, seen from one key -/

/-- what happens to one key's entry: a call `Allow(key, t)`, or a tick of `cleanupLoop` at instant
    `now` (one clock, ticks of 1/512 s) -/
inductive KeyOp
  | call (t : Int)
  | cleanup (now : Int)
  deriving DecidableEq, Repr

/-- `cleanupLoop` on one entry (after the `fix:` commit for K16d): an entry idle for more than `ttl`
    is deleted, but only once the idle time has refilled it completely -/
def dropsEntry (r B ttl : Int) (now : Int) (e : Bucket) : Bool :=
  decide (e.last < now - ttl) && decide (e.tok + (now - e.last) * r ≥ B)

/-- as shipped before K16d (and as in any variant that honours a TTL without the refill test):
    every idle entry is deleted -/
def dropsEntryAsIs (_r _B ttl : Int) (now : Int) (e : Bucket) : Bool := decide (e.last < now - ttl)

/-- one key's entry under calls and cleanup ticks; the answers to the calls -/
def runOpsWith (drops : Int → Int → Int → Int → Bucket → Bool) (r B ttl : Int) : Option Bucket → List KeyOp → List Out
  | _, [] => []
  | e, .call t :: rest =>
    (allow r B (e.getD { tok := B, last := t }) t).2 ::
      runOpsWith drops r B ttl (some (allow r B (e.getD { tok := B, last := t }) t).1) rest
  | none, .cleanup _ :: rest => runOpsWith drops r B ttl none rest
  | some b, .cleanup now :: rest =>
    runOpsWith drops r B ttl (if drops r B ttl now b then none else some b) rest

def runOps (r B ttl : Int) (e : Option Bucket) (ops : List KeyOp) : List Out := runOpsWith dropsEntry r B ttl e ops
def runOpsAsIs (r B ttl : Int) (e : Option Bucket) (ops : List KeyOp) : List Out := runOpsWith dropsEntryAsIs r B ttl e ops

def KeyOp.time : KeyOp → Int
  | .call t => t
  | .cleanup now => now

/-- the calls of an operation list -/
def callsOf : List KeyOp → List KeyOp
  | [] => []
  | .call t :: rest => .call t :: callsOf rest
  | .cleanup _ :: rest => callsOf rest

/-! ## token bucket middleware (`WithTokenBucket`) -/

structure MwCfg where
  /-- `tb.Burst` -/
  burst : Nat
  /-- `opts.Headers` -/
  headers : Bool
  /-- `opts.Enforce` -/
  enforce : Bool
  /-- `opts.OnExceeded != nil` -/
  hasCallback : Bool
  deriving Repr

/-- what a client sees: status, whether the handler ran, the four headers -/
structure MwObs where
  status : Nat
  ran : Bool
  limit : Option Bytes
  remaining : Option Int
  reset : Option Int
  retryAfter : Option Int
  deriving DecidableEq, Repr

/-- the middleware around one `store.Allow` result. The harness's `OnExceeded` callback writes
    status 418 so that its run is visible. -/
def mwBucket (cfg : MwCfg) (limitText : Bytes) (o : Out) : MwObs :=
  let lim := if cfg.headers then some limitText else none
  let rem := if cfg.headers then some o.remaining else none
  let rst := if cfg.headers then some o.reset else none
  if !o.allowed then
    if cfg.hasCallback then { status := 418, ran := false, limit := lim, remaining := rem, reset := rst, retryAfter := none }
    else if cfg.enforce then { status := 429, ran := false, limit := lim, remaining := rem, reset := rst, retryAfter := some o.reset }
    else { status := 200, ran := true, limit := lim, remaining := rem, reset := rst, retryAfter := none }
  else { status := 200, ran := true, limit := lim, remaining := rem, reset := rst, retryAfter := none }

/-- an option of `New` that sets a number only when it is positive (`WithRequestsPerSecond`, `WithBurst`) -/
def applyPositive (cur opt : Int) : Int := if opt > 0 then opt else cur

/-- `ratelimit.New`: the (rate, burst) the token bucket is built with — defaults 100 requests/s and burst 20, then
    the options in the order they are given (Tie: `new_defaults`, `options_ignore_non_positive`) -/
def newConfig (rateOpts burstOpts : List Int) : Int × Int :=
  (rateOpts.foldl applyPositive 100, burstOpts.foldl applyPositive 20)

/-! ## sliding window (`InMemoryStore` + `WithSlidingWindow`) -/

/-- `windowEntry{current, previous, windowStart}`; `ws` in Unix seconds -/
structure Win where
  cur : Nat
  prev : Nat
  ws : Nat
  deriving DecidableEq, Repr

def nsPerSec : Nat := 1000000000

/-- seconds from Go's zero time (January 1, year 1 UTC) to the Unix epoch -/
def zeroOffset : Nat := 62135596800

/-- `now.Truncate(window).Unix()` for a window of `W` whole seconds, `now` in ns since the Unix
    epoch: `Truncate` rounds down to a multiple of the window counted from Go's *zero time*, not from
    the epoch — the two grids coincide only when `W` divides 86400 s -/
def windowStart (W now : Nat) : Nat := ((now + zeroOffset * nsPerSec) / (W * nsPerSec)) * W - zeroOffset

/-- `windowEntry.roll`: what is carried over as the previous window's count when the entry moves
    to the window starting at `ws` — the old count only when the entry's window is the one right
    before (`e.windowStart < now.Truncate(window).Add(-window).Unix()` is the idle-gap test) -/
def carried (W : Nat) (w : Win) (ws : Nat) : Nat := if w.ws + W < ws then 0 else w.cur

/-- `GetCounts`: roll the entry if a new window has begun, return it -/
def getCounts (W : Nat) (e : Option Win) (now : Nat) : Win :=
  let ws := windowStart W now
  match e with
  | none => { cur := 0, prev := 0, ws := ws }
  | some w => if w.ws < ws then { cur := 0, prev := carried W w ws, ws := ws } else w

/-- `Incr` -/
def incr (W : Nat) (e : Option Win) (now : Nat) : Win :=
  let ws := windowStart W now
  match e with
  | none => { cur := 1, prev := 0, ws := ws }
  | some w => if w.ws < ws then { cur := 1, prev := carried W w ws, ws := ws } else { w with cur := w.cur + 1 }

/-- as shipped before the Retry-After repair: a roll always carried the old count over, however
    long the entry had been idle -/
def getCountsAsIs (W : Nat) (e : Option Win) (now : Nat) : Win :=
  let ws := windowStart W now
  match e with
  | none => { cur := 0, prev := 0, ws := ws }
  | some w => if w.ws < ws then { cur := 0, prev := w.cur, ws := ws } else w

def incrAsIs (W : Nat) (e : Option Win) (now : Nat) : Win :=
  let ws := windowStart W now
  match e with
  | none => { cur := 1, prev := 0, ws := ws }
  | some w => if w.ws < ws then { cur := 1, prev := w.cur, ws := ws } else { w with cur := w.cur + 1 }

/-- `InMemoryStore.cleanupLoop` (every 5 minutes, `now` in Unix seconds): an entry is dropped when its window
    started more than two hours ago and the window after its own has ended -/
def dropsWin (W nowSec : Nat) (w : Win) : Bool := decide (w.ws + 7200 < nowSec) && decide (w.ws + 2 * W ≤ nowSec)

/-- what the middleware computes between `GetCounts` and the response: `int(effectiveUsage)`,
    `remaining`, `resetSeconds`. `effectiveUsage = curr + prev * max(0, 1 - elapsed/W)` with
    `elapsed = min(now - windowStart, W)`; times `W·10⁹` it is the integer `num`. -/
structure Decision where
  usage : Nat
  remaining : Nat
  reset : Nat
  /-- `retryAfterSeconds(curr+1, prev, limit, elapsed, window)` -/
  retry : Nat
  deriving DecidableEq, Repr

/-- `elapsed = max(min(now - windowStart, W), 0)` in ns -/
def elapsedNs (W : Nat) (w : Win) (now : Nat) : Nat := min (now - w.ws * nsPerSec) (W * nsPerSec)

/-- `retryAfterSeconds`: `w` is the entry as `GetCounts` reported it (the rejected request is counted
    on top: `counted = cur + 1`); the wait in ns until the sliding estimate *equals* the limit, then the
    next whole second. `scaleDuration(d, num, den) = ⌊d·num/den⌋` (0 for `num ≤ 0`: truncated
    subtraction). -/
def retryAfter (limit W : Nat) (w : Win) (now : Nat) : Nat :=
  let Wns := W * nsPerSec
  let elapsed := elapsedNs W w now
  let counted := w.cur + 1
  let wait :=
    if limit = 0 then 2 * Wns - elapsed
    else if counted < limit then
      (if 0 < w.prev then Wns * (w.prev - (limit - counted)) / w.prev - elapsed else 0)
    else Wns - elapsed + Wns * (counted - limit) / counted
  wait / nsPerSec + 1

def decide_ (limit W : Nat) (w : Win) (now : Nat) : Decision :=
  let Wns := W * nsPerSec
  let elapsed := elapsedNs W w now
  let num := w.cur * Wns + w.prev * (Wns - elapsed)
  { usage := num / Wns,
    remaining := (limit * Wns - num) / Wns,
    reset := (w.ws + W) - now / nsPerSec,
    retry := retryAfter limit W w now }

/-- one request through `WithSlidingWindow`, as two atomic steps on the key's entry -/
inductive Op
  /-- request `i` reads the clock and calls `GetCounts` -/
  | get (i : Nat)
  /-- request `i` calls `Incr` and answers -/
  | inc (i : Nat)
  deriving DecidableEq, Repr

structure WinReq where
  key : Bytes
  /-- the instant (ns) the request's clock reads are taken at -/
  now : Nat
  deriving Repr

structure WinCfg where
  limit : Nat
  /-- window in whole seconds -/
  W : Nat
  headers : Bool
  enforce : Bool
  hasCallback : Bool
  /-- the store implements `AtomicWindowStore` (the in-memory store does): `IncrAndGetCounts` serves
      the request in one step; otherwise `GetCounts` and `Incr` are two steps -/
  atomic : Bool := false
  deriving Repr

abbrev WinStore := List (Bytes × Win)

def WinStore.set (st : WinStore) (key : Bytes) (w : Win) : WinStore :=
  match st with
  | [] => [(key, w)]
  | (k, v) :: rest => if key == k then (k, w) :: rest else (k, v) :: WinStore.set rest key w

structure WinObs where
  status : Nat
  ran : Bool
  limit : Option Bytes
  remaining : Option Nat
  reset : Option Nat
  retryAfter : Option Nat
  deriving DecidableEq, Repr

/-- the response for a decision -/
def winAnswer (cfg : WinCfg) (limitText : Bytes) (d : Decision) : WinObs :=
  let lim := if cfg.headers then some limitText else none
  let rem := if cfg.headers then some d.remaining else none
  let rst := if cfg.headers then some d.reset else none
  if d.usage ≥ cfg.limit then
    if cfg.hasCallback then { status := 418, ran := false, limit := lim, remaining := rem, reset := rst, retryAfter := none }
    else if cfg.enforce then { status := 429, ran := false, limit := lim, remaining := rem, reset := rst, retryAfter := some d.retry }
    else { status := 200, ran := true, limit := lim, remaining := rem, reset := rst, retryAfter := none }
  else { status := 200, ran := true, limit := lim, remaining := rem, reset := rst, retryAfter := none }

/-- as shipped: `Retry-After` repeated `resetSeconds`, the time to the end of the fixed window -/
def winAnswerAsIs (cfg : WinCfg) (limitText : Bytes) (d : Decision) : WinObs :=
  { winAnswer cfg limitText d with retryAfter := (winAnswer cfg limitText d).retryAfter.map fun _ => d.reset }

/-- interpreter state: the store, and for every request that has done its `GetCounts` the decision
    it took away from it -/
structure WinState where
  store : WinStore
  pending : List (Nat × Decision)
  answers : List (Nat × WinObs)
  deriving Repr

def stepWin (cfg : WinCfg) (limitText : Bytes) (reqs : List WinReq) (s : WinState) : Op → WinState
  | .get i =>
    match reqs[i]? with
    | none => s
    | some q =>
      let w := getCounts cfg.W (s.store.lookup q.key) q.now
      if cfg.atomic then
        -- `IncrAndGetCounts`: roll, report, count — one step under the entry lock; the request's
        -- verdict is fixed here (its `inc` step is only the point at which the response is complete)
        { s with store := s.store.set q.key (incr cfg.W (some w) q.now),
                 answers := s.answers ++ [(i, winAnswer cfg limitText (decide_ cfg.limit cfg.W w q.now))] }
      else
        { s with store := s.store.set q.key w, pending := (i, decide_ cfg.limit cfg.W w q.now) :: s.pending }
  | .inc i =>
    if cfg.atomic then s else
    match reqs[i]?, s.pending.lookup i with
    | some q, some d =>
      let w := incr cfg.W (s.store.lookup q.key) q.now
      { s with store := s.store.set q.key w, answers := s.answers ++ [(i, winAnswer cfg limitText d)] }
    | _, _ => s

/-- run a schedule; answers in completion order -/
def runWin (cfg : WinCfg) (limitText : Bytes) (reqs : List WinReq) (sched : List Op) : List (Nat × WinObs) :=
  (sched.foldl (stepWin cfg limitText reqs) { store := [], pending := [], answers := [] }).answers

/-- the serial schedule: every request does `GetCounts` and `Incr` back to back -/
def serial (n : Nat) : List Op := (List.range n).flatMap fun i => [Op.get i, Op.inc i]

end Rivaas.RateLimit
