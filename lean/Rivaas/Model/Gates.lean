import Rivaas.Basic
/-
C17 — executable models of the five request-gating / redirect middleware, following the Go code
statement by statement as it is in the repository now:

  * `Body`   — middleware/bodylimit/bodylimit.go   (`limitedReader.Read`, `New`)
  * `Auth`   — middleware/basicauth/basicauth.go   (`New`)
  * `Cors`   — middleware/cors/cors.go + options.go (`New`, the `With…` options)
  * `Method` — middleware/methodoverride/methodoverride.go + options.go
  * `Slash`  — middleware/trailingslash/trailingslash.go (`New`, `Wrap`, `redirect308*`) together
               with the part of `net/url.(*URL).String` the redirect goes through

Library functions are parameters (the harness evaluates the real function and ships the result):
`strconv.ParseInt` (Content-Length), `base64.StdEncoding.DecodeString`, `strings.ToUpper`,
`strings.TrimSpace`, `Header.Get`, `URL.Query().Get`, the user's `allowOriginFunc`.
`net/url`'s path escaping is small enough to be modelled here (`escapePath`); the correspondence
run compares it with the real `URL.String()` on every case.
Core Lean only.
-/
namespace Rivaas.Gates

/-! ## bodylimit -/
namespace Body

/-- error classes of a `Read`: nil, io.EOF, ErrBodyLimitExceeded, any other error -/
inductive Err | none | eof | limit | other
  deriving DecidableEq, Repr

/-- what the underlying reader (the request body below the middleware) does on its next `Read`:
    hand out up to `k` bytes (at least one), return `(0, nil)`, fail with a non-EOF error, or hand out bytes and fail -/
inductive Step
  | data (k : Nat)
  | zero
  | fail
  /-- hand out up to `k` bytes (at least one) TOGETHER with a non-EOF error (`(n > 0, err)`, which io.Reader allows) -/
  | dataFail (k : Nat)
  deriving DecidableEq, Repr

/-- underlying reader: the bytes still to come, the per-call script (once it is used up a call
    fills the whole buffer) and whether io.EOF is reported together with the last bytes -/
structure Under where
  rem : Bytes
  script : List Step
  eofWithLast : Bool
  deriving Repr

/-- how many bytes a data read may hand out into a buffer of `cap` bytes -/
def chunkOf (u : Under) (cap : Nat) : Nat :=
  match u.script with
  | .data k :: _ => min cap (max k 1)
  | _ => cap

/-- one `Read(p)` of the underlying reader with `len(p) = cap` -/
def Under.read (u : Under) (cap : Nat) : Bytes × Err × Under :=
  if u.rem = [] then ([], .eof, u)
  else match u.script with
    | .zero :: rest => ([], .none, { u with script := rest })
    | .fail :: rest => ([], .other, { u with script := rest })
    | .dataFail k :: rest =>
      let n := min (min cap (max k 1)) u.rem.length
      (u.rem.take n, .other, { u with rem := u.rem.drop n, script := rest })
    | _ =>
      let n := min (chunkOf u cap) u.rem.length
      (u.rem.take n,
       (if u.rem.drop n = [] ∧ u.eofWithLast = true then .eof else .none),
       { u with rem := u.rem.drop n, script := u.script.tail })

/-- `limitedReader{reader, limit, read}` -/
structure LR where
  under : Under
  limit : Nat
  read : Nat := 0
  deriving Repr

/-- `maxEmptyReads` of bodylimit.go -/
def maxEmptyReads : Nat := 100

/-- the look-ahead loop of `limitedReader.Read` (after the `fix:` commit for K17c): the one-byte
    read is repeated while it returns `(0, nil)`, at most `k` times; running out of attempts is
    io.ErrNoProgress (an `other` error) -/
def lookAhead : Nat → Under → Bytes × Err × Under
  | 0, u => ([], .other, u)
  | k+1, u =>
    let x := u.read 1
    if x.1 ≠ [] ∨ x.2.1 ≠ .none then x else lookAhead k x.2.2

/-- `limitedReader.Read`. Data, error and next state are three separate expressions.
    `r` is the clipped read of the underlying reader, `x` the look-ahead, consulted only when the
    limit has been reached and `r` reported no error: a byte means the body is too large, otherwise
    the look-ahead's own verdict (io.EOF or the transport's error) is passed on. -/
def LR.read1 (l : LR) (cap : Nat) : Bytes × Err × LR :=
  if l.read ≥ l.limit then ([], .eof, l)
  else
    let r := l.under.read (min cap (l.limit - l.read))
    let rd := l.read + r.1.length
    let x := lookAhead maxEmptyReads r.2.2
    let look : Bool := decide (rd ≥ l.limit) && decide (r.2.1 = .none)
    (r.1,
     (if look then (if x.1 ≠ [] then .limit else x.2.1) else r.2.1),
     { l with under := (if look then x.2.2 else r.2.2), read := rd })

/-- `limitedReader.Read` as shipped before the repair of K17c (kept for the witnesses): a single
    look-ahead read, and only io.EOF is copied from it — a look-ahead that yields no byte and
    `nil` or a transport error leaves `err == nil`, and the next call reports io.EOF. -/
def LR.read1AsIs (l : LR) (cap : Nat) : Bytes × Err × LR :=
  if l.read ≥ l.limit then ([], .eof, l)
  else
    let r := l.under.read (min cap (l.limit - l.read))
    let rd := l.read + r.1.length
    let x := r.2.2.read 1
    let look : Bool := decide (rd ≥ l.limit) && decide (r.2.1 = .none)
    (r.1,
     (if look then (if x.1 ≠ [] then .limit else if x.2.1 = .eof then .eof else .none) else r.2.1),
     { l with under := (if look then x.2.2 else r.2.2), read := rd })

/-- the handler's read loop: `for { n, err := body.Read(buf[:cap]); acc = append(acc, buf[:n]...);
    if err != nil { break } }`, buffer size of the i-th call taken from `caps` (then `dflt`).
    `fuel` bounds the number of calls (the harness loop has the same bound); running out of it is
    reported as `Err.none`. -/
def readAll (dflt : Nat) : Nat → List Nat → LR → Bytes → Bytes × Err
  | 0, _, _, acc => (acc, .none)
  | fuel+1, caps, l, acc =>
    let r := l.read1 (max 1 (caps.headD dflt))
    if r.2.1 = .none then readAll dflt fuel caps.tail r.2.2 (acc ++ r.1) else (acc ++ r.1, r.2.1)

/-- the same loop over the reader as shipped before the repair -/
def readAllAsIs (dflt : Nat) : Nat → List Nat → LR → Bytes → Bytes × Err
  | 0, _, _, acc => (acc, .none)
  | fuel+1, caps, l, acc =>
    let r := l.read1AsIs (max 1 (caps.headD dflt))
    if r.2.1 = .none then readAllAsIs dflt fuel caps.tail r.2.2 (acc ++ r.1) else (acc ++ r.1, r.2.1)

/-- the `Content-Length` request header as the middleware sees it -/
inductive CL
  /-- header absent or empty -/
  | absent
  /-- `strconv.ParseInt` failed -/
  | garbage
  /-- parsed value -/
  | val (n : Int)
  deriving DecidableEq, Repr

structure Req where
  /-- `cfg.limit` (`WithLimit` panics unless positive) -/
  limit : Nat
  /-- `cfg.skipPaths[c.Request.URL.Path]` -/
  skip : Bool
  cl : CL
  body : Bytes
  script : List Step
  eofWithLast : Bool
  /-- buffer sizes used by the handler's read loop -/
  caps : List Nat
  dflt : Nat
  deriving Repr

structure Obs where
  status : Nat
  ran : Bool
  data : Bytes
  err : Err
  deriving DecidableEq, Repr

def fuelFor (r : Req) : Nat := r.body.length + r.script.length + 3

/-- the body reader the handler sees when no limit applies (skipped path): the underlying reader -/
def readPlain (dflt : Nat) : Nat → List Nat → Under → Bytes → Bytes × Err
  | 0, _, _, acc => (acc, .none)
  | fuel+1, caps, u, acc =>
    let r := u.read (max 1 (caps.headD dflt))
    if r.2.1 = .none then readPlain dflt fuel caps.tail r.2.2 (acc ++ r.1) else (acc ++ r.1, r.2.1)

/-- phase 1 of the middleware: a `Content-Length` header that parses to more than the limit -/
def over (r : Req) : Bool :=
  match r.cl with
  | .val n => decide (n > (r.limit : Int))
  | _ => false

/-- `bodylimit.New(...)` in front of a handler that reads the whole body -/
def serve (r : Req) : Obs :=
  let u : Under := { rem := r.body, script := r.script, eofWithLast := r.eofWithLast }
  if r.skip then
    let d := readPlain r.dflt (fuelFor r) r.caps u []
    { status := 200, ran := true, data := d.1, err := d.2 }
  else
    if over r then { status := 413, ran := false, data := [], err := .none }
    else
      let d := readAll r.dflt (fuelFor r) r.caps { under := u, limit := r.limit } []
      { status := 200, ran := true, data := d.1, err := d.2 }

/-! ### the default error response (`defaultErrorHandler`, `formatSize`) -/

def KB : Nat := 1024
def MB : Nat := 1024 * 1024
def GB : Nat := 1024 * 1024 * 1024

/-- `fmt.Sprintf("%.1f", float64(bytes)/float64(unit))` in tenths, for `bytes < 2^53` and `unit` a power of two:
    the conversion and the division are exact, `%.1f` rounds the exact quotient to the nearest tenth, ties to even -/
def roundTenths (bytes unit : Nat) : Nat :=
  let q := bytes * 10 / unit
  let r := bytes * 10 % unit
  if 2 * r < unit then q else if 2 * r > unit then q + 1 else if q % 2 = 0 then q else q + 1

def showTenths (t : Nat) (unitName : Bytes) : Bytes :=
  (Nat.repr (t / 10)).toList ++ ['.'] ++ (Nat.repr (t % 10)).toList ++ unitName

/-- `formatSize(bytes)`: the `switch` of bodylimit.go -/
def formatSize (bytes : Nat) : Bytes :=
  if bytes ≥ GB then showTenths (roundTenths bytes GB) ['G', 'B']
  else if bytes ≥ MB then showTenths (roundTenths bytes MB) ['M', 'B']
  else if bytes ≥ KB then showTenths (roundTenths bytes KB) ['K', 'B']
  else (Nat.repr bytes).toList ++ ['B']

/-- what a rejection looks like on the wire -/
structure ErrResp where
  status : Nat
  ctype : Bytes
  body : Bytes
  /-- `WWW-Authenticate` (basicauth only) -/
  www : Option Bytes := none
  deriving DecidableEq, Repr

def jsonCT : Bytes := "application/json; charset=utf-8".toList

/-- `defaultErrorHandler(c, limit)`: `c.Status(413)`, then `c.JSON(413, {"error": …, "max_size": formatSize(limit)})`
    (encoding/json writes the keys of a map sorted and ends the document with a newline); `ctype` is the Content-Type
    of the response as a recorder sees it -/
def errorResponse (limit : Nat) : ErrResp :=
  -- as observed: `c.Status(413)` commits the header block BEFORE `c.JSON` sets Content-Type, so the JSON document goes
  -- out without a Content-Type of its own (a real server then sniffs text/plain); outside the statement of C17
  { status := 413, ctype := [],
    body := "{\"error\":\"request entity too large\",\"max_size\":\"".toList ++ formatSize limit ++ "\"}\n".toList }

end Body

/-! ## basicauth -/
namespace Auth

structure Req where
  /-- `cfg.users` (a Go map: keys are distinct; shipped sorted) -/
  users : List (Bytes × Bytes)
  realm : Bytes
  /-- `Header.Get("Authorization")` ("" when absent) -/
  auth : Bytes
  /-- `base64.StdEncoding.DecodeString(auth[6:])`, `none` when it fails (or `auth` is shorter) -/
  dec : Option Bytes
  /-- `cfg.validator` (`WithValidator`): `none` = not configured (the user table decides);
      `some v` = the verdict of the configured validator on the user/password pair the header carries -/
  validator : Option Bool := none
  deriving Repr

structure Obs where
  ran : Bool
  status : Nat
  /-- `WWW-Authenticate` response header -/
  www : Option Bytes
  /-- `basicauth.Username(c)` inside the handler -/
  user : Bytes
  deriving DecidableEq, Repr

def prefixBasic : Bytes := "Basic ".toList

/-- `strings.Cut(s, ":")` -/
def cut (sep : Char) : Bytes → Option (Bytes × Bytes)
  | [] => none
  | c :: rest =>
    if c = sep then some ([], rest)
    else match cut sep rest with
      | some (a, b) => some (c :: a, b)
      | none => none

def reject (r : Req) : Obs :=
  { ran := false, status := 401, www := some ("Basic realm=\"".toList ++ r.realm ++ "\"".toList), user := [] }

/-- "Validate credentials": the custom validator if one is configured, else the user table with a
    constant-time (= plain) comparison of the passwords -/
def authenticated (r : Req) (u p : Bytes) : Bool :=
  match r.validator with
  | some v => v
  | none =>
    match r.users.lookup u with
    | some p' => decide (p = p')
    | none => false

/-- `basicauth.New(WithUsers(users) | WithValidator(fn), WithRealm(realm))` in front of a handler -/
def serve (r : Req) : Obs :=
  if r.auth = [] then reject r
  else if ¬ (prefixBasic.isPrefixOf r.auth = true) then reject r
  else match r.dec with
    | none => reject r
    | some cred =>
      match cut ':' cred with
      | none => reject r
      | some (u, p) =>
        if authenticated r u p then { ran := true, status := 200, www := none, user := u } else reject r

/-- `defaultUnauthorizedHandler` behind the `WWW-Authenticate` header: `c.JSON(401, {"error": "Unauthorized", "code":
    "UNAUTHORIZED"})` (keys sorted by encoding/json) -/
def errorResponse (realm : Bytes) : Body.ErrResp :=
  { status := 401, ctype := Body.jsonCT,
    body := "{\"code\":\"UNAUTHORIZED\",\"error\":\"Unauthorized\"}\n".toList,
    www := some ("Basic realm=\"".toList ++ realm ++ "\"".toList) }

/-- the whole middleware: `cfg.skipPaths[c.Request.URL.Path]` (exact match on the path as the request
    carries it — no cleaning, no decoding beyond what `net/url` did) exempts the request -/
def gate (skip : Bool) (r : Req) : Obs :=
  if skip then { ran := true, status := 200, www := none, user := [] } else serve r

end Auth

/-! ## cors -/
namespace Cors

/-- the functional options of cors/options.go -/
inductive Opt
  | origins (l : List Bytes)
  | allowAll (b : Bool)
  | methods (l : List Bytes)
  | headers (l : List Bytes)
  | exposed (l : List Bytes)
  | credentials (b : Bool)
  | maxAge (n : Nat)
  /-- `WithAllowOriginFunc(fn)`; `present = false` is `fn == nil` -/
  | originFunc (present : Bool)
  deriving DecidableEq, Repr

structure Cfg where
  allowedOrigins : List Bytes
  allowedMethods : List Bytes
  allowedHeaders : List Bytes
  exposedHeaders : List Bytes
  allowCredentials : Bool
  maxAge : Nat
  allowAll : Bool
  hasFunc : Bool
  deriving DecidableEq, Repr

def defaultCfg : Cfg :=
  { allowedOrigins := [],
    allowedMethods := ["GET", "POST", "PUT", "PATCH", "DELETE", "HEAD", "OPTIONS"].map String.toList,
    allowedHeaders := ["Origin", "Content-Type", "Accept", "Authorization"].map String.toList,
    exposedHeaders := [], allowCredentials := false, maxAge := 3600, allowAll := false, hasFunc := false }

def applyOpt (c : Cfg) : Opt → Cfg
  | .origins l => { c with allowedOrigins := l, allowAll := false }
  | .allowAll b => { c with allowAll := b }
  | .methods l => { c with allowedMethods := l }
  | .headers l => { c with allowedHeaders := l }
  | .exposed l => { c with exposedHeaders := l }
  | .credentials b => { c with allowCredentials := b }
  | .maxAge n => { c with maxAge := n }
  | .originFunc p => { c with hasFunc := p }

def config (opts : List Opt) : Cfg := opts.foldl applyOpt defaultCfg

structure Req where
  opts : List Opt
  /-- `Header.Get("Origin")` ("" when absent) -/
  origin : Bytes
  /-- what the configured `allowOriginFunc` answers for this origin (only read when one is set) -/
  funcSays : Bool
  /-- `c.Request.Method == "OPTIONS"` -/
  isOptions : Bool
  deriving Repr

structure Obs where
  ran : Bool
  status : Nat
  acao : Option Bytes
  acac : Option Bytes
  expose : Option Bytes
  methods : Option Bytes
  headers : Option Bytes
  maxAge : Option Bytes
  deriving DecidableEq, Repr

/-- `strings.Join(l, ", ")` -/
def join (l : List Bytes) : Bytes := List.intercalate ", ".toList l

def star : Bytes := ['*']
def strue : Bytes := "true".toList

def pass : Obs :=
  { ran := true, status := 200, acao := none, acac := none, expose := none, methods := none, headers := none, maxAge := none }

/-- the origin decision: `allowedOrigin` of the Go code ("" = not allowed).
    After the `fix:` commit for K17b a literal `*` origin is never allowed together with
    credentials (reflecting it would pair `Access-Control-Allow-Origin: *` with credentials). -/
def allowedOrigin (cfg : Cfg) (origin : Bytes) (funcSays : Bool) : Bytes :=
  let a : Bytes :=
    if cfg.allowAll then star
    else if cfg.hasFunc then (if funcSays then origin else [])
    else (if cfg.allowedOrigins.contains origin then origin else [])
  if cfg.allowCredentials && origin == star then [] else a

/-- the decision as shipped before the repair (kept for the K17b witness) -/
def allowedOriginAsIs (cfg : Cfg) (origin : Bytes) (funcSays : Bool) : Bytes :=
  if cfg.allowAll then star
  else if cfg.hasFunc then (if funcSays then origin else [])
  else (if cfg.allowedOrigins.contains origin then origin else [])

def serveWith (decide_ : Cfg → Bytes → Bool → Bytes) (r : Req) : Obs :=
  let cfg := config r.opts
  if r.origin = [] then pass
  else
    let a := decide_ cfg r.origin r.funcSays
    if a = [] then pass
    else
      let acao := if cfg.allowCredentials && a == star then r.origin else a
      let acac := if cfg.allowCredentials then some strue else none
      let exposedHeader := if cfg.exposedHeaders.length > 0 then join cfg.exposedHeaders else []
      let expose := if exposedHeader ≠ [] then some exposedHeader else none
      if r.isOptions then
        -- the preflight branch writes 204 and returns without `c.Next()` *and without `c.Abort()`*:
        -- the router's chain loop (`Context.Next`) then goes on to the next handler, so the route's
        -- own OPTIONS handler still runs after the 204 (observed; outside the statement of C17)
        { ran := true, status := 204, acao := some acao, acac := acac, expose := expose,
          methods := some (join cfg.allowedMethods), headers := some (join cfg.allowedHeaders),
          maxAge := some (Nat.repr cfg.maxAge).toList }
      else
        { ran := true, status := 200, acao := some acao, acac := acac, expose := expose,
          methods := none, headers := none, maxAge := none }

/-- `cors.New(opts...)` in front of a handler -/
def serve (r : Req) : Obs := serveWith allowedOrigin r
def serveAsIs (r : Req) : Obs := serveWith allowedOriginAsIs r

end Cors

/-! ## methodoverride -/
namespace Method

inductive Opt
  | header (s : Bytes)
  | query (s : Bytes)
  | allow (l : List Bytes)
  | onlyOn (l : List Bytes)
  | respectBody (b : Bool)
  | csrf (b : Bool)
  deriving DecidableEq, Repr

structure Cfg where
  header : Bytes
  queryParam : Bytes
  allow : List Bytes
  onlyOn : List Bytes
  respectBody : Bool
  requireCSRF : Bool
  deriving DecidableEq, Repr

def defaultCfg : Cfg :=
  { header := "X-HTTP-Method-Override".toList, queryParam := "_method".toList,
    allow := ["PUT", "PATCH", "DELETE"].map String.toList, onlyOn := ["POST"].map String.toList,
    respectBody := false, requireCSRF := false }

def applyOpt (c : Cfg) : Opt → Cfg
  | .header s => { c with header := s }
  | .query s => { c with queryParam := s }
  | .allow l => { c with allow := l }
  | .onlyOn l => { c with onlyOn := l }
  | .respectBody b => { c with respectBody := b }
  | .csrf b => { c with requireCSRF := b }

def config (opts : List Opt) : Cfg := opts.foldl applyOpt defaultCfg

/-- a shipped function table `input ↦ result`; an input that is missing maps to itself -/
def app (tab : List (Bytes × Bytes)) (s : Bytes) : Bytes := (tab.lookup s).getD s
/-- a shipped lookup table `name ↦ value`; a missing name reads as "" (like `Header.Get`) -/
def get (tab : List (Bytes × Bytes)) (s : Bytes) : Bytes := (tab.lookup s).getD []

structure Req where
  opts : List Opt
  /-- `c.Request.Method` -/
  method : Bytes
  /-- the original method an outer method-override instance has already recorded in the request
      context ("" = none): `OriginalMethod(c)` reports the innermost recorded value -/
  ctxOrig : Bytes := []
  /-- the request context carries the (unexported) CSRF-verified mark -/
  csrfVerified : Bool
  /-- `c.Request.ContentLength == 0` -/
  clZero : Bool
  /-- `Header.Get(name)` for every header name a configuration can ask for -/
  hdr : List (Bytes × Bytes)
  /-- `URL.Query().Get(name)` for every query parameter a configuration can ask for -/
  qry : List (Bytes × Bytes)
  /-- `strings.ToUpper` on the request method and on every configured method -/
  upper : List (Bytes × Bytes)
  /-- `strings.ToUpper(strings.TrimSpace(v))` on every candidate override value -/
  norm : List (Bytes × Bytes)
  deriving Repr

structure Obs where
  ran : Bool
  /-- `c.Request.Method` inside the handler -/
  seen : Bytes
  /-- `methodoverride.OriginalMethod(c)` inside the handler -/
  original : Bytes
  deriving DecidableEq, Repr

/-- the value the middleware takes the override from (header first, then the query parameter) -/
def requested (cfg : Cfg) (r : Req) : Bytes :=
  let h := get r.hdr cfg.header
  if h = [] ∧ cfg.queryParam ≠ [] then get r.qry cfg.queryParam else h

/-- `methodoverride.New(opts...)` in front of a handler -/
def serve (r : Req) : Obs :=
  let cfg := config r.opts
  let pass : Obs := { ran := true, seen := r.method, original := if r.ctxOrig = [] then r.method else r.ctxOrig }
  if ¬ ((cfg.onlyOn.map (app r.upper)).contains (app r.upper r.method) = true) then pass
  else if cfg.requireCSRF ∧ ¬ r.csrfVerified then pass
  else
    let ov := requested cfg r
    if ov = [] then pass
    else
      let ov := app r.norm ov
      if ¬ ((cfg.allow.map (app r.upper)).contains ov = true) then pass
      else if cfg.respectBody ∧ r.clZero then pass
      else { ran := true, seen := ov, original := r.method }

end Method

/-! ## trailingslash -/
namespace Slash

/-- ASCII letter or digit (`'a' <= c && c <= 'z' || 'A' <= c && c <= 'Z' || '0' <= c && c <= '9'`),
    on the byte value -/
def isAlnum (c : Char) : Bool :=
  (97 ≤ c.toNat && c.toNat ≤ 122) || (65 ≤ c.toNat && c.toNat ≤ 90) || (48 ≤ c.toNat && c.toNat ≤ 57)

/-- `net/url.shouldEscape(c, encodePath)`: alphanumerics, `-_.~` and `$&+,/:;=@` stay, everything
    else (`?` included) is escaped. Stated on the byte value. -/
def shouldEscapePath (c : Char) : Bool :=
  if isAlnum c then false
  else if c.toNat = 45 ∨ c.toNat = 95 ∨ c.toNat = 46 ∨ c.toNat = 126 then false          -- - _ . ~
  else if c.toNat = 36 ∨ c.toNat = 38 ∨ c.toNat = 43 ∨ c.toNat = 44 ∨ c.toNat = 47 ∨     -- $ & + , /
          c.toNat = 58 ∨ c.toNat = 59 ∨ c.toNat = 61 ∨ c.toNat = 64 then false            -- : ; = @
  else true

/-- `"0123456789ABCDEF"[n]` -/
def upperhex (n : Nat) : Char := if n < 10 then Char.ofNat (48 + n) else Char.ofNat (55 + n)

/-- `net/url.escape(s, encodePath)` -/
def escapePath : Bytes → Bytes
  | [] => []
  | c :: r =>
    if shouldEscapePath c then '%' :: upperhex (c.toNat / 16) :: upperhex (c.toNat % 16) :: escapePath r
    else c :: escapePath r

/-- `(*URL).EscapedPath()` when `RawPath` is not an encoding of `Path` (always the case after the
    middleware has rewritten `Path`) -/
def escapedPath (p : Bytes) : Bytes := if p = ['*'] then ['*'] else escapePath p

/-- first path segment (`strings.Cut(path, "/")`) contains a colon -/
def firstSegHasColon : Bytes → Bool
  | [] => false
  | c :: r => if c = '/' then false else if c = ':' then true else firstSegHasColon r

/-- `if path != "" && path[0] != '/' && u.Host != "" { buf.WriteByte('/') }` -/
def slashFor (hostSet : Bool) (ep : Bytes) : Bytes :=
  match ep with
  | c :: _ => if c ≠ '/' ∧ hostSet = true then ['/'] else []
  | [] => []

/-- `if buf.Len() == 0 { if segment, _, _ := strings.Cut(path, "/"); strings.Contains(segment, ":") { "./" } }` -/
def dotFor (pre sl ep : Bytes) : Bytes :=
  if pre = [] ∧ sl = [] ∧ firstSegHasColon ep = true then ['.', '/'] else []

/-- `if u.ForceQuery || u.RawQuery != "" { '?' + RawQuery }` -/
def queryFor (rawQuery : Bytes) (forceQuery : Bool) : Bytes :=
  if forceQuery = true ∨ rawQuery ≠ [] then '?' :: rawQuery else []

/-- `(*URL).String()` for a URL without Opaque, User and Fragment. `pre` is what is printed before
    the path (`scheme://host`, empty for an origin-form request target); `hostSet` is `u.Host != ""`. -/
def urlString (pre : Bytes) (hostSet : Bool) (path rawQuery : Bytes) (forceQuery : Bool) : Bytes :=
  pre ++ slashFor hostSet (escapedPath path)
      ++ dotFor pre (slashFor hostSet (escapedPath path)) (escapedPath path)
      ++ escapedPath path ++ queryFor rawQuery forceQuery

structure Req where
  /-- `cfg.policy` as an integer: 0 remove, 1 add, 2 strict (anything else: no case matches) -/
  policy : Nat
  /-- `URL.Path` -/
  path : Bytes
  pre : Bytes
  hostSet : Bool
  rawQuery : Bytes
  forceQuery : Bool
  deriving Repr

structure Obs where
  ran : Bool
  status : Nat
  loc : Option Bytes
  deriving DecidableEq, Repr

def hasSlash (p : Bytes) : Bool := p.getLast? == some '/'

/-- the path the middleware redirects to, if it redirects
    (`strings.TrimSuffix(p, "/")` of a `p` that ends in "/" is `p.dropLast`) -/
def target (policy : Nat) (path : Bytes) : Option Bytes :=
  if path = ['/'] then none
  else if policy = 0 then (if hasSlash path then some path.dropLast else none)
  else if policy = 1 then (if hasSlash path then none else some (path ++ ['/']))
  else none

/-- the `Location` value as shipped before the repair of K17: `newURL.String()` -/
def locationAsIs (r : Req) (newPath : Bytes) : Bytes :=
  urlString r.pre r.hostSet newPath r.rawQuery r.forceQuery

/-- the `Location` value after the `fix:` commit for K17 and before the one for K17d: a URL without scheme
    and host whose string form starts with `//` (a path beginning with two slashes — a network-path
    reference for every client) gets its second slash percent-encoded:
    `if u.Scheme == "" && u.Host == "" && u.User == nil && strings.HasPrefix(loc, "//") { loc = "/%2F" + loc[2:] }` -/
def locationK17 (r : Req) (newPath : Bytes) : Bytes :=
  if r.pre = [] ∧ r.hostSet = false ∧ ['/', '/'].isPrefixOf (locationAsIs r newPath) = true
  then ['/', '%', '2', 'F'] ++ (locationAsIs r newPath).drop 2
  else locationAsIs r newPath

/-- `redirectLocation` as it is now (K17d): a URL without a host is answered with a path reference whatever else it
    carries — `if u.Host != "" || u.User != nil { return u.String() }`, otherwise the string form of
    `url.URL{Path, RawPath, RawQuery, ForceQuery}` with the `//` guard. In terms of the request record: without a host
    nothing is printed before the path. -/
def noHostPrefix (r : Req) : Req := { r with pre := if r.hostSet then r.pre else [] }

def location (r : Req) (newPath : Bytes) : Bytes := locationK17 (noHostPrefix r) newPath

def serveWith (loc : Req → Bytes → Bytes) (r : Req) : Obs :=
  match target r.policy r.path with
  | some np => { ran := false, status := 308, loc := some (loc r np) }
  | none => { ran := true, status := 200, loc := none }

/-- `trailingslash.New(WithPolicy(p))` / `trailingslash.Wrap(h, WithPolicy(p))` in front of a handler -/
def serve (r : Req) : Obs := serveWith location r
def serveAsIs (r : Req) : Obs := serveWith locationAsIs r
/-- between the repairs of K17 and K17d (kept for the K17d witness) -/
def serveK17 (r : Req) : Obs := serveWith locationK17 r

end Slash

end Rivaas.Gates
