import Rivaas.Basic
/-
Model of the pooled router.Context for C03 (router/context.go, router/pool.go, the field
initialisation in router/serve.go and router/router.go). Core Lean only.

`Ctx` has the fields of router.Context (`fieldNames`, tied to the source by `Tie/C03.reset_matches_model`);
pointers are abstract identities (`Nat`, 0 = nil). `reset` follows `(*Context).reset` statement by statement
(`resetKinds` records, per field, which statement form the model transcribes — also tied to the source).
A serve path prepares the context it got from the pool with a sequence of `Step`s (field assignments and the
parameter writes of the route lookup); `view` is what a handler can observe through the public API.
-/
namespace Rivaas.Pool

/-- fields of router.Context in declaration order -/
def fieldNames : List String :=
  ["Request", "Response", "handlers", "router", "index", "paramCount", "paramKeys", "paramValues", "Params",
   "version", "routePattern", "cachedAcceptHeader", "cachedAcceptSpecs", "cachedArena", "aborted", "errors"]

/-- what the model's `reset` does per field (codes of Gen/Ctx.lean): 1 zero value, 0 untouched (router),
    2 constant (index = -1), 3 cleared under a guard on itself (paramCount, cachedArena), 5 used slots cleared
    (paramKeys, paramValues), 4 emptied with clear() (Params) -/
def resetKinds : List Nat := [1, 1, 1, 0, 2, 3, 5, 5, 4, 1, 1, 1, 1, 3, 1, 1]

def slotCount : Nat := 8

abbrev KV := Bytes × Bytes

structure Ctx where
  request : Nat := 0
  response : Nat := 0
  handlers : Nat := 0
  router : Nat := 0
  index : Int := 0
  paramCount : Int := 0
  slots : Nat → KV := fun _ => ([], [])     -- (paramKeys[i], paramValues[i]); only i < 8 exist
  params : Option (List KV) := none         -- Params map (association list, keys unique); none = nil
  version : Bytes := []
  routePattern : Bytes := []
  acceptHeader : Bytes := []
  acceptSpecs : Nat := 0
  arena : Nat := 0
  aborted : Bool := false
  errors : List Nat := []

/-- what sync.Pool's New returns: `&Context{paramKeys: [8]string{}, paramValues: [8]string{}}` -/
def brandNew : Ctx := {}

/-- `(*Context).reset` -/
def reset (c : Ctx) : Ctx :=
  { c with
    request := 0, response := 0, handlers := 0, index := -1,
    version := [], routePattern := [],
    aborted := false, errors := [],
    acceptHeader := [], acceptSpecs := 0,
    arena := 0,                                        -- `if c.cachedArena != nil { …; c.cachedArena = nil }`
    -- `if c.paramCount > 0 { clearCount := min(c.paramCount, 8); for i := range clearCount { … = "" }; c.paramCount = 0 }`
    slots := if c.paramCount > 0 then (fun i => if i < min c.paramCount.toNat 8 then ([], []) else c.slots i) else c.slots,
    paramCount := if c.paramCount > 0 then 0 else c.paramCount,
    -- `if c.Params != nil { clear(c.Params) }`
    params := c.params.map (fun _ => []) }

/-- what a handler can observe through the API: `Param`, `AllParams`, `ParamCount`, `Params`, `Version`,
    `RoutePattern`, `IsAborted`, `Errors`, the Accept cache, plus the fields `Next` and the responders use.
    Slots at or above `paramCount` are never read; a nil and an empty `Params` map read the same. -/
structure View where
  request : Nat
  response : Nat
  handlers : Nat
  router : Nat
  index : Int
  paramCount : Int
  visible : List KV
  mapEntries : List KV
  version : Bytes
  routePattern : Bytes
  acceptHeader : Bytes
  acceptSpecs : Nat
  arena : Nat
  aborted : Bool
  errors : List Nat
  deriving DecidableEq, Repr

def view (c : Ctx) : View :=
  { request := c.request, response := c.response, handlers := c.handlers, router := c.router, index := c.index,
    paramCount := c.paramCount,
    visible := (List.range (min c.paramCount.toNat 8)).map c.slots,
    mapEntries := c.params.getD [],
    version := c.version, routePattern := c.routePattern, acceptHeader := c.acceptHeader,
    acceptSpecs := c.acceptSpecs, arena := c.arena, aborted := c.aborted, errors := c.errors }

/-- `m[k] = v` on an association list -/
def mapSet (m : List KV) (k v : Bytes) : List KV :=
  match m with
  | [] => [(k, v)]
  | (k', v') :: r => if k' = k then (k, v) :: r else (k', v') :: mapSet r k v

/-- what a serve path does to the context between the pool get and the first handler -/
inductive Step
  | setRequest (n : Nat)
  | setResponse (n : Nat)
  | setHandlers (n : Nat)
  | setRouter (n : Nat)
  | setIndex (i : Int)
  | zeroCount                        -- `c.paramCount = 0` / `SetParamCount(0)` (the only value ever assigned: Tie/extractor)
  | setVersion (b : Bytes)
  | setPattern (b : Bytes)
  | writeParam (k v : Bytes)         -- one parameter stored by tree.getRoute / matchAndExtract
  deriving DecidableEq, Repr

def Step.apply : Step → Ctx → Ctx
  | .setRequest n, c => { c with request := n }
  | .setResponse n, c => { c with response := n }
  | .setHandlers n, c => { c with handlers := n }
  | .setRouter n, c => { c with router := n }
  | .setIndex i, c => { c with index := i }
  | .zeroCount, c => { c with paramCount := 0 }
  | .setVersion b, c => { c with version := b }
  | .setPattern b, c => { c with routePattern := b }
  | .writeParam k v, c =>
    -- `paramIdx := ctx.paramCount; if paramIdx < 8 { keys[paramIdx], values[paramIdx] = k, v; ctx.paramCount = paramIdx + 1 }
    --  else { if ctx.Params == nil { make }; ctx.Params[k] = v }`
    if c.paramCount < 8 then
      { c with slots := (fun i => if i = c.paramCount.toNat then (k, v) else c.slots i), paramCount := c.paramCount + 1 }
    else { c with params := some (mapSet (c.params.getD []) k v) }

def prepare (steps : List Step) (c : Ctx) : Ctx := steps.foldl (fun c s => s.apply c) c

/-- As shipped before /repo commit 47bf5ea (finding K03a): `matchAndExtract` stored each parameter right after
    checking its constraint, so a compiled candidate that failed on a later constraint had already written its
    earlier parameters — the first 8 into the slots (harmless: the count is not raised) and the rest into the
    Params map (visible to the handler of the route that finally matches). The repaired code validates every
    constraint before storing anything: a failed candidate leaves the context untouched. -/
def failedCandidateAsIs (ps : List KV) (c : Ctx) : Ctx :=
  go 0 ps c
where
  go (i : Nat) : List KV → Ctx → Ctx
    | [], c => c
    | (k, v) :: r, c =>
      go (i + 1) r (if i < 8 then { c with slots := fun j => if j = i then (k, v) else c.slots j }
                    else { c with params := some (mapSet (c.params.getD []) k v) })

/-- which of the fields that differ between a pooled and a brand-new context have been assigned -/
structure Assigned where
  router : Bool := false
  index : Bool := false
  count : Bool := false
  request : Bool := false
  response : Bool := false
  deriving DecidableEq, Repr

def Assigned.step (a : Assigned) : Step → Assigned
  | .setRouter _ => { a with router := true }
  | .setIndex _ => { a with index := true }
  | .zeroCount => { a with count := true }
  | .setRequest _ => { a with request := true }
  | .setResponse _ => { a with response := true }
  | _ => a

/-- the discipline `Tie/C03` establishes on the skeleton of every serve path: parameters are written only after
    `paramCount = 0`, and Request, Response, router, index, paramCount are assigned before the first handler -/
def covers (a : Assigned) : List Step → Bool
  | [] => a.router && a.index && a.count && a.request && a.response
  | .writeParam _ _ :: r => a.count && covers a r
  | s :: r => covers (a.step s) r

/-! ### the pool over a history of requests -/

structure Pool where
  free : List Ctx := []
  views : List (View × View) := []    -- (what the handler saw, what it would see on a brand-new context)

inductive Op
  | serve (reuse : Option Nat) (steps : List Step) (dirty : Ctx → Ctx)
      -- get the `reuse`-th pooled object or a new one, prepare it, run handlers that may change every field in any
      -- way, release = reset + put
  | probe (reuse : Option Nat) (dirty : Ctx → Ctx)
      -- a borrowed context that no handler sees (RouteExists, getAllowedMethodsForPath, a failed lookup): get,
      -- arbitrary writes, release
  | dropOne (k : Nat)                  -- sync.Pool may drop objects at any time

def take (p : Pool) (reuse : Option Nat) : Ctx × List Ctx :=
  match reuse with
  | some k =>
    match p.free[k]? with
    | some c => (c, p.free.eraseIdx k)
    | none => (brandNew, p.free)
  | none => (brandNew, p.free)

def step (p : Pool) : Op → Pool
  | .serve reuse steps dirty =>
    let (c, rest) := take p reuse
    let seen := prepare steps c
    { free := reset (dirty seen) :: rest, views := p.views ++ [(view seen, view (prepare steps brandNew))] }
  | .probe reuse dirty =>
    let (c, rest) := take p reuse
    { p with free := reset (dirty c) :: rest }
  | .dropOne k => { p with free := p.free.eraseIdx k }

def run (p : Pool) (ops : List Op) : Pool := ops.foldl step p

/-! ### the app-level pool (app/context_pool.go, App.wrapHandler) -/

/-- app.Context: the embedded *router.Context, the back reference, the binding metadata (0 = nil) -/
structure AppCtx where
  context : Nat := 0
  app : Nat := 0
  bindingMeta : Nat := 0
  deriving DecidableEq, Repr

/-- `contextPool.Put`: clears the three fields -/
def appPut (_ : AppCtx) : AppCtx := {}

/-- the closure `wrapHandler` returns: get, deferred (clear; Put), initialise all three fields, call the handler.
    Returns what the handler received and what went back to the pool. -/
def appWrap (pooled : AppCtx) (rc a : Nat) (handler : AppCtx → AppCtx) : AppCtx × AppCtx :=
  let ac := { pooled with context := rc, app := a, bindingMeta := 0 }
  let after := handler ac
  (ac, appPut { after with context := 0, app := 0, bindingMeta := 0 })

end Rivaas.Pool
