/-
C14 — the vocabulary of the regenerated skeletons of `config/config.go` (tie (B)).

`extract/configload.go` reads the current source of `(*Config).Load`, `loadSourcesSequential`, and every place
in package `config` where the field `values` of a `Config` is mentioned, and writes them down as terms of the
types below into `Gen/ConfigLoad.lean`. `LoadProg.modelLoad` (the program the state-machine theorems of
`Props/C14.lean` are about) is compared with the regenerated `Gen.ConfigLoad.loadSteps` in `Tie/C14Load.lean`.
Core Lean only.
-/
namespace Rivaas.ConfigSkel

/-- one statement group of `(*Config).Load`, in source order. A *fallible* step stands for
    "call, and when it reports an error return an error at once" — the extractor only emits it when the error
    test and the `return` of a non-nil error follow the call directly, and when the call is given the candidate
    map (the variable assigned from `loadSourcesSequential`). -/
inductive Step where
  /-- `if ctx == nil { return errors.New(…) }` — locals only -/
  | argCheck
  /-- fallible: `newValues, err := c.loadSourcesSequential(ctx)` -/
  | loadSources
  /-- fallible: `c.jsonSchemaCompiled.Validate(newValues)` (inside `if c.jsonSchemaCompiled != nil`) -/
  | schema
  /-- fallible: `for i, fn := range c.customValidators { … fn(newValues) … }`; `recovers`: the call sits in a
      function literal whose deferred function calls `recover()` -/
  | validators (recovers : Bool)
  /-- `c.mu.Lock()` -/
  | lock
  /-- `defer c.mu.Unlock()` -/
  | deferUnlock
  /-- `c.mu.Unlock()` as a plain statement -/
  | unlock
  /-- fallible: `c.bindAndValidate(newValues)` (inside `if c.binding != nil`) -/
  | bindAndValidate
  /-- fallible: `c.bind(&newValues)` (inside `if c.binding != nil`) -/
  | bind
  /-- `c.values = &newValues` -/
  | swap
  /-- `*c.values = …`, `(*c.values)[k] = …`, or any other write through the installed pointer -/
  | writeThrough
  /-- any other assignment whose target is rooted at the receiver -/
  | writeField (name : String)
  /-- any other call rooted at the receiver, or a recognised call in an unrecognised shape -/
  | call (name : String)
  /-- a `go` statement -/
  | goStmt
  /-- `return nil` -/
  | retNil
  /-- any other `return` that is not part of a fallible step -/
  | retOther
  deriving DecidableEq, Repr

/-- one statement group of the loop body of `loadSourcesSequential` -/
inductive SrcStep where
  /-- `if ctx.Err() != nil { return nil, ctx.Err() }` -/
  | ctxCheck
  /-- fallible: `conf, err := src.Load(ctx)` where `src` is the loop variable over `c.sources` -/
  | srcLoad
  /-- `if conf == nil { conf = make(map[string]any) }` -/
  | nilToEmpty
  /-- `normalizedConf := normalizeMapKeys(conf)` -/
  | normalize
  /-- fallible: `mergo.Map(&acc, normalizedConf, opts…)`: `intoAcc` — the destination is the address of the
      accumulator declared before the loop and returned after it; `ofNormalized` — the source is the result of
      `normalizeMapKeys` on what this source returned; `override` — `mergo.WithOverride` is the only option -/
  | mergoMap (intoAcc ofNormalized override : Bool)
  | writeField (name : String)
  | call (name : String)
  | other (what : String)
  deriving DecidableEq, Repr

/-- the shape of `loadSourcesSequential` around its loop -/
structure SrcLoop where
  /-- the loop is `for i, src := range c.sources` (ascending index order is what `range` over a slice gives) -/
  rangesOverSources : Bool
  /-- the accumulator is a fresh `make(map[string]any)` declared before the loop -/
  accFresh : Bool
  /-- the statement after the loop returns the accumulator and a nil error -/
  returnsAcc : Bool
  body : List SrcStep
  deriving DecidableEq, Repr

/-- how the field `values` of a `*Config` is used at one place of the package -/
inductive UseKind where
  /-- `c.values = …` -/
  | assignPtr
  /-- `*c.values` (or an index/len/copy of it) in a reading position -/
  | derefRead
  /-- a write through the pointer -/
  | derefWrite
  /-- `c.values == nil` / `!= nil` -/
  | nilTest
  /-- `return c.values` -/
  | returnPtr
  | other
  deriving DecidableEq, Repr

/-- which lock of `c.mu` the enclosing function (or function literal) holds at the use: acquired by a plain
    call statement before the use, released by a `defer` registered directly after the acquisition -/
inductive Held where
  | none | read | write
  deriving DecidableEq, Repr

structure Use where
  /-- enclosing method of `Config` -/
  fn : String
  kind : UseKind
  held : Held
  deriving DecidableEq, Repr

end Rivaas.ConfigSkel
