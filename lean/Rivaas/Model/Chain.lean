import Rivaas.Basic
/-
C02 / C10 — model of the handler chain (`router/context.go`: `Context.Next`, `Abort`; the
`recovery` middleware's deferred `recover`; `ServeHTTP`'s call of `c.Next()`).

`Context.Next` is a **small-step machine with an explicit stack**. One Go activation record =
one `Frame`:

* `Frame.fn k fk acts` — a function body that still has to perform `acts`. `fk = plain` /
  `recover` is the handler function at chain position `k` (`recover` = the handler has a
  `defer func(){ if err := recover(); err != nil { handlePanic(...) } }()` like
  `recovery.New`); `fk = sub` is a nested Go function called from inside that handler.
* `Frame.loop` — an activation of `Context.Next` that is inside its `for` loop waiting for the
  handler it called; when that handler returns the loop does `c.index++` and re-checks.

Handler behaviour is a `List Act` (the behaviours of the C02/C10 quantifier). The machine records
`enter k` / `exit k` (code before / after the handler body) and `unwound k` (a panic passed
through handler `k`). Core Lean only; shared by C02 and C10.
-/
namespace Rivaas.Chain

/-- what a handler body does, statement by statement -/
inductive Act where
  /-- `c.Next()` -/
  | next
  /-- `c.Abort()` -/
  | abort
  /-- cancel the request context (`c.Request.Context().Err()` becomes non-nil) -/
  | cancel
  /-- write a response: `WriteHeader` (effective only when nothing was written yet) + body chunk -/
  | write
  /-- `return` from the current function -/
  | ret
  /-- call a nested Go function that performs `body` (its `ret` returns from the nested function only) -/
  | call (body : List Act)
  /-- `panic(v)` — `v` indexes the panic values of the C10 quantifier -/
  | panic (v : Nat)
  deriving Repr, Inhabited

/-- kind of function a frame belongs to -/
inductive FK where
  /-- an ordinary handler function -/
  | plain
  /-- a handler function with the recovery middleware's deferred `recover` -/
  | recover
  /-- a nested function inside a handler -/
  | sub
  deriving Repr, DecidableEq, Inhabited

/-- one position of a composed chain -/
structure Prog where
  /-- `true` = the handler carries recovery's deferred `recover()` -/
  recovers : Bool := false
  acts : List Act
  deriving Repr, Inhabited

def Prog.fk (p : Prog) : FK := if p.recovers then .recover else .plain

inductive Ev where
  | enter (k : Nat)
  | exit (k : Nat)
  /-- a panic propagated out of handler `k` (its code after the panic point did not run) -/
  | unwound (k : Nat)
  deriving Repr, DecidableEq, Inhabited

/-- who wrote a body chunk / the status line -/
inductive Chunk where
  /-- the handler at chain position `k` -/
  | h (k : Nat)
  /-- recovery's `defaultHandler`: `c.JSON(500, …)` -/
  | rec500
  deriving Repr, DecidableEq, Inhabited

inductive Frame where
  | fn (k : Nat) (fk : FK) (acts : List Act)
  | loop
  deriving Repr, Inhabited

/-- router / middleware configuration the chain semantics depends on -/
structure Cfg where
  /-- `router.checkCancellation` (default true): `Next` tests `c.Request.Context().Err()` -/
  check : Bool := true
  /-- `handlePanic` calls `c.Abort()` (true after the K10c `fix:` commit; false = as shipped) -/
  abortOnRecover : Bool := true
  deriving Repr, DecidableEq, Inhabited

structure St where
  /-- `c.index` -/
  idx : Int
  /-- `c.aborted` -/
  aborted : Bool
  /-- `c.Request.Context().Err() != nil` -/
  cancelled : Bool
  stack : List Frame
  trace : List Ev
  /-- who sent the status line (first `WriteHeader` wins — net/http contract) -/
  status : Option Chunk
  /-- body chunks in write order -/
  body : List Chunk
  /-- a panic value that left `ServeHTTP` -/
  escaped : Option Nat
  deriving Repr, Inhabited

/-- `c.JSON(code, …)` on the shared response writer -/
def St.write (s : St) (c : Chunk) : St :=
  { s with status := s.status.or (some c), body := s.body ++ [c] }

/-- the loop test of `Next` would stop here: `c.aborted`, or `ctx.Err() != nil` with the check on -/
def St.stopped (cfg : Cfg) (s : St) : Bool := s.aborted || (cfg.check && s.cancelled)

/-- loop head of `Context.Next`: `for c.index < handlersLen { if c.aborted {return}; if ctx.Err()!=nil {return};
    c.handlers[c.index](c); … }`. The frame of `Next` itself is *not* on `s.stack` here: it is pushed
    (as `Frame.loop`) only when a handler is called, and `return` needs no pop. -/
def loopHead (cfg : Cfg) (progs : List Prog) (s : St) : St :=
  if 0 ≤ s.idx ∧ s.idx < progs.length then
    if s.stopped cfg then s
    else
      let k := s.idx.toNat
      let p := progs.getD k default
      { s with stack := Frame.fn k p.fk p.acts :: Frame.loop :: s.stack,
               trace := s.trace ++ [Ev.enter k] }
  else s

/-- entering `Next()`: `c.index++` then the loop head -/
def callNext (cfg : Cfg) (progs : List Prog) (s : St) : St :=
  loopHead cfg progs { s with idx := s.idx + 1 }

/-- a function returns normally: handler functions record `exit k` -/
def popEv (k : Nat) : FK → List Ev
  | .sub => []
  | _ => [Ev.exit k]

/-- A panic unwinds the Go stack. `Next` activations and nested functions have no deferred calls;
    a plain handler is left (`unwound k`); the first handler with recovery's deferred function
    runs `handlePanic` (`c.Abort()` since the K10c fix, then `c.JSON(500, …)`) and then *returns
    normally* to its caller. With no such frame the panic leaves `ServeHTTP`. -/
def unwind (cfg : Cfg) (v : Nat) : List Frame → St → St
  | [], s => { s with stack := [], escaped := some v }
  | Frame.loop :: rest, s => unwind cfg v rest s
  | Frame.fn _ .sub _ :: rest, s => unwind cfg v rest s
  | Frame.fn k .plain _ :: rest, s => unwind cfg v rest { s with trace := s.trace ++ [Ev.unwound k] }
  | Frame.fn k .recover _ :: rest, s =>
    ({ s with aborted := s.aborted || cfg.abortOnRecover, stack := Frame.fn k .recover [] :: rest }).write Chunk.rec500

def step (cfg : Cfg) (progs : List Prog) (s : St) : St :=
  match s.stack with
  | [] => s
  | Frame.loop :: rest => loopHead cfg progs { s with idx := s.idx + 1, stack := rest }
  | Frame.fn k fk [] :: rest => { s with stack := rest, trace := s.trace ++ popEv k fk }
  | Frame.fn k fk (a :: as) :: rest =>
    match a with
    | .ret => { s with stack := rest, trace := s.trace ++ popEv k fk }
    | .abort => { s with aborted := true, stack := Frame.fn k fk as :: rest }
    | .cancel => { s with cancelled := true, stack := Frame.fn k fk as :: rest }
    | .write => ({ s with stack := Frame.fn k fk as :: rest }).write (Chunk.h k)
    | .next => callNext cfg progs { s with stack := Frame.fn k fk as :: rest }
    | .call b => { s with stack := Frame.fn k .sub b :: Frame.fn k fk as :: rest }
    | .panic v => unwind cfg v (Frame.fn k fk as :: rest) s

/-- `reset()` / a fresh pooled context: `index = -1`, `aborted = false` -/
def init : St :=
  { idx := -1, aborted := false, cancelled := false, stack := [], trace := [],
    status := none, body := [], escaped := none }

/-- `ServeHTTP`: `c.handlers = handlers; c.index = -1; c.Next()` -/
def start (cfg : Cfg) (progs : List Prog) : St := callNext cfg progs init

def run (cfg : Cfg) (progs : List Prog) : Nat → St → St
  | 0, s => s
  | n+1, s => run cfg progs n (step cfg progs s)

/-! ### fuel: an upper bound on the number of steps of any execution -/

mutual
  def Act.size : Act → Nat
    | .call b => 2 + Act.sizeL b
    | _ => 1
  def Act.sizeL : List Act → Nat
    | [] => 1
    | a :: as => Act.size a + Act.sizeL as
end

/-- every step either consumes an act, pops a frame (≤ one `fn` and one `loop` per entered
    position, one `sub` per `call`) — `fuel` bounds them all (adequacy: `Props/C02.halts`) -/
def fuel (progs : List Prog) : Nat :=
  progs.foldl (fun n p => n + Act.sizeL p.acts + 2) 2

/-- the whole request: run the machine to completion -/
def exec (cfg : Cfg) (progs : List Prog) : St := run cfg progs (fuel progs) (start cfg progs)

/-! ### the context pool, as far as the chain is concerned (`router/pool.go`, `router/serve.go`) -/

/-- the chain-relevant state a pooled `Context` carries from one request to the next: every serve
    path assigns `handlers` and `index = -1` when it takes a context, none assigns `aborted` — that
    is whatever the last `reset()` left -/
structure PCtx where
  aborted : Bool
  deriving Repr, DecidableEq, Inhabited

/-- `reset()` -/
def PCtx.reset : PCtx := { aborted := false }

/-- one request served on the pooled context `c` -/
def serveOn (cfg : Cfg) (progs : List Prog) (c : PCtx) : St :=
  run cfg progs (fuel progs) (callNext cfg progs { init with aborted := c.aborted })

/-- After the request. The tree path calls `releaseGlobalContext(c)` (= `reset()` then `Put`) only
    after `c.Next()` returned, so a context whose request panicked out of `ServeHTTP` is dropped;
    the compiled-static and versioned paths `defer` it (`deferred = true`), so it is reset and put
    back even then. Either way only reset contexts enter the pool. -/
def release (deferred : Bool) (pool : List PCtx) (s : St) : List PCtx :=
  if s.escaped.isSome && !deferred then pool else PCtx.reset :: pool

/-- a sequence of requests `(chain, serve path defers its release)` against one pool; an empty
    pool makes a new context (`sync.Pool.New`), which `NewPooledContext`-style code resets too -/
def serveAll (cfg : Cfg) : List PCtx → List (List Prog × Bool) → List St
  | _, [] => []
  | pool, (p, d) :: ps =>
    let c := pool.headD PCtx.reset
    let s := serveOn cfg p c
    s :: serveAll cfg (release d pool.tail s) ps

end Rivaas.Chain
