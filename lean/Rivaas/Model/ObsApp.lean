import Rivaas.Basic
/-
Model of the recorder implementations that sit on top of the router's three callbacks (C08, app layer):

* `app/observability.go`  observabilityRecorder.OnRequestStart / WrapResponseWriter / OnRequestEnd
* `metrics/recording.go`  (*Recorder).BeginRequest / Finish  (active-requests up/down counter, request rows)
* `metrics/middleware.go` Middleware  (standalone: begin, wrap unless already wrapped, next, finish)
* `tracing/middleware.go` Middleware  (standalone: start span, wrap unless already wrapped, next, finish span)
* `tracing/tracing.go`    StartSpan / FinishSpan / FinishRequestSpan (one `span.End()` per finished span)

statement by statement, as the code is in /repo after the `fix:` commits K08c (metrics middleware finishes what it
began also under an outer wrapper), K08d (increment and decrement of the gauge hit the same series) and K08f (the app
recorder reads status/size also from a writer that reports its size as `int`). The as-shipped behaviour is kept behind
`Flags`. Core Lean only. The label the router hands to OnRequestEnd is a parameter of a request (`Req.label`; its
boundedness is `Tie.C08.label_bounded` / `C08.serve_meets_spec`).
-/
namespace Rivaas.ObsApp

/-- as-shipped switches (all `false` = the code as it is now) -/
structure Flags where
  k08c : Bool := false   -- metrics.Middleware: `return` without Finish when the writer is already wrapped
  k08d : Bool := false   -- metrics.Finish: the decrement carries m.Attributes, the increment carried none
  k08f : Bool := false   -- app OnRequestEnd: only router.ResponseInfo (Size() int64) is consulted
  deriving DecidableEq, Repr

def fixed : Flags := {}

/-- a standalone layer in front of the handler, outermost first -/
inductive Layer
  | tracing                    -- tracing.Middleware(tracer)
  | metrics                    -- metrics.Middleware(recorder)
  | foreign (exposes : Bool)   -- someone else's wrapper with IsObservabilityWrapped(); `exposes`: it is a router.ResponseInfo
  deriving DecidableEq, Repr

/-- what the handler at the bottom is -/
inductive Term
  | mux    -- a plain http.Handler
  | app    -- an app.App's router with the app recorder installed (own meter / tracer provider)
  deriving DecidableEq, Repr

/-- the writer a layer receives, as far as the type assertions of the code can tell -/
inductive WKind
  | raw        -- not marked
  | mw         -- responseWriter of the metrics / tracing middleware: marked, StatusCode() int, Size() int
  | info64     -- marked and a router.ResponseInfo (StatusCode() int, Size() int64)
  | blind      -- marked, exposes nothing
  deriving DecidableEq, Repr

structure Req where
  method : Bytes
  path : Bytes
  excluded : Bool     -- the path is on the exclusion list (every layer is configured with the same list)
  status : Nat        -- what the handler chain sends = what the client receives
  size : Nat
  label : Bytes       -- Term.app: the route label the router reports to OnRequestEnd
  deriving DecidableEq, Repr

/-- one (http.route, http.status_code) series of http_requests_total with the sum of http_response_size_bytes -/
structure Row where
  route : Bytes
  status : Nat
  count : Nat
  size : Nat
  deriving DecidableEq, Repr

/-- what one provider pair (tracer provider + meter provider) has seen -/
structure Tele where
  started : Nat := 0
  ended : Nat := 0
  spans : List (Bytes × Nat) := []   -- ended spans, in the order they ended: name, 0 / HTTP error code
  gauge0 : Int := 0                  -- http_requests_active, series without attributes
  gaugeA : Int := 0                  -- http_requests_active, sum over the series with attributes
  rows : List Row := []
  deriving DecidableEq, Repr

structure World where
  mw : Tele := {}     -- providers of the standalone middlewares
  app : Tele := {}    -- providers of the app
  deriving DecidableEq, Repr

def errOf (status : Nat) : Nat := if status ≥ 400 then status else 0

def addRow (rows : List Row) (route : Bytes) (status size : Nat) : List Row :=
  match rows with
  | [] => [⟨route, status, 1, size⟩]
  | r :: rest =>
    if r.route = route ∧ r.status = status then { r with count := r.count + 1, size := r.size + size } :: rest
    else r :: addRow rest route status size

/-- tracer.Start -/
def Tele.spanStart (t : Tele) : Tele := { t with started := t.started + 1 }
/-- FinishSpan / FinishRequestSpan: SetStatus, one span.End() -/
def Tele.spanFinish (t : Tele) (name : Bytes) (status : Nat) : Tele :=
  { t with ended := t.ended + 1, spans := t.spans ++ [(name, errOf status)] }
/-- BeginRequest: `r.activeRequests.Add(ctx, 1)` -/
def Tele.begin (t : Tele) : Tele := { t with gauge0 := t.gauge0 + 1 }
/-- Finish: request count row, response size, `r.activeRequests.Add(ctx, -1)`; `attrs`: attributes were added to the
    RequestMetrics between begin and finish (the standalone middleware does, the app recorder does not) -/
def Tele.finish (fl : Flags) (t : Tele) (attrs : Bool) (route : Bytes) (status size : Nat) : Tele :=
  let t1 := { t with rows := addRow t.rows route status size }
  if fl.k08d && attrs then { t1 with gaugeA := t1.gaugeA - 1 } else { t1 with gauge0 := t1.gauge0 - 1 }

/-- `outerResponseInfo(w)` of metrics/middleware.go: StatusCode() int, Size() int64 | int, else 200 / 0 -/
def outerInfo (w : WKind) (q : Req) : Nat × Nat :=
  match w with
  | .mw | .info64 => (q.status, q.size)
  | _ => (200, 0)

/-- app OnRequestEnd: `writer.(router.ResponseInfo)`, else StatusCode() int / Size() int, else 200 / 0 -/
def appInfo (fl : Flags) (w : WKind) (q : Req) : Nat × Nat :=
  match w with
  | .info64 => (q.status, q.size)
  | .mw => if fl.k08f then (200, 0) else (q.status, q.size)
  | _ => (200, 0)

/-- `if route == "" { route = "_unmatched" }` (metrics attribute and span name) -/
def routeAttr (l : Bytes) : Bytes := if l = [] then "_unmatched".toList else l

def spanName (method route : Bytes) : Bytes := method ++ " ".toList ++ route

/-- the bottom of the stack -/
def runTerm (fl : Flags) (term : Term) (w : WKind) (q : Req) (s : World) : World :=
  match term with
  | .mux => s
  | .app =>
    -- OnRequestStart: `if o.pathFilter.shouldExclude(path) { return ctx, nil }`; StartSpan; BeginRequest
    if q.excluded then s else
    let a1 := s.app.spanStart.begin
    -- WrapResponseWriter: an already marked writer is used as it is, otherwise the app's own wrapper (a ResponseInfo)
    let w' := if w = .raw then WKind.info64 else w
    -- (router: handler chain, then OnRequestEnd(ctx, state, w', label))
    let (st, sz) := appInfo fl w' q
    -- SetName(method + " " + routeAttr label); FinishSpan(span, status); metrics.Finish(…, routeAttr label)
    let a2 := a1.spanFinish (spanName q.method (routeAttr q.label)) st
    { s with app := a2.finish fl false (routeAttr q.label) st sz }

def run (fl : Flags) (term : Term) : List Layer → WKind → Req → World → World
  | [], w, q, s => runTerm fl term w q s
  | .foreign exposes :: rest, _, q, s => run fl term rest (if exposes then .info64 else .blind) q s
  | .tracing :: rest, w, q, s =>
    if q.excluded then run fl term rest w q s else
    let s1 := { s with mw := s.mw.spanStart }
    if w ≠ .raw then
      -- already wrapped: next, `FinishRequestSpan(span, http.StatusOK)`
      let s2 := run fl term rest w q s1
      { s2 with mw := s2.mw.spanFinish (spanName q.method q.path) 200 }
    else
      let s2 := run fl term rest .mw q s1
      { s2 with mw := s2.mw.spanFinish (spanName q.method q.path) q.status }
  | .metrics :: rest, w, q, s =>
    if q.excluded then run fl term rest w q s else
    let s1 := { s with mw := s.mw.begin }
    if w ≠ .raw then
      let s2 := run fl term rest w q s1
      if fl.k08c then s2 else
        let (st, sz) := outerInfo w q
        { s2 with mw := s2.mw.finish fl true q.path st sz }
    else
      let s2 := run fl term rest .mw q s1
      { s2 with mw := s2.mw.finish fl true q.path q.status q.size }

/-- a history of requests through one stack -/
def runAll (fl : Flags) (term : Term) (stack : List Layer) (reqs : List Req) (s : World := {}) : World :=
  reqs.foldl (fun s q => run fl term stack .raw q s) s

/-! ### a recorder whose provider is initialised late (OTLP): the instruments exist only after `Recorder.Start` -/

structure Deferred where
  started : Bool := false
  tele : Tele := {}
  deriving DecidableEq, Repr

/-- one request through the app recorder; `startHere`: its handler calls `Recorder.Start` while the request is in
    flight. BeginRequest: `if r.meter == nil { …; return nil }`; Finish: `if m == nil { return }`. -/
def serveDeferred (startHere : Bool) (q : Req) (d : Deferred) : Deferred :=
  let m := d.started                                   -- BeginRequest returned a RequestMetrics
  let t1 := if m then d.tele.begin else d.tele
  let t2 := if m then t1.finish fixed false (routeAttr q.label) q.status q.size else t1
  ⟨d.started || startHere, t2⟩

def runDeferred (startAt : Nat) : Nat → List Req → Deferred → Deferred
  | _, [], d => d
  | i, q :: rest, d => runDeferred startAt (i + 1) rest (serveDeferred (i == startAt) q d)

/-- idle: every started span ended and every series of the gauge is back at zero -/
def Tele.quiescent (t : Tele) : Bool := t.started == t.ended && t.gauge0 == 0 && t.gaugeA == 0

end Rivaas.ObsApp
