import Rivaas.Basic
/-
The underlying `http.ResponseWriter` as the compression middleware (C15) sees it: a model of
net/http's `*response` restricted to what decides the client-visible response.

  * `Header()` is a live map; `WriteHeader` takes a snapshot of it (net/http clones the map at the
    logical write), the first call wins, informational 1xx codes are sent at once and are not the
    response status, a code outside 100..999 panics;
  * `Write` implies `WriteHeader(200)`, refuses a body for 1xx/204/304 (`ErrBodyNotAllowed`) and
    otherwise accepts everything (`(len p, nil)`);
  * the header block is physically produced at the first `Flush`, when more than 2048 bytes are
    pending, or when the handler returns; at that moment — and only if the snapshot has neither a
    Content-Type key nor a non-empty Content-Encoding and the first chunk is not empty — the
    Content-Type is sniffed from the first chunk (`http.DetectContentType`, a parameter; it
    looks at no more than 512 bytes).

Trailers (`Base.trailersAtFinish`): names announced in the snapshot's `Trailer` values and keys with
`http.TrailerPrefix`, values read from the live map when the handler has returned.
Not modelled (assumptions of C15, see checks/C15.json): Content-Length / Transfer-Encoding / Date
(the statement excludes or ignores them), HEAD requests, hijacking, handlers that declare
a Content-Length smaller than what they write.  Core Lean only.
-/
namespace Rivaas.Http

/-- header map: canonical key ↦ values, keys unique -/
abbrev Hdrs := List (Bytes × List Bytes)

def hget (h : Hdrs) (k : Bytes) : Option (List Bytes) := (h.find? (fun kv => kv.1 == k)).map (·.2)
def hhas (h : Hdrs) (k : Bytes) : Bool := h.any (fun kv => kv.1 == k)
def hdel (h : Hdrs) (k : Bytes) : Hdrs := h.filter (fun kv => kv.1 != k)
def hset (h : Hdrs) (k : Bytes) (vs : List Bytes) : Hdrs := hdel h k ++ [(k, vs)]
/-- `Header.Get`: first value or "" -/
def hfirst (h : Hdrs) (k : Bytes) : Bytes :=
  match hget h k with
  | some (v :: _) => v
  | _ => []

/-- extensional comparison of two header maps (keys are unique) -/
def hsub (a b : Hdrs) : Bool := a.all (fun kv => hget b kv.1 == some kv.2)
def heq (a b : Hdrs) : Bool := hsub a b && hsub b a

def kCT : Bytes := "Content-Type".toList
def kCE : Bytes := "Content-Encoding".toList
def kCL : Bytes := "Content-Length".toList
def kVary : Bytes := "Vary".toList
def kTrailer : Bytes := "Trailer".toList
def trailerPrefix : Bytes := "Trailer:".toList

/-! ### trailers (RFC 9110 §6.5 as net/http implements them) -/

def startsWith : Bytes → Bytes → Bool
  | [], _ => true
  | _ :: _, [] => false
  | a :: as, b :: bs => a == b && startsWith as bs

/-- split at commas -/
def splitComma : Bytes → List Bytes
  | [] => [[]]
  | c :: cs =>
    match splitComma cs with
    | [] => [[]]
    | f :: fs => if c == ',' then [] :: f :: fs else (c :: f) :: fs

def trimSpTab (s : Bytes) : Bytes :=
  ((s.dropWhile (fun c => c == ' ' || c == '\t')).reverse.dropWhile (fun c => c == ' ' || c == '\t')).reverse

/-- the names announced by the `Trailer` values of a header map (canonical names are assumed) -/
def announced (h : Hdrs) : List Bytes :=
  (((hget h kTrailer).getD []).flatMap (fun v => (splitComma v).map trimSpTab)).filter (fun n => !n.isEmpty)

/-- a key whose value travels after the body: `http.TrailerPrefix` or announced in `h` -/
def isTrailerKey (h : Hdrs) (k : Bytes) : Bool := startsWith trailerPrefix k || (announced h).contains k

/-- the sniffing function, a parameter (http.DetectContentType) -/
abbrev Sniff := Bytes → Bytes

/-- bodyAllowedForStatus negated -/
def noBody (s : Nat) : Bool := (100 ≤ s && s ≤ 199) || s == 204 || s == 304

def informational (c : Nat) : Bool := 100 ≤ c && c ≤ 199 && c != 101
def validCode (c : Nat) : Bool := 100 ≤ c && c ≤ 999

inductive Err
  | ok | bodyNotAllowed | shortWrite | invalidWrite | other
  deriving DecidableEq, Repr, Inhabited

/-- what a write-like call returns to the handler -/
structure WOut where
  n : Nat
  err : Err
  deriving DecidableEq, Repr, Inhabited

structure Base where
  live : Hdrs := []
  wrote : Bool := false          -- logical WriteHeader happened
  status : Nat := 0
  snap : Hdrs := []              -- header snapshot taken by WriteHeader
  sent : Bool := false           -- header block physically produced
  ctype : Option Bytes := none   -- Content-Type added by sniffing
  pend : Bytes := []             -- body bytes still in the 2048-byte buffer before the header block
  body : Bytes := []             -- every body byte accepted
  panicked : Bool := false       -- WriteHeader with a code outside 100..999
  deriving Repr

def Base.writeHeader (b : Base) (c : Nat) : Base :=
  if b.wrote then b
  else if !validCode c then { b with panicked := true }
  else if informational c then b
  else { b with wrote := true, status := c, snap := b.live }

/-- chunkWriter.writeHeader(p): the header block goes out together with the first chunk `p` -/
def Base.emit (sn : Sniff) (b : Base) (p : Bytes) : Base :=
  if b.sent then b
  else { b with
    sent := true
    pend := []
    ctype := if !noBody b.status && (hfirst b.snap kCE).isEmpty && !hhas b.snap kCT && !p.isEmpty
             then some (sn (p.take 512)) else none }

def Base.write (sn : Sniff) (b : Base) (d : Bytes) : Base × WOut :=
  let b := if b.wrote then b else b.writeHeader 200
  if d.isEmpty then (b, ⟨0, .ok⟩)
  else if noBody b.status then (b, ⟨0, .bodyNotAllowed⟩)
  else
    let b := if !b.sent && b.pend.length + d.length > 2048 then b.emit sn (b.pend ++ d)
             else if !b.sent then { b with pend := b.pend ++ d } else b
    ({ b with body := b.body ++ d }, ⟨d.length, .ok⟩)

def Base.flush (sn : Sniff) (b : Base) : Base :=
  let b := if b.wrote then b else b.writeHeader 200
  b.emit sn b.pend

/-- finishRequest -/
def Base.finish (sn : Sniff) (b : Base) : Base := b.flush sn

/-- the response a client receives (Date, Content-Length, Transfer-Encoding are not observed; a key
    whose value list is empty produces no header line — the driver drops such keys when comparing) -/
structure Resp where
  status : Nat
  hdrs : Hdrs
  body : Bytes
  deriving Repr

def Base.resp (b : Base) : Resp :=
  let h := b.snap
  let h := if b.status == 304 then hdel h kCT else h
  let h := match b.ctype with
    | some t => hset h kCT [t]
    | none => h
  { status := b.status, hdrs := hdel h kCL, body := b.body }

/-- the values of a key, if it has any -/
def nonEmptyVals : Option (List Bytes) → Option (List Bytes)
  | some (v :: vs) => some (v :: vs)
  | _ => none

/-- what net/http sends after the body, given the writer state just before finishRequest.
    `earlyWire`: the header block went out before the handler returned for a reason the model does not
    see (more than 2048 bytes of encoder output). Trailers need chunked transfer: a status that allows a
    body, no declared Content-Length, and either an early header block or trailers known at header time
    (otherwise net/http computes a Content-Length for the finished handler). -/
def Base.chunked (sn : Sniff) (b : Base) (earlyWire : Bool) : Bool :=
  !noBody (b.finish sn).status && !hhas (b.finish sn).snap kCL &&
    ((b.sent || earlyWire) ||
      (!(announced (b.finish sn).snap).isEmpty || (b.finish sn).snap.any (fun kv => startsWith trailerPrefix kv.1)))

def Base.trailersAtFinish (sn : Sniff) (b : Base) (earlyWire : Bool) : Hdrs :=
  if !b.chunked sn earlyWire then []
  else
    ((announced (b.finish sn).snap).filterMap (fun k =>
        (nonEmptyVals (hget (b.finish sn).live k)).map (fun vs => (k, vs)))) ++
      ((b.finish sn).live.filter (fun kv => startsWith trailerPrefix kv.1)).map (fun kv => (kv.1.drop 8, kv.2))

/-- the handler's alphabet: primitive calls on the ResponseWriter -/
inductive Op
  | setH (k : Bytes) (vs : List Bytes)
  | delH (k : Bytes)
  | writeHeader (c : Nat)
  | write (d : Bytes)
  | flush
  | copy (chunks : List Bytes)      -- io.Copy(w, reader yielding these chunks)
  | panic                           -- the handler panics (only with a recovery middleware in front)
  deriving Repr

/-- io.Copy's loop over a `Write` function -/
def copyLoop {σ} (wr : σ → Bytes → σ × WOut) : σ → List Bytes → Nat → σ × WOut
  | s, [], acc => (s, ⟨acc, .ok⟩)
  | s, c :: cs, acc =>
    if c.isEmpty then copyLoop wr s cs acc
    else
      let r := wr s c
      if r.2.n > c.length then (r.1, ⟨acc, if r.2.err == .ok then .invalidWrite else r.2.err⟩)
      else if r.2.err != .ok then (r.1, ⟨acc + r.2.n, r.2.err⟩)
      else if r.2.n != c.length then (r.1, ⟨acc + r.2.n, .shortWrite⟩)
      else copyLoop wr r.1 cs (acc + r.2.n)

/-- one primitive on the bare writer; `none` = nothing returned to the handler -/
def plainStep (sn : Sniff) (b : Base) : Op → Base × Option WOut
  | .setH k vs => ({ b with live := hset b.live k vs }, none)
  | .delH k => ({ b with live := hdel b.live k }, none)
  | .writeHeader c => (b.writeHeader c, none)
  | .write d => let r := b.write sn d; (r.1, some r.2)
  | .flush => (b.flush sn, none)
  | .copy cs => let r := copyLoop (Base.write sn) b cs 0; (r.1, some r.2)
  | .panic => (b, none)

def runOps {σ} (step : σ → Op → σ × Option WOut) : σ → List Op → σ × List WOut
  | s, [] => (s, [])
  | s, o :: os =>
    let r := step s o
    let rest := runOps step r.1 os
    (rest.1, (match r.2 with | some w => [w] | none => []) ++ rest.2)

/-- the program without the middleware; `h0` = the headers an outer middleware set before the chain reached this point -/
def runPlain (sn : Sniff) (h0 : Hdrs) (ops : List Op) : Base × List WOut :=
  let r := runOps (plainStep sn) { live := h0 } ops
  (r.1.finish sn, r.2)

end Rivaas.Http
