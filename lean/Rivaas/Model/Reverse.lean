import Rivaas.Basic
/-
C12 (last clause) — model of reverse routing: `route.ParseReversePattern`, `ReversePattern.BuildURL`
(`router/route/route.go`), `Router.URLFor`, and a matcher for a router that holds *one* route
(`node.addRouteWithConstraints` + `node.getRoute` of `router/radix.go` restricted to a single static or
parameter route — the general matcher is C01's subject).

`url.PathEscape` is a parameter: the harness ships, per parameter value, the escaped text and whether
`url.PathUnescape` gives the value back (which is what the server side does to the request line).
Follows the code after the `fix:` commit for K12c (a pattern without parameters reverses to itself).
Core Lean only.
-/
open Lean in
/-- `rb!"abc"` is the byte string `['a', 'b', 'c']` as a list literal (kernel-friendly, unlike `String.toList`) -/
macro:max "rb!" s:str : term => do
  let elems ← s.getString.toList.mapM fun c => `($(Syntax.mkCharLit c))
  `(([$(elems.toArray),*] : List Char))

namespace Rivaas.Reverse

/-- `strings.Split(s, "/")` -/
def splitSlash : Bytes → List Bytes
  | [] => [[]]
  | c :: cs =>
    if c = '/' then [] :: splitSlash cs
    else match splitSlash cs with
      | [] => [[c]]
      | h :: t => (c :: h) :: t

/-- `strings.Trim(s, "/")` -/
def trimSlash (s : Bytes) : Bytes := ((s.dropWhile (· = '/')).reverse.dropWhile (· = '/')).reverse

inductive Seg where
  | static (text : Bytes)
  | param (name : Bytes)
  deriving DecidableEq, Repr

def segOf (part : Bytes) : Seg :=
  match part with
  | ':' :: name => .param name
  | _ => .static part

/-- `route.ParseReversePattern`: trim slashes, split, drop empty parts, `:name` is a parameter -/
def parseReversePattern (path : Bytes) : List Seg :=
  ((splitSlash (trimSlash path)).filter (· ≠ [])).map segOf

def Seg.isParam : Seg → Bool
  | .param _ => true
  | .static _ => false

/-- a parameter assignment as the case ships it: name ↦ (value, `url.PathEscape value`) -/
abbrev Vals := List (Bytes × Bytes × Bytes)

def valOf (vals : Vals) (name : Bytes) : Option (Bytes × Bytes) :=
  (vals.find? (fun e => e.1 == name)).map (·.2)

/-- one segment as text: the escaped value goes into the URL, the raw value is what the router sees
    after the server has decoded the request line -/
def render (vals : Vals) (escaped : Bool) : Seg → Option Bytes
  | .static t => some t
  | .param n => (valOf vals n).map fun v => if escaped then v.2 else v.1

def renderAll (vals : Vals) (escaped : Bool) : List Seg → Option (List Bytes)
  | [] => some []
  | s :: rest =>
    match render vals escaped s, renderAll vals escaped rest with
    | some a, some b => some (a :: b)
    | _, _ => none

def joinSlash : List Bytes → Bytes
  | [] => []
  | [a] => a
  | a :: rest => a ++ '/' :: joinSlash rest

/-- `ReversePattern.BuildURL` (no query): `none` = "missing required parameter" -/
def buildWith (pattern : Bytes) (vals : Vals) (escaped : Bool) : Option Bytes :=
  let segs := parseReversePattern pattern
  if !segs.any Seg.isParam then some pattern          -- K12c: nothing to substitute
  else (renderAll vals escaped segs).map fun parts => '/' :: joinSlash parts

/-- what `URLFor` returns -/
def buildURL (pattern : Bytes) (vals : Vals) : Option Bytes := buildWith pattern vals true

/-- the request path the router matches on when that URL is requested -/
def seenPath (pattern : Bytes) (vals : Vals) : Option Bytes := buildWith pattern vals false

/-- `BuildURL` as shipped: slashes of the pattern were always normalised away -/
def buildURLAsIs (pattern : Bytes) (vals : Vals) : Option Bytes :=
  (renderAll vals true (parseReversePattern pattern)).map fun parts => '/' :: joinSlash parts

/-! ### a router with one route -/

/-- the segments `getRoute` walks: the path without its leading `/`, split; a path that ends in `/`
    leaves the loop before a handler is returned (`none`) -/
def reqSegments (path : Bytes) : Option (List Bytes) :=
  let p := if path.head? = some '/' then path.drop 1 else path
  let pieces := splitSlash p
  if pieces.getLast? = some [] then none else some pieces

def matchSegs : List Seg → List Bytes → Option (List (Bytes × Bytes))
  | [], [] => some []
  | .static t :: ss, r :: rs => if t = r then matchSegs ss rs else none
  | .param n :: ss, r :: rs => (matchSegs ss rs).map ((n, r) :: ·)
  | _, _ => none

/-- one registered route `pattern`, request path `path`: the captured parameters when it matches -/
def matchRoute (pattern path : Bytes) : Option (List (Bytes × Bytes)) :=
  let segs := parseReversePattern pattern
  if !segs.any Seg.isParam then
    -- static route: `staticPaths[path]`, the root for "/" and ""
    (if pattern = ['/'] then (if path = ['/'] || path = [] then some [] else none)
     else if path = pattern then some [] else none)
  else if path = ['/'] || path = [] then none
  else
    match reqSegments path with
    | none => none
    | some rs => matchSegs segs rs

/-- what the harness observes of one round trip: `URLFor` failed; or it returned `url` and the request for it
    was not a request URI / ran the route's handler with these parameters (pattern order) / did not -/
inductive Obs where
  | error
  | notRequestURI (url : Bytes)
  | routedBack (url : Bytes) (params : List (Bytes × Bytes))
  | notRouted (url : Bytes)
  deriving DecidableEq, Repr

/-- `URLFor`, then the request for the URL it returned, on a router that holds the one route -/
def roundTrip (pattern : Bytes) (vals : Vals) : Obs :=
  match buildURL pattern vals, seenPath pattern vals with
  | some url, some seen =>
    (match matchRoute pattern seen with
     | some ps => .routedBack url ps
     | none => .notRouted url)
  | _, _ => .error

end Rivaas.Reverse
