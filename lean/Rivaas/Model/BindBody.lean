import Rivaas.Model.Bind
/-
C04 — the body side of binding: binding/json.go, binding/xml.go, the body sources of
`bindMultiSource` (FromJSON / FromJSONReader / FromXML / FromXMLReader) and `app.Context.Bind`
(`bindInternal`, `bindJSON`, `bindForm`, `ResetBinding`) of app/context.go.

What `encoding/json` and `encoding/xml` make of a document is a parameter, shipped per case
(`DocInfo`: the decoder's result on the destination as it is before the bind, without and with
`DisallowUnknownFields`, and whether `json.Unmarshal` into a `map[string]json.RawMessage` accepts
the document). Everything the framework itself decides is modelled: which bytes are decoded (the
bytes of this call's slice or reader, all of them, nothing else), the unknown-field policy, reader
errors, the order of body and value sources, the Content-Type dispatch, the body an `app.Context`
remembers between binds and forgets with `ResetBinding`.

Body and value sources of one case write disjoint fields (the generator's types keep them apart:
body fields carry no source tag, source fields carry `json:"-" xml:"-"`), so a body step is the
merge of the fields the decoder changed into the current value. Core Lean only.
-/
namespace Rivaas.Bind

inductive Fmt | json | xml
  deriving DecidableEq, Repr, Inhabited

/-- `UnknownIgnore`, `UnknownWarn`, `UnknownError` -/
inductive Policy | ignore | warn | error
  deriving DecidableEq, Repr, Inhabited

/-- the standard library's verdict on a document -/
inductive Dec
  | ok (v : Val)
  | unknown (name : Bytes)   -- with DisallowUnknownFields: the decoder's "unknown field" error
  | bad                      -- any other decoding error
  deriving Repr, Inhabited

structure DocInfo where
  lax : Dec
  strict : Dec
  object : Bool
  deriving Repr, Inhabited

/-- how the bytes arrive -/
structure BodyReq where
  fmt : Fmt
  policy : Policy
  reader : Bool       -- a reader entry point: JSONReader*, XMLReader*, FromJSONReader, FromXMLReader
  readFails : Nat     -- 0: the reader ends with EOF; 1: it fails inside the document; 2: it delivers the
                      -- whole document and then fails instead of reporting EOF
  doc : DocInfo       -- of the bytes delivered
  deriving Repr, Inhabited

/-- failures of the body side -/
inductive BErr
  | decode                 -- the decoder's error
  | unknown (name : Bytes) -- UnknownFieldError
  | read                   -- the reader's error
  | ctype                  -- ErrUnsupportedContentType
  | nobody                 -- ErrRequestBodyNil
  | bind (e : Err)         -- an error of a value source
  deriving Repr, Inhabited, DecidableEq

inductive BOut
  | ok (v : Val)
  | err (e : BErr)
  | panic
  deriving Repr, Inhabited

def Dec.out : Dec → Except BErr Val
  | .ok v => .ok v
  | .unknown n => .error (.unknown n)
  | .bad => .error .decode

/-- bindJSONReaderInternal / bindJSONBytesInternal / bindXMLReaderInternal / bindXMLBytesInternal -/
def decodeBody (r : BodyReq) : Except BErr Val :=
  -- UnknownWarn and UnknownError read the whole body first (io.ReadAll); otherwise the decoder
  -- reads as far as the end of the first value
  let readsAll := r.fmt == .json && r.policy != .ignore
  if r.reader && (r.readFails == 1 || (r.readFails == 2 && readsAll)) then .error .read
  else match r.fmt, r.policy with
    | .xml, _ => r.doc.lax.out
    | .json, .ignore => r.doc.lax.out
    | .json, .warn => if r.doc.object then r.doc.lax.out else .error .decode
    | .json, .error => r.doc.strict.out

/-- the fields the decoder changed, put into the current value -/
def mergeVals : List Val → List Val → List Val → List Val
  | i :: is, j :: js, c :: cs => (if j == i then c else j) :: mergeVals is js cs
  | _, _, cs => cs

def mergeDec (init dec cur : Val) : Val :=
  match init, dec, cur with
  | .struct is, .struct js, .struct cs => .struct (mergeVals is js cs)
  | _, _, c => c

inductive Step
  | src (s : Src)
  | body (r : BodyReq)
  deriving Repr, Inhabited

def Step.src? : Step → Option Src
  | .src s => some s
  | .body _ => none

def ofOutcome : Outcome → BOut
  | .ok v => .ok v
  | .err e => .err (.bind e)
  | .panic => .panic

/-- the loop over the sources of bindMultiSource, body sources included -/
def runSteps (P : Params) (cfg : Cfg) (fs : List Fld) (vty : Ty) (init : Val) : List Step → Val → BOut
  | [], cur => .ok cur
  | .src s :: rest, cur =>
    if hasTagFs s.kind fs then
      match bind P cfg s.kind vty cur s with
      | .ok v => runSteps P cfg fs vty init rest v
      | o => ofOutcome o
    else runSteps P cfg fs vty init rest cur
  | .body r :: rest, cur =>
    match decodeBody r with
    | .ok dv => runSteps P cfg fs vty init rest (mergeDec init dv cur)
    | .error e => .err e

/-- bindMultiSource with body sources: with more than one *value* source the defaults are applied
    first and the value sources bind without defaults; body sources take their turn in order -/
def bindSteps (P : Params) (cfg : Cfg) (fs : List Fld) (init : Val) (steps : List Step) : BOut :=
  let vs := steps.filterMap Step.src?
  if steps.isEmpty then .err (.bind .conv)
  else if vs.length ≤ 1 then runSteps P cfg fs (.struct fs) init steps init
  else
    match bindPass P cfg fs (fun _ => .struct fs) (vs.map fun s => { s with kvs := [] }) init with
    | .ok v => runSteps P cfg fs (.struct (stripFs fs)) init steps v
    | o => ofOutcome o

/-- JSON / JSONTo / JSONReader / JSONReaderTo / XML… and the Binder's methods: one body source -/
def bindBody (r : BodyReq) : BOut :=
  match decodeBody r with
  | .ok dv => .ok dv
  | .error e => .err e

/-! ### app.Context.Bind / BindOnly / MustBind -/

/-- the Content-Type as bindInternal reads it: parameters cut off at the first `;`, trimmed, lowered -/
def baseCT (ct : Bytes) : Bytes :=
  (trimSpace ((splitB ';' ct).headD [])).map lowerB

inductive CT | json | form | multipart | other
  deriving DecidableEq, Repr, Inhabited

def classifyCT (ct : Bytes) : CT :=
  let b := baseCT ct
  if b == B "application/json" || b == B "application/merge-patch+json" || b == B "application/json-patch+json" || b == [] then .json
  else if b == B "application/x-www-form-urlencoded" then .form
  else if b == B "multipart/form-data" then .multipart
  else .other

/-- what a handler does with its context -/
inductive Op
  | bind (strict : Bool)       -- Bind / BindOnly / MustBind into a fresh destination (strict: app.WithStrict)
  | setBody (doc : Option Nat) -- Request.Body is replaced (`none`: set to nil)
  | reset                      -- ResetBinding
  deriving Repr, Inhabited

structure Http where
  ctype : Bytes
  params : List Src          -- path, query, header, cookie — the order bindInternal uses
  form : Src                 -- Request.Form after ParseForm (URL query and body), for the form content type
  mform : Option Src := none -- Request.MultipartForm.Value when ParseMultipartForm ran: the fields of the multipart body alone
  docs : List DocInfo        -- doc 0: the body the request arrives with; the others: replacement bodies
  bodyTags : Bool            -- hasJSONOrFormTag
  deriving Repr, Inhabited

structure CtxState where
  cached : Option Nat := none   -- bindingMeta.rawBody (which document it holds)
  cur : Option Nat := some 0    -- what Request.Body would deliver (`none`: Body is nil)
  last : BOut := .ok .nil       -- the outcome of the latest bind
  deriving Repr, Inhabited

/-- bindForm: which container the form values are bound from. The dispatch of bindInternal reads the Content-Type
    trimmed and lowered (`classifyCT`), bindForm tests the raw header for the prefix `multipart/form-data`: only
    then the body is parsed as multipart and `MultipartTo` binds from `MultipartForm.Value` - the fields of the body
    alone; otherwise `ParseForm` + `FormTo` bind from `Request.Form` (URL query merged with a URL-encoded body). -/
def formSrc (h : Http) : Src :=
  if hasPrefix h.ctype (B "multipart/form-data") then h.mform.getD { kind := .form, kvs := [] } else h.form

/-- the value sources of bindInternal's `binding.BindTo` call, in the order it lists them
    (tied to app/context.go by `Tie.C04Bind.tie_app_source_order`) -/
def appSourceKinds : List Tag := [.path, .query, .header, .cookie]

/-- bindInternal on a struct destination -/
def appBind (P : Params) (fs : List Fld) (init : Val) (h : Http) (strict : Bool) (st : CtxState) : CtxState :=
  match bindMulti P Cfg.default fs init h.params with
  | .err e => { st with last := .err (.bind e) }
  | .panic => { st with last := .panic }
  | .ok v =>
    if !h.bodyTags then { st with last := .ok v }
    else match classifyCT h.ctype with
      | .json =>
        match st.cur with
        | none => { st with last := .err .nobody }
        | some c =>
          -- the body is read once per context and kept (bodyRead); the request gets the same bytes back
          let d := st.cached.getD c
          let st := { st with cached := some d }
          let req : BodyReq := { fmt := .json, policy := if strict then .error else .ignore, reader := false, readFails := 0,
                                 doc := h.docs.getD d default }
          match decodeBody req with
          | .ok dv => { st with last := .ok (mergeDec init dv v) }
          | .error e => { st with last := .err e }
      | .form | .multipart =>
        -- bindForm: FormTo over Request.Form / MultipartTo over MultipartForm.Value (a bind of its own, defaults included)
        { st with last := ofOutcome (bind P Cfg.default .form (.struct fs) v (formSrc h)) }
      | .other => { st with last := .err .ctype }

def appStep (P : Params) (fs : List Fld) (init : Val) (h : Http) (st : CtxState) : Op → CtxState
  | .bind strict => appBind P fs init h strict st
  | .setBody d => { st with cur := d }
  | .reset => { st with cached := none }

/-- the outcome of the last bind of a handler that performs `ops` on its context -/
def appRun (P : Params) (fs : List Fld) (init : Val) (h : Http) (ops : List Op) : BOut :=
  (ops.foldl (appStep P fs init h) {}).last

end Rivaas.Bind
