import Rivaas.Basic
/-
C09 — the vocabulary shared by the lifecycle model (`Model/Lifecycle.lean`) and the lifecycle
oracle (`Spec/Lifecycle.lean`): scenarios (what the environment injects), events, observations.
Types only, no behaviour. Core Lean only.
-/
namespace Rivaas.Lifecycle

/-- what an injected hook does -/
inductive HB where
  | ok
  /-- returns an error (OnStart, OnReload) -/
  | err
  | panic
  /-- OnStart: the stop signal arrives while the hook waits for its context; it returns `ctx.Err()`.
      OnShutdown: the hook holds on until the shutdown deadline.
      OnReady: the hook does not come back before `Start` has returned.
      OnReload: the stop signal arrives while the hook waits for its context; it returns `ctx.Err()`. -/
  | block
  /-- OnStart: the stop signal arrives during the hook, the hook still succeeds -/
  | cancelOk
  deriving DecidableEq, Repr, Inhabited

inductive Listen where
  | ok
  /-- port taken by another server -/
  | busy
  /-- host is not an address of this machine -/
  | bad
  /-- StartTLS: the key pair cannot be loaded -/
  | cert
  deriving DecidableEq, Repr

/-- when the environment lets an in-flight request finish -/
inductive Rel where
  /-- from inside OnShutdown hook `j` -/
  | hook (j : Nat)
  /-- as soon as the drain has begun (the listener is closed) -/
  | drain
  /-- not before `Start` has returned -/
  | never
  /-- the handler has taken over its connection (`http.Hijacker`: a WebSocket, any upgrade); the exchange
      goes on and is finished only after `Start` has returned. `Server.Shutdown` does not wait for such
      connections — and nothing may cut them off. -/
  | hijack
  deriving DecidableEq, Repr

inductive Trig where
  /-- programmatic `App.Reload` on a goroutine of the environment -/
  | prog
  /-- SIGHUP: `Reload` runs on the `Start` goroutine inside the select loop -/
  | hup
  deriving DecidableEq, Repr

structure Round where
  trig : Trig
  /-- behaviour of reload hook `i` in this round (missing = ok) -/
  beh : List HB
  /-- the stop signal arrives while reload hook `j` of this round runs -/
  cancelAt : Option Nat
  /-- harness only: the next round is started while this one sits in its first hook -/
  pair : Bool
  deriving Repr, DecidableEq

structure Scenario where
  metrics : Bool
  tracing : Bool
  listen : Listen
  starts : List HB
  readies : List HB
  nReload : Nat
  shuts : List HB
  stops : List HB
  reqs : List Rel
  rounds : List Round
  deriving Repr, DecidableEq

/-- the event log. `app` = this application serves HTTP on its port, `met` = the metrics port
    answers, `frozen` = `Router.Frozen()` — all probed from inside the hook. -/
inductive Ev where
  | startIn (i : Nat) (app met frozen : Bool)
  | startOut (i : Nat)
  | ready (i : Nat) (app met frozen : Bool)
  | reloadIn (r i : Nat)
  | reloadOut (r i : Nat)
  /-- handler of request `k` entered -/
  | reqIn (k : Nat)
  /-- handler of request `k` was released and is about to write its response -/
  | reqFin (k : Nat) (met : Bool)
  /-- the stop signal (context cancelled) -/
  | sig
  /-- `live` = the context handed to the hook has not ended yet -/
  | shutIn (i : Nat) (app met live : Bool)
  | shutOut (i : Nat)
  /-- the trace collector received the tracer's export: telemetry flushed -/
  | flush
  | stopIn (i : Nat) (app met : Bool)
  | stopOut (i : Nat)
  /-- `Start` returned (or panicked) -/
  | ret
  deriving DecidableEq, Repr

/-- result of `Start` -/
inductive Res where
  | ok
  /-- "startup failed: OnStart hook … " -/
  | errStartup
  /-- "… server failed to start" -/
  | errListen
  /-- "… server forced to shutdown" -/
  | errDrain
  | errObs
  | other
  /-- the process was killed (by a signal) before `Start` returned -/
  | killed
  /-- never returned -/
  | hang
  | panic
  deriving DecidableEq, Repr

/-- client-side outcome of an in-flight request -/
inductive ReqRes where
  | incomplete
  | complete
  /-- not released before `Start` returned: nothing to say -/
  | na
  deriving DecidableEq, Repr

/-- outcome of a `Reload` call -/
inductive RRes where
  | ok
  | err
  | panic
  /-- SIGHUP round, or the round was not executed -/
  | na
  deriving DecidableEq, Repr

structure Obs where
  log : List Ev
  res : Res
  finApp : Bool
  finMet : Bool
  /-- what was logged during start-up is still held back in the startup log buffer -/
  finHeld : Bool
  reqs : List ReqRes
  rounds : List RRes
  deriving DecidableEq, Repr


end Rivaas.Lifecycle
