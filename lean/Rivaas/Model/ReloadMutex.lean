import Rivaas.Basic
/-
C09 — `App.Reload` under concurrency: `reloadMu.Lock(); defer reloadMu.Unlock(); … executeReloadHooks …`.

Interleaving semantics. Every call of `Reload` is a thread; the hooks it will run (with their enter and
leave events) are its program. The atomic steps are: acquire the mutex (possible only when nobody holds
it), run the next hook event, release the mutex. A schedule is an arbitrary list of thread numbers; a
thread that is chosen while it cannot move (mutex taken, or finished) just loses its turn.
`exec` gives the emitted events, each tagged with the thread that emitted it.

`execNoMutex` is the same without the lock (what dropping `reloadMu` would give): kept for the
witness that serialisation is the mutex's doing. Core Lean only.
-/
namespace Rivaas.ReloadMutex

/-- where a `Reload` call is -/
inductive Th (α : Type) where
  /-- not yet past `reloadMu.Lock()`; the events its hooks will produce -/
  | idle (prog : List α)
  /-- holds the mutex; the events still to come -/
  | running (rest : List α)
  | done
  deriving Repr

structure State (α : Type) where
  /-- who holds `reloadMu` -/
  holder : Option Nat
  threads : List (Th α)
  /-- (thread, event) in the order of emission -/
  log : List (Nat × α)
  deriving Repr

def init {α} (progs : List (List α)) : State α :=
  { holder := none, threads := progs.map Th.idle, log := [] }

/-- thread `t` is scheduled -/
def step {α} (s : State α) (t : Nat) : State α :=
  match s.threads[t]? with
  | none => s
  | some (.idle prog) =>
    match s.holder with
    | none => { s with holder := some t, threads := s.threads.set t (.running prog) }
    | some _ => s                       -- blocked in Lock()
  | some (.running []) => { s with holder := none, threads := s.threads.set t .done }
  | some (.running (e :: rest)) => { s with threads := s.threads.set t (.running rest), log := s.log ++ [(t, e)] }
  | some .done => s

def exec {α} (progs : List (List α)) (sched : List Nat) : State α := sched.foldl step (init progs)

/-- the same without the mutex -/
def stepNoMutex {α} (s : State α) (t : Nat) : State α :=
  match s.threads[t]? with
  | none => s
  | some (.idle prog) => { s with threads := s.threads.set t (.running prog) }
  | some (.running []) => { s with threads := s.threads.set t .done }
  | some (.running (e :: rest)) => { s with threads := s.threads.set t (.running rest), log := s.log ++ [(t, e)] }
  | some .done => s

def execNoMutex {α} (progs : List (List α)) (sched : List Nat) : State α :=
  sched.foldl stepNoMutex (init progs)

end Rivaas.ReloadMutex
