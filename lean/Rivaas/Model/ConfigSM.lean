import Rivaas.Model.Config
import Rivaas.Model.ConfigSkel
/-
C14 — `Load` statement by statement, interleaved with other Loads and with readers.

`Model/Config.lean` treats the write-locked region of a `Load` and the read-locked pointer load of
`Get`/`Values` as atomic steps (`Op`, `runSched`). This file does not: a loader thread executes the *program*
of `Load` — a `List ConfigSkel.Step`, the very list `extract/configload.go` regenerates from the source
(`Gen.ConfigLoad.loadSteps`, compared with `modelLoad` in `Tie/C14Load.lean`) — one statement group per step,
against a shared state with an explicit `sync.RWMutex` (a writer, a set of readers). Any number of loader and
reader threads, any schedule; a step of a blocked thread changes nothing. Two ghost fields record the
linearisation: `ops` (a `commit t` when loader `t` returns, a `read r` when reader `r` loads the pointer) and
`seen` (what each pointer load returned). `Lemmas/ConfigSM.lean` proves that every reachable state of the
program `modelLoad` is explained by running the coarse `runSched` on `ops`.
Core Lean only.
-/
namespace Rivaas.ConfigSM
open Rivaas.Config Rivaas.ConfigSkel

/-- `(*Config).Load` as the model has it. `Tie/C14Load.lean`: equal to the regenerated skeleton. -/
def modelLoad : List Step :=
  [.argCheck, .loadSources, .schema, .validators true, .lock, .deferUnlock, .bindAndValidate, .bind, .swap, .retNil]

def upd {α : Type} (f : Nat → α) (i : Nat) (a : α) : Nat → α := fun j => if j = i then a else f j

/-- locals of one call of `Load` -/
structure LState where
  pc : Nat
  /-- `newValues` -/
  cand : Kvs
  /-- `defer c.mu.Unlock()` has been executed -/
  deferred : Bool
  /-- `some stage` once the call has returned -/
  done : Option Stage
  deriving Repr

def LState.init : LState := ⟨0, [], false, none⟩

structure Sys where
  /-- the map `c.values` points to -/
  values : Kvs
  /-- the struct passed to `WithBinding` -/
  bound : List (Bytes × Bytes)
  /-- `c.mu` held for writing by loader `t` -/
  writer : Option Nat
  /-- readers holding `c.mu` for reading -/
  rlocks : List Nat
  ls : Nat → LState
  /-- reader `r`: 0 before `RLock`, 1 lock held, 2 pointer loaded, 3 lock released -/
  rphase : Nat → Nat
  /-- ghost: linearisation events, most recent first -/
  ops : List Op
  /-- what the pointer loads returned, most recent first -/
  seen : List (Nat × Kvs)

def Sys.conc (s : Sys) : State := ⟨s.values, s.bound⟩

def Sys.init (st : State) : Sys :=
  { values := st.values, bound := st.bound, writer := none, rlocks := [], ls := fun _ => LState.init,
    rphase := fun _ => 0, ops := [], seen := [] }

/-- the call returns: deferred functions run (the unlock, when it was registered) -/
def finish (s : Sys) (t : Nat) (l : LState) (r : Stage) : Sys :=
  { s with ls := upd s.ls t { l with done := some r },
           writer := if l.deferred && s.writer == some t then none else s.writer,
           ops := .commit t :: s.ops }

def next (s : Sys) (t : Nat) (l : LState) : Sys :=
  { s with ls := upd s.ls t { l with pc := l.pc + 1 } }

/-- one statement group of loader `t` running program `prog` on input `inp` -/
def stepLoader (prog : List Step) (schema : Bool) (nv : Nat) (inp : LoadInput) (s : Sys) (t : Nat) : Sys :=
  let l := s.ls t
  match l.done with
  | some _ => s
  | none =>
    match prog[l.pc]? with
    | none => finish s t l .ok
    | some .loadSources =>
      match loadSources inp.srcs 0 [] with
      | .error i => finish s t l (.source i)
      | .ok maps => next s t { l with cand := mergeAll maps }
    | some .schema => if schema && schemaRejects l.cand then finish s t l .schema else next s t l
    | some (.validators _) =>
      match firstRejecting l.cand nv with
      | some i => finish s t l (.validator i)
      | none => next s t l
    | some .lock => if s.writer = none ∧ s.rlocks = [] then next { s with writer := some t } t l else s
    | some .deferUnlock => next s t { l with deferred := true }
    | some .unlock => next { s with writer := if s.writer == some t then none else s.writer } t l
    | some .bindAndValidate =>
      match inp.bind with
      | some .reject => finish s t l .binding
      | _ => next s t l
    | some .bind =>
      match inp.bind with
      | some (.ok fresh) => next { s with bound := fresh } t l
      | _ => next s t l
    | some .swap => next { s with values := l.cand } t l
    | some .retNil => finish s t l .ok
    | some _ => next s t l

/-- `Get` / `Values()`: `RLock`, load the pointer, `RUnlock` -/
def stepReader (s : Sys) (r : Nat) : Sys :=
  match s.rphase r with
  | 0 => if s.writer = none then { s with rlocks := r :: s.rlocks, rphase := upd s.rphase r 1 } else s
  | 1 => { s with seen := (r, s.values) :: s.seen, ops := .read r :: s.ops, rphase := upd s.rphase r 2 }
  | 2 => { s with rlocks := s.rlocks.erase r, rphase := upd s.rphase r 3 }
  | _ => s

inductive Act where
  | loader (t : Nat)
  | reader (r : Nat)
  deriving Repr, DecidableEq

def step (prog : List Step) (schema : Bool) (nv : Nat) (inputs : List LoadInput) (s : Sys) : Act → Sys
  | .loader t =>
    match inputs[t]? with
    | some inp => stepLoader prog schema nv inp s t
    | none => s
  | .reader r => stepReader s r

def run (prog : List Step) (schema : Bool) (nv : Nat) (inputs : List LoadInput) (s : Sys) (sched : List Act) : Sys :=
  sched.foldl (step prog schema nv inputs) s

/-- the coarse model on a list of linearisation events given most recent first: state and what was seen
    (most recent first) -/
def absOf (schema : Bool) (nv : Nat) (inputs : List LoadInput) (st : State) : List Op → State × List (Nat × Kvs)
  | [] => (st, [])
  | .commit i :: older =>
    let a := absOf schema nv inputs st older
    (match inputs[i]? with
      | some inp => (load schema nv a.1 inp).1
      | none => a.1, a.2)
  | .read r :: older =>
    let a := absOf schema nv inputs st older
    (a.1, (r, a.1.values) :: a.2)

end Rivaas.ConfigSM
