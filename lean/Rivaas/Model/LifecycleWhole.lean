import Rivaas.Model.LifecycleSkel
/-
C09 — the control flow of `Start…` → `runServer` as ONE program, assembled from the regenerated slices
(`Skels`: entry points, statements before the event loop, the arms of `for { select { … } }`, the statements
after the label), and the *lifecycle language* of its call words.

`Model/LifecycleSkel.lean` checks the slices one by one. Here the loop/label structure itself gets a semantics:

* an arm whose path falls off its end goes round the loop again,
* an arm whose path ends in `goto <label>` continues with the statements after the label,
* an arm whose path returns leaves `runServer`,
* `pre` falling off its end enters the loop, an entry point's `return a.runServer(…)` enters `pre`.

`execStart` runs that program for a given entry point, valuations of the branch conditions and a *schedule* of
the event loop (which arm fires in each iteration); `startOuts` enumerates all paths with at most `n`
iterations. `inStartLang` recognises the call words the lifecycle model (`Model/Lifecycle.lean`, `runSegs`)
can follow:

    ε                                                   (nothing started: invalid mTLS configuration)
    startObservability abortStartup
    startObservability executeStartHooks abortStartup
    PROLOGUE abortStartup                               (key pair unreadable)
    PROLOGUE Listen abortStartup
    PROLOGUE Listen go recv executeReadyHooks Reload* abortStartup            (serve error)
    PROLOGUE Listen go recv executeReadyHooks Reload* executeShutdownHooks Shutdown shutdownObservability executeStopHooks

with PROLOGUE = startObservability executeStartHooks registerOpenAPIEndpoints Freeze. `Props/C09Whole.lean`
proves: slices that pass `checkWhole` ⇒ *every* execution of the assembled program (every entry point, every
valuation, every schedule of any length) that ends, ends in a return with a word of that language; and the
word of every run of the lifecycle model is the word of such an execution. `Tie/C09.lean` discharges
`checkWhole` on the slices regenerated from the source of this run. Core Lean only.
-/
namespace Rivaas.LifecycleSkel

def keepT (core : List Name) (t : List (Name × Name)) : List Name := (t.map (·.1)).filter fun n => core.contains n

def Out.pre (t : List (Name × Name)) (o : Out) : Out := ⟨t ++ o.trace, o.fin⟩

/-- the calls the lifecycle language speaks about -/
def allCore : List Name :=
  prologue ++ [nm "abortStartup", nm "Listen", nm "go", nm "recv", nm "executeReadyHooks", nm "Reload"] ++ shutdownOrder

def readyPrefix : List Name := [nm "Listen", nm "go", nm "recv", nm "executeReadyHooks"]

/-! ### the language -/

/-- `Reload* (abortStartup | shutdown sequence)` -/
def inLoopLang : List Name → Bool
  | [] => false
  | n :: rest => if n == nm "Reload" then inLoopLang rest else (n :: rest == [nm "abortStartup"] || n :: rest == shutdownOrder)

def inRunLang (w : List Name) : Bool :=
  w == [nm "Listen", nm "abortStartup"] || (w.take 4 == readyPrefix && inLoopLang (w.drop 4))

/-- words of an entry point that gives up before `runServer` -/
def entryAbortWords : List (List Name) :=
  [[], [nm "startObservability", nm "abortStartup"],
   [nm "startObservability", nm "executeStartHooks", nm "abortStartup"],
   prologue ++ [nm "abortStartup"]]

def inStartLang (w : List Name) : Bool :=
  entryAbortWords.contains w || (w.take 4 == prologue && inRunLang (w.drop 4))

/-! ### the slice obligations over the one vocabulary `allCore` -/

def isRet : End → Bool
  | .ret _ => true
  | _ => false

def entryOkW (o : Out) : Bool :=
  match o.fin with
  | .tail n => n == nm "runServer" && keepT allCore o.trace == prologue
  | .ret _ => entryAbortWords.contains (keepT allCore o.trace)
  | _ => false

def preOkW (o : Out) : Bool :=
  match o.fin with
  | .ret _ => keepT allCore o.trace == [nm "Listen", nm "abortStartup"]
  | .fall => keepT allCore o.trace == readyPrefix
  | _ => false

def armOkW (label : Name) (o : Out) : Bool :=
  match o.fin with
  | .ret _ => keepT allCore o.trace == [nm "abortStartup"]
  | .fall => keepT allCore o.trace == [nm "Reload"] || keepT allCore o.trace == []
  | .goto l => l == label && keepT allCore o.trace == []
  | _ => false

def afterOkW (o : Out) : Bool := isRet o.fin && keepT allCore o.trace == shutdownOrder

/-- K09g / K09h: an entry point that gives up has written the startup logs out — through `abortStartup` (which flushes
    first: `ObsShape.abortOrder`) or by calling `flushStartupLogs` itself -/
def entryFlushes (o : Out) : Bool :=
  match o.fin with
  | .tail _ => true
  | .ret _ => (names o).contains (nm "abortStartup") || (names o).contains (nm "flushStartupLogs")
  | _ => false

/-- what the assembled program needs of its slices -/
def checkWhole (k : Skels) : Bool :=
  let l := afterLabel k.after
  k.entries.all (onAll entryOkW) && onAll preOkW k.pre && k.arms.all (onAll (armOkW l)) && onAll afterOkW k.after

/-! ### the assembled program: semantics and path enumeration -/

/-- one iteration of the event loop fires arm `i` under valuation `ρ` -/
abbrev Sched := List (Nat × (Nat → Bool))

/-- the event loop; `none` = the schedule ended while the loop was still running (or named an arm that
    does not exist) -/
def execLoop (arms : List Stmt) (label : Name) (after : Stmt) (ρa : Nat → Bool) : Sched → Option Out
  | [] => none
  | (i, ρ) :: rest =>
    match arms[i]? with
    | none => none
    | some a =>
      let r := exec ρ a
      match r.fin with
      | .fall => (execLoop arms label after ρa rest).map (Out.pre r.trace)
      | .goto l => if l == label then some (Out.pre r.trace (exec ρa after)) else some r
      | _ => some r

/-- `runServer` -/
def execRun (k : Skels) (ρp ρa : Nat → Bool) (sched : Sched) : Option Out :=
  let p := exec ρp k.pre
  if p.fin == .fall then (execLoop k.arms (afterLabel k.after) k.after ρa sched).map (Out.pre p.trace) else some p

/-- entry point `e` (`Start` / `StartTLS` / `StartMTLS`) followed by `runServer` when it tail-calls it -/
def execStart (k : Skels) (e : Stmt) (ρe ρp ρa : Nat → Bool) (sched : Sched) : Option Out :=
  let o := exec ρe e
  match o.fin with
  | .tail r => if r == nm "runServer" then (execRun k ρp ρa sched).map (Out.pre o.trace) else some o
  | _ => some o

/-- all paths through the event loop with at most `n` iterations -/
def loopOuts (arms : List Stmt) (label : Name) (after : Stmt) : Nat → List Out
  | 0 => []
  | n + 1 =>
    (arms.flatMap outs).flatMap fun a =>
      match a.fin with
      | .fall => (loopOuts arms label after n).map (Out.pre a.trace)
      | .goto l => if l == label then (outs after).map (Out.pre a.trace) else [a]
      | _ => [a]

def runOuts (k : Skels) (n : Nat) : List Out :=
  (outs k.pre).flatMap fun p =>
    if p.fin == .fall then (loopOuts k.arms (afterLabel k.after) k.after n).map (Out.pre p.trace) else [p]

def startOutsOf (k : Skels) (e : Stmt) (n : Nat) : List Out :=
  (outs e).flatMap fun o =>
    match o.fin with
    | .tail r => if r == nm "runServer" then (runOuts k n).map (Out.pre o.trace) else [o]
    | _ => [o]

def startOuts (k : Skels) (n : Nat) : List Out := k.entries.flatMap fun e => startOutsOf k e n

/-- the call word of a path -/
def word (o : Out) : List Name := keepT allCore o.trace

/-! ### the words of the lifecycle model

`Model/Lifecycle.lean` (`runSegs`) has these ways through `Start`; `hups` = the SIGHUP rounds that ran. -/

inductive ModelPath where
  /-- an OnStart hook failed -/
  | startFailed
  /-- the listener could not be bound -/
  | listenFailed
  /-- the key pair could not be loaded (`StartTLS`; the model treats it as a listen fault) -/
  | certFailed
  /-- the server ran, `hups` SIGHUP reloads, then the stop signal and the whole shutdown sequence -/
  | served (hups : Nat)
  deriving DecidableEq, Repr

def modelWord : ModelPath → List Name
  | .startFailed => [nm "startObservability", nm "executeStartHooks", nm "abortStartup"]
  | .listenFailed => prologue ++ [nm "Listen", nm "abortStartup"]
  | .certFailed => prologue ++ [nm "abortStartup"]
  | .served h => prologue ++ readyPrefix ++ List.replicate h (nm "Reload") ++ shutdownOrder

/-- the model's paths exist in the source: checked on the regenerated slices for every path shape and
    0..`n` reloads (`Props/C09Whole.lean` lifts the served case to every number of reloads) -/
def modelPathsPresent (k : Skels) (n : Nat) : Bool :=
  let ws := (startOuts k (n + 1)).map word
  ws.contains (modelWord .startFailed) && ws.contains (modelWord .listenFailed) &&
  (List.range (n + 1)).all fun h => ws.contains (modelWord (.served h))

/-- slice-level facts from which every `served h` word follows: some entry path is exactly the prologue into
    `runServer`; `pre` has the ready path; some arm path is exactly one `Reload` and loops; some arm path
    goes to the label; `after` has a path -/
def liveness (k : Skels) : Bool :=
  let l := afterLabel k.after
  (k.entries.any fun e => (outs e).any fun o => o.fin == .tail (nm "runServer") && word o == prologue) &&
  ((outs k.pre).any fun p => p.fin == .fall && word p == readyPrefix) &&
  ((k.arms.flatMap outs).any fun a => a.fin == .fall && word a == [nm "Reload"]) &&
  ((k.arms.flatMap outs).any fun a => a.fin == .goto l && word a == []) &&
  ((outs k.after).any fun f => isRet f.fin && word f == shutdownOrder)

/-! ### shapes the lifecycle model takes from the source besides the call order

Regenerated by `extract/lifecycle_shapes.go` into `Gen/Lifecycle.lean`; `Tie/C09.lean` proves they equal the
`model…` values below, which say — next to the definition of `Model/Lifecycle.lean` they stand for — what the
model assumes. -/

/-- the event loop: what each arm of the `select` receives from, in source order and classified by structure
    (`serveError` = the channel the serving goroutine sends its error to, `ctxDone` = `Done()` of a context, `chan` = any
    other channel — that this one reloads is the arm's *role*, `armRole`), the label after the loop, every
    `goto` target in `runServer` -/
structure LoopShape where
  armChans : List String
  label : String
  gotoTargets : List String
  deriving DecidableEq, Repr

/-- a hook executor (`app/lifecycle.go`) -/
structure HookLoop where
  fn : String
  /-- `for i := len(hooks) - 1; i >= 0; i--` -/
  reverse : Bool
  /-- a `return` inside the loop: the first failure ends it -/
  returnsInLoop : Bool
  /-- one goroutine per hook (fire and forget) -/
  goPerHook : Bool
  /-- each hook runs under its own `recover` -/
  perHookRecover : Bool
  /-- the loop runs over a copy of the registered list … -/
  localCopy : Bool
  /-- … taken under `hooks.mu`, which is released again before the first hook runs (a hook may register hooks) -/
  unlockedBeforeLoop : Bool
  deriving DecidableEq, Repr

structure ReloadShape where
  lockFirst : Bool
  deferUnlockNext : Bool
  hooksAfter : Bool
  noOtherUnlock : Bool
  deriving DecidableEq, Repr

structure ObsShape where
  /-- components `startObservability` starts, in order; each failure returns -/
  started : List String
  startReturnsOnError : Bool
  /-- components `shutdownObservability` shuts down, in order; no `return` in it (a failing shutdown of one
      component does not skip the next) -/
  shutDown : List String
  shutdownHasNoReturn : Bool
  /-- `abortStartup`: flush the startup logs, then shut observability down on `WithTimeout(WithoutCancel(ctx))` -/
  abortOrder : List String
  abortCtxDetached : Bool
  /-- after the label: OnShutdown hooks and the drain share `WithTimeout(WithoutCancel(ctx))` … -/
  shutdownCtxDetached : Bool
  hooksAndDrainShareCtx : Bool
  /-- … telemetry flush and OnStop hooks share a context that is that one, or a fresh one when it has expired -/
  finalCtxFreshWhenExpired : Bool
  flushAndStopShareFinalCtx : Bool
  deriving DecidableEq, Repr

/-- `runSegs`: the select loop is `serve error | SIGHUP → Reload | ctx.Done() → shutdown sequence` -/
def modelArmChans : List String := ["serveError", "chan", "ctxDone"]

/-- the loop is left by `goto` only to the label that follows it (whatever its name) -/
def LoopShape.ok (l : LoopShape) : Bool :=
  l.armChans == modelArmChans && l.label != "" && l.gotoTargets == [l.label]

/-- what each arm does, by the kind of its paths: `abort` = `abortStartup; return`, `reload` = `Reload` and round
    again, `leave` = `goto` the label -/
inductive ArmRole where
  | abort | reload | leave | other
  deriving DecidableEq, Repr

def armRole (label : Name) (a : Stmt) : ArmRole :=
  let os := outs a
  if os.all (fun o => isRet o.fin && word o == [nm "abortStartup"]) then .abort
  else if os.all (fun o => o.fin == .fall && (word o == [nm "Reload"])) then .reload
  else if os.all (fun o => o.fin == .goto label && word o == []) then .leave
  else .other

/-- `startHooks` (sequential, the first failure ends the loop, no recover), `readyHooks` (fire and forget, panics
    recovered), `ranFrom`/`roundRes` with K09d (stop at the first failure, a panic becomes the error), `lifo` +
    `shutHooks` (last registered first, a panic leaves), `stopHooks` (every hook, each under its own recover);
    `LateReg` (hooks registered from inside an OnStart hook are seen): the copy is taken when the executor runs
    and the lock is not held while hooks run -/
def modelHookLoops : List HookLoop :=
  [{ fn := "executeStartHooks", reverse := false, returnsInLoop := true, goPerHook := false, perHookRecover := false, localCopy := true, unlockedBeforeLoop := true },
   { fn := "executeReadyHooks", reverse := false, returnsInLoop := false, goPerHook := true, perHookRecover := true, localCopy := true, unlockedBeforeLoop := true },
   { fn := "executeReloadHooks", reverse := false, returnsInLoop := true, goPerHook := false, perHookRecover := true, localCopy := true, unlockedBeforeLoop := true },
   { fn := "executeShutdownHooks", reverse := true, returnsInLoop := false, goPerHook := false, perHookRecover := false, localCopy := true, unlockedBeforeLoop := true },
   { fn := "executeStopHooks", reverse := false, returnsInLoop := false, goPerHook := false, perHookRecover := true, localCopy := true, unlockedBeforeLoop := true }]

/-- `Model/ReloadMutex.lean`: every `Reload` is `Lock; hooks; Unlock` on one mutex -/
def modelReloadShape : ReloadShape := { lockFirst := true, deferUnlockNext := true, hooksAfter := true, noOtherUnlock := true }

/-- `runSegs`: `met` is up from `startObservability` on; `abortObs` / `flushIf` (K09b, K09g: logs, then telemetry);
    `shutdownTail`: hooks and drain share the budget (`expired`), flush and OnStop run on a live context also
    when the budget is used up (K09e), metrics and tracer both go down (`finMet := false`, `flush`) -/
def modelObsShape : ObsShape :=
  { started := ["metrics", "tracing"], startReturnsOnError := true,
    shutDown := ["metrics", "tracing"], shutdownHasNoReturn := true,
    abortOrder := ["flushStartupLogs", "shutdownObservability"], abortCtxDetached := true,
    shutdownCtxDetached := true, hooksAndDrainShareCtx := true,
    finalCtxFreshWhenExpired := true, flushAndStopShareFinalCtx := true }

end Rivaas.LifecycleSkel
