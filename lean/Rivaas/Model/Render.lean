import Rivaas.Basic
/-
Model of the rendering helpers of router/context.go and router/response.go (after the C19 `fix:`
commits): the fast-path decision of Stringf, the hand-written ASCII escaper of ASCIIJSON
(`decodeRuneInJSON`, BMP / surrogate split), and how each JSON variant assembles its body from what
encoding/json returned. `fmt.Sprintf` and `encoding/json` are parameters (evaluated by the harness).
Core Lean only. Byte strings are `Bytes`; the escaper works on byte values (`Nat` < 256).
-/
namespace Rivaas.Render

/-! ### Stringf -/

/-- a Stringf argument as far as `tryFastStringFormat` looks at it -/
inductive Arg
  | str (s : Bytes)
  | other
  deriving DecidableEq, Repr

/-- `idx := strings.Index(format, "%s")` as `(format[:idx], format[idx+2:])` -/
def cutPctS : Bytes → Option (Bytes × Bytes)
  | [] => none
  | [_] => none
  | c :: d :: r =>
    if c == '%' && d == 's' then some ([], r)
    else match cutPctS (d :: r) with
      | some (a, b) => some (c :: a, b)
      | none => none

/-- `strings.Count(format, "%")` -/
def countPct (s : Bytes) : Nat := (s.filter (· == '%')).length

/-- `tryFastStringFormat`: `some body` when the fast path writes the response itself -/
def fastPath (format : Bytes) (args : List Arg) : Option Bytes :=
  match args with
  | [.str v] =>
    match cutPctS format with
    | none => none
    | some (pre, post) => if countPct format != 1 then none else some (pre ++ v ++ post)
  | _ => none

/-- as shipped (K19c): only a second "%s" disabled the fast path -/
def fastPathAsIs (format : Bytes) (args : List Arg) : Option Bytes :=
  match args with
  | [.str v] =>
    match cutPctS format with
    | none => none
    | some (pre, post) => if (cutPctS post).isSome then none else some (pre ++ v ++ post)
  | _ => none

/-- body written by `Stringf`; `sprintf` is what `fmt.Fprintf` produces for the same arguments -/
def stringfBody (format : Bytes) (args : List Arg) (sprintf : Bytes) : Bytes :=
  match fastPath format args with
  | some b => b
  | none => sprintf

def stringfBodyAsIs (format : Bytes) (args : List Arg) (sprintf : Bytes) : Bytes :=
  match fastPathAsIs format args with
  | some b => b
  | none => sprintf

/-- the `Write` calls `Stringf` issues after the header, in order: on the fast path the non-empty ones of
    prefix, value, suffix (zero-copy, up to three); otherwise the single `Write` of `fmt.Fprintf` -/
def stringfWrites (format : Bytes) (args : List Arg) (sprintf : Bytes) : List Bytes :=
  match args with
  | [.str v] =>
    match cutPctS format with
    | none => [sprintf]
    | some (pre, post) => if countPct format != 1 then [sprintf] else [pre, v, post].filter (fun x => !x.isEmpty)
  | _ => [sprintf]

/-- `Stringf` on a response writer whose `k`-th Write fails (`k = 0`: never): (success reported, bytes
    delivered). A failed Write ends the call with an error (after the K19i fix also on the fast path). -/
def stringfOnFlaky (k : Nat) (format : Bytes) (args : List Arg) (sprintf : Bytes) : Bool × Bytes :=
  let ws := stringfWrites format args sprintf
  if k ≥ 1 && ws.length ≥ k then (false, (ws.take (k - 1)).flatten) else (true, ws.flatten)

/-- as shipped (K19i): an error of the fast path — also a write error — sent Stringf into the
    `fmt.Fprintf` fallback, which wrote the whole response behind what had already been delivered -/
def stringfOnFlakyAsIs (k : Nat) (format : Bytes) (args : List Arg) (sprintf : Bytes) : Bool × Bytes :=
  let ws := stringfWrites format args sprintf
  if k ≥ 1 && ws.length ≥ k then
    (if (fastPath format args).isSome then (true, (ws.take (k - 1)).flatten ++ sprintf)
     else (false, (ws.take (k - 1)).flatten))
  else (true, ws.flatten)

/-- Content-Type of `String` (0), `HTML` (1), `Data` (2), `SendStatus` (3), `NoContent` (4) on a fresh response -/
def plainCType (kind : Nat) (ct : Bytes) : Bytes :=
  if kind == 0 then "text/plain".toList
  else if kind == 1 then "text/html".toList
  else if kind == 2 then (if ct.isEmpty then "application/octet-stream".toList else ct)
  else if kind == 5 then ct   -- DataFromReader (5): the content type as given, none when empty
  else []      -- SendStatus (3), NoContent (4) set no content type

/-- Content-Type after `String` / `Stringf`: kept when already set -/
def stringfCType (pre : Bytes) : Bytes := if pre.isEmpty then "text/plain".toList else pre

/-! ### ASCIIJSON -/

/-- `decodeRuneInJSON`: (rune, size); size 0 = "Invalid or cut-off sequence" -/
def decodeRune (b : List Nat) : Nat × Nat :=
  match b with
  | [] => (0, 0)
  | b0 :: r0 =>
    if b0 < 128 then (b0, 1)
    else match r0 with
      | [] => (0, 0)
      | b1 :: r1 =>
        if b0 &&& 0xE0 == 0xC0 then (((b0 &&& 0x1F) <<< 6) ||| (b1 &&& 0x3F), 2)
        else match r1 with
          | [] => (0, 0)
          | b2 :: r2 =>
            if b0 &&& 0xF0 == 0xE0 then (((b0 &&& 0x0F) <<< 12) ||| ((b1 &&& 0x3F) <<< 6) ||| (b2 &&& 0x3F), 3)
            else match r2 with
              | [] => (0, 0)
              | b3 :: _ =>
                if b0 &&& 0xF8 == 0xF0 then
                  (((b0 &&& 0x07) <<< 18) ||| ((b1 &&& 0x3F) <<< 12) ||| ((b2 &&& 0x3F) <<< 6) ||| (b3 &&& 0x3F), 4)
                else (0, 0)

def hexDigit (n : Nat) : Nat := if n < 10 then 48 + n else 87 + n

/-- `\u%04x` for a value below 0x10000 -/
def u4 (n : Nat) : List Nat :=
  [92, 117, hexDigit (n / 4096 % 16), hexDigit (n / 256 % 16), hexDigit (n / 16 % 16), hexDigit (n % 16)]

/-- surrogate split: `r -= 0x10000; 0xD800+(r>>10), 0xDC00+(r&0x3FF)` -/
def hiSur (r : Nat) : Nat := 0xD800 + ((r - 0x10000) >>> 10)
def loSur (r : Nat) : Nat := 0xDC00 + ((r - 0x10000) &&& 0x3FF)

def escRune (r : Nat) : List Nat := if r ≤ 0xFFFF then u4 r else u4 (hiSur r) ++ u4 (loSur r)

/-- one iteration of the escaping loop at byte `b` (the rest of the input is `rest`); `next` is the loop
    continued at a later index. `i += size` leaves `rest.drop (size - 1)` (`size > 0`). -/
def escapeStep (next : List Nat → List Nat) (b : Nat) (rest : List Nat) : List Nat :=
  if b ≥ 128 then
    let (r, size) := decodeRune (b :: rest)
    if size > 0 then escRune r ++ next (rest.drop (size - 1))
    else u4 b ++ next rest
  else b :: next rest

/-- the escaping loop; `fuel` bounds the number of iterations (`escape` supplies the length) -/
def escapeF : Nat → List Nat → List Nat
  | 0, _ => []
  | _, [] => []
  | fuel + 1, b :: rest => escapeStep (escapeF fuel) b rest

def escape (l : List Nat) : List Nat := escapeF l.length l

def toNats (s : Bytes) : List Nat := s.map (·.toNat)
def ofNats (l : List Nat) : Bytes := l.map Char.ofNat

/-! ### the JSON variants -/

/-- 0 JSON, 1 IndentedJSON, 2 PureJSON, 3 SecureJSON, 4 ASCIIJSON, 5 JSONP.
    `enc` is what the variant's encoding/json call returned; `extra` the optional prefix / callback. -/
def jsonBody (variant : Nat) (extra : Option Bytes) (enc : Bytes) : Bytes :=
  match variant with
  | 3 =>
    let p := match extra with
      | some x => if x.isEmpty then "while(1);".toList else x
      | none => "while(1);".toList
    p ++ enc
  | 4 => ofNats (escape (toNats enc))
  | 5 =>
    let cb := match extra with
      | some x => if x.isEmpty then "callback".toList else x
      | none => "callback".toList
    cb ++ ['('] ++ enc ++ [')']
  | _ => enc

def jsonCType (variant : Nat) : Bytes :=
  if variant == 5 then "application/javascript; charset=utf-8".toList else "application/json; charset=utf-8".toList

/-! ### Format -/

/-- `Format(code, data)` once `c.Accepts("json", "html", "xml", "txt")` answered `ans`: status, content type,
    body; `none` = the JSON encoder refused the value (error returned, nothing written). `vtext` is
    `fmt.Sprintf("%v", data)`, `enc` what `json.Encoder.Encode(data)` returned (parameters). -/
def formatResponse (ans : Bytes) (code : Nat) (vtext : Bytes) (encOK : Bool) (enc : Bytes) : Option (Nat × Bytes × Bytes) :=
  if ans == "html".toList then some (code, "text/html".toList, "<p>".toList ++ vtext ++ "</p>".toList)
  else if ans == "xml".toList then
    some (code, "application/xml".toList, "<?xml version=\"1.0\"?>\n<response>".toList ++ vtext ++ "</response>".toList)
  else if ans == "txt".toList || ans.isEmpty then some (code, "text/plain".toList, vtext)   -- Stringf(code, "%v", data)
  else if encOK then some (code, jsonCType 0, enc) else none                                  -- "json" and the default

/-- the offers `Format` negotiates over -/
def formatOffers : List Bytes := ["json".toList, "html".toList, "xml".toList, "txt".toList]

end Rivaas.Render
