import Rivaas.Basic
/-
C20 — `logging.BatchLogger` (logging/batch.go): a batch of entries in front of a Logger. Every method that touches the
batch (`add` behind Debug/Info/Warn/Error, `Flush`, the ticker's `Flush`, `Close`, `Size`) takes `bl.mu` as its first
statement and holds it until it returns, and `flushLocked` hands the entries to the Logger while the mutex is held. So
whatever the goroutines do, what happens to the batch is a *sequence* of these operations (the order in which they
got the mutex), and what reaches the Logger is the concatenation of what each of them handed on:

    add(e):   entries = append(entries, e); if len(entries) >= batchSize { flushLocked() }
    Flush():  flushLocked()        Close(): stop the ticker; Flush()
    flushLocked(): for _, e := range entries { logger.<level>(e) }; entries = entries[:0]

An entry is (goroutine, sequence number). Core Lean only. (`Tie/C20Handlers.lean` ties the lock placement and the
shape of `add` / `flushLocked` / `Close` to the source.)
-/
namespace Rivaas.LogBatch

abbrev Ent := Nat × Nat

inductive Op where
  | add (e : Ent)
  | flush
  | close
  deriving DecidableEq, Repr

structure St where
  /-- `bl.entries` -/
  batch : List Ent := []
  /-- what has been handed to the Logger so far, in order -/
  out : List Ent := []
  deriving DecidableEq, Repr

def flushLocked (s : St) : St := { batch := [], out := s.out ++ s.batch }

def step (size : Nat) (s : St) : Op → St
  | .add e =>
    let s' : St := { s with batch := s.batch ++ [e] }
    if s'.batch.length ≥ size then flushLocked s' else s'
  | .flush => flushLocked s
  | .close => flushLocked s

/-- the operations in the order in which they got `bl.mu` -/
def run (size : Nat) (ops : List Op) : St := ops.foldl (step size) {}

/-- the entries logged, in that order -/
def added : List Op → List Ent
  | [] => []
  | .add e :: rest => e :: added rest
  | _ :: rest => added rest

end Rivaas.LogBatch
