import Rivaas.Model.Timeout
/-
C10 — `timeout.New` **as shipped** (before the `fix:` commits for K10b and K10a/K10d), kept for the
witness theorems: the handler goroutine and the timeout handler write to the same response writer
(K10a), a re-raised panic lets recovery append its 500 body to the 408 body (K10d), and on a parent
cancel the middleware returns without `<-done` (K10b). Same types, same schedule tokens as
`Model/Timeout.lean`; the fields `started` of the repaired model are not used here. Core Lean only.
-/
namespace Rivaas.Timeout

/-- R leaves the middleware after `<-done`: re-panic what the goroutine caught. Recovery (position 0,
    same goroutine) catches it: `c.Abort()`, `c.JSON(500, …)`, return. -/
def finishRAsIs (s : St) : St :=
  match s.panicChan with
  | some v => ({ s with recovered := some v, rpc := .returned }).write .rec500
  | none => { s with rpc := .returned }

def stepHAsIs (s : St) : St :=
  if s.hDone then s else
  match s.hprog with
  | [] => { s with hDone := true, hGo := true }
  | .write :: r =>
    -- after `ServeHTTP` returned the context was reset (`c.Response == nil`): `c.JSON` gives up
    if s.rpc = .returned then { s with hprog := r } else ({ s with hprog := r }).write .h
  | .fireDl :: r => { s with hprog := r, ctx := if s.ctx = .live then .deadline else s.ctx }
  | .firePc :: r => { s with hprog := r, ctx := if s.ctx = .live then .cancelled else s.ctx }
  | .awaitCtx :: r => if s.ctx = .live then s else { s with hprog := r }
  | .awaitL :: r => { s with hprog := r }
  | .awaitE :: r => if s.tEntered then { s with hprog := r } else s
  | .awaitT :: r => if s.tWritten then { s with hprog := r } else s
  | .signalH :: r => { s with hprog := r, hGo := true }
  | .awaitRet :: r => if s.rpc = .returned then { s with hprog := r } else s
  | .hold :: r => { s with hprog := r }
  | .panic v :: _ => { s with hprog := [], panicChan := some v, hDone := true, hGo := true }
  | .guard n :: r => { s with hprog := if s.ctx = .live then r else r.drop n }

/-- `waitH`: the configured timeout handler waits for the handler's signal before it writes
    (`timeout.WithHandler`); `preferDone`: which ready `select` case Go picks -/
def stepRAsIs (waitH : Hooks) (preferDone : Bool) (s : St) : St :=
  match s.rpc with
  | .select =>
    -- `done` is ready and Go picks it (always when `ctx.Done()` is not ready)
    if s.hDone && (preferDone || s.ctx == .live) then finishRAsIs s
    -- nothing is ready: blocked
    else if s.ctx = .live then s
    -- `ctx.Done()`: errors.Is(ctx.Err(), context.DeadlineExceeded)?
    else if s.ctx = .deadline then { s with timedOut := true, tEntered := true, rpc := .thandler }
    else { s with rpc := .returned, releasedEarly := !s.hDone }
  | .thandler =>
    if waitH.waitH && !s.hGo then s
    else ({ s with tWritten := true, rpc := .waitDone }).write .t408
  | .logging => s
  | .waitDone => if s.hDone then finishRAsIs s else s
  | .returned => s

def stepAsIs (waitH : Hooks) (s : St) : Tok → St
  | .h => stepHAsIs s
  | .rd => stepRAsIs waitH true s
  | .rc => stepRAsIs waitH false s
  | .dl => { s with ctx := if s.ctx = .live then .deadline else s.ctx }
  | .pc => { s with ctx := if s.ctx = .live then .cancelled else s.ctx }

def runAsIs (waitH : Hooks) (sched : List Tok) (s : St) : St := sched.foldl (stepAsIs waitH) s


end Rivaas.Timeout
