import Rivaas.Basic
/-
C02 — the per-route options of the app layer (`app/route_option.go`): `WithBefore`, `WithAfter`, the reusable set
`RouteOptions(opts...)` (which may contain further sets), and the options that do not concern the chain (`WithDoc`,
`WithoutDoc`). `App.registerRoute` / `Group.addRoute` / `VersionGroup.addRoute` apply them in the order given to an
empty `routeConfig` and build the chain `before ++ [handler] ++ after` (`Model/Compose.lean`, `Op.aroute`, is given the
two flattened lists). Core Lean only.
-/
namespace Rivaas.RouteOpts

/-- a route option; handlers are numeric tags -/
inductive ROpt where
  | before (hs : List Nat)
  | after (hs : List Nat)
  /-- `WithDoc(…)` / `WithoutDoc()`: nothing the chain sees -/
  | doc
  /-- `RouteOptions(opts...)` -/
  | set (opts : List ROpt)
  deriving Repr, Inhabited

/-- `routeConfig`, as far as the chain is concerned -/
structure RouteConfig where
  before : List Nat := []
  after : List Nat := []
  deriving Repr, DecidableEq, Inhabited

mutual
  /-- `opt(c)` -/
  def apply (c : RouteConfig) : ROpt → RouteConfig
    | .before hs => { c with before := c.before ++ hs }
    | .after hs => { c with after := c.after ++ hs }
    | .doc => c
    | .set opts => applyAll c opts
  /-- `for _, opt := range opts { opt(c) }` -/
  def applyAll (c : RouteConfig) : List ROpt → RouteConfig
    | [] => c
    | o :: os => applyAll (apply c o) os
end

/-- `cfg := &routeConfig{}; for _, opt := range opts { opt(cfg) }`, then `before ++ [handler] ++ after` -/
def chain (handler : Nat) (opts : List ROpt) : List Nat :=
  let c := applyAll {} opts
  c.before ++ [handler] ++ c.after

/-! declarative reading: the handlers in the order in which they are written down, sets opened in place -/
mutual
  def listedBefore : ROpt → List Nat
    | .before hs => hs
    | .set opts => listedBeforeAll opts
    | _ => []
  def listedBeforeAll : List ROpt → List Nat
    | [] => []
    | o :: os => listedBefore o ++ listedBeforeAll os
end

mutual
  def listedAfter : ROpt → List Nat
    | .after hs => hs
    | .set opts => listedAfterAll opts
    | _ => []
  def listedAfterAll : List ROpt → List Nat
    | [] => []
    | o :: os => listedAfter o ++ listedAfterAll os
end

end Rivaas.RouteOpts
