import Rivaas.Model.HttpBase
/-
middleware/compression as it was shipped (before the `fix:` commits of C15) — kept for the
witness theorems of the repaired findings (K15a … K15h) and so that the check can be pointed at an
unrepaired tree (`C15_MODEL=asis VERIF_REPO=… ./check C15`).  Statement by statement after
compression.go @ 885e3a2.  Core Lean only.
-/
namespace Rivaas.Compress
open Rivaas.Http

/-! ### byte-string helpers (Go `strings` on ASCII data) -/

def lowerC (c : Char) : Char := if 'A' ≤ c ∧ c ≤ 'Z' then Char.ofNat (c.toNat + 32) else c
def lowerA (s : Bytes) : Bytes := s.map lowerC

def isPrefix : Bytes → Bytes → Bool
  | [], _ => true
  | _ :: _, [] => false
  | a :: as, b :: bs => a == b && isPrefix as bs

/-- strings.Index -/
def indexOf : Bytes → Bytes → Option Nat
  | [], pat => if pat.isEmpty then some 0 else none
  | c :: cs, pat =>
    if isPrefix pat (c :: cs) then some 0
    else (indexOf cs pat).map (· + 1)

def contains (s pat : Bytes) : Bool := (indexOf s pat).isSome

def hasSuffix (s suf : Bytes) : Bool := isPrefix suf.reverse s.reverse

def isSpaceC (c : Char) : Bool := c == ' ' || c == '\t' || c == '\n' || c == '\r' || c.toNat == 11 || c.toNat == 12
def trimSpace (s : Bytes) : Bytes := ((s.dropWhile isSpaceC).reverse.dropWhile isSpaceC).reverse

/-! ### configuration and request glue -/

structure Cfg where
  minSize : Nat
  gzip : Bool
  br : Bool
  exclCT : List Bytes
  exclPaths : List Bytes
  exclExts : List Bytes
  deriving Repr

def shouldSkipStatus (c : Nat) : Bool := c == 204 || c == 304 || c == 206

def shouldSkipContentType (ct : Bytes) (excl : List Bytes) : Bool :=
  if ct.isEmpty then false
  else
    let l := lowerA ct
    contains l "text/event-stream".toList || contains l "application/grpc".toList ||
      contains l "application/octet-stream".toList || excl.any (fun e => contains l (lowerA e))

def gzipB : Bytes := "gzip".toList
def brB : Bytes := "br".toList

/-! ### Accept-Encoding, as shipped (substring search) -/

def digitVal (c : Char) : Option Nat := if '0' ≤ c ∧ c ≤ '9' then some (c.toNat - 48) else none

/-- thousandths of a plain decimal `d+[.d{0,3}]` with optional sign; `none` for anything else.
    (strconv.ParseFloat accepts more; the as-is generator only emits these forms and garbage.) -/
def parseMilli (s : Bytes) : Option Int :=
  let (neg, s) := match s with
    | '-' :: r => (true, r)
    | '+' :: r => (false, r)
    | _ => (false, s)
  let ip := s.takeWhile (fun c => (digitVal c).isSome)
  let rest := s.dropWhile (fun c => (digitVal c).isSome)
  let fp := match rest with
    | '.' :: r => some r
    | [] => some []
    | _ => none
  match fp with
  | none => none
  | some f =>
    if !(f.all (fun c => (digitVal c).isSome)) || f.length > 3 || (ip.isEmpty && f.isEmpty) then none
    else
      let iv := ip.foldl (fun a c => a * 10 + (digitVal c).getD 0) 0
      let fv := (f ++ List.replicate (3 - f.length) '0').foldl (fun a c => a * 10 + (digitVal c).getD 0) 0
      let v : Int := Int.ofNat (iv * 1000 + fv)
      some (if neg then -v else v)

/-- parseQValue: -1 not present, 1.0 when no `q=` follows or it does not parse -/
def parseQValueAsIs (accept enc : Bytes) : Int :=
  match indexOf accept enc with
  | none => -1000
  | some idx =>
    let rest := accept.drop idx
    match indexOf rest "q=".toList with
    | none => 1000
    | some qi =>
      let after := rest.drop (qi + 2)
      let qstr := trimSpace (after.takeWhile (fun c => c != ',' && c != ';'))
      match parseMilli qstr with
      | some q => q
      | none => 1000

def chooseEncodingAsIs (ae : Bytes) (cfg : Cfg) : Bytes :=
  if ae.isEmpty then []
  else
    let a := lowerA ae
    let brQ := parseQValueAsIs a brB
    let gzQ := parseQValueAsIs a gzipB
    if brQ == 0 && gzQ == 0 then []
    else if cfg.br && brQ > 0 && brQ ≥ gzQ then brB
    else if cfg.gzip && gzQ > 0 then gzipB
    else []

/-- the early exits of `New`: which encoding the middleware wraps the writer for (`[]` = not at all) -/
def activeAsIs (cfg : Cfg) (path ae : Bytes) : Bytes :=
  if cfg.exclPaths.any (· == path) then []
  else if cfg.exclExts.any (fun e => hasSuffix path e) then []
  else chooseEncodingAsIs ae cfg

/-! ### compressWriter, as shipped -/

structure CWA where
  base : Base := {}
  thr : Nat
  enc : Bytes
  exclCT : List Bytes
  buffer : Bytes := []
  headersSent : Bool := false
  status : Nat := 0
  decided : Bool := false
  compress : Bool := false
  hasWriter : Bool := false
  plain : Bytes := []          -- what went into the encoder
  closed : Bool := false
  panicked : Bool := false     -- a panic left the handler or the middleware
  unwound : Bool := false      -- a handler panic unwound the middleware frame: no Close will follow
  deriving Repr

/-- cw.ResponseWriter.WriteHeader(code) -/
def CWA.baseWH (w : CWA) (c : Nat) : CWA :=
  let b := w.base.writeHeader c
  { w with base := b, panicked := w.panicked || b.panicked }

def CWA.initCompression (w : CWA) : CWA :=
  let h := hdel w.base.live kCL
  let h := hset h kCE [w.enc]
  let h := hset h kVary ["Accept-Encoding".toList]
  let w := { w with base := { w.base with live := h } }
  let w := if !w.headersSent then
      let w := w.baseWH w.status
      if w.panicked then w else { w with headersSent := true }
    else w
  if w.panicked then w else { w with hasWriter := true }

/-- cw.writer.Write(data) (a nil writer panics) -/
def CWA.encWrite (w : CWA) (d : Bytes) : CWA × WOut :=
  if !w.hasWriter then ({ w with panicked := true }, ⟨0, .other⟩)
  else ({ w with plain := w.plain ++ d }, ⟨d.length, .ok⟩)

def CWA.write (sn : Sniff) (w : CWA) (d : Bytes) : CWA × WOut :=
  if w.panicked then (w, ⟨0, .other⟩)
  else if w.decided then
    if w.compress then w.encWrite d
    else let r := w.base.write sn d; ({ w with base := r.1 }, r.2)
  else if w.thr == 0 then
    let w := ({ w with decided := true, compress := true }).initCompression
    if w.panicked then (w, ⟨0, .other⟩) else w.encWrite d
  else
    let space := w.thr - w.buffer.length
    let toCopy := min space d.length
    let w := { w with buffer := w.buffer ++ d.take toCopy }
    let rest := d.drop toCopy
    if w.buffer.length ≥ w.thr || !rest.isEmpty then
      let w := { w with decided := true }
      if w.buffer.length ≥ w.thr then
        -- writeCompressed → flushBufferAndWrite(cw.writer, rest)
        let w := ({ w with compress := true }).initCompression
        if w.panicked then (w, ⟨0, .other⟩)
        else
          let r1 := if w.buffer.length > 0 then w.encWrite w.buffer else (w, ⟨0, .ok⟩)
          if !rest.isEmpty then
            let r2 := r1.1.encWrite rest
            (r2.1, ⟨r1.2.n + r2.2.n, r2.2.err⟩)
          else (r1.1, ⟨r1.2.n, .ok⟩)
      else
        -- writeUncompressed (unreachable: the buffer is full whenever data is left over)
        let w := { w with compress := false }
        let w := if !w.headersSent then w.baseWH w.status else w
        if w.panicked then (w, ⟨0, .other⟩)
        else
          let r1 := w.base.write sn w.buffer
          let r2 := r1.1.write sn rest
          ({ w with base := r2.1 }, ⟨r1.2.n + r2.2.n, r2.2.err⟩)
    else (w, ⟨d.length, .ok⟩)

def CWA.writeHeader (w : CWA) (c : Nat) : CWA :=
  if w.panicked || w.headersSent then w
  else
    let w := { w with status := c }
    if shouldSkipStatus c || shouldSkipContentType (hfirst w.base.live kCT) w.exclCT then
      let w := { w with compress := false, decided := true }
      let w := w.baseWH c
      if w.panicked then w else { w with headersSent := true }
    else w

def CWA.close (sn : Sniff) (w : CWA) : CWA :=
  if w.panicked then w
  else if !w.decided then
    let w := { w with decided := true, compress := false }
    if w.buffer.length > 0 then
      let w := if !w.headersSent then w.baseWH w.status else w
      if w.panicked then w
      else { w with base := (w.base.write sn w.buffer).1 }
    else w
  else if w.compress && w.hasWriter then { w with closed := true }
  else w

def CWA.step (sn : Sniff) (w : CWA) : Op → CWA × Option WOut
  | .setH k vs => ({ w with base := { w.base with live := hset w.base.live k vs } }, none)
  | .delH k => ({ w with base := { w.base with live := hdel w.base.live k } }, none)
  | .writeHeader c => (w.writeHeader c, none)
  | .write d => let r := w.write sn d; (r.1, some r.2)
  | .flush => (w, none)                       -- compressWriter is not an http.Flusher: the handler's type assertion fails
  | .copy cs => let r := copyLoop (CWA.write sn) w cs 0; (r.1, some r.2)
  | .panic => ({ w with unwound := true }, none)   -- Close and the restore are not deferred: the writer stays installed

/-- what the client can decode: `none` when the stream was never finished -/
structure WithResp where
  panicked : Bool
  resp : Resp
  decoded : Option Bytes
  outs : List WOut
  deriving Repr

def runWithAsIs (sn : Sniff) (cfg : Cfg) (path ae : Bytes) (ops : List Op) : WithResp :=
  let enc := activeAsIs cfg path ae
  if enc.isEmpty then
    let r := runPlain sn [] ops
    { panicked := r.1.panicked, resp := r.1.resp, decoded := some r.1.resp.body, outs := r.2 }
  else
    let r := runOps (CWA.step sn) ({ thr := cfg.minSize, enc := enc, exclCT := cfg.exclCT } : CWA) ops
    let w := if r.1.unwound then r.1 else r.1.close sn
    if w.compress && w.hasWriter then
      -- the encoder's output is the body; net/http finishes the response around it
      let b := w.base.finish sn
      { panicked := w.panicked, resp := { b.resp with body := [] },
        decoded := if w.closed then some w.plain else none, outs := r.2 }
    else
      let b := w.base.finish sn
      { panicked := w.panicked, resp := b.resp, decoded := some b.resp.body, outs := r.2 }

end Rivaas.Compress
