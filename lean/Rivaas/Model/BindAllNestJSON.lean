import Rivaas.Model.BindAll
import Rivaas.Model.BindNestJSON
/-
C04 — the nested-struct JSON shortcut in a collecting bind (`WithAllErrors`): the same first step of
setNestedStructWithDepth, behind its depth test and in front of the nested bind. Core Lean only.
-/
namespace Rivaas.Bind

def fieldActionAllJ (P : Params) (cfg : Cfg) (nest : NestAll) (g : Getter) (depth : Nat) (f : FieldInfo) (cur : Val) :
    StepAll :=
  if !isMapTy f.ty && isStructTy f.ty && !decide (cfg.maxDepth < depth + 1) then
    match nestShortcut P (g.push f.tagName) with
    | some dv => .store (rewrap f.ty dv) []
    | none => fieldActionAll P cfg nest g depth f cur
  else fieldActionAll P cfg nest g depth f cur

def loopAllWithJ (P : Params) (cfg : Cfg) (nest : NestAll) (sty : List Fld) :
    List FieldInfo → Val → Getter → Nat → OutAll
  | [], elem, _, _ => .done elem []
  | f :: rest, elem, g, depth =>
    match reach elem f.index with
    | .bad => .panic
    | _ =>
      if !wants g f then loopAllWithJ P cfg nest sty rest elem g depth
      else
        let elem1 := updAt (.struct sty) elem f.index id
        match reach elem1 f.index with
        | .ok cur =>
          match fieldActionAllJ P cfg nest g depth f cur with
          | .store nv es =>
            (loopAllWithJ P cfg nest sty rest (updAt (.struct sty) elem1 f.index (fun _ => nv)) g depth).prepend es
          | .skip es => (loopAllWithJ P cfg nest sty rest elem1 g depth).prepend es
          | .panic => .panic
        | _ => .panic

def bindAtAllJ (P : Params) (cfg : Cfg) (tag : Tag) : Nat → NestAll
  | 0 => fun sty elem g depth =>
    loopAllWithJ P cfg (fun _ v _ _ => .done v [.depth]) sty (flatten P tag sty) elem g depth
  | n + 1 => fun sty elem g depth =>
    loopAllWithJ P cfg (bindAtAllJ P cfg tag n) sty (flatten P tag sty) elem g depth

def bindAllJ (P : Params) (cfg : Cfg) (tag : Tag) (ty : Ty) (init : Val) (src : Src) : OutAll :=
  match ty with
  | .struct fs => bindAtAllJ P cfg tag cfg.maxDepth fs init { src := src } 0
  | _ => .done init [.conv]

theorem lemma_fieldActionAllJ_eq (P : Params) (cfg : Cfg) (nest : NestAll) (h : ∀ s, (P s).nj = none) (g : Getter) (depth : Nat)
    (f : FieldInfo) (cur : Val) : fieldActionAllJ P cfg nest g depth f cur = fieldActionAll P cfg nest g depth f cur := by
  unfold fieldActionAllJ
  split
  · simp only [lemma_nestShortcut_none P h]
  · rfl

theorem lemma_loopAllWithJ_eq (P : Params) (cfg : Cfg) (nest : NestAll) (sty : List Fld) (h : ∀ s, (P s).nj = none) :
    ∀ (fis : List FieldInfo) (elem : Val) (g : Getter) (depth : Nat),
      loopAllWithJ P cfg nest sty fis elem g depth = loopAllWith P cfg nest sty fis elem g depth
  | [], _, _, _ => rfl
  | f :: rest, elem, g, depth => by
    have tail : (if (!wants g f) = true then loopAllWithJ P cfg nest sty rest elem g depth
        else match reach (updAt (.struct sty) elem f.index id) f.index with
          | .ok cur =>
            match fieldActionAllJ P cfg nest g depth f cur with
            | .store nv es =>
              (loopAllWithJ P cfg nest sty rest (updAt (.struct sty) (updAt (.struct sty) elem f.index id) f.index (fun _ => nv)) g depth).prepend es
            | .skip es => (loopAllWithJ P cfg nest sty rest (updAt (.struct sty) elem f.index id) g depth).prepend es
            | .panic => .panic
          | _ => .panic) =
        (if (!wants g f) = true then loopAllWith P cfg nest sty rest elem g depth
        else match reach (updAt (.struct sty) elem f.index id) f.index with
          | .ok cur =>
            match fieldActionAll P cfg nest g depth f cur with
            | .store nv es =>
              (loopAllWith P cfg nest sty rest (updAt (.struct sty) (updAt (.struct sty) elem f.index id) f.index (fun _ => nv)) g depth).prepend es
            | .skip es => (loopAllWith P cfg nest sty rest (updAt (.struct sty) elem f.index id) g depth).prepend es
            | .panic => .panic
          | _ => .panic) := by
      by_cases hw : (!wants g f) = true
      · simp only [hw, if_true]
        exact lemma_loopAllWithJ_eq P cfg nest sty h rest elem g depth
      · simp only [hw, Bool.false_eq_true, if_false]
        cases reach (updAt (.struct sty) elem f.index id) f.index with
        | ok cur =>
          simp only [lemma_fieldActionAllJ_eq P cfg nest h]
          cases fieldActionAll P cfg nest g depth f cur with
          | store nv es => simp only [lemma_loopAllWithJ_eq P cfg nest sty h rest _ g depth]
          | skip es => simp only [lemma_loopAllWithJ_eq P cfg nest sty h rest _ g depth]
          | panic => rfl
        | nilptr => rfl
        | bad => rfl
    unfold loopAllWithJ loopAllWith
    cases reach elem f.index with
    | bad => rfl
    | nilptr => exact tail
    | ok v => exact tail

theorem lemma_bindAtAllJ_eq (P : Params) (cfg : Cfg) (tag : Tag) (h : ∀ s, (P s).nj = none) :
    ∀ n, bindAtAllJ P cfg tag n = bindAtAll P cfg tag n
  | 0 => by
    funext sty elem g depth
    simp only [bindAtAllJ, bindAtAll, lemma_loopAllWithJ_eq P cfg _ sty h]
  | n + 1 => by
    have ih := lemma_bindAtAllJ_eq P cfg tag h n
    funext sty elem g depth
    simp only [bindAtAllJ, bindAtAll, ih, lemma_loopAllWithJ_eq P cfg _ sty h]

end Rivaas.Bind
