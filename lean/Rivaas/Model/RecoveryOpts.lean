import Rivaas.Basic
/-
C10 — the options of `middleware/recovery` (`options.go`, `defaultConfig`) and what `handlePanic` does with them between
`c.Abort()` and the response handler: record to the span, log (when a logger is set), capture the stack (when stack traces
are on), cut it to `stackSize` bytes, print it. The chain machine (`Model/Chain.lean`, `unwind`) treats all of that as
one step "abort, then write recovery's response"; this file is about the only part of it that depends on configuration
and can fail: the slice expression in `captureStack`. Core Lean only.
-/
namespace Rivaas.Recovery

inductive Opt where
  | withoutLogging
  | withLogger
  /-- `WithHandler(h)` with a non-nil `h` -/
  | withHandler
  | withStackTrace (on : Bool)
  /-- `WithStackSize(n)`: any `int` -/
  | withStackSize (n : Int)
  | withPrettyStack (on : Bool)
  deriving Repr, DecidableEq, Inhabited

structure Config where
  logging : Bool := true
  customHandler : Bool := false
  stackTrace : Bool := true
  /-- default 4 KB -/
  stackSize : Int := 4096
  pretty : Option Bool := none
  deriving Repr, DecidableEq, Inhabited

def applyOpt (c : Config) : Opt → Config
  | .withoutLogging => { c with logging := false }
  | .withLogger => { c with logging := true }
  | .withHandler => { c with customHandler := true }
  | .withStackTrace on => { c with stackTrace := on }
  | .withStackSize n => { c with stackSize := n }
  | .withPrettyStack on => { c with pretty := some on }

def configure (opts : List Opt) : Config := opts.foldl applyOpt {}

/-- `captureStack(maxSize)` on a stack of `len` bytes, after the K10e fix: how many bytes are kept;
    `none` = the slice expression `stack[:maxSize]` panics -/
def captureStack (len : Nat) (maxSize : Int) : Option Nat :=
  let m := if maxSize < 0 then 0 else maxSize
  if (len : Int) > m then (if m < 0 then none else some m.toNat) else some len

/-- as shipped: no clamp -/
def captureStackAsIs (len : Nat) (maxSize : Int) : Option Nat :=
  if (len : Int) > maxSize then (if maxSize < 0 then none else some maxSize.toNat) else some len

/-- what `handlePanic` does after `c.Abort()` and before the response handler, as far as it can fail:
    `true` = it gets to the response handler -/
def reachesHandler (cfg : Config) (stackLen : Nat) : Bool :=
  if cfg.logging && cfg.stackTrace then (captureStack stackLen cfg.stackSize).isSome else true

def reachesHandlerAsIs (cfg : Config) (stackLen : Nat) : Bool :=
  if cfg.logging && cfg.stackTrace then (captureStackAsIs stackLen cfg.stackSize).isSome else true

end Rivaas.Recovery
