import Rivaas.Basic
/-
C09 — control-flow skeletons of `Start` / `StartTLS` / `StartMTLS` / `runServer`, and the obligations
they have to meet on *every* path.

The harness regenerates the skeletons from the Go source on every run (`harness/c09/skel.go`,
syntax only): calls of interest, branches (one fresh atom per `if`), returns, tail calls, `goto`,
same-package callees inlined as `scope`. `runServer` is sliced: the statements before the event
loop, the body of the serving goroutine, each arm of the `select`, the statements after the label.

`outs s` enumerates the outcomes of all paths of `s`; `exec_mem_outs` (Props) says every execution is
one of them, so a Boolean check over `outs s` is a statement about every valuation of the branch
conditions. The obligations are the call order the lifecycle model (`Model/Lifecycle.lean`) follows
and its early exits:

* entry points: once `startObservability` has been called, a path either runs
  `executeStartHooks → registerOpenAPIEndpoints → Freeze` and tail-calls `runServer`, or ends with
  `abortStartup; return` — no other exit;
* `runServer` before the loop: `Listen` first; failure exit = `abortStartup; return`; otherwise the
  goroutine is started, readiness is awaited, then `executeReadyHooks`;
* the goroutine: `flushStartupLogs`, then `close(ready)`, then `startFunc(l)`, then `l.Close()`;
* every arm of the event loop is one of: `abortStartup; return` — `Reload` and back into the loop —
  `goto` the label after the loop (and there is such an arm): no arm just returns;
* after the label: `executeShutdownHooks → server.Shutdown → shutdownObservability →
  executeStopHooks → return`, each exactly once, on every path (no early return in between).

Core Lean only (the driver evaluates the checks).
-/
namespace Rivaas.LifecycleSkel

abbrev Name := Bytes

inductive Stmt where
  /-- a call of interest; `qual` = receiver / argument text where it matters -/
  | call (name qual : Name)
  /-- `return …`; `ok` = the last result is the literal `nil` (or there is none): the success return -/
  | ret (ok : Bool)
  /-- `return f(…)` with `f` of interest -/
  | tail (name : Name)
  | goto (label : Name)
  | skip
  | seq (a b : Stmt)
  | ite (c : Nat) (t e : Stmt)
  /-- inlined callee of the same package: its returns leave only the callee -/
  | scope (s : Stmt)
  /-- the idiom `if err := f(…); err != nil { t } else { e }` with `f` inlined as `s`: a failure return of
      `s` goes to `t`, a success return (or falling off its end) to `e`; if `s` ends in a tail call the
      outcome is unknown and atom `c` decides -/
  | try (c : Nat) (s t e : Stmt)
  deriving DecidableEq, Repr

/-- how a path ends -/
inductive End where
  | fall
  | ret (ok : Bool)
  | tail (name : Name)
  | goto (label : Name)
  deriving DecidableEq, Repr

structure Out where
  trace : List (Name × Name)
  fin : End
  deriving DecidableEq, Repr

def closeScope (r : Out) : Out :=
  match r.fin with
  | .ret _ => ⟨r.trace, .fall⟩
  | .tail n => ⟨r.trace ++ [(n, [])], .fall⟩
  | _ => r

/-- continue after an inlined callee with the branch its way of returning selects -/
def afterTry (r : Out) (choice : Bool) (t e : Out) : Out :=
  match r.fin with
  | .ret false => ⟨r.trace ++ t.trace, t.fin⟩
  | .ret true => ⟨r.trace ++ e.trace, e.fin⟩
  | .fall => ⟨r.trace ++ e.trace, e.fin⟩
  | .tail n => if choice then ⟨r.trace ++ (n, []) :: t.trace, t.fin⟩ else ⟨r.trace ++ (n, []) :: e.trace, e.fin⟩
  | .goto _ => r

def exec (ρ : Nat → Bool) : Stmt → Out
  | .call n q => ⟨[(n, q)], .fall⟩
  | .ret ok => ⟨[], .ret ok⟩
  | .tail n => ⟨[], .tail n⟩
  | .goto l => ⟨[], .goto l⟩
  | .skip => ⟨[], .fall⟩
  | .try c s t e => afterTry (exec ρ s) (ρ c) (exec ρ t) (exec ρ e)
  | .seq a b =>
    let ra := exec ρ a
    if ra.fin == .fall then
      let rb := exec ρ b
      ⟨ra.trace ++ rb.trace, rb.fin⟩
    else ra
  | .ite c t e => if ρ c then exec ρ t else exec ρ e
  | .scope s => closeScope (exec ρ s)

/-- the outcomes of all paths -/
def outs : Stmt → List Out
  | .call n q => [⟨[(n, q)], .fall⟩]
  | .ret ok => [⟨[], .ret ok⟩]
  | .tail n => [⟨[], .tail n⟩]
  | .goto l => [⟨[], .goto l⟩]
  | .skip => [⟨[], .fall⟩]
  | .try _ s t e =>
    (outs s).flatMap fun r => (outs t).flatMap fun rt => (outs e).flatMap fun re =>
      [afterTry r true rt re, afterTry r false rt re]
  | .seq a b =>
    (outs a).flatMap fun ra =>
      if ra.fin == .fall then (outs b).map fun rb => ⟨ra.trace ++ rb.trace, rb.fin⟩ else [ra]
  | .ite _ t e => outs t ++ outs e
  | .scope s => (outs s).map closeScope

/-- the check holds on every path -/
def onAll (P : Out → Bool) (s : Stmt) : Bool := (outs s).all P

/-! ### the obligations -/

def nm (s : String) : Name := s.toList

def names (o : Out) : List Name := o.trace.map (·.1)

def keep (core : List Name) (o : Out) : List Name := (names o).filter fun n => core.contains n

def prologue : List Name :=
  [nm "startObservability", nm "executeStartHooks", nm "registerOpenAPIEndpoints", nm "Freeze"]

/-- entry points: once observability is started, the only exits are the tail call of `runServer` after
    the whole prologue in order, and `abortStartup; return` -/
def entryOk (o : Out) : Bool :=
  if (names o).contains (nm "startObservability") then
    match o.fin with
    | .tail n =>
      n == nm "runServer" && keep (nm "abortStartup" :: prologue) o == prologue
    | .ret _ =>
      (names o).getLast? == some (nm "abortStartup") && (names o).count (nm "abortStartup") == 1 &&
      (keep prologue o).head? == some (nm "startObservability")
    | _ => false
  else
    -- nothing has been started yet: the path may only give up
    (o.fin == .ret true || o.fin == .ret false) &&
    keep (nm "abortStartup" :: nm "runServer" :: prologue) o == []

/-- before the event loop -/
def preOk (o : Out) : Bool :=
  let core := [nm "Listen", nm "abortStartup", nm "go", nm "recv", nm "executeReadyHooks", nm "executeShutdownHooks",
               nm "executeStopHooks", nm "shutdownObservability"]
  match o.fin with
  | .ret _ => keep core o == [nm "Listen", nm "abortStartup"]
  | .fall => keep core o == [nm "Listen", nm "go", nm "recv", nm "executeReadyHooks"]
  | _ => false

def qualOf (n : Name) (o : Out) : Option Name := (o.trace.find? fun p => p.1 == n).map (·.2)

/-- the serving goroutine -/
def goOk (o : Out) : Bool :=
  let core := [nm "flushStartupLogs", nm "close", nm "startFunc", nm "Close"]
  keep core o == core && qualOf (nm "startFunc") o == qualOf (nm "Close") o &&
  (o.fin == .fall || o.fin == .ret true || o.fin == .ret false)

def loopCore : List Name :=
  [nm "abortStartup", nm "Reload", nm "executeShutdownHooks", nm "Shutdown", nm "shutdownObservability",
   nm "executeStopHooks", nm "executeReadyHooks", nm "Listen"]

/-- an arm of the event loop, given the label after the loop -/
def armOk (label : Name) (o : Out) : Bool :=
  match o.fin with
  | .ret _ => keep loopCore o == [nm "abortStartup"]
  | .fall => keep loopCore o == [nm "Reload"] || keep loopCore o == []
  | .goto l => l == label && keep loopCore o == []
  | _ => false

def leavesTo (label : Name) (o : Out) : Bool := o.fin == .goto label

def shutdownOrder : List Name :=
  [nm "executeShutdownHooks", nm "Shutdown", nm "shutdownObservability", nm "executeStopHooks"]

/-- after the label -/
def afterOk (label : Name) (o : Out) : Bool :=
  o.trace.head? == some (nm "label", label) && (o.fin == .ret true || o.fin == .ret false) &&
  keep (nm "abortStartup" :: nm "Reload" :: nm "executeReadyHooks" :: nm "Listen" :: shutdownOrder) o == shutdownOrder

/-- the skeletons of one source tree -/
structure Skels where
  entries : List Stmt
  pre : Stmt
  go : Stmt
  arms : List Stmt
  after : Stmt
  deriving Repr

/-- label the `after` slice starts with (on its first path) -/
def afterLabel (s : Stmt) : Name :=
  match (outs s).head? with
  | some o => match o.trace.head? with
    | some (_, l) => l
    | none => []
  | none => []

structure Verdict where
  entries : Bool
  pre : Bool
  go : Bool
  arms : Bool
  leaves : Bool
  after : Bool
  deriving DecidableEq, Repr

def check (k : Skels) : Verdict :=
  let l := afterLabel k.after
  { entries := k.entries.length ≥ 1 && k.entries.all (onAll entryOk),
    pre := onAll preOk k.pre,
    go := onAll goOk k.go,
    arms := k.arms.all (onAll (armOk l)),
    leaves := k.arms.any fun a => (outs a).any (leavesTo l),
    after := l != [] && onAll (afterOk l) k.after }

def Verdict.ok (v : Verdict) : Bool := v.entries && v.pre && v.go && v.arms && v.leaves && v.after

end Rivaas.LifecycleSkel
