import Rivaas.Model.OpenAPIText
/-
C07 — executable model of OpenAPI generation as it is in /repo now (after the `fix:` commits K07a–K07j).

Follows, statement by statement:
  openapi/internal/schema/common.go     walkFields(+visiting), schemaName, sanitizeComponentName,
                                        parseJSONName, isFieldRequired
  openapi/internal/schema/generator.go  Generate, guard, structSchema, GenerateProjected,
                                        applyValidationConstraints
  openapi/internal/schema/introspect.go IntrospectRequest, extractParamsFromTag, isParamRequired, inferFormat
  openapi/internal/build/builder.go     Build, buildOperation, paramSpecToParameter, extractPathParams,
                                        convertPath, generateFromMethodAndPath, singularize, capitalize
  openapi/validate/path.go              ValidatePath
  openapi/validate/validate.go          ValidateResponseCode
  openapi/internal/export/schema30.go, schema31.go, spec_v30.go, spec_v31.go  (projection of the members
                                        the generator can set)
  openapi/generate.go                   Generate (version switch, validator hook), convertOperation

Go types travel as `Ty` terms produced by the harness from `reflect` (reflect is a parameter): every
struct type (named or anonymous) and every named pointer/slice/array/map type has an identity `id`
and a definition in the environment; named primitive types are inlined as their kind.

Core Lean only.
-/
namespace Rivaas.OpenAPI

/-! ## Go types as seen through `reflect` -/

inductive PKind
  | bool | int | int8 | int16 | int32 | int64 | uint | uint8 | uint16 | uint32 | uint64
  | float32 | float64 | string | iface | other
  deriving DecidableEq, Repr, Inhabited

/-- what `reflect.StructField` tells about a field: name, exportedness and `Tag.Get` of the tags read -/
structure FieldMeta where
  name : B
  exported : Bool
  json : B
  validate : B
  query : B
  path : B
  header : B
  cookie : B
  dflt : B := []      -- Tag.Get("default")
  style : B := []     -- Tag.Get("style")
  explode : B := []   -- Tag.Get("explode")
  typeIs : B := []    -- type identity after one pointer level: "ip" (net.IP), "url" (url.URL) or ""
  docT : B := []      -- Tag.Get("doc")
  exampleT : B := []  -- Tag.Get("example")
  enumT : B := []     -- Tag.Get("enum")
  formatT : B := []   -- Tag.Get("format")
  deriving DecidableEq, Repr, Inhabited

inductive Ty
  | prim (k : PKind)
  | time                          -- reflect.TypeFor[time.Time]()
  | ptr (t : Ty)
  | slice (t : Ty)
  | array (t : Ty)
  | map (strKey : Bool) (t : Ty)  -- strKey: t.Key().Kind() == reflect.String
  | named (id : Nat)              -- a struct type (named or anonymous) or a named ptr/slice/array/map type
  deriving DecidableEq, Repr, Inhabited

inductive Field
  | field (m : FieldMeta) (t : Ty)
  | embed (id : Nat)              -- anonymous field whose type (after one pointer) is the struct `id`
  deriving DecidableEq, Repr, Inhabited

inductive Def
  | struct (name pkgPath : B) (fs : List Field)   -- t.Name(), t.PkgPath(), fields in declaration order
  | alias (t : Ty)                                -- named ptr/slice/array/map type: its unnamed structure
  deriving DecidableEq, Repr, Inhabited

abbrev Env := List (Nat × Def)

def Env.keys (env : Env) : List Nat := env.map (·.1)

/-- number of environment entries not yet in `seen` (termination measure) -/
def unseen (env : Env) (seen : List Nat) : Nat := (env.keys.filter (fun k => !seen.contains k)).length

theorem mem_keys_of_lookup {env : Env} {id : Nat} {d : Def} (h : env.lookup id = some d) : id ∈ env.keys := by
  induction env with
  | nil => simp [List.lookup] at h
  | cons e rest ih =>
    obtain ⟨k, v⟩ := e
    simp only [Env.keys, List.map_cons, List.mem_cons]
    by_cases hk : id = k
    · exact Or.inl hk
    · right
      have : (id == k) = false := by simpa using hk
      simp only [List.lookup, this] at h
      exact ih h

theorem filter_len_le (l : List Nat) (p q : Nat → Bool) (himp : ∀ x, p x = true → q x = true) :
    (l.filter p).length ≤ (l.filter q).length := by
  induction l with
  | nil => simp
  | cons k rest ih =>
    simp only [List.filter_cons]
    cases hp : p k with
    | true => simp [himp k hp]; exact ih
    | false =>
      cases hq : q k with
      | true => simp; omega
      | false => simpa using ih

theorem filter_len_lt (l : List Nat) (p q : Nat → Bool) (himp : ∀ x, p x = true → q x = true)
    (a : Nat) (ha : a ∈ l) (hq : q a = true) (hp : p a = false) :
    (l.filter p).length < (l.filter q).length := by
  induction l with
  | nil => simp at ha
  | cons k rest ih =>
    simp only [List.filter_cons]
    by_cases hk : k = a
    · subst hk
      have := filter_len_le rest p q himp
      simp [hp, hq]; omega
    · have hmem : a ∈ rest := by
        simp only [List.mem_cons] at ha
        rcases ha with h | h
        · exact absurd h.symm hk
        · exact h
      have := ih hmem
      cases hpk : p k with
      | true => simp [himp k hpk]; exact this
      | false =>
        cases hqk : q k with
        | true => simp; omega
        | false => simpa using this

theorem filter_unseen_lt (keys seen : List Nat) (id : Nat) (h1 : id ∈ keys) (h2 : id ∉ seen) :
    (keys.filter (fun k => !(id :: seen).contains k)).length < (keys.filter (fun k => !seen.contains k)).length := by
  apply filter_len_lt keys _ _ _ id h1
  · simpa using h2
  · simp
  · intro x hx
    simp only [List.contains_cons, Bool.not_or, Bool.and_eq_true, Bool.not_eq_eq_eq_not, Bool.not_true] at hx
    simpa using hx.2

theorem unseen_lt {env : Env} {seen : List Nat} {id : Nat} {d : Def}
    (h1 : env.lookup id = some d) (h2 : id ∉ seen) : unseen env (id :: seen) < unseen env seen :=
  filter_unseen_lt env.keys seen id (mem_keys_of_lookup h1) h2

/-! ## walkFields -/

/-- `walkFieldsVisiting`: the fields `fn` is called with, in order. Embedded structs are flattened;
    a struct already being walked contributes nothing (K07j). -/
def flatten (env : Env) (visiting : List Nat) (fs : List Field) : List (FieldMeta × Ty) :=
  match fs with
  | [] => []
  | .field m t :: rest => (m, t) :: flatten env visiting rest
  | .embed id :: rest =>
    (if _h : id ∈ visiting then []
     else
      match _h2 : env.lookup id with
      | some (.struct _ _ efs) => flatten env (id :: visiting) efs
      | _ => []) ++ flatten env visiting rest
termination_by (unseen env visiting, fs.length)
decreasing_by
  · exact Prod.Lex.right _ (by simp)
  · exact Prod.Lex.left _ _ (unseen_lt _h2 _h)
  · exact Prod.Lex.right _ (by simp)

/-! ## schemaName -/

def nameByteOK (c : Char) : Bool :=
  ('a' ≤ c && c ≤ 'z') || ('A' ≤ c && c ≤ 'Z') || ('0' ≤ c && c ≤ '9') || c = '.' || c = '_' || c = '-'

/-- `sanitizeComponentName` (K07c) -/
def sanitize (name : B) : B := name.map fun c => if nameByteOK c then c else '_'

def lastSeg (pkgPath : B) : B := ((splitOn '/' pkgPath).getLast?).getD []

/-- `schemaName` of common.go -/
def schemaName (name pkgPath : B) : B :=
  if name = [] then []
  else if pkgPath = [] then sanitize name
  else
    let pkgName := lastSeg pkgPath
    if pkgName = [] ∨ pkgName = name then sanitize name
    else sanitize (pkgName ++ s "." ++ name)

/-- as shipped before K07c: no sanitising -/
def schemaNameAsIs (name pkgPath : B) : B :=
  if name = [] then []
  else if pkgPath = [] then name
  else
    let pkgName := lastSeg pkgPath
    if pkgName = [] ∨ pkgName = name then name
    else pkgName ++ s "." ++ name

/-! ## the intermediate representation (`model.Schema`) -/

inductive Kind | none | boolean | integer | number | string | object | array
  deriving DecidableEq, Repr, Inhabited

/-- a value `parseValue` produces from a tag (the `default` of a parameter schema) -/
inductive DV
  | str (v : B)
  | num (v : B)       -- as rendered
  | bool (v : Bool)
  deriving DecidableEq, Repr, Inhabited

/-- the scalar members of `model.Schema` the generator can set -/
structure Head where
  kind : Kind := .none
  nullable : Bool := false
  format : B := []
  contentEncoding : B := []
  exampleV : B := []                      -- `Example any`: only the constant string of time.Time occurs
  enum : List B := []
  pattern : B := []
  minimum : Option (Nat × Bool) := none  -- (value, exclusive)
  maximum : Option (Nat × Bool) := none
  minLength : Option Nat := none
  maxLength : Option Nat := none
  required : List B := []
  dflt : Option DV := none               -- `Default any` (from the `default` tag of a parameter field)
  description : B := []                  -- `Description` (from the `doc` tag of a struct field)
  deriving DecidableEq, Repr, Inhabited

mutual
  /-- a schema tree: either a `$ref` (all sibling members are dropped by both projections) or a node -/
  inductive Tree (α : Type) where
    | ref (r : B)
    | node (h : α) (items : OTree α) (props : PTree α) (addl : OTree α)
  inductive OTree (α : Type) where
    | none
    | some (t : Tree α)
  inductive PTree (α : Type) where
    | nil
    | cons (k : B) (t : Tree α) (rest : PTree α)
end

abbrev IR := Tree Head

def Tree.modHead {α} (f : α → α) : Tree α → Tree α
  | .ref r => .ref r
  | .node h i p a => .node (f h) i p a

/-- `s.Properties[k] = v` -/
def PTree.set {α} (k : B) (v : Tree α) : PTree α → PTree α
  | .nil => .cons k v .nil
  | .cons k' v' rest => if k' = k then .cons k v rest else .cons k' v' (PTree.set k v rest)

def refPrefix : B := s "#/components/schemas/"

def leaf (h : Head) : IR := .node h .none .nil .none
def objectSchema : IR := leaf { kind := .object }
def refTo (name : B) : IR := .ref (refPrefix ++ name)

/-- the constant example of K07b -/
def timeExample : B := s "2006-01-02T15:04:05Z"
def timeSchema : IR := leaf { kind := .string, format := s "date-time", exampleV := timeExample }
/-- as shipped before K07b: `time.Now().Format(time.RFC3339)` -/
def timeSchemaAsIs (now : B) : IR := leaf { kind := .string, format := s "date-time", exampleV := now }

def bytesSchema : IR := leaf { kind := .string, contentEncoding := s "base64" }

def primSchema : PKind → IR
  | .string => leaf { kind := .string }
  | .bool => leaf { kind := .boolean }
  | .int | .int8 | .int16 | .int32 | .uint | .uint8 | .uint16 | .uint32 => leaf { kind := .integer, format := s "int32" }
  | .int64 | .uint64 => leaf { kind := .integer, format := s "int64" }
  | .float32 => leaf { kind := .number, format := s "float" }
  | .float64 => leaf { kind := .number, format := s "double" }
  | .iface | .other => objectSchema

/-! ## tags -/

/-- `parseJSONName` -/
def parseJSONName (tag fallback : B) : B :=
  if tag = [] then fallback
  else
    match splitOn ',' tag with
    | p0 :: _ => if p0 ≠ [] then p0 else fallback
    | [] => fallback

/-- `t.Kind() == reflect.Pointer` -/
def isPtrKind (env : Env) : Ty → Bool
  | .ptr _ => true
  | .named id => match env.lookup id with
    | some (.alias (.ptr _)) => true
    | _ => false
  | _ => false

/-- `isFieldRequired` -/
def isFieldRequired (env : Env) (m : FieldMeta) (t : Ty) : Bool :=
  if isPtrKind env t then false else contains m.validate (s "required")

/-- what one comma separated part of a `validate` tag does to a schema (the `switch` of
    applyValidationConstraints) -/
inductive PartEffect
  | none
  | minimum (x : Nat) (exclusive : Bool)
  | maximum (x : Nat) (exclusive : Bool)
  | minLength (x : Nat)
  | maxLength (x : Nat)
  | len (x : Nat)
  | enum (vs : List B)

def numEffect (v : B) (f : Nat → PartEffect) : PartEffect :=
  match parseNat v with
  | some x => f x
  | none => .none

def classifyPart (part0 : B) : PartEffect :=
  let part := trimSpace part0
  if part = [] then .none
  else if hasPrefix (s "min=") part then numEffect (part.drop 4) (.minimum · false)
  else if hasPrefix (s "max=") part then numEffect (part.drop 4) (.maximum · false)
  else if hasPrefix (s "gte=") part then numEffect (part.drop 4) (.minimum · false)
  else if hasPrefix (s "lte=") part then numEffect (part.drop 4) (.maximum · false)
  else if hasPrefix (s "gt=") part then numEffect (part.drop 3) (.minimum · true)
  else if hasPrefix (s "lt=") part then numEffect (part.drop 3) (.maximum · true)
  else if hasPrefix (s "minlen=") part || hasPrefix (s "minLength=") part then
    -- strings.TrimPrefix(strings.TrimPrefix(part, "minlen="), "minLength=")
    let v1 := (cutPrefix (s "minlen=") part).getD part
    numEffect ((cutPrefix (s "minLength=") v1).getD v1) .minLength
  else if hasPrefix (s "maxlen=") part || hasPrefix (s "maxLength=") part then
    let v1 := (cutPrefix (s "maxlen=") part).getD part
    numEffect ((cutPrefix (s "maxLength=") v1).getD v1) .maxLength
  else if hasPrefix (s "len=") part then numEffect (part.drop 4) .len
  else if hasPrefix (s "oneof=") part then .enum (fields (part.drop 6))
  else .none

def applyEffect (h : Head) : PartEffect → Head
  | .none => h
  | .minimum x e => { h with minimum := some (x, e) }
  | .maximum x e => { h with maximum := some (x, e) }
  | .minLength x => { h with minLength := some x }
  | .maxLength x => { h with maxLength := some x }
  | .len x => { h with minLength := some x, maxLength := some x }
  | .enum vs => { h with enum := vs }

def applyPart (h : Head) (part : B) : Head := applyEffect h (classifyPart part)

/-- the format a `validate` tag implies (first `switch` of applyValidationConstraints) -/
def validateFormat (v : B) : Option B :=
  if contains v (s "email") then some (s "email")
  else if contains v (s "url") then some (s "uri")
  else if contains v (s "uuid") then some (s "uuid")
  else none

/-- `applyValidationConstraints` on the scalar members -/
def applyConstraintsHead (v : B) (h : Head) : Head :=
  if v = [] then h
  else
    let h1 := match validateFormat v with
      | some f => { h with format := f }
      | none => h
    let h2 := if contains v (s "alphanum") then { h1 with pattern := s "^[a-zA-Z0-9]+$" } else h1
    (splitOn ',' v).foldl applyPart h2

def applyConstraints (v : B) (t : IR) : IR := t.modHead (applyConstraintsHead v)

/-- `if doc != "" { fs.Description = doc }; if ex != "" { fs.Example = ex }` in the walkFields callback of
    structSchema / GenerateProjected (on a `$ref` schema both are dropped by the projections) -/
def docTagsHead (m : FieldMeta) (h : Head) : Head :=
  { h with description := if m.docT ≠ [] then m.docT else h.description,
           exampleV := if m.exampleT ≠ [] then m.exampleT else h.exampleV }

def docTags (m : FieldMeta) (t : IR) : IR := t.modHead (docTagsHead m)

/-! ## Generate / structSchema / GenerateProjected -/

/-- component schemas registered so far, newest first (`sg.schemas`) -/
abbrev Schemas := List (B × IR)

def hasKey (st : Schemas) (name : B) : Bool := st.any (fun e => e.1 == name)

def isByteSlice : Ty → Bool
  | .slice (.prim .uint8) => true
  | _ => false

/-- the schema of a struct: `{Kind: object, Properties: …, Required: …}` -/
def objNode (req : List B) (props : PTree Head) : IR := .node { kind := .object, required := req } .none props .none

def setNullable (t : IR) : IR := t.modHead fun h => { h with nullable := true }
def arrayOf (t : IR) : IR := .node { kind := .array } (.some t) .nil .none
def mapOf (t : IR) : IR := .node { kind := .object } .none .nil (.some t)

mutual
  /-- `SchemaGenerator.Generate(t)`; `seen` = struct types being generated, `opn` = named container
      types open since the innermost struct (both are stacks: restored on return by the deferred
      deletes), `st` = `sg.schemas`. -/
  def gen (env : Env) (seen opn : List Nat) (t : Ty) (st : Schemas) : IR × Schemas :=
    match t with
    | .prim k => (primSchema k, st)
    | .time => (timeSchema, st)
    | .ptr e =>
      let r := gen env seen opn e st
      (setNullable r.1, r.2)
    | .slice e =>
      if isByteSlice (.slice e) then (bytesSchema, st)
      else
        let r := gen env seen opn e st
        (arrayOf r.1, r.2)
    | .array e =>
      let r := gen env seen opn e st
      (arrayOf r.1, r.2)
    | .map strKey e =>
      if !strKey then (objectSchema, st)
      else
        let r := gen env seen opn e st
        (mapOf r.1, r.2)
    | .named id =>
      match _hl : env.lookup id with
      | none => (objectSchema, st)
      | some (.alias u) =>
        if isByteSlice u then (bytesSchema, st)
        else if _ho : id ∈ opn then (objectSchema, st)       -- `sg.open[t]` (K07i)
        else if id ∈ seen then (objectSchema, st)            -- never: only structs are in `seen`
        else gen env seen (id :: opn) u st                    -- guard(t), then the kind switch on t
      | some (.struct name pkg fs) =>
        if _hs : id ∈ seen then
          (if schemaName name pkg ≠ [] then refTo (schemaName name pkg) else objectSchema, st)
        else
          -- structSchema
          let nm := schemaName name pkg
          if nm ≠ [] ∧ hasKey st nm then (refTo nm, st)
          else
            let r := genFields env (id :: seen) [] false (flatten env [id] fs) .nil [] st
            let sch : IR := objNode r.2.1 r.1
            if nm ≠ [] then (refTo nm, (nm, sch) :: r.2.2) else (sch, r.2.2)
  termination_by (unseen env seen, unseen env opn, sizeOf t)
  decreasing_by
    all_goals simp_wf
    · exact Prod.Lex.right _ (Prod.Lex.right _ (by omega))
    · exact Prod.Lex.right _ (Prod.Lex.right _ (by omega))
    · exact Prod.Lex.right _ (Prod.Lex.right _ (by omega))
    · exact Prod.Lex.right _ (Prod.Lex.right _ (by omega))
    · exact Prod.Lex.right _ (Prod.Lex.left _ _ (unseen_lt _hl _ho))
    · exact Prod.Lex.left _ _ (unseen_lt _hl _hs)

  /-- the body of the `walkFields` callback of structSchema / GenerateProjected, over the flattened
      fields; `projected` = the `include` filter of buildOperation (JSON-tagged fields only) -/
  def genFields (env : Env) (seen opn : List Nat) (projected : Bool) (fs : List (FieldMeta × Ty))
      (props : PTree Head) (req : List B) (st : Schemas) : PTree Head × List B × Schemas :=
    match fs with
    | [] => (props, req, st)
    | (m, t) :: rest =>
      if !m.exported || (projected && (m.json = [] || m.json = s "-")) then
        genFields env seen opn projected rest props req st
      else if m.json = s "-" then
        genFields env seen opn projected rest props req st
      else
        let fieldName := parseJSONName m.json m.name
        let r := gen env seen opn t st
        let fsch := applyConstraints m.validate (docTags m r.1)
        let req' :=
          if isFieldRequired env m t && !contains m.json (s "omitempty") && !req.contains fieldName
          then req ++ [fieldName] else req
        genFields env seen opn projected rest (props.set fieldName fsch) req' r.2
  termination_by (unseen env seen, unseen env opn, sizeOf fs)
  decreasing_by
    all_goals simp_wf
    · exact Prod.Lex.right _ (Prod.Lex.right _ (by omega))
    · exact Prod.Lex.right _ (Prod.Lex.right _ (by omega))
    · exact Prod.Lex.right _ (Prod.Lex.right _ (by omega))
    · exact Prod.Lex.right _ (Prod.Lex.right _ (by omega))
end

end Rivaas.OpenAPI
