import Rivaas.Basic
/-
C18 — model of `router/proxies.go` (`Context.ClientIP`, `lastUntrustedXFF`).

The `net` package is a parameter: for every header item the harness ships what the real
`net.ParseIP` / `IPNet.Contains` said about it (does it parse, its canonical text, is it
inside a trusted CIDR). The model is the walk and the header-order logic around it.
Core Lean only.
-/
namespace Rivaas.RealIP

/-- one X-Forwarded-For item (after `splitAndTrim`): `none` = `parseOneIP` returned "",
    `some (ip, trusted)` = canonical text and `isTrusted` -/
abbrev Item := Option (Bytes × Bool)

/-- a configured header as the request carries it -/
inductive Hdr where
  /-- X-Forwarded-For with its items left-to-right, as `splitAndTrim` yields them -/
  | xff (items : List Item)
  /-- X-Real-IP, CF-Connecting-IP or a custom header: `parseOneIP` of its value -/
  | single (v : Option Bytes)
  deriving Repr, DecidableEq

structure Req where
  /-- `cfg.maxHops` after `compileProxies` (so ≥ 1) -/
  maxHops : Nat
  /-- `clientIPFromRemoteAddr(RemoteAddr)` -/
  peer : Bytes
  /-- `cfg.isTrusted(peer)` -/
  peerTrusted : Bool
  /-- configured headers in configuration order -/
  hdrs : List Hdr
  deriving Repr

/-- The loop of `lastUntrustedXFF` on the right-to-left item list (head = rightmost item).
    `b` is `parts[boundary]` so far (`none` = `boundary == len(parts)`), `seen` = an untrusted
    address has been taken. Follows the code after the `fix:` commit for K18a/K18b:
    the hop is counted *before* the boundary moves and the walk never steps from an untrusted
    address onto a trusted one further left. -/
def walk (maxHops : Nat) : List Item → Nat → Bool → Option (Bytes × Bool) → Option (Bytes × Bool)
  | [], _, _, b => b
  | none :: rest, hops, seen, b => walk maxHops rest hops seen b
  | some (ip, true) :: rest, hops, seen, b =>
    if seen then b
    else if hops ≥ maxHops then b
    else walk maxHops rest (hops + 1) seen (some (ip, true))
  | some (ip, false) :: rest, hops, _, _ => walk maxHops rest hops true (some (ip, false))

/-- the loop as shipped before the repair (kept for the witnesses of K18a/K18b) -/
def walkAsIs (maxHops : Nat) : List Item → Nat → Option (Bytes × Bool) → Option (Bytes × Bool)
  | [], _, b => b
  | none :: rest, hops, b => walkAsIs maxHops rest hops b
  | some (ip, true) :: rest, hops, _ =>
    if hops + 1 ≥ maxHops then some (ip, true)
    else walkAsIs maxHops rest (hops + 1) (some (ip, true))
  | some (ip, false) :: rest, hops, _ => walkAsIs maxHops rest hops (some (ip, false))

/-- `lastUntrustedXFF`: "" is `none`. The trailing "leftmost IP" fallback of the Go code is
    reached only when no item parses, and then `parts[0]` does not parse either. -/
def lastUntrustedXFF (maxHops : Nat) (items : List Item) : Option Bytes :=
  (walk maxHops items.reverse 0 false none).map (·.1)

def hdrValue (maxHops : Nat) : Hdr → Option Bytes
  | .xff items => lastUntrustedXFF maxHops items
  | .single v => v

/-- first configured header that yields an address -/
def firstHdr (maxHops : Nat) : List Hdr → Option Bytes
  | [] => none
  | h :: rest => match hdrValue maxHops h with
    | some ip => some ip
    | none => firstHdr maxHops rest

/-- `Context.ClientIP` with a trusted-proxy configuration present -/
def clientIP (r : Req) : Bytes :=
  if !r.peerTrusted then r.peer
  else match firstHdr r.maxHops r.hdrs with
    | some ip => ip
    | none => r.peer

/-- `compileProxies`: the hop limit as configured (`WithProxyMaxHops(n)`, 0 when the option is not given) becomes
    the limit the walk uses — zero or less means the default, 1 (Tie: `compile_follows_the_source`) -/
def compileMaxHops (configured : Int) : Nat := if configured ≤ 0 then 1 else configured.toNat

/-- `compileProxies`: with no header configured the defaults are consulted (X-Forwarded-For, then X-Real-IP; Tie:
    `default_headers_are_xff_then_realip`) -/
def compileHeaders {α} (configured defaults : List α) : List α := if configured.isEmpty then defaults else configured

/-! ## `Context.IsLocalhost` (router/request.go): a function of `ClientIP()` alone -/

def localhostExact : List Bytes :=
  ["127.0.0.1".toList, "::1".toList, "localhost".toList, "0.0.0.0".toList, "::".toList]

def localhostPrefixes : List Bytes := ["127.".toList, "::1".toList, "0:0:0:0:0:0:0:1".toList]

/-- `strings.HasPrefix` -/
def hasPrefix : Bytes → Bytes → Bool
  | _, [] => true
  | [], _ :: _ => false
  | a :: s, b :: p => a == b && hasPrefix s p

/-- the switch over the literal table, then the prefix tests -/
def isLocalhostOf (ip : Bytes) : Bool :=
  localhostExact.contains ip || localhostPrefixes.any (hasPrefix ip)

/-- `Context.IsLocalhost` -/
def isLocalhost (r : Req) : Bool := isLocalhostOf (clientIP r)

end Rivaas.RealIP
