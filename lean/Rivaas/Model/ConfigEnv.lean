import Rivaas.Model.Config
/-
C14 — model of the environment source: `config/source/env.go` (`OSEnvVar.Load`: filter `os.Environ()` by prefix,
strip it, join with "\n") and `config/codec/env.go` (`EnvVarCodec.Decode`: split into lines, `NAME=value`,
`strings.TrimSpace`, `strings.ToLower`, split at "_", drop empty parts, nest, last assignment wins, a non-map on
the way is replaced by a map). The harness ships `os.Environ()` as it is (the entries sharing the per-case stem,
the decoy included) and the prefix; what the source returns is computed here, statement by statement.
Strings are ASCII (`strings.TrimSpace` / `ToLower` on ASCII). Core Lean only.
-/
namespace Rivaas.Config

/-- `unicode.IsSpace` on ASCII -/
def isSpace (c : Char) : Bool :=
  c = ' ' || c = '\t' || c = '\n' || c = '\r' || c = Char.ofNat 11 || c = Char.ofNat 12

def trimLeft : Bytes → Bytes
  | [] => []
  | c :: cs => if isSpace c then trimLeft cs else c :: cs

/-- `strings.TrimSpace` -/
def trimSpace (s : Bytes) : Bytes := (trimLeft (trimLeft s).reverse).reverse

/-- `strings.HasPrefix` + `strings.TrimPrefix` -/
def stripPrefix : Bytes → Bytes → Option Bytes
  | [], s => some s
  | _ :: _, [] => none
  | p :: ps, c :: cs => if p = c then stripPrefix ps cs else none

/-- `strings.Split(s, sep)` for a one-byte separator -/
def splitOn (sep : Char) : Bytes → List Bytes
  | [] => [[]]
  | c :: cs =>
    match splitOn sep cs with
    | [] => [[c]]  -- unreachable
    | seg :: rest => if c = sep then [] :: seg :: rest else (c :: seg) :: rest

/-- `strings.SplitN(s, "=", 2)` with two results, `none` when there is no "=" -/
def cutEq : Bytes → Option (Bytes × Bytes)
  | [] => none
  | c :: cs =>
    if c = '=' then some ([], cs)
    else match cutEq cs with
      | some (a, b) => some (c :: a, b)
      | none => none

/-- the nesting loop of `Decode`: walk / create maps along all parts but the last (a non-map on the way is
    replaced by a fresh map), assign the last -/
def insertPath : Kvs → List Bytes → CVal → Kvs
  | m, [], _ => m
  | m, [k], v => put m k v
  | m, k :: k2 :: ks, v =>
    match lookup k m with
    | some (.map sub) => put m k (.map (insertPath sub (k2 :: ks) v))
    | _ => put m k (.map (insertPath [] (k2 :: ks) v))

/-- the key path and the value a line defines, `none` when `Decode` skips the line -/
def envDef (line : Bytes) : Option (List Bytes × Bytes) :=
  match cutEq line with
  | none => none
  | some (k, v) =>
    let key := trimSpace k
    if key = [] then none
    else
      let parts := (splitOn '_' (lower key)).filter (fun p => p ≠ [])
      if parts = [] then none else some (parts, trimSpace v)

/-- rendering of a Go string value (the harness renders leaves with their type) -/
def strLeaf (v : Bytes) : CVal := .leaf ("s:".toList ++ v)

def envLine (conf : Kvs) (line : Bytes) : Kvs :=
  match envDef line with
  | none => conf
  | some (parts, v) => insertPath conf parts (strLeaf v)

/-- `EnvVarCodec.Decode` on the lines of its input -/
def envDecode (lines : List Bytes) : Kvs := lines.foldl envLine []

/-- `OSEnvVar.Load`: `strings.Join(validEnv, "\n")` followed by `bytes.SplitSeq(data, "\n")` visits the lines of
    every entry in turn (an entry whose value contains a line feed contributes several lines; no entry at all gives
    one empty line, which is skipped) -/
def envSource (pfx : Bytes) (environ : List Bytes) : Kvs :=
  envDecode ((environ.filterMap (stripPrefix pfx)).flatMap (splitOn '\n'))

end Rivaas.Config
