import Rivaas.Basic
/-
C14 — model of `config/config.go`: `normalizeMapKeys`, `loadSourcesSequential` (mergo.Map
WithOverride), `Load` (source errors, JSON schema, custom validators, binding validation, bind,
pointer swap under the lock), `getValueFromMap`.

Values are trees whose inner nodes are `map[string]any` and whose leaves are opaque renderings of
everything else (numbers, strings, nil, lists, zero values — a leaf is replaced as a whole, never
merged). Parameters (evaluated for real by the harness and shipped per case, see `trusted_base`):
`mergo.Map` on two maps is modelled as `mergeKvs` (key-wise for maps, replacement otherwise, the
behaviour probed on the real library); mapstructure + `applyDefaults` + `Validate()` are a
parameter: the harness ships what a *fresh* `Config` makes of the same sources (`BindOutcome`).
Core Lean only.
-/
namespace Rivaas.Config

inductive CVal where
  /-- anything that is not a `map[string]any`, as a canonical rendering -/
  | leaf (r : Bytes)
  | map (kvs : List (Bytes × CVal))
  deriving Repr, Inhabited

abbrev Kvs := List (Bytes × CVal)

/-- `m[k]` on an association list (first entry wins; maps have distinct keys) -/
def lookup (k : Bytes) : Kvs → Option CVal
  | [] => none
  | (k', v) :: rest => if k' = k then some v else lookup k rest

/-! ### normalizeMapKeys -/

/-- the 26 ASCII capitals and their lower-case forms -/
def upperTable : List (Char × Char) :=
  [('A','a'),('B','b'),('C','c'),('D','d'),('E','e'),('F','f'),('G','g'),('H','h'),('I','i'),
   ('J','j'),('K','k'),('L','l'),('M','m'),('N','n'),('O','o'),('P','p'),('Q','q'),('R','r'),
   ('S','s'),('T','t'),('U','u'),('V','v'),('W','w'),('X','x'),('Y','y'),('Z','z')]

def tableLookup (c : Char) : List (Char × Char) → Option Char
  | [] => none
  | (u, l) :: rest => if u = c then some l else tableLookup c rest

/-- `strings.ToLower` on ASCII (the harness only varies the case of ASCII letters; on all other
    bytes of its keys `strings.ToLower` is the identity too) -/
def lowerChar (c : Char) : Char :=
  match tableLookup c upperTable with
  | some l => l
  | none => c

def lower (s : Bytes) : Bytes := s.map lowerChar

/-- `normalized[k] = v`: replace or append -/
def put : Kvs → Bytes → CVal → Kvs
  | [], k, v => [(k, v)]
  | (k', v') :: rest, k, v => if k' = k then (k', v) :: rest else (k', v') :: put rest k v

mutual
  /-- `normalizeMapKeys`: keys lower-cased at every level of nested `map[string]any` -/
  def normalize : Kvs → Kvs
    | [] => []
    | (k, v) :: rest => put (normalize rest) (lower k) (normalizeVal v)
  def normalizeVal : CVal → CVal
    | .leaf r => .leaf r
    | .map kvs => .map (normalize kvs)
end

/-! ### mergo.Map(&dst, src, WithOverride) -/

mutual
  /-- a value of `src` meets a value of `dst` under the same key: two maps merge, anything else
      is replaced by the source's value (falsy or not) -/
  def merge : CVal → CVal → CVal
    | .map d, .map s => .map (mergeKvs d s)
    | _, s => s
  /-- fold the source's entries into the destination -/
  def mergeKvs : Kvs → Kvs → Kvs
    | d, [] => d
    | d, (k, v) :: rest => mergeKvs (upsert d k v) rest
  /-- one entry: merge with the existing value or insert -/
  def upsert : Kvs → Bytes → CVal → Kvs
    | [], k, v => [(k, v)]
    | (k', v') :: rest, k, v =>
      if k' = k then (k', merge v' v) :: rest else (k', v') :: upsert rest k v
end

/-- the merge loop of `loadSourcesSequential` over the (successfully loaded) sources in order -/
def mergeAll (srcs : List Kvs) : Kvs := srcs.foldl (fun acc s => mergeKvs acc (normalize s)) []

/-! ### getValueFromMap -/

/-- `strings.Split(path, ".")` -/
def splitDots : Bytes → List Bytes
  | [] => [[]]
  | c :: cs =>
    match splitDots cs with
    | [] => [[c]]  -- unreachable: splitDots never returns []
    | seg :: rest => if c = '.' then [] :: seg :: rest else (c :: seg) :: rest

/-- the dot-notation traversal: the value at the end of the segment path, `none` as soon as a
    segment is missing or a non-map is met before the end -/
def getPath : Kvs → List Bytes → Option CVal
  | _, [] => none
  | kvs, [k] => lookup k kvs
  | kvs, k :: k2 :: ks =>
    match lookup k kvs with
    | some (.map inner) => getPath inner (k2 :: ks)
    | _ => none

/-- `getValueFromMap(path)`: the lower-cased path is tried as a top-level key first, then as a
    dotted path -/
def getValue (vals : Kvs) (path : Bytes) : Option CVal :=
  match lookup (lower path) vals with
  | some v => some v
  | none => getPath vals (splitDots (lower path))

/-- rendering of Go's untyped `nil` (a key that is present with a nil value) -/
def nilLeaf : Bytes := "n:".toList

/-- `Config.Get(key)`: nil for the empty key; a nil value is indistinguishable from an absent key -/
def get (vals : Kvs) (key : Bytes) : Option CVal :=
  if key = [] then none
  else match getValue vals key with
    | some (.leaf r) => if r = nilLeaf then none else some (.leaf r)
    | r => r

/-! ### Load -/

/-- what a source returned -/
inductive SrcResult where
  | ok (m : Kvs)
  | fail
  deriving Repr

/-- what binding does with the merged values, on a struct that starts from zero (computed by the
    harness with a fresh `Config` over the same sources) -/
inductive BindOutcome where
  /-- decode + defaults + `Validate()` succeed; the rendering of the resulting struct -/
  | ok (fields : List (Bytes × Bytes))
  /-- mapstructure cannot decode, or `Validate()` rejects -/
  | reject
  deriving Repr

/-- one field of the bound struct as the as-shipped decoder treats it (K14) -/
structure FieldInfo where
  name : Bytes
  /-- the merged values contain the key this field is decoded from -/
  present : Bool
  /-- rendering of the zero value of the field's type -/
  zero : Bytes
  deriving Repr

structure LoadInput where
  srcs : List SrcResult
  /-- no binding configured ⇒ `none` -/
  bind : Option BindOutcome
  /-- per field of the bound struct, for the as-shipped model only -/
  fields : List FieldInfo
  deriving Repr

/-- the stage at which `Load` returned -/
inductive Stage where
  | ok
  | source (i : Nat)
  | schema
  | validator (i : Nat)
  | binding
  deriving Repr, DecidableEq

structure State where
  /-- `*c.values` -/
  values : Kvs
  /-- rendering of the struct passed to `WithBinding`, field by field -/
  bound : List (Bytes × Bytes)
  deriving Repr

/-- sources are loaded in order; the first failure aborts (`source[i]`) -/
def loadSources : List SrcResult → Nat → List Kvs → Except Nat (List Kvs)
  | [], _, acc => .ok acc.reverse
  | .fail :: _, i, _ => .error i
  | .ok m :: rest, i, acc => loadSources rest (i + 1) (m :: acc)

def truthy (v : Option CVal) : Bool :=
  match v with
  | some (.leaf r) => r == "b:true".toList
  | _ => false

/-- the fixed JSON schema the harness installs: `{"properties":{"schemafail":{"const":false}}}`-like:
    it rejects exactly when the merged top-level key `schemafail` is `true` -/
def schemaRejects (merged : Kvs) : Bool := truthy (lookup "schemafail".toList merged)

/-- the harness' custom validators: number `i` returns an error when key `vfail<i>` is true and
    panics when `vpanic<i>` is true (the panic is recovered and reported the same way) -/
def validatorRejects (merged : Kvs) (i : Nat) : Bool :=
  truthy (lookup ("vfail".toList ++ (Nat.repr i).toList) merged) ||
  truthy (lookup ("vpanic".toList ++ (Nat.repr i).toList) merged)

def firstRejecting (merged : Kvs) (n : Nat) : Option Nat :=
  (List.range n).find? (validatorRejects merged)

/-- `Config.Load` with `nv` custom validators, a schema installed iff `schema`.
    After the `fix:` commit for K14 `bind` starts from the zero struct, so the struct after a
    successful load is what a fresh `Config` produces. -/
def load (schema : Bool) (nv : Nat) (st : State) (inp : LoadInput) : State × Stage :=
  match loadSources inp.srcs 0 [] with
  | .error i => (st, .source i)
  | .ok maps =>
    let merged := mergeAll maps
    if schema && schemaRejects merged then (st, .schema)
    else match firstRejecting merged nv with
      | some i => (st, .validator i)
      | none =>
        match inp.bind with
        | none => ({ st with values := merged }, .ok)
        | some .reject => (st, .binding)
        | some (.ok fresh) => ({ values := merged, bound := fresh }, .ok)

/-- as shipped (K14): the decoder writes into the existing struct; a field whose key is absent
    keeps its old value, and `applyDefaults` only fills fields that are still zero -/
def overlay (old fresh : List (Bytes × Bytes)) (fields : List FieldInfo) : List (Bytes × Bytes) :=
  fresh.map fun (name, fv) =>
    match fields.find? (fun f => f.name == name), old.lookup name with
    | some f, some ov => if f.present then (name, fv) else if ov == f.zero then (name, fv) else (name, ov)
    | _, _ => (name, fv)

def loadAsIs (schema : Bool) (nv : Nat) (st : State) (inp : LoadInput) : State × Stage :=
  match loadSources inp.srcs 0 [] with
  | .error i => (st, .source i)
  | .ok maps =>
    let merged := mergeAll maps
    if schema && schemaRejects merged then (st, .schema)
    else match firstRejecting merged nv with
      | some i => (st, .validator i)
      | none =>
        match inp.bind with
        | none => ({ st with values := merged }, .ok)
        | some .reject => (st, .binding)
        | some (.ok fresh) => ({ values := merged, bound := overlay st.bound fresh inp.fields }, .ok)

/-- a history of Loads on one `Config` -/
def runLoads (schema : Bool) (nv : Nat) (st : State) : List LoadInput → List (State × Stage)
  | [] => []
  | inp :: rest =>
    let r := load schema nv st inp
    r :: runLoads schema nv r.1 rest

def runLoadsAsIs (schema : Bool) (nv : Nat) (st : State) : List LoadInput → List (State × Stage)
  | [] => []
  | inp :: rest =>
    let r := loadAsIs schema nv st inp
    r :: runLoadsAsIs schema nv r.1 rest

/-! ### concurrent readers

`Load` computes and validates the new map without the lock, then, holding `c.mu` for writing,
validates the binding, binds and stores the new pointer. `Get`/`Values` hold `c.mu` for reading
while they load the pointer. The atomic regions are therefore: a loader's *commit* (everything
under the write lock) and a reader's *read* (everything under the read lock). A map is never
written after it has been installed, so a reader that obtained a pointer keeps seeing that map. -/

/-- one atomic step of the interleaving -/
inductive Op where
  /-- the locked region of the `i`-th Load: its effect on the state is that of `load` -/
  | commit (i : Nat)
  /-- reader `r` loads the pointer under the read lock (a `Get`, or `Values()`) -/
  | read (r : Nat)
  deriving Repr, DecidableEq

/-- run a schedule: commits take effect in schedule order; each read records the map it saw -/
def runSched (schema : Bool) (nv : Nat) (inputs : List LoadInput) :
    State → List Op → List (Nat × Kvs) → List (Nat × Kvs)
  | _, [], seen => seen.reverse
  | st, .commit i :: rest, seen =>
    match inputs[i]? with
    | some inp => runSched schema nv inputs (load schema nv st inp).1 rest seen
    | none => runSched schema nv inputs st rest seen
  | st, .read r :: rest, seen => runSched schema nv inputs st rest ((r, st.values) :: seen)

end Rivaas.Config
