import Rivaas.Model.BindBody
/-
C04 — `WithAllErrors`: bindFieldsWithDepth collects the `BindError`s of a struct in a `MultiError`
and goes on with the next field; a nested struct's `MultiError` is wrapped in the `BindError` of the
nested field; bindMultiSource joins what its passes return (`errors.Join`) and goes on with the next
source, body sources included. The observation is the flattened list of errors, in the order they
are added, each with the chain of field names above it. Core Lean only.
-/
namespace Rivaas.Bind

inductive OutAll
  | done (v : Val) (errs : List Err)
  | panic
  deriving Repr, Inhabited

def OutAll.prepend (es : List Err) : OutAll → OutAll
  | .done v es' => .done v (es ++ es')
  | .panic => .panic

abbrev NestAll := List Fld → Val → Getter → Nat → OutAll

/-- one iteration in collecting mode -/
inductive StepAll
  | store (nv : Val) (errs : List Err)   -- the field is set (a nested struct: as far as it was bound)
  | skip (errs : List Err)               -- the field is left
  | panic
  deriving Repr, Inhabited

/-- `fieldAction` with `cfg.allErrors` -/
def fieldActionAll (P : Params) (cfg : Cfg) (nest : NestAll) (g : Getter) (depth : Nat) (f : FieldInfo) (cur : Val) :
    StepAll :=
  if isMapTy f.ty then
    match setMap P cfg f.ty cur g f.tagName with
    | .error e => .skip [.bind f.name e]
    | .ok nv => .store nv []
  else if isStructTy f.ty then
    if cfg.maxDepth < depth + 1 then .skip [.bind f.name .depth]
    else
      let nfs := structTyOf f.ty
      match nest nfs (innerOf nfs cur) (g.push f.tagName) (depth + 1) with
      | .done nv es => .store (rewrap f.ty nv) (es.map (.bind f.name))
      | .panic => .panic
  else
    let (key, value, has) := lookupField g f
    match (if has then none else f.typedDefault) with
    | some d => .store d []
    | none =>
      let value := if has then value else f.dflt
      if isSliceTy f.ty then
        match setSlice P cfg f.ty cur (g.getAll key) with
        | .error e => .skip [.bind f.name e]
        | .ok nv => .store nv []
      else
        match setField P cfg f.ty cur value with
        | none => .skip [.bind f.name .conv]
        | some nv => .store nv []

/-- the loop of bindFieldsWithDepth with `cfg.allErrors` -/
def loopAllWith (P : Params) (cfg : Cfg) (nest : NestAll) (sty : List Fld) :
    List FieldInfo → Val → Getter → Nat → OutAll
  | [], elem, _, _ => .done elem []
  | f :: rest, elem, g, depth =>
    match reach elem f.index with
    | .bad => .panic
    | _ =>
      if !wants g f then loopAllWith P cfg nest sty rest elem g depth
      else
        let elem1 := updAt (.struct sty) elem f.index id
        match reach elem1 f.index with
        | .ok cur =>
          match fieldActionAll P cfg nest g depth f cur with
          | .store nv es =>
            (loopAllWith P cfg nest sty rest (updAt (.struct sty) elem1 f.index (fun _ => nv)) g depth).prepend es
          | .skip es => (loopAllWith P cfg nest sty rest elem1 g depth).prepend es
          | .panic => .panic
        | _ => .panic

def bindAtAll (P : Params) (cfg : Cfg) (tag : Tag) : Nat → NestAll
  | 0 => fun sty elem g depth =>
    loopAllWith P cfg (fun _ v _ _ => .done v [.depth]) sty (flatten P tag sty) elem g depth
  | n + 1 => fun sty elem g depth =>
    loopAllWith P cfg (bindAtAll P cfg tag n) sty (flatten P tag sty) elem g depth

/-- Query / … / CookieTo with WithAllErrors -/
def bindAll (P : Params) (cfg : Cfg) (tag : Tag) (ty : Ty) (init : Val) (src : Src) : OutAll :=
  match ty with
  | .struct fs => bindAtAll P cfg tag cfg.maxDepth fs init { src := src } 0
  | _ => .done init [.conv]

def bindPassAll (P : Params) (cfg : Cfg) (fs : List Fld) (ty : Tag → Ty) : List Src → Val → OutAll
  | [], cur => .done cur []
  | s :: rest, cur =>
    if hasTagFs s.kind fs then
      match bindAll P cfg s.kind (ty s.kind) cur s with
      | .done v es => (bindPassAll P cfg fs ty rest v).prepend es
      | .panic => .panic
    else bindPassAll P cfg fs ty rest cur

/-- bindMultiSource with WithAllErrors -/
def bindMultiAll (P : Params) (cfg : Cfg) (fs : List Fld) (init : Val) (srcs : List Src) : OutAll :=
  if srcs.isEmpty then .done init [.conv]
  else if srcs.length == 1 then bindPassAll P cfg fs (fun _ => .struct fs) srcs init
  else
    match bindPassAll P cfg fs (fun _ => .struct fs) (srcs.map fun s => { s with kvs := [] }) init with
    | .done v es => (bindPassAll P cfg fs (fun _ => .struct (stripFs fs)) srcs v).prepend es
    | .panic => .panic

/-! ### with body sources -/

inductive OutAllB
  | done (v : Val) (errs : List BErr)
  | panic
  deriving Repr, Inhabited

def OutAllB.prepend (es : List BErr) : OutAllB → OutAllB
  | .done v es' => .done v (es ++ es')
  | .panic => .panic

def runStepsAll (P : Params) (cfg : Cfg) (fs : List Fld) (vty : Ty) (init : Val) : List Step → Val → OutAllB
  | [], cur => .done cur []
  | .src s :: rest, cur =>
    if hasTagFs s.kind fs then
      match bindAll P cfg s.kind vty cur s with
      | .done v es => (runStepsAll P cfg fs vty init rest v).prepend (es.map .bind)
      | .panic => .panic
    else runStepsAll P cfg fs vty init rest cur
  | .body r :: rest, cur =>
    match decodeBody r with
    | .ok dv => runStepsAll P cfg fs vty init rest (mergeDec init dv cur)
    | .error e => (runStepsAll P cfg fs vty init rest cur).prepend [e]

def bindStepsAll (P : Params) (cfg : Cfg) (fs : List Fld) (init : Val) (steps : List Step) : OutAllB :=
  let vs := steps.filterMap Step.src?
  if steps.isEmpty then .done init [.bind .conv]
  else if vs.length ≤ 1 then runStepsAll P cfg fs (.struct fs) init steps init
  else
    match bindPassAll P cfg fs (fun _ => .struct fs) (vs.map fun s => { s with kvs := [] }) init with
    | .done v es => (runStepsAll P cfg fs (.struct (stripFs fs)) init steps v).prepend (es.map .bind)
    | .panic => .panic

end Rivaas.Bind
