import Rivaas.Model.LifecycleTypes
/-
C09 — model of the application lifecycle: `App.Start` / `runServer` (`app/server.go`), the hook
executors (`app/lifecycle.go`) and `App.Reload` (`app/app.go`), together with the environment the
correspondence harness puts around them (requests held in flight, reload calls, the stop signal).

`run : Fixes → Scenario → Bool → Obs` follows the Go code statement by statement:

    Start:      startObservability ; executeStartHooks ; (register OpenAPI) ; Freeze ; runServer
    runServer:  bind the listener ; goroutine{banner; flush logs; close(serverReady); serve}
                <-serverReady ; executeReadyHooks ; SIGHUP set-up ; select loop ;
                shutdown: WithTimeout(WithoutCancel(ctx)) ; executeShutdownHooks ; server.Shutdown ;
                          shutdownObservability ; executeStopHooks ; return

What is *not* Lean: `net/http` (`Server.Shutdown` is a parameter: it returns nil iff every accepted
request has completed before the context ends; with a context that has *already* ended it makes one
idle check whose outcome for connections that are just being torn down is the Boolean `race`),
sockets ("listener bound" is an event), the OpenTelemetry SDK (a synchronous flush is the event
`flush`), goroutine scheduling of the fire-and-forget OnReady hooks (their block is sorted).

`Fixes` selects, per finding of DESIGN.md §7 (K09a–e), the code as shipped or as repaired; `current`
is what /repo contains now and is what the driver and the theorems use. Core Lean only.
-/
namespace Rivaas.Lifecycle

/-- which repairs are in the code -/
structure Fixes where
  /-- K09a: bind the listener before signalling readiness -/
  a : Bool
  /-- K09b: shut observability down again when start-up fails -/
  b : Bool
  /-- K09c: a drain timeout no longer skips telemetry flush and OnStop -/
  c : Bool
  /-- K09d: a panicking OnReload hook becomes the error `Reload` returns -/
  d : Bool
  /-- K09e: telemetry is flushed with a context of its own when the budget is used up -/
  e : Bool
  /-- K09g: a failed start-up writes the buffered startup logs out -/
  g : Bool
  deriving DecidableEq, Repr

def asShipped : Fixes := ⟨false, false, false, false, false, false⟩
def repaired : Fixes := ⟨true, true, true, true, true, true⟩

/-! ### executeStartHooks -/

inductive StartOutcome where
  | done
  | failed
  | panicked
  deriving DecidableEq, Repr

structure StartRun where
  evs : List Ev
  out : StartOutcome
  /-- the context is cancelled when the loop ends -/
  cancelled : Bool
  deriving Repr

def sigIf (b : Bool) : List Ev := if b then [Ev.sig] else []

/-- `for i, hook := range hooks { if err := hook(ctx); err != nil { return … } }`;
    `met` is what `startObservability` left running; the listener does not exist yet and
    `router.Freeze()` has not been called yet. -/
def startHooks (met : Bool) : Nat → Bool → List HB → StartRun
  | _, c, [] => ⟨[], .done, c⟩
  | i, c, .ok :: rest =>
    let r := startHooks met (i + 1) c rest
    ⟨Ev.startIn i false met false :: Ev.startOut i :: r.evs, r.out, r.cancelled⟩
  | i, c, .err :: _ => ⟨[Ev.startIn i false met false, Ev.startOut i], .failed, c⟩
  | i, c, .panic :: _ => ⟨[Ev.startIn i false met false, Ev.startOut i], .panicked, c⟩
  | i, c, .block :: _ => ⟨Ev.startIn i false met false :: (sigIf (!c) ++ [Ev.startOut i]), .failed, true⟩
  | i, c, .cancelOk :: rest =>
    let r := startHooks met (i + 1) true rest
    ⟨Ev.startIn i false met false :: (sigIf (!c) ++ Ev.startOut i :: r.evs), r.out, r.cancelled⟩

/-! ### executeReadyHooks (fire and forget, panics recovered); `Start` has frozen the router before `runServer` -/

def readyHooks (app met : Bool) : Nat → List HB → List Ev
  | _, [] => []
  | i, _ :: rest => Ev.ready i app met true :: readyHooks app met (i + 1) rest

/-! ### Reload: `reloadMu.Lock(); executeReloadHooks; Unlock` -/

def behAt (beh : List HB) (i : Nat) : HB := beh.getD i .ok

def reloadFails (b : HB) : Bool := b == .err || b == .panic || b == .block

/-- number of reload hooks that run in a round: up to and including the first that fails -/
def ranFrom (beh : List HB) : Nat → Nat → Nat
  | 0, _ => 0
  | n + 1, i => if reloadFails (behAt beh i) then 1 else ranFrom beh n (i + 1) + 1

def ran (beh : List HB) (n : Nat) : Nat := ranFrom beh n 0

def reloadEvs (r : Nat) : Nat → Nat → List Ev
  | 0, _ => []
  | n + 1, i => Ev.reloadIn r i :: Ev.reloadOut r i :: reloadEvs r n (i + 1)

/-- the hook that stopped the round, if any -/
def lastBeh (beh : List HB) (n : Nat) : HB :=
  if ran beh n = 0 then .ok else behAt beh (ran beh n - 1)

/-- what `Reload` gives back: K09d decides whether a panic leaves `Reload` -/
def roundRes (fx : Fixes) (beh : List HB) (n : Nat) : RRes :=
  match lastBeh beh n with
  | .err => .err
  | .block => .err
  | .panic => if fx.d then .err else .panic
  | _ => .ok

/-- does the panic of this round leave `Reload`? -/
def roundPanics (fx : Fixes) (beh : List HB) (n : Nat) : Bool :=
  !fx.d && lastBeh beh n == .panic

/-- state of the environment's reload loop -/
structure Loop where
  /-- events before the shutdown sequence -/
  pre : List Ev
  /-- events of a programmatic reload that continue after `Start` has returned -/
  post : List Ev
  cancelled : Bool
  /-- a panic left `Reload` on the `Start` goroutine (SIGHUP round) -/
  dead : Bool
  res : List RRes
  deriving Repr

def roundStep (fx : Fixes) (n : Nat) (st : Loop) (r : Nat) (rd : Round) : Loop :=
  if st.cancelled || st.dead then { st with res := st.res ++ [.na] }
  else if rd.trig == .hup && n == 0 then { st with res := st.res ++ [.na] }  -- SIGHUP is ignored
  else
    let k := ran rd.beh n
    let evs := reloadEvs r k 0
    -- the stop signal arrives inside hook j: because the scenario says so, or because the last hook of the
    -- round is one that waits for its context (the signal is what ends its wait)
    let blockCut : Option Nat := if lastBeh rd.beh n == .block then some (2 * (k - 1) + 1) else none
    let cut : Option Nat := match rd.cancelAt with
      | some j => if j < k then some (2 * j + 1) else blockCut
      | none => blockCut
    match rd.trig, cut with
    | .hup, none =>
      { st with pre := st.pre ++ evs, dead := roundPanics fx rd.beh n, res := st.res ++ [.na] }
    | .hup, some c =>
      { st with pre := st.pre ++ evs.take c ++ [Ev.sig] ++ evs.drop c, cancelled := true,
                dead := roundPanics fx rd.beh n, res := st.res ++ [.na] }
    | .prog, none =>
      { st with pre := st.pre ++ evs, res := st.res ++ [roundRes fx rd.beh n] }
    | .prog, some c =>
      { st with pre := st.pre ++ evs.take c ++ [Ev.sig], post := evs.drop c, cancelled := true,
                res := st.res ++ [roundRes fx rd.beh n] }

def roundsFrom (fx : Fixes) (n : Nat) : Loop → Nat → List Round → Loop
  | st, _, [] => st
  | st, r, rd :: rest => roundsFrom fx n (roundStep fx n st r rd) (r + 1) rest

/-! ### executeShutdownHooks (LIFO) with the requests the environment releases from inside them -/

def isHookRel (i : Nat) : Rel → Bool
  | .hook j => j == i
  | _ => false

/-- `reqFin` for every request released from hook `i` (requests are numbered from `k`) -/
def relIn (met : Bool) (i : Nat) : Nat → List Rel → List Ev
  | _, [] => []
  | k, q :: rest => (if isHookRel i q then [Ev.reqFin k met] else []) ++ relIn met i (k + 1) rest

structure ShutRun where
  evs : List Ev
  panicked : Bool
  /-- the shutdown deadline has passed -/
  expired : Bool
  deriving Repr

/-- hooks as (index, behaviour), already in execution order (last registered first);
    `sent` = the requests have been sent -/
def shutHooks (met sent : Bool) (reqs : List Rel) : Bool → List (Nat × HB) → ShutRun
  | ex, [] => ⟨[], false, ex⟩
  | ex, (i, b) :: rest =>
    let rel := if sent then relIn met i 0 reqs else []
    let head := Ev.shutIn i true met (!ex) :: (rel ++ [Ev.shutOut i])
    if b == .panic then ⟨head, true, ex⟩
    else
      let r := shutHooks met sent reqs (ex || b == .block) rest
      ⟨head ++ r.evs, r.panicked, r.expired⟩

/-- the hooks numbered from `i` in the order in which `for i := len(hooks)-1; i >= 0; i--` calls them -/
def lifo : Nat → List HB → List (Nat × HB)
  | _, [] => []
  | i, b :: rest => lifo (i + 1) rest ++ [(i, b)]

/-! ### server.Shutdown: the drain -/

/-- requests the drainer releases once the listener is closed (none when the deadline has passed) -/
def drainEvs (met : Bool) : Nat → List Rel → List Ev
  | _, [] => []
  | k, q :: rest => (if q == .drain then [Ev.reqFin k met] else []) ++ drainEvs met (k + 1) rest

/-- is request `q` still in flight when the drain can no longer wait for it? -/
def stuck (nShut : Nat) (expired : Bool) : Rel → Bool
  | .hook j => j ≥ nShut
  | .drain => expired
  | .never => true
  | .hijack => false   -- not the drain's business

/-! ### executeStopHooks (each under its own recover) -/

def stopHooks : Nat → List HB → List Ev
  | _, [] => []
  | i, _ :: rest => Ev.stopIn i false false :: Ev.stopOut i :: stopHooks (i + 1) rest

/-- `executeStopHooks` statement by statement, with the hook behaviours: `perHook` = every hook runs inside its own
    `func() { defer recover … hook() }()` (what the source has: Tie `hook_loops_obligation`, `perHookRecover` of
    `executeStopHooks`); without it a panicking hook leaves the loop — the remaining hooks never run and the panic goes on
    into `runServer` (the second component). `stopHooks` above is this function with `perHook := true`
    (`Props/C09Whole.lean`, `stopHooks_is_exec_with_recover`). -/
def stopHooksExec (perHook : Bool) : Nat → List HB → List Ev × Bool
  | _, [] => ([], false)
  | i, b :: rest =>
    if b == .panic && !perHook then ([Ev.stopIn i false false, Ev.stopOut i], true)
    else
      let r := stopHooksExec perHook (i + 1) rest
      (Ev.stopIn i false false :: Ev.stopOut i :: r.1, r.2)

/-! ### results of the requests -/

def reqResOf (sent : Bool) (shutRan : Nat → Bool) (drained : Bool) : Rel → ReqRes
  | .hook j => if sent && shutRan j then .complete else .na
  | .drain => if sent && drained then .complete else .na
  | .never => .na
  | .hijack => if sent then .complete else .na

/-- did OnShutdown hook `j` run? (`firstPanic` = index of the panicking hook that ended the loop) -/
def shutRanIdx (nShut : Nat) (firstPanic : Option Nat) (j : Nat) : Bool :=
  j < nShut && match firstPanic with
    | some p => p ≤ j
    | none => true

/-- highest index of a panicking OnShutdown hook = the first one to panic in LIFO order -/
def firstPanicIdx : List (Nat × HB) → Option Nat
  | [] => none
  | (i, b) :: rest => if b == .panic then some i else firstPanicIdx rest

/-! ### the whole run -/

def flushIf (b : Bool) : List Ev := if b then [Ev.flush] else []

/-- `shutdownObservability` after a failed start-up (K09b): synchronous flush, metrics server closed -/
def abortObs (fx : Fixes) (sc : Scenario) : List Ev := flushIf (fx.b && sc.tracing)

def naReqs (sc : Scenario) : List ReqRes := sc.reqs.map fun _ => .na
def naRounds (sc : Scenario) : List RRes := sc.rounds.map fun _ => .na

def reqIns : Nat → List Rel → List Ev
  | _, [] => []
  | k, _ :: rest => Ev.reqIn k :: reqIns (k + 1) rest

/-- The log, segment by segment, in the order in which the code (and the environment around it)
    produces it. A path through `Start` that ends early leaves the later segments empty. -/
structure Segs where
  /-- executeStartHooks (with the stop signal, if it arrives there) -/
  starts : List Ev := []
  /-- executeReadyHooks -/
  readies : List Ev := []
  /-- the requests of the environment entering their handlers -/
  reqIns : List Ev := []
  /-- reload rounds while the select loop runs (with the stop signal, if it arrives inside one) -/
  reloads : List Ev := []
  /-- the stop signal, if it has not arrived before -/
  sig : List Ev := []
  /-- executeShutdownHooks, with the requests released from inside the hooks -/
  shuts : List Ev := []
  /-- server.Shutdown: requests released during the drain -/
  drain : List Ev := []
  /-- shutdownObservability -/
  flush : List Ev := []
  /-- executeStopHooks -/
  stops : List Ev := []
  /-- after `Start` has returned: the rest of a programmatic reload that was under way -/
  post : List Ev := []
  deriving Repr

def Segs.log (s : Segs) : List Ev :=
  s.starts ++ s.readies ++ s.reqIns ++ s.reloads ++ s.sig ++ s.shuts ++ s.drain ++ s.flush ++ s.stops ++
    [Ev.ret] ++ s.post

/-- a run: the segments of the log and what else is observed -/
structure Run where
  segs : Segs
  res : Res
  finApp : Bool
  finMet : Bool
  /-- the startup log buffer (`logging.StartBuffering` in `New`, flushed by the serving goroutine after
      the banner) still holds what was logged during start-up -/
  finHeld : Bool
  reqs : List ReqRes
  rounds : List RRes
  deriving Repr

def Run.obs (r : Run) : Obs :=
  { log := r.segs.log, res := r.res, finApp := r.finApp, finMet := r.finMet, finHeld := r.finHeld,
    reqs := r.reqs, rounds := r.rounds }

/-- what the shutdown sequence of `runServer` adds to a run -/
structure Tail where
  shuts : List Ev
  drain : List Ev
  flush : List Ev
  stops : List Ev
  res : Res
  finApp : Bool
  finMet : Bool
  reqs : List ReqRes
  deriving Repr

/-- the shutdown sequence of `runServer` after `<-ctx.Done()`; `sent` = requests are in flight.
    It depends on nothing that happened before it (in particular on no reload). -/
def shutdownTail (fx : Fixes) (sc : Scenario) (race sent : Bool) : Tail :=
  let met := sc.metrics
  let order := lifo 0 sc.shuts
  let sh := shutHooks met sent sc.reqs false order
  let fp := firstPanicIdx order
  let ranJ := shutRanIdx sc.shuts.length fp
  if sh.panicked then
    -- the panic leaves executeShutdownHooks, runServer and Start
    { shuts := sh.evs, drain := [], flush := [], stops := [], res := .panic, finApp := true, finMet := met,
      reqs := sc.reqs.map (reqResOf sent ranJ false) }
  else
    let drained := sent && !sh.expired
    let dEvs := if drained then drainEvs met 0 sc.reqs else []
    let anyStuck := sent && sc.reqs.any (stuck sc.shuts.length sh.expired)
    -- Shutdown(ctx): polls until the context ends; with an ended context it checks once (`race`)
    let timeout := anyStuck || (sh.expired && race)
    let reqs := sc.reqs.map (reqResOf sent ranJ drained)
    if timeout && !fx.c then
      { shuts := sh.evs, drain := dEvs, flush := [], stops := [], res := .errDrain, finApp := false,
        finMet := met, reqs := reqs }
    else
      -- the context handed to shutdownObservability has ended iff the budget is used up
      let ctxEnded := sh.expired || timeout
      let fl := flushIf (sc.tracing && (fx.e || !ctxEnded))
      { shuts := sh.evs, drain := dEvs, flush := fl, stops := stopHooks 0 sc.stops,
        res := if timeout then .errDrain else .ok, finApp := false, finMet := false, reqs := reqs }

/-- a run that reaches the shutdown sequence: `s` holds what happened before it -/
def shutdownSeq (fx : Fixes) (sc : Scenario) (race sent : Bool) (s : Segs) (rres : List RRes) : Run :=
  let t := shutdownTail fx sc race sent
  { segs := { s with shuts := t.shuts, drain := t.drain, flush := t.flush, stops := t.stops },
    -- the serving goroutine flushed the startup logs before it signalled readiness
    res := t.res, finApp := t.finApp, finMet := t.finMet, finHeld := false, reqs := t.reqs, rounds := rres }

/-- `App.Start` in the environment of the harness, segment by segment. -/
def runSegs (fx : Fixes) (sc : Scenario) (race : Bool) : Run :=
  let met := sc.metrics           -- startObservability: the metrics server accepts from here on
  let st := startHooks met 0 false sc.starts
  match st.out with
  | .panicked =>
    { segs := { starts := st.evs }, res := .panic, finApp := false, finMet := met, finHeld := true,
      reqs := naReqs sc, rounds := naRounds sc }
  | .failed =>
    { segs := { starts := st.evs, flush := abortObs fx sc }, res := .errStartup, finApp := false,
      finMet := met && !fx.b, finHeld := !fx.g, reqs := naReqs sc, rounds := naRounds sc }
  | .done =>
    if sc.listen != .ok then
      -- K09a: as shipped, readiness is signalled before ListenAndServe has bound the socket
      let rd := if fx.a then [] else readyHooks false met 0 sc.readies
      -- (as shipped the serving goroutine had flushed the startup logs before the listen failed)
      { segs := { starts := st.evs, readies := rd, flush := abortObs fx sc }, res := .errListen,
        finApp := false, finMet := met && !fx.b, finHeld := fx.a && !fx.g, reqs := naReqs sc,
        rounds := naRounds sc }
    else
      let rd := readyHooks true met 0 sc.readies
      if st.cancelled then
        -- the signal arrived during start-up: the select loop sees ctx.Done() at once
        shutdownSeq fx sc race false { starts := st.evs, readies := rd } (naRounds sc)
      else
        let lp := roundsFrom fx sc.nReload ⟨[], [], false, false, []⟩ 0 sc.rounds
        let s : Segs := { starts := st.evs, readies := rd, reqIns := reqIns 0 sc.reqs, reloads := lp.pre }
        if lp.dead then
          -- K09d: the panic of a reload hook leaves Reload, the select loop, runServer and Start
          { segs := s, res := .panic, finApp := true, finMet := met, finHeld := false, reqs := naReqs sc,
            rounds := lp.res }
        else
          shutdownSeq fx sc race true { s with sig := sigIf (!lp.cancelled), post := lp.post } lp.res

/-- what the harness observes -/
def run (fx : Fixes) (sc : Scenario) (race : Bool) : Obs := (runSegs fx sc race).obs

/-- the code in /repo now -/
def current : Fixes := repaired

end Rivaas.Lifecycle
