import Rivaas.Basic
import Rivaas.Model.Accept
/-
C06 — model of `app.Context.Fail` / `FailStatus` / the status helpers and of the three formatters of
`rivaas.dev/errors`.

Anchors: app/context.go (`Fail`, `FailStatus`, `fail`, `selectFormatter`, `NotFound` …),
app/options.go (`WithErrorFormatter`, `WithErrorFormatters`, `WithDefaultErrorFormat`), app/app.go
(`defaultConfig`: `errors.formatter = &RFC9457{}`), errors/rfc9457.go, errors/jsonapi.go,
errors/simple.go, errors/formatter.go (`WithStatus`, `statusError`), router/context.go (`JSON`,
`Abort`).

Parameters (evaluated for real by the harness and shipped in the case): `http.StatusText`,
`encoding/json` (the canonical JSON of `Details()`), `router.Context.Accepts` (its answer for every
order of the configured media types — the map iteration order in `selectFormatter` is not
observable), `net/http`'s rules for statuses that cannot carry a body. Core Lean only.
-/
namespace Rivaas.ErrFmt

/-- JSON values in canonical form (objects as key/value lists; numbers by their literal text) -/
inductive Json where
  | null
  | bool (b : Bool)
  | num (text : Bytes)
  | str (s : Bytes)
  | arr (xs : List Json)
  | obj (kvs : List (Bytes × Json))
  deriving Repr, Inhabited

mutual
  def Json.beq : Json → Json → Bool
    | .null, .null => true
    | .bool a, .bool b => a == b
    | .num a, .num b => a == b
    | .str a, .str b => a == b
    | .arr a, .arr b => Json.beqList a b
    | .obj a, .obj b => Json.beqKvs a b
    | _, _ => false
  def Json.beqList : List Json → List Json → Bool
    | [], [] => true
    | a :: as, b :: bs => Json.beq a b && Json.beqList as bs
    | _, _ => false
  def Json.beqKvs : List (Bytes × Json) → List (Bytes × Json) → Bool
    | [], [] => true
    | (k, a) :: as, (k', b) :: bs => k == k' && Json.beq a b && Json.beqKvs as bs
    | _, _ => false
end

instance : BEq Json := ⟨Json.beq⟩

def Json.get? (k : Bytes) : Json → Option Json
  | .obj kvs => (kvs.find? fun kv => kv.1 == k).map (·.2)
  | _ => none

/-- byte-wise lexicographic order (encoding/json sorts map keys this way) -/
def bytesLt : Bytes → Bytes → Bool
  | [], [] => false
  | [], _ :: _ => true
  | _ :: _, [] => false
  | a :: as, b :: bs => a.toNat < b.toNat || (a == b && bytesLt as bs)

def insertKv (kv : Bytes × Json) : List (Bytes × Json) → List (Bytes × Json)
  | [] => [kv]
  | x :: xs => if bytesLt kv.1 x.1 then kv :: x :: xs else x :: insertKv kv xs

/-- object members sorted by key (top level only: nested values arrive canonical already) -/
def sortKvs (kvs : List (Bytes × Json)) : List (Bytes × Json) := kvs.foldr insertKv []

mutual
  /-- every object's members sorted by key, recursively (the form the harness ships bodies in) -/
  def Json.canon : Json → Json
    | .arr xs => .arr (Json.canonList xs)
    | .obj kvs => .obj (sortKvs (Json.canonKvs kvs))
    | j => j
  def Json.canonList : List Json → List Json
    | [] => []
    | x :: xs => Json.canon x :: Json.canonList xs
  def Json.canonKvs : List (Bytes × Json) → List (Bytes × Json)
    | [] => []
    | (k, v) :: rest => (k, Json.canon v) :: Json.canonKvs rest
end

/-- decimal digits, most significant first; `fuel` bounds the number of digits -/
def natDigits : Nat → Nat → Bytes
  | 0, n => [Char.ofNat (48 + n % 10)]
  | fuel+1, n => if n < 10 then [Char.ofNat (48 + n)] else natDigits fuel (n / 10) ++ [Char.ofNat (48 + n % 10)]

/-- `strconv.Itoa` for a non-negative number (a number has at most as many digits as its value + 1) -/
def natBytes (n : Nat) : Bytes := natDigits n n

/-! ### member names (explicit character lists: they reduce without unfolding `String`) -/

def kType : Bytes := ['t', 'y', 'p', 'e']
def kTitle : Bytes := ['t', 'i', 't', 'l', 'e']
def kStatus : Bytes := ['s', 't', 'a', 't', 'u', 's']
def kDetail : Bytes := ['d', 'e', 't', 'a', 'i', 'l']
def kInstance : Bytes := ['i', 'n', 's', 't', 'a', 'n', 'c', 'e']
def kErrorId : Bytes := ['e', 'r', 'r', 'o', 'r', '_', 'i', 'd']
def kErrors : Bytes := ['e', 'r', 'r', 'o', 'r', 's']
def kCode : Bytes := ['c', 'o', 'd', 'e']
def kId : Bytes := ['i', 'd']
def kSource : Bytes := ['s', 'o', 'u', 'r', 'c', 'e']
def kPointer : Bytes := ['p', 'o', 'i', 'n', 't', 'e', 'r']
def kMeta : Bytes := ['m', 'e', 't', 'a']
def kDetails : Bytes := ['d', 'e', 't', 'a', 'i', 'l', 's']
def kError : Bytes := ['e', 'r', 'r', 'o', 'r']
def kPath : Bytes := ['p', 'a', 't', 'h']
def kMessage : Bytes := ['m', 'e', 's', 's', 'a', 'g', 'e']

/-! ### error values -/

/-- which of the three optional interfaces a layer implements, with what it returns -/
structure Caps where
  /-- `ErrorType.HTTPStatus()` -/
  st : Option Nat := none
  /-- `ErrorCode.Code()` -/
  code : Option Bytes := none
  /-- `ErrorDetails.Details()`, as the canonical JSON `encoding/json` makes of it -/
  det : Option Json := none
  /-- the value `Details()` returns cannot be encoded by `encoding/json` (a NaN, a channel, a value whose
      `MarshalJSON` fails): `det` is then only a placeholder -/
  detBad : Bool := false
  deriving Repr, Inhabited

/-- how a layer computes `Error()` -/
inductive Msg where
  /-- its own text (`errors.New`, a user type, `validation.Error`) -/
  | own (m : Bytes)
  /-- `fmt.Errorf(pre + ": %w", e)` -/
  | prefixed (pre : Bytes)
  /-- `errors.Join`: the children's texts joined by newlines -/
  | joined
  /-- `statusError` around a non-nil error: the wrapped error's text -/
  | inherit
  /-- `statusError` around nil: `http.StatusText(status)` -/
  | statusText (s : Nat)
  deriving Repr, Inhabited

/-- a Go error value as `errors.As` sees it: what the layer itself implements, then what `Unwrap()`
    yields (one child for `Unwrap() error`, several for `Unwrap() []error`, none for a leaf) -/
inductive Err where
  | node (caps : Caps) (msg : Msg) (kids : List Err)
  deriving Repr, Inhabited

namespace Err
def new (m : Bytes) : Err := .node {} (.own m) []
def wrap (pre : Bytes) (e : Err) : Err := .node {} (.prefixed pre) [e]
def join (es : List Err) : Err := .node {} .joined es
/-- `errors.WithStatus(e, s)` -/
def withStatus (s : Nat) (e : Err) : Err := .node { st := some s } .inherit [e]
/-- `errors.WithStatus(nil, s)` -/
def withStatusNil (s : Nat) : Err := .node { st := some s } (.statusText s) []
/-- a user type (or `validation.Error`, `validation.FieldError`) with or without `Unwrap` -/
def typed (c : Caps) (m : Bytes) (inner : Option Err) : Err := .node c (.own m) inner.toList
end Err

mutual
  /-- `errors.As(err, &target)` for an interface target: pre-order, the layer itself first, then its
      `Unwrap` results left to right -/
  def findCap {α : Type} (sel : Caps → Option α) : Err → Option α
    | .node caps _ kids => match sel caps with
      | some a => some a
      | none => findCapL sel kids
  def findCapL {α : Type} (sel : Caps → Option α) : List Err → Option α
    | [] => none
    | e :: es => match findCap sel e with
      | some a => some a
      | none => findCapL sel es
end

def asStatus (e : Err) : Option Nat := findCap (·.st) e
def asCode (e : Err) : Option Bytes := findCap (·.code) e
def asDetails (e : Err) : Option Json := findCap (·.det) e

def intercalateNl : List Bytes → Bytes
  | [] => []
  | [m] => m
  | m :: rest => m ++ ['\n'] ++ intercalateNl rest

mutual
  /-- `err.Error()`; `stText` is `http.StatusText` -/
  def msgOf (stText : Nat → Bytes) : Err → Bytes
    | .node _ (.own m) _ => m
    | .node _ (.prefixed pre) kids => pre ++ ": ".toList ++ msgHead stText kids
    | .node _ .joined kids => intercalateNl (msgsOf stText kids)
    | .node _ .inherit kids => msgHead stText kids
    | .node _ (.statusText s) _ => stText s
  def msgHead (stText : Nat → Bytes) : List Err → Bytes
    | [] => []
    | e :: _ => msgOf stText e
  def msgsOf (stText : Nat → Bytes) : List Err → List Bytes
    | [] => []
    | e :: es => msgOf stText e :: msgsOf stText es
end

/-! ### formatters -/

inductive FKind where
  | rfc9457 | jsonapi | simple
  deriving DecidableEq, Repr, Inhabited

/-- a formatter value as configured -/
structure Fmt where
  kind : FKind
  /-- `RFC9457.BaseURL` -/
  baseURL : Bytes := []
  /-- `RFC9457.DisableErrorID` -/
  disableID : Bool := false
  /-- `StatusResolver` returning a constant, if set -/
  statusRes : Option Nat := none
  /-- `RFC9457.TypeResolver` returning a constant, if set -/
  typeRes : Option Bytes := none
  deriving Repr, Inhabited

/-- `errors.Response` (Body as canonical JSON; generated ids blanked to `ID`) -/
structure FResp where
  status : Nat
  contentType : Bytes
  body : Json
  deriving Repr, Inhabited

/-- request/environment facts the formatters read -/
structure Env where
  /-- `req.URL.Path` -/
  path : Bytes
  /-- `http.StatusText` -/
  stText : Nat → Bytes

def ctRFC : Bytes := "application/problem+json; charset=utf-8".toList
def ctJSONAPI : Bytes := "application/vnd.api+json; charset=utf-8".toList
def ctSimple : Bytes := "application/json; charset=utf-8".toList
def blankID : Json := .str "ID".toList

/-- `determineStatus` (the same in all three formatters) -/
def determineStatus (f : Fmt) (e : Err) : Nat :=
  match f.statusRes with
  | some s => s
  | none => match asStatus e with
    | some s => s
    | none => 500

/-- `RFC9457.determineType` -/
def determineType (f : Fmt) (e : Err) : Bytes :=
  match f.typeRes with
  | some t => t
  | none => match asCode e with
    | some code => if !f.baseURL.isEmpty then f.baseURL ++ ['/'] ++ code else code
    | none => "about:blank".toList

def reserved : List Bytes :=
  [kType, kTitle, kStatus, kDetail, kInstance]

/-- `ProblemDetail` -/
structure Problem where
  type : Bytes
  title : Bytes
  status : Nat
  detail : Bytes
  instance_ : Bytes
  extensions : List (Bytes × Json)
  deriving Repr, Inhabited

/-- `ProblemDetail.MarshalJSON`: the map `m` before `json.Marshal` sorts it. Extensions are a Go map
    (distinct keys), so the order of the `m[k] = v` assignments does not matter. -/
def marshalProblemKvs (p : Problem) : List (Bytes × Json) :=
  [(kType, .str p.type), (kTitle, .str p.title), (kStatus, .num (natBytes p.status))]
  ++ (if p.detail.isEmpty then [] else [(kDetail, .str p.detail)])
  ++ (if p.instance_.isEmpty then [] else [(kInstance, .str p.instance_)])
  ++ p.extensions.filter fun kv => !(reserved.contains kv.1)

def marshalProblem (p : Problem) : Json := .obj (sortKvs (marshalProblemKvs p))

/-- the `Extensions` map `RFC9457.Format` fills: `error_id`, `errors`, `code` -/
def rfcExtensions (f : Fmt) (e : Err) : List (Bytes × Json) :=
  (if f.disableID then [] else [(kErrorId, blankID)])
  ++ (match asDetails e with | some d => [(kErrors, d)] | none => [])
  ++ (match asCode e with | some c => [(kCode, .str c)] | none => [])

/-- the `ProblemDetail` built by `RFC9457.Format` -/
def rfcProblem (env : Env) (f : Fmt) (e : Err) : Problem :=
  { type := determineType f e, title := env.stText (determineStatus f e), status := determineStatus f e,
    detail := msgOf env.stText e, instance_ := env.path, extensions := rfcExtensions f e }

/-- `RFC9457.Format` -/
def formatRFC (env : Env) (f : Fmt) (e : Err) : FResp :=
  { status := determineStatus f e, contentType := ctRFC, body := marshalProblem (rfcProblem env f e) }

/-- `convertPathToPointer` -/
def pathToPointer (path : Bytes) : Bytes :=
  if path.isEmpty then [] else "/data/attributes/".toList ++ path.map fun c => if c == '.' then '/' else c

/-- one `jsonAPIError` as `encoding/json` renders it (struct field order, `omitempty`) -/
def jsonAPIErrorJson (status title : Bytes) (code detail : Bytes) (pointer : Option Bytes) (metaV : Option Json) : Json :=
  .obj (
    [(kId, blankID)]
    ++ (if status.isEmpty then [] else [(kStatus, .str status)])
    ++ (if code.isEmpty then [] else [(kCode, .str code)])
    ++ (if title.isEmpty then [] else [(kTitle, .str title)])
    ++ (if detail.isEmpty then [] else [(kDetail, .str detail)])
    ++ (match pointer with | some p => [(kSource, .obj (if p.isEmpty then [] else [(kPointer, .str p)]))] | none => [])
    ++ (match metaV with | some m => [(kMeta, m)] | none => []))

def strField (k : Bytes) (field : Json) : Bytes :=
  match field.get? k with
  | some (.str s) => s
  | _ => []

/-- the loop body of `JSONAPI.Format` for one element of the details slice -/
def jsonAPIFieldError (status title errMsg : Bytes) (field : Json) : Json :=
  match field with
  | .obj _ =>
    let path := strField kPath field
    let message := strField kMessage field
    let metaV := match field.get? kMeta with
      | some (.obj kvs) => if kvs.isEmpty then none else some (.obj kvs)
      | _ => none
    jsonAPIErrorJson status title (strField kCode field) (if message.isEmpty then errMsg else message)
      (if path.isEmpty then none else some (pathToPointer path)) metaV
  | _ => jsonAPIErrorJson status title [] errMsg none none

/-- `if len(apiErrors) == 0 { apiErrors = []jsonAPIError{d} }` -/
def orSingle (l : List Json) (d : Json) : List Json := if l.isEmpty then [d] else l

/-- "It's a slice - convert each field error": nothing unless the details marshal to a JSON array -/
def jsonAPIFieldErrors (status title errMsg : Bytes) : Json → List Json
  | .arr xs => xs.map (jsonAPIFieldError status title errMsg)
  | _ => []

/-- the `errors.As(err, &detailed)` branch of `JSONAPI.Format`: one error per element of the details
    slice; if that gave nothing, one generic error carrying the details as meta -/
def jsonAPIFromDetails (status title errMsg : Bytes) (det : Json) : List Json :=
  orSingle (jsonAPIFieldErrors status title errMsg det)
    (jsonAPIErrorJson status title [] errMsg none (some (.obj [(kDetails, det)])))

/-- the `apiErrors` slice before the final guard -/
def jsonAPIErrorsRaw (env : Env) (f : Fmt) (e : Err) : List Json :=
  match asDetails e with
  | some det => jsonAPIFromDetails (natBytes (determineStatus f e)) (env.stText (determineStatus f e)) (msgOf env.stText e) det
  | none => [jsonAPIErrorJson (natBytes (determineStatus f e)) (env.stText (determineStatus f e)) ((asCode e).getD [])
              (msgOf env.stText e) none none]

/-- the `apiErrors` slice at the end of `JSONAPI.Format` (with its final "be safe" guard) -/
def jsonAPIErrors (env : Env) (f : Fmt) (e : Err) : List Json :=
  orSingle (jsonAPIErrorsRaw env f e)
    (jsonAPIErrorJson (natBytes (determineStatus f e)) (env.stText (determineStatus f e)) [] (msgOf env.stText e) none none)

/-- `JSONAPI.Format` -/
def formatJSONAPI (env : Env) (f : Fmt) (e : Err) : FResp :=
  { status := determineStatus f e, contentType := ctJSONAPI, body := .obj [(kErrors, .arr (jsonAPIErrors env f e))] }

/-- the `body` map of `Simple.Format` -/
def simpleKvs (env : Env) (e : Err) : List (Bytes × Json) :=
  [(kError, .str (msgOf env.stText e))]
  ++ (match asDetails e with | some d => [(kDetails, d)] | none => [])
  ++ (match asCode e with | some c => [(kCode, .str c)] | none => [])

/-- `Simple.Format` -/
def formatSimple (env : Env) (f : Fmt) (e : Err) : FResp :=
  { status := determineStatus f e, contentType := ctSimple, body := .obj (sortKvs (simpleKvs env e)) }

def format (env : Env) (f : Fmt) (e : Err) : FResp :=
  match f.kind with
  | .rfc9457 => formatRFC env f e
  | .jsonapi => formatJSONAPI env f e
  | .simple => formatSimple env f e

/-! ### configuration and formatter selection -/

/-- the three app options that touch `config.errors`, in the order given to `app.New` -/
inductive Opt where
  | formatter (f : Fmt)
  | formatters (m : List (Bytes × Fmt))
  | defaultFormat (mt : Bytes)
  deriving Repr, Inhabited

/-- `errorsConfig` -/
structure Cfg where
  formatter : Option Fmt
  formatters : List (Bytes × Fmt)
  defaultFormat : Bytes
  deriving Repr, Inhabited

/-- `defaultConfig()`: `errors: &errorsConfig{formatter: &errors.RFC9457{}}` -/
def defaultCfg : Cfg := { formatter := some { kind := .rfc9457 }, formatters := [], defaultFormat := [] }

/-- `WithErrorFormatter` / `WithErrorFormatters` / `WithDefaultErrorFormat`.
    `WithErrorFormatters` clears the single formatter (K06b repair), so that negotiation is reached. -/
def applyOpt (c : Cfg) : Opt → Cfg
  | .formatter f => { c with formatter := some f }
  | .formatters m => { c with formatters := m, formatter := none }
  | .defaultFormat mt => { c with defaultFormat := mt }

/-- as shipped (K06b): the default single formatter stays in place and shadows the map -/
def applyOptAsIs (c : Cfg) : Opt → Cfg
  | .formatter f => { c with formatter := some f }
  | .formatters m => { c with formatters := m }
  | .defaultFormat mt => { c with defaultFormat := mt }

def mkCfg (opts : List Opt) : Cfg := opts.foldl applyOpt defaultCfg
def mkCfgAsIs (opts : List Opt) : Cfg := opts.foldl applyOptAsIs defaultCfg

def lookupFmt (mt : Bytes) (m : List (Bytes × Fmt)) : Option Fmt :=
  (m.find? fun kv => kv.1 == mt).map (·.2)

def fallbackFmt : Fmt := { kind := .rfc9457 }

/-- `selectFormatter`, given what `c.Accepts(offers...)` answered (`""` = no match) -/
def selectFormatter (c : Cfg) (acceptsAnswer : Bytes) : Fmt :=
  match c.formatter with
  | some f => f
  | none =>
    if c.formatters.isEmpty then fallbackFmt
    else
      match (if acceptsAnswer.isEmpty then none else lookupFmt acceptsAnswer c.formatters) with
      | some f => f
      | none =>
        match (if c.defaultFormat.isEmpty then none else lookupFmt c.defaultFormat c.formatters) with
        | some f => f
        | none => fallbackFmt

/-! ### the call and the response -/

/-- the ten status helpers -/
inductive Helper where
  | notFound | badRequest | unauthorized | forbidden | conflict | gone | unprocessable | tooMany | internal | unavailable
  deriving DecidableEq, Repr, Inhabited

def Helper.status : Helper → Nat
  | .notFound => 404 | .badRequest => 400 | .unauthorized => 401 | .forbidden => 403 | .conflict => 409
  | .gone => 410 | .unprocessable => 422 | .tooMany => 429 | .internal => 500 | .unavailable => 503

inductive Call where
  /-- `c.Fail(err)`, err non-nil -/
  | fail (e : Err)
  /-- `c.FailStatus(s, err)`, err may be nil -/
  | failStatus (s : Nat) (e : Option Err)
  /-- `c.NotFound(err)` …, err may be nil -/
  | helper (h : Helper) (e : Option Err)
  deriving Repr, Inhabited

/-- `c.MustBind(out, opts...)`: `Bind`'s error, if any, goes to `Fail` (and the handler is told to stop);
    `bindErr` is what `c.Bind` returned (binding and validation are C04's and C05's subjects) -/
def mustBind (bindErr : Option Err) : Option Call := bindErr.map .fail

/-- the error handed to `fail` -/
def Call.err : Call → Err
  | .fail e => e
  | .failStatus s (some e) => .withStatus s e
  | .failStatus s none => .withStatusNil s
  | .helper h (some e) => .withStatus h.status e
  | .helper h none => .withStatusNil h.status

/-- how the response is observed: `httptest.ResponseRecorder` or a real `net/http` server + client -/
inductive Wire where
  | recorder | server
  deriving DecidableEq, Repr, Inhabited

/-- what the client sees -/
structure Resp where
  status : Nat
  contentType : Bytes
  /-- the JSON values found in the body, in order -/
  bodies : List Json
  /-- `c.IsAborted()` right after the call -/
  aborted : Bool
  /-- positions of the chain entered, in order -/
  entered : List Nat
  deriving Repr, Inhabited

/-- net/http (parameter): `WriteHeader` with an informational status other than 101 is not final (the
    body then goes out under an implicit 200); 101, 204 and 304 cannot carry a body; a 304 also loses
    its Content-Type -/
def overWire (w : Wire) (status : Nat) (ct : Bytes) (body : Json) : Nat × Bytes × List Json :=
  match w with
  | .recorder => (status, ct, [body])
  | .server =>
    if 100 ≤ status ∧ status ≤ 199 ∧ status ≠ 101 then (200, ct, [body])
    else if status = 101 ∨ status = 204 then (status, ct, [])
    else if status = 304 then (status, [], [])
    else (status, ct, [body])

/-- does `json.NewEncoder(&body).Encode(response.Body)` succeed? The body of each of the three formatters
    embeds the value of the first `ErrorDetails` layer (`errors` / `details` / `meta.details`; JSON:API
    falls back to `meta.details` when `json.Marshal(details)` fails) and otherwise only strings and
    numbers, which always encode. -/
def bodyEncodes (e : Err) : Bool := (findCap (fun c => c.det.map fun _ => !c.detBad) e).getD true

/-- `riverrors.WithStatus(errors.New(err.Error()), response.Status)`: what `fail` formats instead when the
    body of the first attempt cannot be encoded (K06d repair) -/
def plainErr (stText : Nat → Bytes) (status : Nat) (e : Err) : Err := .withStatus status (.new (msgOf stText e))

/-- the `errors.Response` `fail` ends up writing: the formatter's, or — when that body does not encode —
    the formatter's answer for the error text alone under the same status -/
def failResp (env : Env) (f : Fmt) (e : Err) : FResp :=
  if bodyEncodes e then format env f e
  else format env f (plainErr env.stText (format env f e).status e)

/-- what the `slog.ErrorContext(…, "handler error", "error", err, …, "status", response.Status)` record
    of `fail` carries: the text of the error handed in and the status of the first `Format` call -/
structure LogRec where
  error : Bytes
  status : Nat
  deriving Repr, DecidableEq

def failLog (env : Env) (cfg : Cfg) (acceptsAnswer : Bytes) (call : Call) : LogRec :=
  { error := msgOf env.stText call.err, status := (format env (selectFormatter cfg acceptsAnswer) call.err).status }

/-- the marker the harness uses for the `"failed to write JSON response"` record (no error text of ours, status 0) -/
def encodeFailureRec : LogRec := { error := "failed to write JSON response".toList, status := 0 }

/-- every record `fail` logs, in order: the `"handler error"` record, then — when the first body does not encode —
    the `"failed to write JSON response"` record (the fallback body always encodes for the three formatters) -/
def failLogs (env : Env) (cfg : Cfg) (acceptsAnswer : Bytes) (w : Wire) (call : Call) : List LogRec :=
  failLog env cfg acceptsAnswer call :: (if bodyEncodes call.err then [] else [encodeFailureRec]) ++
  -- net/http (parameter): over a real connection `Write` reports `ErrBodyNotAllowed` after a 101, 204 or 304
  -- header, which `fail` logs under the same message (K06c)
  (if w == .server && ((failResp env (selectFormatter cfg acceptsAnswer) call.err).status == 101 ||
        (failResp env (selectFormatter cfg acceptsAnswer) call.err).status == 204 ||
        (failResp env (selectFormatter cfg acceptsAnswer) call.err).status == 304) then [encodeFailureRec] else [])

/-- `Context.fail` at position `pos` of the handler chain: Abort, select, format, encode (with the
    fallback), set the Content-Type, write status and body once. After the K06 repair the body is
    written with the formatter's media type. -/
def fail (env : Env) (cfg : Cfg) (acceptsAnswer : Bytes) (w : Wire) (pos : Nat) (call : Call) : Resp :=
  let f := selectFormatter cfg acceptsAnswer
  let r := failResp env f call.err
  let (st, ct, bodies) := overWire w r.status r.contentType r.body
  { status := st, contentType := ct, bodies := bodies, aborted := true, entered := List.range (pos + 1) }

/-- `fail` with a formatter outside the three (the `Formatter` interface is public) whose `Body` never
    encodes: both encoding attempts fail, `fail` sets status 500 and writes no body. The chain was
    aborted by the first statement of `fail` all the same. -/
def failUnencodable (pos : Nat) : Resp :=
  { status := 500, contentType := [], bodies := [], aborted := true, entered := List.range (pos + 1) }

/-- `fail` after a prelude in the same handler chain: the response header map may already carry a
    Content-Type (`preCT`: set earlier by a middleware or by the failing handler itself through `c.Header`)
    and the chain may already be aborted (`abortedBefore`: a guard that calls `c.Abort()` and then
    `c.Forbidden(err)`). `c.Header("Content-Type", …)` is `http.Header.Set`, it replaces whatever was
    there; `c.Abort()` sets a flag that is already set. The request's context may be done (`ctxDone`:
    cancelled, or its deadline exceeded, while the handler ran — `FailStatus(504, err)` after a backend
    timeout): `fail` does not look at it, the client may well still be connected. None of the three plays
    any part in what is written. -/
def failH (_preCT : Option Bytes) (_abortedBefore : Bool) (_ctxDone : Bool) (env : Env) (cfg : Cfg) (acceptsAnswer : Bytes) (w : Wire)
    (pos : Nat) (call : Call) : Resp :=
  fail env cfg acceptsAnswer w pos call

/-! ### content negotiation inside the model: `c.Accepts(offers...)` is C19's model of router/accept.go -/

/-- `c.Accepts(offers...)` for the request's Accept header (`Model/Accept.lean`: no offers → `""`, no header →
    the first offer, else the best acceptable offer); `pf` is `strconv.ParseFloat` (parameter) -/
def acceptsOf (pf : Accept.PF) (accept : Option Bytes) (offers : List Bytes) : Bytes :=
  Accept.answer pf { kind := .accept, header := accept.getD [], offers := offers }

/-- all orders of a list: `selectFormatter` builds `offers` by ranging over the formatter map -/
def perms {α : Type} : List α → List (List α)
  | [] => [[]]
  | x :: xs => (perms xs).flatMap fun p => (List.range (p.length + 1)).map fun i => p.take i ++ x :: p.drop i

/-- `fail` with the negotiation inside: `order` is the order in which the map iteration produced the offers -/
def failN (pf : Accept.PF) (env : Env) (cfg : Cfg) (accept : Option Bytes) (order : List Bytes) (w : Wire)
    (pos : Nat) (call : Call) : Resp :=
  fail env cfg (acceptsOf pf accept order) w pos call

/-- as shipped (K06d): when the body did not encode `fail` returned after a log line — nothing written,
    the client got the implicit 200 with an empty body (the chain was aborted) -/
def failAsIsK06d (env : Env) (cfg : Cfg) (acceptsAnswer : Bytes) (w : Wire) (pos : Nat) (call : Call) : Resp :=
  if bodyEncodes call.err then fail env cfg acceptsAnswer w pos call
  else { status := 200, contentType := [], bodies := [], aborted := true, entered := List.range (pos + 1) }

/-- as shipped (K06): `c.JSON` overwrites the header with `application/json; charset=utf-8` -/
def failAsIs (env : Env) (cfg : Cfg) (acceptsAnswer : Bytes) (w : Wire) (pos : Nat) (call : Call) : Resp :=
  let f := selectFormatter cfg acceptsAnswer
  let r := format env f call.err
  let (st, ct, bodies) := overWire w r.status ctSimple r.body
  { status := st, contentType := ct, bodies := bodies, aborted := true, entered := List.range (pos + 1) }

end Rivaas.ErrFmt
