import Rivaas.Basic
/-
C13 — model of API-version routing: `router/version/{detectors,engine,options,lifecycle}.go`,
`router/versioning.go` (`processVersioning`, `selectRoutingTree`) and the versioned arms of
`router/serve.go` (`ServeHTTP`, `serveVersionedRequest`, `serveVersionedHandlers`).

The model follows the Go code statement by statement *as it is after the `fix:` commits for
K13a (query detection through `url.Values`), K13b (Accept slice bounds), K13c (sunset before the
`!Deprecated` return) and K13d (OWS before `;` in an Accept item)*. The shipped behaviour is kept as
`…AsIs` definitions for the witness theorems.

Parameters (evaluated for real by the harness, shipped in the case line, see `LibVal`):
`http.Header.Get`, `url.URL.Query` (`Has`/`Get`), the custom detector callback,
`time.Time.Format` (the two renderings of a sunset date). Route lookup *inside* one tree is C01's
subject; here every route is a static path and `treeLookup` follows `node.getRoute` on static-only
trees. Core Lean only.
-/
open Lean in
/-- `vb!"abc"` is the byte string `['a', 'b', 'c']` as a list literal (a `String.toList` of a literal does
    not reduce in the kernel in reasonable time, so `decide` witnesses need the list form) -/
macro:max "vb!" s:str : term => do
  let elems ← s.getString.toList.mapM fun c => `($(Syntax.mkCharLit c))
  `(([$(elems.toArray),*] : List Char))

namespace Rivaas.Version

/-! ### Go `strings` on `List Char` -/

def hasPrefix (s p : Bytes) : Bool := p.isPrefixOf s
def hasSuffix (s p : Bytes) : Bool := p.isSuffixOf s

/-- `strings.Index(s, sub)`; `none` is `-1` -/
def indexFrom (sub : Bytes) : Bytes → Nat → Option Nat
  | [], i => if sub.isEmpty then some i else none
  | c :: cs, i => if sub.isPrefixOf (c :: cs) then some i else indexFrom sub cs (i + 1)

def index (s sub : Bytes) : Option Nat := indexFrom sub s 0

/-- `strings.IndexByte(s, b)` -/
def indexByteFrom (b : Char) : Bytes → Nat → Option Nat
  | [], _ => none
  | c :: cs, i => if c = b then some i else indexByteFrom b cs (i + 1)

def indexByte (s : Bytes) (b : Char) : Option Nat := indexByteFrom b s 0

/-- the ASCII part of `unicode.IsSpace` (what `strings.TrimSpace` removes from a header value) -/
def isSpace (c : Char) : Bool :=
  c = ' ' || c = '\t' || c = '\n' || c = '\x0b' || c = '\x0c' || c = '\r'

def trimLeft (s : Bytes) : Bytes := s.dropWhile isSpace
def trimRight (s : Bytes) : Bytes := (s.reverse.dropWhile isSpace).reverse
/-- `strings.TrimSpace` -/
def trimSpace (s : Bytes) : Bytes := trimRight (trimLeft s)

/-- `strings.Split(s, string(sep))` (also the item sequence of `strings.SplitSeq`) -/
def splitByte (sep : Char) : Bytes → List Bytes
  | [] => [[]]
  | c :: cs =>
    if c = sep then [] :: splitByte sep cs
    else match splitByte sep cs with
      | [] => [[c]]
      | h :: t => (c :: h) :: t

def sliceFromTo (s : Bytes) (a b : Nat) : Bytes := (s.drop a).take (b - a)

def versionPlaceholder : Bytes := vb!"{version}"

/-! ### configuration -/

/-- a detection option in the order it is passed to `router.WithVersioning` -/
inductive DetOpt where
  | path (pattern : Bytes)
  | header (name : Bytes)
  | query (param : Bytes)
  | accept (pattern : Bytes)
  | custom (id : Nat)
  deriving Repr, DecidableEq

/-- what the standard library said about this request for one detection option (same position
    as the option): the model does not re-implement `net/http`, `net/url` or the user callback -/
inductive LibVal where
  /-- path detection reads `req.URL.Path` only -/
  | none
  /-- `req.Header.Get(name)` -/
  | header (v : Bytes)
  /-- `req.URL.Query().Has(param)`, `.Get(param)` -/
  | query (has : Bool) (get : Bytes)
  /-- `req.Header.Get("Accept")` -/
  | accept (v : Bytes)
  /-- the custom callback's return value -/
  | custom (v : Bytes)
  deriving Repr, DecidableEq

/-- `version.LifecycleConfig` (the fields that reach a response) -/
structure LC where
  deprecated : Bool
  /-- `SunsetDate` (Unix seconds) with its `http.TimeFormat` and `time.RFC3339` renderings; `none` = zero time -/
  sunset : Option (Nat × Bytes × Bytes)
  migration : Bytes
  deriving Repr, DecidableEq

structure Cfg where
  opts : List DetOpt
  dflt : Bytes
  valid : List Bytes
  sendVersionHeader : Bool
  sendWarning299 : Bool
  enforceSunset : Bool
  /-- the injected clock (Unix seconds) -/
  now : Nat
  /-- `r.Version(v, opts…)` calls with options, in call order (a later call replaces an earlier one) -/
  lifecycles : List (Bytes × LC)
  deriving Repr

/-- a registered route: `ver = none` is the main tree (`r.GET`), `some v` is `r.Version(v).GET` -/
structure Route where
  ver : Option Bytes
  method : Bytes
  path : Bytes
  deriving Repr, DecidableEq

structure Req where
  method : Bytes
  path : Bytes
  rawQuery : Bytes
  /-- one entry per detection option, same order as `Cfg.opts` -/
  lib : List LibVal
  deriving Repr

/-- what the harness observes -/
structure Obs where
  status : Nat
  /-- the handler that ran: (tree it was registered in, route path) -/
  handler : Option (Option Bytes × Bytes)
  /-- `Context.Version()` inside that handler -/
  version : Option Bytes
  hXAPIVersion : Option Bytes
  hDeprecation : Option Bytes
  hSunset : Option Bytes
  hLink : Option Bytes
  hWarning : Option Bytes
  deriving Repr, DecidableEq

/-! ### detectors (`detectors.go`) -/

structure PathDet where
  pattern : Bytes
  pfx : Bytes
  deriving Repr, DecidableEq

/-- `newPathDetector` -/
def newPathDetector (pattern : Bytes) : PathDet :=
  match index pattern versionPlaceholder with
  | some idx => { pattern := pattern, pfx := if idx > 0 then pattern.take idx else [] }
  | Option.none => { pattern := pattern, pfx := [] }

/-- `pathDetector.extractFromPath` -/
def PathDet.extractFromPath (d : PathDet) (path : Bytes) : Option Bytes :=
  if d.pfx = [] || !hasPrefix path d.pfx then Option.none else
  let remaining := path.drop d.pfx.length
  if remaining = [] then Option.none else
  -- strings.Cut(remaining, "/"): `before` when found, the whole string otherwise
  let segment := remaining.takeWhile (· != '/')
  if segment = [] then Option.none else
  if hasSuffix d.pfx ['v'] then some ('v' :: segment) else some segment

/-- `pathDetector.ExtractSegment` (the same text as `extractFromPath` in the Go source) -/
def PathDet.extractSegment (d : PathDet) (path : Bytes) : Option Bytes :=
  if d.pfx = [] || !hasPrefix path d.pfx then Option.none else
  let remaining := path.drop d.pfx.length
  if remaining = [] then Option.none else
  let segment := remaining.takeWhile (· != '/')
  if segment = [] then Option.none else
  if hasSuffix d.pfx ['v'] then some ('v' :: segment) else some segment

/-- `pathDetector.StripVersion` -/
def PathDet.stripVersion (d : PathDet) (path : Bytes) : Bytes :=
  if !hasPrefix path d.pfx then path else
  if d.pfx.length ≥ path.length then path else
  let remaining := path.drop d.pfx.length
  match indexByte remaining '/' with
  | Option.none => ['/']
  | some e => remaining.drop e

/-- prefix and suffix of an Accept pattern (`newAcceptDetector`; before K13e it was done lazily inside `Detect`) -/
def acceptParts (pattern : Bytes) : Bytes × Bytes :=
  match index pattern versionPlaceholder with
  | some idx => (pattern.take idx, pattern.drop (idx + 9))
  | Option.none => ([], [])

/-- the first statements of the loop body of `extractFromAccept`: trim, cut the parameters off -/
def acceptMediaType (item : Bytes) : Bytes :=
  let mediaType := trimSpace item
  match indexByte mediaType ';' with
  | some semi => trimSpace (mediaType.take semi)   -- K13d: OWS before `;` removed as well
  | Option.none => mediaType

/-- the loop of `extractFromAccept` over the remaining items -/
def acceptLoop (pfx sfx : Bytes) : List Bytes → Option Bytes
  | [] => Option.none
  | item :: rest =>
    let mediaType := acceptMediaType item
    if !hasPrefix mediaType pfx then acceptLoop pfx sfx rest
    else if !hasSuffix mediaType sfx then acceptLoop pfx sfx rest
    else if mediaType.length < pfx.length + sfx.length then acceptLoop pfx sfx rest   -- K13b
    else
      let version := sliceFromTo mediaType pfx.length (mediaType.length - sfx.length)
      if version != [] then some version else acceptLoop pfx sfx rest

/-- `acceptDetector.extractFromAccept` -/
def extractFromAccept (pfx sfx accept : Bytes) : Option Bytes :=
  acceptLoop pfx sfx (splitByte ',' accept)

/-- a configured detector (`Config.detectors` element) -/
inductive Det where
  | path (d : PathDet)
  | header (name : Bytes)
  | query (param : Bytes)
  | accept (pattern : Bytes)
  | custom (id : Nat)
  deriving Repr, DecidableEq

def Det.isPath : Det → Bool
  | .path _ => true
  | _ => false

/-- the option functions of `options.go` applied left to right: every detector is appended, a custom
    one is inserted at the front -/
def applyOpt {α} (acc : List (Det × α)) : DetOpt × α → List (Det × α)
  | (.path p, a) => acc ++ [(.path (newPathDetector p), a)]
  | (.header n, a) => acc ++ [(.header n, a)]
  | (.query q, a) => acc ++ [(.query q, a)]
  | (.accept p, a) => acc ++ [(.accept p, a)]
  | (.custom i, a) => (.custom i, a) :: acc

def buildDetectors {α} (opts : List (DetOpt × α)) : List (Det × α) := opts.foldl applyOpt []

/-- `Detector.Detect(req)`: `(version, found)` with `found = false` as `none` -/
def detectOne (path rawQuery : Bytes) : Det × LibVal → Option Bytes
  | (.path d, _) => d.extractFromPath path
  | (.header _, .header v) => if v != [] then some v else Option.none
  | (.query _, .query has get) =>
    if rawQuery = [] then Option.none else if has then some get else Option.none
  | (.accept p, .accept v) =>
    if v = [] then Option.none else extractFromAccept (acceptParts p).1 (acceptParts p).2 v
  | (.custom _, .custom v) => if v != [] then some v else Option.none
  | _ => Option.none

/-! ### engine (`engine.go`) -/

/-- `Engine.validateVersion`: `none` is the empty string the Go code returns for "invalid" -/
def validateVersion (valid : List Bytes) (v : Bytes) : Option Bytes :=
  if v = [] then Option.none
  else if valid.length = 0 then some v
  else if valid.contains v then some v
  else Option.none

/-- the detector loop of `Engine.DetectVersion` -/
def detectLoop (valid : List Bytes) (dflt path rawQuery : Bytes) : List (Det × LibVal) → Bytes
  | [] => dflt
  | d :: rest =>
    match detectOne path rawQuery d with
    | some v =>
      match validateVersion valid v with
      | some ok => ok
      | Option.none => detectLoop valid dflt path rawQuery rest
    | Option.none => detectLoop valid dflt path rawQuery rest

def detectors (cfg : Cfg) (req : Req) : List (Det × LibVal) := buildDetectors (cfg.opts.zip req.lib)

/-- `Engine.DetectVersion` -/
def detectVersion (cfg : Cfg) (req : Req) : Bytes :=
  detectLoop cfg.valid cfg.dflt req.path req.rawQuery (detectors cfg req)

/-- `Engine.ShouldApplyVersioning` -/
def shouldApplyVersioning (cfg : Cfg) (dets : List Det) (path : Bytes) : Bool :=
  if !dets.any Det.isPath then true
  else if dets.any (fun d => match d with
      | .path pd => (pd.extractFromPath path).isSome
      | _ => false) then true
  else cfg.dflt != []

/-- `Engine.ExtractPathSegment` -/
def extractPathSegment (path : Bytes) : List Det → Option Bytes
  | [] => Option.none
  | .path pd :: rest =>
    match pd.extractSegment path with
    | some s => some s
    | Option.none => extractPathSegment path rest
  | _ :: rest => extractPathSegment path rest

/-- `Engine.StripPathVersion` -/
def stripPathVersion (path : Bytes) : List Det → Bytes
  | [] => path
  | .path pd :: rest =>
    let stripped := pd.stripVersion path
    if stripped != path then stripped else stripPathVersion path rest
  | _ :: rest => stripPathVersion path rest

/-- the response headers the model tracks -/
structure Hdrs where
  xapi : Option Bytes := Option.none
  deprecation : Option Bytes := Option.none
  sunset : Option Bytes := Option.none
  link : Option Bytes := Option.none
  warning : Option Bytes := Option.none
  deriving Repr, DecidableEq

/-- `Config.GetLifecycle`: a map written by successive `SetLifecycle` calls -/
def getLifecycle (lcs : List (Bytes × LC)) (v : Bytes) : Option LC :=
  (lcs.reverse.find? (fun p => p.1 == v)).map (·.2)

/-- `Engine.SetLifecycleHeaders` (after the K13c repair): headers set, and "is past sunset" -/
def setLifecycleHeaders (cfg : Cfg) (version : Bytes) : Hdrs × Bool :=
  let h : Hdrs := { xapi := if cfg.sendVersionHeader && version != [] then some version else Option.none }
  match getLifecycle cfg.lifecycles version with
  | Option.none => (h, false)
  | some lc =>
    let past := match lc.sunset with
      | some (d, _, _) => cfg.enforceSunset && decide (cfg.now > d)
      | Option.none => false
    if past then
      ({ h with
          sunset := lc.sunset.map (·.2.1),
          link := if lc.migration != [] then some (vb!"<" ++ lc.migration ++ vb!">; rel=\"sunset\"") else Option.none },
       true)
    else if !lc.deprecated then (h, false)
    else
      let link : Option Bytes :=
        if lc.migration != [] then
          some (vb!"<" ++ lc.migration ++ vb!">; rel=\"deprecation\"" ++
            (if lc.sunset.isSome then vb!", <" ++ lc.migration ++ vb!">; rel=\"sunset\"" else []))
        else Option.none
      let warning : Option Bytes :=
        if cfg.sendWarning299 then
          some (vb!"299 - \"API " ++ version ++ vb!" is deprecated" ++
            (match lc.sunset with
             | some (_, _, rfc) => vb!" and will be removed on " ++ rfc
             | Option.none => []) ++
            vb!". Please upgrade to a supported version.\"")
        else Option.none
      ({ h with deprecation := some (vb!"true"), sunset := lc.sunset.map (·.2.1), link := link, warning := warning },
       false)

/-! ### lifecycle options and the objects they are applied to (`version/lifecycle.go`, `Router.Version`, `VersionRouter.Configure`) -/

/-- `version.Deprecated()`, `DeprecatedSince(t)`, `Sunset(t)`, `MigrationDocs(url)`, `SuccessorVersion(v)` -/
inductive LOpt where
  | deprecated
  /-- also sets `Deprecated` -/
  | deprecatedSince
  | sunset (s : Nat × Bytes × Bytes)
  | migration (u : Bytes)
  /-- reaches no response -/
  | successor
  deriving Repr, DecidableEq

def LC.zero : LC := { deprecated := false, sunset := Option.none, migration := [] }

def applyLOpt (lc : LC) : LOpt → LC
  | .deprecated => { lc with deprecated := true }
  | .deprecatedSince => { lc with deprecated := true }
  | .sunset s => { lc with sunset := some s }
  | .migration u => { lc with migration := u }
  | .successor => lc

/-- a configuration statement: `vr<id> := r.Version(ver, opts…)` / `vr<id>.Configure(opts…)` -/
inductive LOp where
  | version (id : Nat) (ver : Bytes) (opts : List LOpt)
  | configure (id : Nat) (opts : List LOpt)
  deriving Repr, DecidableEq

structure LSt where
  /-- the `VersionRouter` objects: id ↦ (version, its `lifecycle` pointer target; `none` = nil), newest binding first -/
  vrs : List (Nat × Bytes × Option LC)
  /-- the `SetLifecycle(ver, vr.lifecycle)` calls in order: the engine holds the POINTER, i.e. the object of that `vr` -/
  engine : List (Bytes × Nat)
  deriving Repr, DecidableEq

def LSt.step (s : LSt) : LOp → LSt
  | .version id ver opts =>
    -- `Router.Version`: a fresh object; options (if any) are applied to a fresh config, which is registered
    if opts = [] then { s with vrs := (id, ver, Option.none) :: s.vrs }
    else { vrs := (id, ver, some (opts.foldl applyLOpt LC.zero)) :: s.vrs, engine := s.engine ++ [(ver, id)] }
  | .configure id opts =>
    -- `VersionRouter.Configure`: nothing without options; else the options are applied to THIS object's config (a new one
    -- if it had none) and the object is registered (again), replacing whatever another object registered for the version
    if opts = [] then s
    else match s.vrs.lookup id with
      | Option.none => s
      | some (ver, lc) =>
        { vrs := (id, ver, some (opts.foldl applyLOpt (lc.getD LC.zero))) :: s.vrs, engine := s.engine ++ [(ver, id)] }

/-- the `SetLifecycle` history with what each registered object holds when requests are served -/
def lifecyclesOf (ops : List LOp) : List (Bytes × LC) :=
  let s := ops.foldl LSt.step { vrs := [], engine := [] }
  s.engine.filterMap fun (ver, id) =>
    match s.vrs.lookup id with
    | some (_, some lc) => some (ver, lc)
    | _ => Option.none

/-! ### trees -/

/-- the static paths registered for (tree, method), in registration order -/
def treeRoutes (routes : List Route) (ver : Option Bytes) (method : Bytes) : List Bytes :=
  (routes.filter (fun r => r.ver == ver && r.method == method)).map (·.path)

/-- a (version, method) tree exists as soon as one route was registered for it -/
def treeExists (routes : List Route) (ver : Option Bytes) (method : Bytes) : Bool :=
  routes.any (fun r => r.ver == ver && r.method == method)

/-- `node.getRoute` on a tree that holds static routes only (normalised: leading `/`, no empty
    segment, no trailing `/`): the root for `/` and the empty path, an exact match otherwise -/
def treeLookup (paths : List Bytes) (path : Bytes) : Option Bytes :=
  if path = ['/'] || path = [] then (if paths.contains ['/'] then some ['/'] else Option.none)
  else if paths.contains path then some path else Option.none

/-- `Router.selectRoutingTree`: the version whose tree serves the request -/
def selectRoutingTree (cfg : Cfg) (routes : List Route) (method ver : Bytes) : Option Bytes :=
  if ver = [] then Option.none
  else if treeExists routes (some ver) method then some ver
  else if cfg.dflt != [] && ver != cfg.dflt then
    (if treeExists routes (some cfg.dflt) method then some cfg.dflt else Option.none)
  else Option.none

/-- `versionContext` -/
structure VC where
  version : Bytes
  routingPath : Bytes
  tree : Option Bytes
  deriving Repr, DecidableEq

/-- `Router.processVersioning` (versioning enabled) -/
def processVersioning (cfg : Cfg) (routes : List Route) (req : Req) : VC :=
  let dets := (detectors cfg req).map (·.1)
  if !shouldApplyVersioning cfg dets req.path then { version := [], routingPath := req.path, tree := Option.none }
  else
    let ver := detectVersion cfg req
    let routingPath := match extractPathSegment req.path dets with
      | some _ => stripPathVersion req.path dets
      | Option.none => req.path
    { version := ver, routingPath := routingPath, tree := selectRoutingTree cfg routes req.method ver }

def standardMethods : List Bytes :=
  [vb!"GET", vb!"POST", vb!"PUT", vb!"PATCH", vb!"DELETE", vb!"HEAD", vb!"OPTIONS"]

/-- `Router.handleNotFound`: 405 when the raw path exists in the main tree of another method -/
def notFound (routes : List Route) (req : Req) : Obs :=
  let allowed := standardMethods.filter fun m => (treeLookup (treeRoutes routes Option.none m) req.path).isSome
  { status := if allowed.length > 0 then 405 else 404, handler := Option.none, version := Option.none,
    hXAPIVersion := Option.none, hDeprecation := Option.none, hSunset := Option.none, hLink := Option.none,
    hWarning := Option.none }

/-- `Router.ServeHTTP` with versioning enabled, every handler answering 200 -/
def serve (cfg : Cfg) (routes : List Route) (req : Req) : Obs :=
  -- main tree first: unversioned routes bypass version detection
  match treeLookup (treeRoutes routes Option.none req.method) req.path with
  | some p =>
    { status := 200, handler := some (Option.none, p), version := some [],
      hXAPIVersion := Option.none, hDeprecation := Option.none, hSunset := Option.none, hLink := Option.none,
      hWarning := Option.none }
  | Option.none =>
    let vc := processVersioning cfg routes req
    match vc.tree with
    | Option.none => notFound routes req
    | some tv =>
      -- serveVersionedRequest
      match treeLookup (treeRoutes routes (some tv) req.method) vc.routingPath with
      | Option.none => notFound routes req
      | some p =>
        let (h, gone) := setLifecycleHeaders cfg vc.version
        if gone then
          { status := 410, handler := Option.none, version := Option.none,
            hXAPIVersion := h.xapi, hDeprecation := h.deprecation, hSunset := h.sunset, hLink := h.link,
            hWarning := h.warning }
        else
          { status := 200, handler := some (some tv, p), version := some vc.version,
            hXAPIVersion := h.xapi, hDeprecation := h.deprecation, hSunset := h.sunset, hLink := h.link,
            hWarning := h.warning }

/-! ### observer callbacks (`version.WithObserver`) -/

/-- `Detector.Method()` -/
def Det.method : Det → Bytes
  | .path _ => vb!"path" | .header _ => vb!"header" | .query _ => vb!"query"
  | .accept _ => vb!"accept" | .custom _ => vb!"custom"

/-- one call of an `Observer` callback -/
inductive ObsEv where
  | detected (v method : Bytes)
  | missing
  | invalid (v : Bytes)
  | deprecatedUse (v route : Bytes)
  deriving Repr, DecidableEq

/-- `Engine.validateVersion`: the `notifyInvalid` call (an empty string is not reported) -/
def validateEv (valid : List Bytes) (v : Bytes) : List ObsEv :=
  if v = [] then []
  else if valid.length = 0 then []
  else if valid.contains v then []
  else [.invalid v]

/-- the callbacks of the detector loop of `Engine.DetectVersion`, in call order -/
def detectLoopEv (valid : List Bytes) (path rawQuery : Bytes) : List (Det × LibVal) → List ObsEv
  | [] => [.missing]
  | d :: rest =>
    match detectOne path rawQuery d with
    | some v =>
      match validateVersion valid v with
      | some ok => [.detected ok d.1.method]
      | Option.none => validateEv valid v ++ detectLoopEv valid path rawQuery rest
    | Option.none => detectLoopEv valid path rawQuery rest

/-- the callbacks one request causes (`ServeHTTP` with versioning enabled and an observer with all four
    callbacks): nothing for a main-tree route; the detection callbacks when `processVersioning` runs the
    detection, and once more when the request ends in 404/405 (`handleNotFound` detects again to fill
    `Context.version`); `OnDeprecatedUse` at the end of the deprecated arm of `SetLifecycleHeaders` (which sets the
    `Deprecation` header) -/
def serveEvents (cfg : Cfg) (routes : List Route) (req : Req) : List ObsEv :=
  match treeLookup (treeRoutes routes Option.none req.method) req.path with
  | some _ => []
  | Option.none =>
    let dets := detectors cfg req
    let det := detectLoopEv cfg.valid req.path req.rawQuery dets
    -- `handleNotFound` / `handleMethodNotAllowed` fill `Context.version` with a detection of their own
    let vc := processVersioning cfg routes req
    (if shouldApplyVersioning cfg (dets.map (·.1)) req.path then det else []) ++
    (match vc.tree with
     | Option.none => det
     | some tv =>
       match treeLookup (treeRoutes routes (some tv) req.method) vc.routingPath with
       | Option.none => det
       | some p =>
         if (setLifecycleHeaders cfg vc.version).1.deprecation.isSome then [.deprecatedUse vc.version p] else [])

/-! ### the code as shipped (before the repairs), kept for the witness theorems -/

/-- outcome of a shipped scanner: a value, nothing, or a run-time panic -/
inductive Scan where
  | found (v : Bytes)
  | notFound
  | panic
  deriving Repr, DecidableEq

/-- `queryDetector.extractFromQuery` as shipped: a substring scan with two probes, no decoding -/
def extractFromQueryAsIs (param query : Bytes) : Scan :=
  if query = [] then .notFound else
  let pfx := param ++ ['=']
  match index query pfx with
  | Option.none => .notFound
  | some idx =>
    let value (idx : Nat) : Scan :=
      let start := idx + pfx.length
      .found ((query.drop start).takeWhile (· != '&'))
    if idx > 0 && query[idx - 1]? != some '&' then
      let rest := query.drop (idx + 1)
      match index rest pfx with
      | Option.none => .notFound
      | some newIdx =>
        if newIdx = 0 then .panic     -- rest[-1]
        else if rest[newIdx - 1]? != some '&' then .notFound
        else value (idx + 1 + newIdx)
    else value idx

/-- the loop of `extractFromAccept` as shipped: no length test before the slice, no trim after `;` -/
def acceptLoopAsIs (pfx sfx : Bytes) : List Bytes → Scan
  | [] => .notFound
  | item :: rest =>
    let mediaType := trimSpace item
    let mediaType := match indexByte mediaType ';' with
      | some semi => mediaType.take semi
      | Option.none => mediaType
    if !hasPrefix mediaType pfx then acceptLoopAsIs pfx sfx rest
    else if !hasSuffix mediaType sfx then acceptLoopAsIs pfx sfx rest
    else if mediaType.length - sfx.length < pfx.length then .panic   -- slice bounds out of range
    else
      let version := sliceFromTo mediaType pfx.length (mediaType.length - sfx.length)
      if version != [] then .found version else acceptLoopAsIs pfx sfx rest

def extractFromAcceptAsIs (pfx sfx accept : Bytes) : Scan :=
  acceptLoopAsIs pfx sfx (splitByte ',' accept)

/-- "is past sunset" of `SetLifecycleHeaders` as shipped: the `!Deprecated` return comes first -/
def isSunsetAsIs (cfg : Cfg) (version : Bytes) : Bool :=
  match getLifecycle cfg.lifecycles version with
  | Option.none => false
  | some lc =>
    if !lc.deprecated then false
    else match lc.sunset with
      | some (d, _, _) => cfg.enforceSunset && decide (cfg.now > d)
      | Option.none => false

end Rivaas.Version
