import Rivaas.Basic
/-
C07 — text layer of the OpenAPI model: the `strings` / `strconv` helpers the generator uses, on
`Bytes` (one `Char` per byte). Go's `strings.ToUpper`, `unicode.ToUpper`, `strings.TrimSpace`,
`strings.Fields` are modelled for ASCII input only (assumption listed in checks/C07.json: type names,
tags, methods and paths of the corpus are ASCII).
-/
namespace Rivaas.OpenAPI

abbrev B := Rivaas.Bytes

def s (x : String) : B := x.toList

/-- `strings.Split(x, sep)` for a one byte separator -/
def splitOn (sep : Char) : B → List B
  | [] => [[]]
  | c :: cs =>
    match splitOn sep cs with
    | [] => [[]]           -- unreachable: splitOn never returns []
    | seg :: rest => if c = sep then [] :: seg :: rest else (c :: seg) :: rest

def joinWith (sep : B) : List B → B
  | [] => []
  | [x] => x
  | x :: xs => x ++ sep ++ joinWith sep xs

def hasPrefix (p x : B) : Bool := p.isPrefixOf x

def hasSuffix (p x : B) : Bool := p.isSuffixOf x

/-- `strings.CutPrefix` -/
def cutPrefix (p x : B) : Option B := if p.isPrefixOf x then some (x.drop p.length) else none

/-- `strings.Contains` -/
def contains (x sub : B) : Bool :=
  match x with
  | [] => sub.isEmpty
  | _ :: cs => sub.isPrefixOf x || contains cs sub

/-- the text after the first occurrence of `sub` (`strings.SplitN(x, sub, 2)[1]`) -/
def afterFirst (x sub : B) : Option B :=
  match x with
  | [] => if sub.isEmpty then some [] else none
  | _ :: cs => if sub.isPrefixOf x then some (x.drop sub.length) else afterFirst cs sub

def isSpace (c : Char) : Bool := c = ' ' || c = '\t' || c = '\n' || c = '\r' || c = '\x0b' || c = '\x0c'

def trimLeft (x : B) : B := x.dropWhile isSpace
def trimSpace (x : B) : B := (trimLeft (trimLeft x).reverse).reverse

/-- `strings.Fields` -/
def fieldsAux : B → B → List B
  | [], cur => if cur.isEmpty then [] else [cur.reverse]
  | c :: cs, cur =>
    if isSpace c then (if cur.isEmpty then fieldsAux cs [] else cur.reverse :: fieldsAux cs [])
    else fieldsAux cs (c :: cur)
def fields (x : B) : List B := fieldsAux x []

/-- `strings.Trim(x, "/")` -/
def trimSlashes (x : B) : B := ((x.dropWhile (· = '/')).reverse.dropWhile (· = '/')).reverse

/-- ASCII upper-casing of one byte (`strings.ToUpper` / `unicode.ToUpper` on ASCII input) -/
def upperC (c : Char) : Char :=
  match c with
  | 'a' => 'A'
  | 'b' => 'B'
  | 'c' => 'C'
  | 'd' => 'D'
  | 'e' => 'E'
  | 'f' => 'F'
  | 'g' => 'G'
  | 'h' => 'H'
  | 'i' => 'I'
  | 'j' => 'J'
  | 'k' => 'K'
  | 'l' => 'L'
  | 'm' => 'M'
  | 'n' => 'N'
  | 'o' => 'O'
  | 'p' => 'P'
  | 'q' => 'Q'
  | 'r' => 'R'
  | 's' => 'S'
  | 't' => 'T'
  | 'u' => 'U'
  | 'v' => 'V'
  | 'w' => 'W'
  | 'x' => 'X'
  | 'y' => 'Y'
  | 'z' => 'Z'
  | _ => c

/-- ASCII lower-casing of one byte -/
def lowerC (c : Char) : Char :=
  match c with
  | 'A' => 'a'
  | 'B' => 'b'
  | 'C' => 'c'
  | 'D' => 'd'
  | 'E' => 'e'
  | 'F' => 'f'
  | 'G' => 'g'
  | 'H' => 'h'
  | 'I' => 'i'
  | 'J' => 'j'
  | 'K' => 'k'
  | 'L' => 'l'
  | 'M' => 'm'
  | 'N' => 'n'
  | 'O' => 'o'
  | 'P' => 'p'
  | 'Q' => 'q'
  | 'R' => 'r'
  | 'S' => 's'
  | 'T' => 't'
  | 'U' => 'u'
  | 'V' => 'v'
  | 'W' => 'w'
  | 'X' => 'x'
  | 'Y' => 'y'
  | 'Z' => 'z'
  | _ => c

def toUpper (x : B) : B := x.map upperC
def toLower (x : B) : B := x.map lowerC

/-- `capitalize` of builder.go (first rune to upper case; ASCII) -/
def capitalize : B → B
  | [] => []
  | c :: cs => upperC c :: cs

/-- `strconv.Itoa` for naturals -/
def itoa (n : Nat) : B := (Nat.repr n).toList

def isDigit (c : Char) : Bool := '0' ≤ c && c ≤ '9'

/-- `strconv.Atoi` / `ParseFloat` restricted to unsigned decimal integer literals (what the corpus
    uses); anything else is "does not parse" -/
def parseNat (x : B) : Option Nat :=
  if x.isEmpty || !(x.all isDigit) then none
  else some (x.foldl (fun acc c => acc * 10 + (c.toNat - '0'.toNat)) 0)

/-- byte-wise lexicographic order (`sort.Strings`, the key order of `encoding/json` maps) -/
def bytesLe : B → B → Bool
  | [], _ => true
  | _ :: _, [] => false
  | a :: as, b :: bs => if a.toNat < b.toNat then true else if b.toNat < a.toNat then false else bytesLe as bs

end Rivaas.OpenAPI
