import Rivaas.Model.Timeout
/-
C10 — option handling of `middleware/timeout` (`options.go`, `defaultConfig`, `shouldSkip`, and the first lines of the
handler closure): the functional options fold over the default configuration; a request whose path is skipped gets
`c.Next(); return` — no derived context, no goroutine, no guard. Paths are `List Char` (the driver converts).
`WithSkip(fn)`: the result of `fn` on the request is a parameter (`none` = `WithSkip(nil)`). Core Lean only.
-/
namespace Rivaas.Timeout

inductive Opt where
  /-- `WithDuration(d)`, in milliseconds -/
  | duration (ms : Nat)
  | withoutLogging
  /-- `WithLogger(l)` with a non-nil logger -/
  | withLogger
  /-- `WithHandler(h)`: `h` is identified by a tag -/
  | handler (tag : Nat)
  | skipPaths (ps : List (List Char))
  | skipPrefix (ps : List (List Char))
  | skipSuffix (ps : List (List Char))
  /-- `WithSkip(fn)`; `r` = what `fn` returns for the request at hand, `none` = a nil function -/
  | skip (r : Option Bool)
  deriving Repr, DecidableEq, Inhabited

structure Config where
  /-- `duration`, default 30 s -/
  durationMs : Nat := 30000
  /-- `logger != nil`, default `slog.Default()` -/
  logging : Bool := true
  /-- `handler`: 0 = `defaultHandler` -/
  handlerTag : Nat := 0
  /-- `skipPaths` (a set: `map[string]bool`) -/
  skipPaths : List (List Char) := []
  skipPrefixes : List (List Char) := []
  skipSuffixes : List (List Char) := []
  /-- `skipFunc` evaluated on the request; `none` = nil -/
  skipFunc : Option Bool := none
  deriving Repr, DecidableEq, Inhabited

/-- one option applied (`opt(cfg)`) -/
def applyOpt (c : Config) : Opt → Config
  | .duration ms => { c with durationMs := ms }
  | .withoutLogging => { c with logging := false }
  | .withLogger => { c with logging := true }
  | .handler t => { c with handlerTag := t }
  | .skipPaths ps => { c with skipPaths := c.skipPaths ++ ps }
  | .skipPrefix ps => { c with skipPrefixes := c.skipPrefixes ++ ps }
  | .skipSuffix ps => { c with skipSuffixes := c.skipSuffixes ++ ps }
  | .skip r => { c with skipFunc := r }

/-- `cfg := defaultConfig(); for _, opt := range opts { opt(cfg) }` -/
def configure (opts : List Opt) : Config := opts.foldl applyOpt {}

/-- `shouldSkip`: exact paths, then prefixes, then suffixes, then the custom function -/
def shouldSkip (c : Config) (path : List Char) : Bool :=
  if c.skipPaths.contains path then true
  else if c.skipPrefixes.any (fun p => p.isPrefixOf path) then true
  else if c.skipSuffixes.any (fun s => s.isSuffixOf path) then true
  else if c.skipFunc == some true then true
  else false

/-- the custom function is consulted only when paths, prefixes and suffixes did not decide -/
def skipFuncCalled (c : Config) (path : List Char) : Bool :=
  !(c.skipPaths.contains path) && !(c.skipPrefixes.any (fun p => p.isPrefixOf path)) &&
  !(c.skipSuffixes.any (fun s => s.isSuffixOf path)) && c.skipFunc.isSome

/-- A skipped request: the timed chain runs on the request goroutine itself, straight through (`c.Next(); return`).
    Writes go to the real writer, a panic goes to recovery directly. Synchronisation acts have nothing to wait for
    (there is no second goroutine) and are not part of skipped programs; `guard` is `Next`'s loop test on the
    request's own context (`drop` = how many acts are still to be skipped behind a failed test). -/
def runSkipped : Nat → List HAct → St → St
  | _, [], s => { s with hDone := true, rpc := .returned }
  | drop+1, _ :: r, s => runSkipped drop r s
  | 0, .write :: r, s => runSkipped 0 r (({ s with started := true }).write .h)
  | 0, .panic v :: _, s =>
    ({ s with panicChan := some v, recovered := some v, hDone := true, rpc := .returned }).write .rec500
  | 0, .fireDl :: r, s => runSkipped 0 r { s with ctx := if s.ctx = .live then .deadline else s.ctx }
  | 0, .firePc :: r, s => runSkipped 0 r { s with ctx := if s.ctx = .live then .cancelled else s.ctx }
  | 0, .guard n :: r, s => runSkipped (if s.ctx = .live then 0 else n) r s
  | 0, _ :: r, s => runSkipped 0 r s

end Rivaas.Timeout
