import Rivaas.Model.OpenAPI
/-
C07 — model of request introspection, the builder (`Build`, `buildOperation`, path/operationId
helpers), `ValidatePath`, `ValidateResponseCode`, the 3.0 / 3.1 projection and `API.Generate`.
Core Lean only.
-/
namespace Rivaas.OpenAPI

/-! ## documents -/

structure Param (σ : Type) where
  name : B
  loc : B              -- `in`
  required : Bool
  schema : σ
  style : B := []      -- "" = absent
  explode : Bool := false
  description : B := []          -- from the `doc` tag ("" = absent)
  exampleP : Option DV := none   -- from the `example` tag, parsed by `parseValue`

/-- one response: code, description, schema of the single media type (`none`: no content) -/
structure Resp (σ : Type) where
  code : B
  description : B
  schema : Option σ
  hasExample : Bool := false      -- the media type has the single `example` member
  exampleNames : List B := []     -- keys of the media type's `examples` member (in key order)

structure Operation (σ : Type) where
  opId : B
  summary : B
  description : B
  tags : List B := []
  deprecated : Bool := false
  security : List (B × List B) := []   -- one single-scheme requirement per WithSecurity call
  reqCT : B := []                      -- the media type key of the request body ("" = no body)
  respCT : B := []                     -- the media type key of the responses that have content ("" = none has)
  params : List (Param σ)
  body : Option σ             -- requestBody {required: true, content: {"application/json": {schema}}}
  resps : List (Resp σ)

/-- a path item: operations by lower-case method member name (`get`, `put`, …) -/
abbrev PathItem (σ : Type) := List (B × Operation σ)

structure Doc (σ : Type) where
  openapi : B
  dialect : B                       -- jsonSchemaDialect ("" = absent)
  servers : List B                  -- server urls
  paths : List (B × PathItem σ)
  schemas : List (B × σ)            -- components.schemas
  infoSummary : B := []             -- info.summary ("" = absent; a 3.1-only member)

/-! ## request introspection (introspect.go) -/

structure ParamSpec where
  name : B
  loc : B
  ty : Ty
  required : Bool
  format : B
  enum : List B
  dflt : Option DV := none
  style : B := []
  explode : Option Bool := none
  description : B := []
  exampleP : Option DV := none

inductive TagSel | query | path | header | cookie
  deriving DecidableEq, Repr

def TagSel.get (m : FieldMeta) : TagSel → B
  | .query => m.query
  | .path => m.path
  | .header => m.header
  | .cookie => m.cookie

def TagSel.loc : TagSel → B
  | .query => s "query"
  | .path => s "path"
  | .header => s "header"
  | .cookie => s "cookie"

/-- `isParamRequired` -/
def isParamRequired (env : Env) (m : FieldMeta) (t : Ty) (sel : TagSel) : Bool :=
  if sel = .path then true
  else if isPtrKind env t then false
  else contains m.validate (s "required")

/-- one pointer level off (`if t.Kind() == reflect.Pointer { t = t.Elem() }`) -/
def derefPtr (env : Env) : Ty → Ty
  | .ptr e => e
  | .named id => match env.lookup id with
    | some (.alias (.ptr e)) => e
    | _ => .named id
  | t => t

/-- `inferFormat`: the `format` tag, else what the `validate` tag implies, else the well-known types -/
def inferFormat (env : Env) (m : FieldMeta) (t : Ty) : B :=
  let v := m.validate
  if m.formatT ≠ [] then m.formatT
  else if contains v (s "email") then s "email"
  else if contains v (s "url") then s "uri"
  else if contains v (s "uuid") then s "uuid"
  else if contains v (s "ipv4") then s "ipv4"
  else if contains v (s "ipv6") then s "ipv6"
  else if derefPtr env t = .time then s "date-time"
  else if m.typeIs = s "url" then s "uri"
  else if m.typeIs = s "ip" then s "ip"
  else []

/-- `t.Kind()` of a primitive type after one pointer level (anything else: not a primitive) -/
def primKind (env : Env) (t : Ty) : Option PKind :=
  match derefPtr env t with
  | .prim k => some k
  | _ => none

def parseBoolText (x : B) : Option Bool :=
  if x = s "1" ∨ x = s "t" ∨ x = s "T" ∨ x = s "TRUE" ∨ x = s "true" ∨ x = s "True" then some true
  else if x = s "0" ∨ x = s "f" ∨ x = s "F" ∨ x = s "FALSE" ∨ x = s "false" ∨ x = s "False" then some false
  else none

/-- `parseValue` (numbers: unsigned decimal literals, what the corpus uses; anything that does not
    parse stays the string) -/
def parseValue (env : Env) (x : B) (t : Ty) : Option DV :=
  if x = [] then none
  else match primKind env t with
    | some .string => some (.str x)
    | some .bool => (match parseBoolText x with | some b => some (.bool b) | none => some (.str x))
    | some .iface | some .other | none => some (.str x)
    | some _ => (match parseNat x with | some n => some (.num (itoa n)) | none => some (.str x))

/-- `parseEnumValues`: comma-separated, blanks trimmed, empty entries dropped -/
def parseEnumValues (x : B) : List B := ((splitOn ',' x).map trimSpace).filter (fun v => v ≠ [])

/-- the callback of `extractParamsFromTag` for one flattened field -/
def paramOfField (env : Env) (sel : TagSel) (mt : FieldMeta × Ty) : Option ParamSpec :=
  let m := mt.1
  let t := mt.2
  if !m.exported then none
  else
    let tagVal := sel.get m
    if tagVal = [] ∨ tagVal = s "-" then none
    else
      let p0 := ((splitOn ',' tagVal).head?).getD []
      let name0 := trimSpace p0
      let name := if name0 = [] then m.name else name0
      let enum0 := if m.enumT ≠ [] then parseEnumValues m.enumT else []
      let enum := match afterFirst m.validate (s "oneof=") with
        | some rest => enum0 ++ fields rest
        | none => enum0
      some { name := name, loc := sel.loc, ty := t, required := isParamRequired env m t sel,
             format := inferFormat env m t, enum := enum, dflt := parseValue env m.dflt t,
             style := m.style, description := m.docT, exampleP := parseValue env m.exampleT t,
             explode := if m.explode = s "true" then some true else if m.explode = s "false" then some false else none }

def extractParamsFromTag (env : Env) (flat : List (FieldMeta × Ty)) (sel : TagSel) : List ParamSpec :=
  flat.filterMap (paramOfField env sel)

structure Meta where
  params : List ParamSpec
  hasBody : Bool
  structId : Nat
  flat : List (FieldMeta × Ty)

/-- `IntrospectRequest` -/
def introspect (env : Env) (t : Ty) : Option Meta :=
  match derefPtr env t with
  | .named id =>
    match env.lookup id with
    | some (.struct _ _ fs) =>
      let flat := flatten env [id] fs
      some {
        params := extractParamsFromTag env flat .query ++ extractParamsFromTag env flat .path
                  ++ extractParamsFromTag env flat .header ++ extractParamsFromTag env flat .cookie
        hasBody := flat.any fun mt => mt.1.exported && mt.1.json ≠ [] && mt.1.json ≠ s "-"
        structId := id
        flat := flat }
    | _ => none
  | _ => none

/-! ## path helpers (builder.go, validate/path.go) -/

/-- `convertPath` -/
def convertSeg (seg : B) : B :=
  match cutPrefix (s ":") seg with
  | some name => s "{" ++ name ++ s "}"
  | none => seg

def convertPath (p : B) : B := joinWith (s "/") ((splitOn '/' p).map convertSeg)

def strSchema : IR := leaf { kind := .string }

/-- the names of the `:name` segments, in order -/
def routeParamNames (path : B) : List B := (splitOn '/' path).filterMap (cutPrefix (s ":"))

/-- `extractPathParams` with no constraints -/
def extractPathParams (path : B) : List (Param IR) :=
  (routeParamNames path).map fun name => { name := name, loc := s "path", required := true, schema := strSchema }

/-- `validParameterNamePattern` = `^[a-zA-Z0-9._-]+$` -/
def validParamName (x : B) : Bool := !x.isEmpty && x.all nameByteOK

/-- the parameter name `ValidatePath` derives from one segment, or an error (`none`) -/
def segParam (seg : B) : Option B :=   -- some [] = no parameter; none = invalid
  let viaColon : Option B :=
    match cutPrefix (s ":") seg with
    | some name => if name = [] ∨ !validParamName name then none else some name
    | none => some []
  match viaColon with
  | none => none
  | some pn =>
    if contains seg (s "{") || contains seg (s "}") then
      if !hasPrefix (s "{") seg || !hasSuffix (s "}") seg then none
      else
        let inner := ((cutPrefix (s "{") (((seg.reverse).drop 1).reverse)).getD [])
        if inner = [] then none
        else if contains inner (s "{") || contains inner (s "}") then none
        else if contains inner (s "/") then none
        else if !validParamName inner then none
        else some inner
    else some pn

def validSegs : List B → List B → Bool
  | [], _ => true
  | seg :: rest, seen =>
    if seg = [] then validSegs rest seen
    else match segParam seg with
      | none => false
      | some pn =>
        if pn = [] then validSegs rest seen
        else if seen.contains pn then false
        else validSegs rest (pn :: seen)

/-- `validate.ValidatePath(path) == nil` (operation constructors panic otherwise) -/
def validatePath (path : B) : Bool :=
  if path = [] then false
  else if !hasPrefix (s "/") path then false
  else validSegs (splitOn '/' path) []

/-- source text of `validResponseCodePattern` (what `validResponseCode` transcribes; tied to the Go source by
    `Tie/ConstsC07`) -/
def validResponseCodeSrc : B := s "^(default|[1-5](\\d{2}|XX))$"

/-- `validResponseCodePattern` = `^(default|[1-5](\d{2}|XX))$` -/
def validResponseCode (c : B) : Bool :=
  c = s "default" ||
  match c with
  | [a, b, d] => ('1' ≤ a && a ≤ '5') && ((isDigit b && isDigit d) || (b = 'X' && d = 'X'))
  | _ => false

/-! ## operationId generation -/

def methodToVerb (method : B) : B :=
  let m := toUpper method
  if m = s "GET" then s "get"
  else if m = s "POST" then s "create"
  else if m = s "PUT" then s "replace"
  else if m = s "PATCH" then s "update"
  else if m = s "DELETE" then s "delete"
  else if m = s "HEAD" then s "head"
  else if m = s "OPTIONS" then s "options"
  else toLower m

def dropLast (n : Nat) (x : B) : B := x.take (x.length - n)

/-- `singularize` -/
def singularize (w : B) : B :=
  if w = [] then w
  else if hasSuffix (s "ies") w && w.length > 3 then dropLast 3 w ++ s "y"
  else if hasSuffix (s "ses") w && w.length > 3 then dropLast 2 w
  else if hasSuffix (s "ches") w && w.length > 4 then dropLast 2 w
  else if hasSuffix (s "xes") w && w.length > 3 then dropLast 2 w
  else if hasSuffix (s "s") w && w.length > 1 then dropLast 1 w
  else w

/-- the loop of `generateFromMethodAndPath` over the segments: returns (resourceParts, lastParam) -/
def opIdLoop (getOrDelete : Bool) : List B → List B × B
  | [] => ([], [])
  | seg :: rest =>
    let r := opIdLoop getOrDelete rest
    if seg = [] then r
    else if hasPrefix (s ":") seg then
      (r.1, if r.2 = [] then seg.drop 1 else r.2)   -- the last parameter wins: keep the later one
    else
      let nextIsParam := match rest with
        | nxt :: _ => hasPrefix (s ":") nxt
        | [] => false
      let part :=
        if nextIsParam then capitalize (singularize seg)
        else if getOrDelete then capitalize seg
        else capitalize (singularize seg)
      (part :: r.1, r.2)

/-- `generateFromMethodAndPath` -/
def generateOperationID (method path : B) : B :=
  let m := toUpper method
  let verb := methodToVerb m
  let segments := splitOn '/' (trimSlashes path)
  if segments = [[]] then verb ++ s "Root"
  else
    let r := opIdLoop (m = s "GET" || m = s "DELETE") segments
    let base := verb ++ r.1.flatten
    if r.2 ≠ [] then base ++ s "By" ++ capitalize r.2 else base

/-! ## buildOperation -/

/-- one `WithResponse(status, value, examples…)` call, as the option function sees it -/
structure RespOpt where
  status : Nat
  nilValue : Bool      -- `resp == nil`
  nonZero : Bool       -- `!isZeroValue(resp)`
  named : List B       -- names of the named examples handed in, in call order
  deriving Repr, Inhabited, DecidableEq

/-- an operation as handed to `API.Generate` (the members of `operationDoc` the corpus sets) -/
structure OpIn where
  method : B
  path : B
  summary : B
  description : B
  opID : B
  req : Option Ty                          -- doc.RequestType
  resps : List (Nat × B × Option Ty)       -- doc.ResponseTypes (status, http.StatusText(status), type)
  tags : List B := []                      -- doc.Tags
  deprecated : Bool := false               -- doc.Deprecated
  security : List (B × List B) := []       -- doc.Security (scheme, scopes)
  consumes : List B := []                  -- doc.Consumes as set by WithConsumes ([] = not set)
  produces : List B := []                  -- doc.Produces as set by WithProduces ([] = not set)
  respOpts : List RespOpt := []            -- the WithResponse calls in order (for the example maps)
  deriving Repr, Inhabited

inductive Err | dupOp | status | noPaths | validation | style | strict
  deriving DecidableEq, Repr, Inhabited

/-- `convertOperation`: a RouteDoc is built only when there is something to document -/
def OpIn.hasDoc (op : OpIn) : Bool := op.summary ≠ [] || op.description ≠ [] || !op.resps.isEmpty

/-- `if ps.Default != nil { s.Default = ps.Default }` -/
def setDflt (d : Option DV) (t : IR) : IR :=
  match d with
  | some x => t.modHead fun h => { h with dflt := some x }
  | none => t

/-- `paramSpecToParameter` -/
def paramOfSpec (env : Env) (ps : ParamSpec) (st : Schemas) : Param IR × Schemas :=
  let r := gen env [] [] ps.ty st
  let s0 := setDflt ps.dflt r.1
  let s1 := if ps.enum.isEmpty then s0 else s0.modHead fun h => { h with enum := ps.enum }
  let s2 := if ps.format ≠ [] then s1.modHead fun h => { h with format := ps.format } else s1
  ({ name := ps.name, loc := ps.loc, required := ps.required, schema := s2, style := ps.style,
     explode := ps.explode.getD false, description := ps.description, exampleP := ps.exampleP }, r.2)

/-- the loop over `md.Parameters` with the (in, name) de-duplication of K07g -/
def mdParams (env : Env) : List ParamSpec → List (B × B) → List B → Schemas →
    List (Param IR) × List B × Schemas
  | [], _, seenPath, st => ([], seenPath, st)
  | ps :: rest, seenKeys, seenPath, st =>
    if seenKeys.contains (ps.loc, ps.name) then mdParams env rest seenKeys seenPath st
    else
      let seenPath' := if ps.loc = s "path" then ps.name :: seenPath else seenPath
      let r := paramOfSpec env ps st
      let rr := mdParams env rest ((ps.loc, ps.name) :: seenKeys) seenPath' r.2
      (r.1 :: rr.1, rr.2.1, rr.2.2)

/-- as shipped before K07g: every ParamSpec becomes a parameter -/
def mdParamsAsIs (env : Env) : List ParamSpec → List B → Schemas → List (Param IR) × List B × Schemas
  | [], seenPath, st => ([], seenPath, st)
  | ps :: rest, seenPath, st =>
    let seenPath' := if ps.loc = s "path" then ps.name :: seenPath else seenPath
    let r := paramOfSpec env ps st
    let rr := mdParamsAsIs env rest seenPath' r.2
    (r.1 :: rr.1, rr.2.1, rr.2.2)

/-- `GenerateProjected(doc.RequestType, jsonTagged)` for a request struct -/
def genProjected (env : Env) (md : Meta) (st : Schemas) : IR × Schemas :=
  match env.lookup md.structId with
  | some (.struct name pkg _) =>
    let nm := schemaName name pkg ++ s "Body"
    if hasKey st nm then (refTo nm, st)
    else
      let r := genFields env [] [] true md.flat .nil [] st
      let sch : IR := objNode r.2.1 r.1
      (refTo nm, (nm, sch) :: r.2.2)
  | _ => (objectSchema, st)

def insertStatus (x : Nat × B × Option Ty) : List (Nat × B × Option Ty) → List (Nat × B × Option Ty)
  | [] => [x]
  | y :: ys => if x.1 ≤ y.1 then x :: y :: ys else y :: insertStatus x ys

/-- `sort.Ints(statuses)` on the keys of `doc.ResponseTypes` (keys are distinct) -/
def sortStatuses : List (Nat × B × Option Ty) → List (Nat × B × Option Ty)
  | [] => []
  | x :: xs => insertStatus x (sortStatuses xs)

/-- the response loop over the sorted status codes -/
def genResps (env : Env) : List (Nat × B × Option Ty) → Schemas → Except Err (List (Resp IR) × Schemas)
  | [], st => .ok ([], st)
  | (status, text, rt) :: rest, st =>
    let code := itoa status
    if !validResponseCode code then .error .status
    else
      let description := if text = [] then s "Response" else text
      match rt with
      | some t =>
        if status ≠ 204 then
          let r := gen env [] [] t st
          match genResps env rest r.2 with
          | .error e => .error e
          | .ok rr => .ok ({ code := code, description := description, schema := some r.1 } :: rr.1, rr.2)
        else
          match genResps env rest st with
          | .error e => .error e
          | .ok rr => .ok ({ code := code, description := description, schema := none } :: rr.1, rr.2)
      | none =>
        match genResps env rest st with
        | .error e => .error e
        | .ok rr => .ok ({ code := code, description := description, schema := none } :: rr.1, rr.2)

/-- `validateParamStyle` (K07l): the styles the specification admits per location; "" = no style tag -/
def styleOK (loc style : B) : Bool :=
  style = [] ||
  (if loc = s "path" then [s "matrix", s "label", s "simple"].contains style
   else if loc = s "query" then [s "form", s "spaceDelimited", s "pipeDelimited", s "deepObject"].contains style
   else if loc = s "header" then style = s "simple"
   else if loc = s "cookie" then style = s "form"
   else false)

/-- the parameter block of buildOperation: parameters from the request metadata, then the route's
    path parameters the metadata did not declare -/
def opParams (env : Env) (md : Option Meta) (pathParams : List (Param IR)) (st : Schemas) : List (Param IR) × Schemas :=
  match md with
  | some m =>
    let r := mdParams env m.params [] [] st
    (r.1 ++ pathParams.filter (fun p => !r.2.1.contains p.name), r.2.2)
  | none => (pathParams, st)

/-- the request body block of buildOperation -/
def opBody (env : Env) (md : Option Meta) (st : Schemas) : Option IR × Schemas :=
  match md with
  | some m =>
    if m.hasBody then
      let r := genProjected env m st
      (some r.1, r.2)
    else (none, st)
  | none => (none, st)

/-! ### examples of a response (`WithResponse` → `ResponseExample` / `ResponseNamedExamples` → buildOperation) -/

/-- `d.ResponseExample` has an entry for `status` after the calls ran in order: a call with a non-nil, non-zero
    value and no named examples sets it; nothing ever deletes it -/
def hasSample (opts : List RespOpt) (status : Nat) : Bool :=
  opts.any fun o => o.status == status && !o.nilValue && o.named.isEmpty && o.nonZero

/-- `d.ResponseNamedExamples[status]` after the calls ran in order: the last call with a non-nil value and named
    examples decides -/
def namedOf (opts : List RespOpt) (status : Nat) : List B :=
  match (opts.filter fun o => o.status == status && !o.nilValue && !o.named.isEmpty).getLast? with
  | some o => o.named
  | none => []

def insertName (x : B) : List B → List B
  | [] => [x]
  | y :: ys => if x = y then y :: ys else if bytesLe x y then x :: y :: ys else y :: insertName x ys

/-- the keys of `mt.Examples` (a map: one entry per name), in key order -/
def nameKeys (names : List B) : List B := names.foldl (fun acc n => insertName n acc) []

/-- "single example OR named examples": named examples win, the single example is used only without them -/
def exampleOf (opts : List RespOpt) (status : Nat) : Bool × List B :=
  let named := namedOf opts status
  if named.isEmpty then (hasSample opts status, []) else (false, nameKeys named)

/-- the example members of the responses that have content (the status is read back from the code it was
    rendered to) -/
def attachEx (opts : List RespOpt) (rs : List (Resp IR)) : List (Resp IR) :=
  rs.map fun r =>
    if r.schema.isSome then
      match parseNat r.code with
      | some n => { r with hasExample := (exampleOf opts n).1, exampleNames := (exampleOf opts n).2 }
      | none => { r with hasExample := false, exampleNames := [] }
    else { r with hasExample := false, exampleNames := [] }

def defaultResps : List (Resp IR) := [{ code := s "200", description := s "OK", schema := none }]

def opIdOf (op : OpIn) : B :=
  if op.hasDoc && op.opID ≠ [] then op.opID else generateOperationID op.method op.path

/-- `first(doc.Consumes, "application/json")` after convertOperation's default for an empty list -/
def firstCT (l : List B) : B :=
  match l with
  | [] => s "application/json"
  | x :: _ => x

/-- `buildOperation`: `seenOps` = the operation ids used so far -/
def buildOperation (env : Env) (op : OpIn) (st : Schemas) (seenOps : List B) :
    Except Err (Operation IR × Schemas × List B) :=
  let opID := opIdOf op
  if seenOps.contains opID then .error .dupOp
  else
    let seenOps' := opID :: seenOps
    if !op.hasDoc then
      .ok ({ opId := opID, summary := [], description := [], params := extractPathParams op.path, body := none,
             resps := defaultResps }, st, seenOps')
    else
      let md := op.req.bind (introspect env)
      let pr := opParams env md (extractPathParams op.path) st
      if !(pr.1.all fun p => styleOK p.loc p.style) then .error .style
      else
      let br := opBody env md pr.2
      match genResps env (sortStatuses op.resps) br.2 with
      | .error e => .error e
      | .ok rr =>
        let resps := attachEx op.respOpts (if rr.1.isEmpty then defaultResps else rr.1)
        .ok ({ opId := opID, summary := op.summary, description := op.description, params := pr.1,
               body := br.1, resps := resps, tags := op.tags, deprecated := op.deprecated,
               security := op.security,
               -- convertOperation defaults an empty list to application/json; `first(list, default)`
               reqCT := if br.1.isSome then firstCT op.consumes else [],
               respCT := if resps.any (fun r => r.schema.isSome) then firstCT op.produces else [] }, rr.2, seenOps')

/-! ## Build -/

/-- the PathItem member an operation is stored in (`switch strings.ToUpper(method)`); TRACE and custom
    methods are built (they consume an operation id and register schemas) but not stored -/
def methodMember (method : B) : Option B :=
  let m := toUpper method
  if m = s "GET" then some (s "get")
  else if m = s "POST" then some (s "post")
  else if m = s "PUT" then some (s "put")
  else if m = s "DELETE" then some (s "delete")
  else if m = s "PATCH" then some (s "patch")
  else if m = s "OPTIONS" then some (s "options")
  else if m = s "HEAD" then some (s "head")
  else none

def setAssoc {β} (k : B) (v : β) : List (B × β) → List (B × β)
  | [] => [(k, v)]
  | (k', v') :: rest => if k' = k then (k, v) :: rest else (k', v') :: setAssoc k v rest

/-- `byPath[p] = append(byPath[p], r)`: groups in first-occurrence order, routes in input order -/
def groupByPath : List OpIn → List (B × List OpIn)
  | [] => []
  | op :: rest =>
    let g := groupByPath rest
    let p := convertPath op.path
    match g.lookup p with
    | some grp => setAssoc p (op :: grp) g
    | none => (p, [op]) :: g

def insertKey {β} (x : B × β) : List (B × β) → List (B × β)
  | [] => [x]
  | y :: ys => if bytesLe x.1 y.1 then x :: y :: ys else y :: insertKey x ys

/-- `sort.Strings` on the keys of a map (keys are distinct) -/
def sortByKey {β} : List (B × β) → List (B × β)
  | [] => []
  | x :: xs => insertKey x (sortByKey xs)

/-- the inner loop of Build over one path group -/
def buildGroup (env : Env) : List OpIn → PathItem IR → Schemas → List B →
    Except Err (PathItem IR × Schemas × List B)
  | [], item, st, seenOps => .ok (item, st, seenOps)
  | op :: rest, item, st, seenOps =>
    match buildOperation env op st seenOps with
    | .error e => .error e
    | .ok r =>
      let item' := match methodMember op.method with
        | some m => setAssoc m r.1 item
        | none => item
      buildGroup env rest item' r.2.1 r.2.2

/-- the outer loop of Build over the path keys in the order given -/
def buildGroups (env : Env) : List (B × List OpIn) → Schemas → List B →
    Except Err (List (B × PathItem IR) × Schemas)
  | [], st, _ => .ok ([], st)
  | (p, grp) :: rest, st, seenOps =>
    match buildGroup env grp [] st seenOps with
    | .error e => .error e
    | .ok r =>
      match buildGroups env rest r.2.1 r.2.2 with
      | .error e => .error e
      | .ok rr => .ok ((p, r.1) :: rr.1, rr.2)

/-- `GetComponentSchemas` as a key-sorted association list: the newest entry of each key wins -/
def componentList : Schemas → List (B × IR)
  | [] => []
  | (k, v) :: rest => if hasKey rest k then setAssoc k v (componentList rest) else (k, v) :: componentList rest

/-- `Builder.Build` from the `byPath` map given as an association list in *any* iteration order:
    the keys are visited in sorted order (K07h) -/
def buildFromGroups (env : Env) (groups : List (B × List OpIn)) : Except Err (List (B × PathItem IR) × List (B × IR)) :=
  match buildGroups env (sortByKey groups) [] [] with
  | .error e => .error e
  | .ok r => .ok (r.1, sortByKey (componentList r.2))

/-- as shipped before K07h: the keys are visited in map iteration order -/
def buildFromGroupsAsIs (env : Env) (groups : List (B × List OpIn)) : Except Err (List (B × PathItem IR) × List (B × IR)) :=
  match buildGroups env groups [] [] with
  | .error e => .error e
  | .ok r => .ok (r.1, sortByKey (componentList r.2))

def build (env : Env) (ops : List OpIn) : Except Err (List (B × PathItem IR) × List (B × IR)) :=
  buildFromGroups env (groupByPath ops)

/-! ## projection (export) -/

/-- scalar members of a projected schema object -/
inductive Sc
  | str (v : B)
  | num (v : B)        -- the number as rendered
  | bool (v : Bool)
  | strs (v : List B)
  deriving DecidableEq, Repr, Inhabited

abbrev Attrs := List (B × Sc)
abbrev Schema := Tree Attrs

def kindString : Kind → B
  | .none => []
  | .boolean => s "boolean"
  | .integer => s "integer"
  | .number => s "number"
  | .string => s "string"
  | .object => s "object"
  | .array => s "array"

def optAttr (k : String) (c : Bool) (v : Sc) : List (B × Sc) := if c then [(s k, v)] else []

/-- `schema30` on the scalar members; keys in byte order -/
def dvSc : DV → Sc
  | .str v => .str v
  | .num v => .num v
  | .bool v => .bool v

def head30r (h : Head) : Attrs :=
  optAttr "enum" (!h.enum.isEmpty) (.strs h.enum) ++
  optAttr "example" (h.exampleV ≠ []) (.str h.exampleV) ++
  optAttr "exclusiveMaximum" (match h.maximum with | some (_, true) => true | _ => false) (.bool true) ++
  optAttr "exclusiveMinimum" (match h.minimum with | some (_, true) => true | _ => false) (.bool true) ++
  (let f := if h.contentEncoding = s "base64" ∨ h.contentEncoding = s "base64url" then s "byte" else h.format
   optAttr "format" (f ≠ []) (.str f)) ++
  (match h.maxLength with | some n => [(s "maxLength", .num (itoa n))] | none => []) ++
  (match h.maximum with | some (v, _) => [(s "maximum", .num (itoa v))] | none => []) ++
  (match h.minLength with | some n => [(s "minLength", .num (itoa n))] | none => []) ++
  (match h.minimum with | some (v, _) => [(s "minimum", .num (itoa v))] | none => []) ++
  optAttr "nullable" h.nullable (.bool true) ++
  optAttr "pattern" (h.pattern ≠ []) (.str h.pattern) ++
  optAttr "required" (!h.required.isEmpty) (.strs h.required) ++
  optAttr "type" (kindString h.kind ≠ []) (.str (kindString h.kind))

def dfltAttrs (h : Head) : Attrs :=
  match h.dflt with | some d => [(s "default", dvSc d)] | none => []

def descAttrs (h : Head) : Attrs := optAttr "description" (h.description ≠ []) (.str h.description)

/-- `schema30` on the scalar members; keys in byte order -/
def head30 (h : Head) : Attrs := dfltAttrs h ++ descAttrs h ++ head30r h

/-- `schema31` on the scalar members -/
def head31r (h : Head) : Attrs :=
  optAttr "enum" (!h.enum.isEmpty) (.strs h.enum) ++
  optAttr "example" (h.exampleV ≠ []) (.str h.exampleV) ++
  optAttr "examples" (h.exampleV ≠ []) (.strs [h.exampleV]) ++
  (match h.maximum with | some (v, true) => [(s "exclusiveMaximum", .num (itoa v))] | _ => []) ++
  (match h.minimum with | some (v, true) => [(s "exclusiveMinimum", .num (itoa v))] | _ => []) ++
  optAttr "format" (h.format ≠ []) (.str h.format) ++
  (match h.maxLength with | some n => [(s "maxLength", .num (itoa n))] | none => []) ++
  (match h.maximum with | some (v, false) => [(s "maximum", .num (itoa v))] | _ => []) ++
  (match h.minLength with | some n => [(s "minLength", .num (itoa n))] | none => []) ++
  (match h.minimum with | some (v, false) => [(s "minimum", .num (itoa v))] | _ => []) ++
  optAttr "pattern" (h.pattern ≠ []) (.str h.pattern) ++
  optAttr "required" (!h.required.isEmpty) (.strs h.required) ++
  (let t := kindString h.kind
   if t = [] then [] else if h.nullable then [(s "type", .strs [t, s "null"])] else [(s "type", .str t)])

def head31 (h : Head) : Attrs :=
  optAttr "contentEncoding" (h.contentEncoding ≠ []) (.str h.contentEncoding) ++ dfltAttrs h ++ descAttrs h ++ head31r h

/-- insert a property keeping the keys in byte order (the order `encoding/json` writes map keys in) -/
def PTree.insertSorted {α} (k : B) (v : Tree α) : PTree α → PTree α
  | .nil => .cons k v .nil
  | .cons k' v' rest => if bytesLe k k' then .cons k v (.cons k' v' rest) else .cons k' v' (PTree.insertSorted k v rest)

mutual
  /-- map the heads and put the properties in key order -/
  def Tree.project {α β} (f : α → β) : Tree α → Tree β
    | .ref r => .ref r
    | .node h i p a => .node (f h) (OTree.project f i) (PTree.project f p) (OTree.project f a)
  def OTree.project {α β} (f : α → β) : OTree α → OTree β
    | .none => .none
    | .some t => .some (Tree.project f t)
  def PTree.project {α β} (f : α → β) : PTree α → PTree β
    | .nil => .nil
    | .cons k t rest => PTree.insertSorted k (Tree.project f t) (PTree.project f rest)
end

def insertResp {σ} (x : Resp σ) : List (Resp σ) → List (Resp σ)
  | [] => [x]
  | y :: ys => if bytesLe x.code y.code then x :: y :: ys else y :: insertResp x ys

/-- responses in the key order `encoding/json` writes the `responses` map in -/
def sortResps {σ} : List (Resp σ) → List (Resp σ)
  | [] => []
  | x :: xs => insertResp x (sortResps xs)

inductive Version | v30 | v31
  deriving DecidableEq, Repr, Inhabited

def projSchema (v : Version) : IR → Schema :=
  match v with
  | .v30 => Tree.project head30
  | .v31 => Tree.project head31

def Param.map {σ τ} (f : σ → τ) (p : Param σ) : Param τ :=
  { name := p.name, loc := p.loc, required := p.required, schema := f p.schema, style := p.style, explode := p.explode,
    description := p.description, exampleP := p.exampleP }
def Resp.map {σ τ} (f : σ → τ) (r : Resp σ) : Resp τ :=
  { code := r.code, description := r.description, schema := r.schema.map f, hasExample := r.hasExample,
    exampleNames := r.exampleNames }
def Operation.map {σ τ} (f : σ → τ) (o : Operation σ) : Operation τ :=
  { opId := o.opId, summary := o.summary, description := o.description, params := o.params.map (Param.map f),
    body := o.body.map f, resps := sortResps (o.resps.map (Resp.map f)), tags := o.tags,
    deprecated := o.deprecated, security := o.security, reqCT := o.reqCT, respCT := o.respCT }

def dialect31 : B := s "https://spec.openapis.org/oas/3.1/dialect/2024-11-10"

/-! `export.Project` up to marshalling: `responses` and the operations of a path item are Go maps /
    struct members, written in key order by `encoding/json` and read back in that order -/

/-- the API-level options the model follows into the document: `WithServer` urls and `WithInfoSummary`
    (the other configuration objects are compared by the harness, see notes/C07.md) -/
structure ApiCfg where
  servers : List B := []
  summary : B := []
  deriving Repr, Inhabited

/-- paths, components and the members every document has -/
def projDoc (v : Version) (paths : List (B × PathItem IR)) (schemas : List (B × IR)) : Doc Schema :=
  { openapi := match v with | .v30 => s "3.0.4" | .v31 => s "3.1.2"
    dialect := match v with | .v30 => [] | .v31 => dialect31
    servers := match v with | .v30 => [] | .v31 => [s "/"]
    paths := paths.map fun pi => (pi.1, sortByKey (pi.2.map fun mo => (mo.1, mo.2.map (projSchema v))))
    schemas := schemas.map fun ks => (ks.1, projSchema v ks.2) }

/-- the API options: configured servers replace the 3.1 default; `info.summary` is a 3.1 member — the 3.0
    projection drops it (`proj30.info`, with a warning) -/
def applyCfg (cfg : ApiCfg) (v : Version) (d : Doc Schema) : Doc Schema :=
  { d with servers := if cfg.servers.isEmpty then d.servers else cfg.servers,
           infoSummary := match v with | .v30 => [] | .v31 => cfg.summary }

/-- `export.Project` up to the marshalling: 3.0 needs paths; under StrictDownlevel a 3.0 target with an
    `info.summary` is an error instead of a dropped member -/
def project (cfg : ApiCfg) (strict : Bool) (v : Version) (paths : List (B × PathItem IR)) (schemas : List (B × IR)) :
    Except Err (Doc Schema) :=
  if v = .v30 ∧ paths.isEmpty then .error .noPaths
  else if v = .v30 ∧ strict = true ∧ cfg.summary ≠ [] then .error .strict
  else .ok (applyCfg cfg v (projDoc v paths schemas))

/-- `API.Generate` with the meta-schema validator as a parameter `V` (`none`: validation off).
    `strict` (StrictDownlevel) concerns info.summary (modelled), mutualTLS and webhooks (not reachable
    through the options of `openapi.New`). -/
def generate (cfg : ApiCfg) (v : Version) (strict : Bool) (V : Option (Doc Schema → Bool)) (env : Env) (ops : List OpIn) :
    Except Err (Doc Schema) :=
  match build env ops with
  | .error e => .error e
  | .ok r =>
    match project cfg strict v r.1 r.2 with
    | .error e => .error e
    | .ok d =>
      match V with
      | some ok => if ok d then .ok d else .error .validation
      | none => .ok d

end Rivaas.OpenAPI
