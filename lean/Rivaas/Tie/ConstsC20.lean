/- Translator tie (B), constants: every literal of the Go source that the model of C20 mirrors equals the value
   extract/ regenerates from the current source (Gen/Consts.lean) on every run. An edited threshold, list or
   marker in /repo breaks the theorem named after it. -/
import Rivaas.Gen.Consts
import Rivaas.Model.Log
namespace Rivaas.Tie.ConstsC20
open Rivaas.Gen.Consts
theorem consts_C20_sensitiveKeys : Rivaas.Log.sensitive = logging_sensitiveKeys.map String.toList := by decide
theorem consts_C20_redactedValue : Rivaas.Log.redactedVal = logging_redactedValue.toList := by decide
end Rivaas.Tie.ConstsC20
