/-
Control-flow skeletons and the verified path enumerator (DESIGN.md §2.2 (B), appendix sketch A,
extended with `defer`). Core Lean only: `Gen/*.lean` (regenerated from the Go source by
`extract/`) are terms of `Stmt`; `Tie/*.lean` prove properties of *every* execution of such a term
by enumerating its paths once and letting the kernel evaluate a Boolean check over them.

Everything an event carries is a `Nat` code (the extractor prints the code tables next to the
skeleton) so that the kernel only ever compares numerals.
-/
namespace Rivaas.Skel

abbrev Atom := Nat

/-- syntactic origin of the route-label argument of the end callback -/
inductive Label
  | sentinel (id : Nat)   -- a string literal (id indexes `Gen.Serve.sentinels`)
  | lookup (fn : Nat)     -- a variable bound from the pattern result of a route lookup (`getRoute`, `getRouteWithPath`, `Pattern`)
  | exactKey (fn : Nat)   -- the key of an exact static-table lookup, inside the branch where that lookup succeeded
  | raw (src : Nat)       -- anything else (e.g. `req.URL.Path`)
  deriving DecidableEq, Repr

inductive Ev
  | startG                          -- idiom: `if r.observability != nil { _, obsState = r.observability.OnRequestStart(ctx, req) … }`
  | wrapG                           -- idiom: `if r.observability != nil && obsState != nil { w = r.observability.WrapResponseWriter(w, obsState) }`
  | endG (l : Label) (wOK : Bool)   -- idiom: `if obsState != nil { r.observability.OnRequestEnd(_, obsState, w, l) }`; wOK: third argument is the tracked writer
  | obsRaw (what : Nat)             -- any observability call / obsState or writer assignment that is not one of the idioms
  | get (k : Nat)                   -- `c := getContextFromGlobalPool()` (k fresh per occurrence and per inlining)
  | release (k : Nat)               -- `releaseGlobalContext(c)`
  | assign (k f : Nat)              -- `c.<field f> = …` (directly or through initForRequest…); paramCount only ever `= 0`
  | reset (k : Nat)                 -- `c.reset()`
  | use (k what : Nat)              -- c mentioned (what = 0) or passed to a callee that is not inlined (what = code of the callee)
  | run (k what : Nat)              -- user-visible work on c: `c.Next()`, `handler(c)`, `c.NotFound()`, any other method call on c
  | wuse (what : Nat)               -- the tracked response writer is the receiver or an argument of a call
  | loopBegin (k : Nat) | loopEnd (k : Nat)  -- bracket one representative iteration of a loop that mentions context k
  | op (code : Nat)                 -- a recognised call of the app-layer skeletons (Gen/ObsApp.lean prints the code table)
  deriving DecidableEq, Repr

/-- statement skeleton: events, branching on abstract atoms (one fresh atom per `if` occurrence),
    early return, inlined callee (`scope`: a `ret` leaves only the scope; deferred events run when the
    scope ends, last deferred first) -/
inductive Stmt
  | ev (e : Ev)
  | skip
  | ret
  | defer (e : Ev)
  | seq (a b : Stmt)
  | ite (c : Atom) (t e : Stmt)
  | scope (s : Stmt)
  deriving DecidableEq, Repr

/-- right-nested sequence (keeps the generated terms flat) -/
def seqs : List Stmt → Stmt
  | [] => .skip
  | [s] => s
  | s :: r => .seq s (seqs r)

/-- outcome of executing a statement: trace, whether a `ret` was hit, pending deferred events
    (most recently deferred first) -/
structure Out where
  trace : List Ev
  returned : Bool
  defers : List Ev
  deriving DecidableEq, Repr

def exec (ρ : Atom → Bool) : Stmt → Out
  | .ev e => ⟨[e], false, []⟩
  | .skip => ⟨[], false, []⟩
  | .ret => ⟨[], true, []⟩
  | .defer e => ⟨[], false, [e]⟩
  | .seq a b =>
    let ra := exec ρ a
    if ra.returned then ra else
      let rb := exec ρ b
      ⟨ra.trace ++ rb.trace, rb.returned, rb.defers ++ ra.defers⟩
  | .ite c t e => if ρ c then exec ρ t else exec ρ e
  | .scope s =>
    let r := exec ρ s
    ⟨r.trace ++ r.defers, false, []⟩

/-- a symbolic path: constraints on atoms plus the outcome -/
structure Path where
  cond : List (Atom × Bool)
  out : Out
  deriving Repr

def paths : Stmt → List Path
  | .ev e => [⟨[], ⟨[e], false, []⟩⟩]
  | .skip => [⟨[], ⟨[], false, []⟩⟩]
  | .ret => [⟨[], ⟨[], true, []⟩⟩]
  | .defer e => [⟨[], ⟨[], false, [e]⟩⟩]
  | .seq a b =>
    (paths a).flatMap fun pa =>
      if pa.out.returned then [pa] else
        (paths b).map fun pb =>
          ⟨pa.cond ++ pb.cond, ⟨pa.out.trace ++ pb.out.trace, pb.out.returned, pb.out.defers ++ pa.out.defers⟩⟩
  | .ite c t e =>
    ((paths t).map fun p => { p with cond := (c, true) :: p.cond }) ++
    ((paths e).map fun p => { p with cond := (c, false) :: p.cond })
  | .scope s => (paths s).map fun p => { p with out := ⟨p.out.trace ++ p.out.defers, false, []⟩ }

def consistent (ρ : Atom → Bool) (p : Path) : Prop := ∀ cb ∈ p.cond, ρ cb.1 = cb.2

/-- soundness of the enumerator, once and for all: every execution is one of the enumerated paths -/
theorem exec_mem_paths (ρ : Atom → Bool) (s : Stmt) :
    ∃ p ∈ paths s, consistent ρ p ∧ p.out = exec ρ s := by
  induction s with
  | ev e => exact ⟨⟨[], ⟨[e], false, []⟩⟩, by simp [paths], by simp [consistent], by simp [exec]⟩
  | skip => exact ⟨⟨[], ⟨[], false, []⟩⟩, by simp [paths], by simp [consistent], by simp [exec]⟩
  | ret => exact ⟨⟨[], ⟨[], true, []⟩⟩, by simp [paths], by simp [consistent], by simp [exec]⟩
  | defer e => exact ⟨⟨[], ⟨[], false, [e]⟩⟩, by simp [paths], by simp [consistent], by simp [exec]⟩
  | seq a b iha ihb =>
    obtain ⟨pa, hpa, hca, hoa⟩ := iha
    obtain ⟨pb, hpb, hcb, hob⟩ := ihb
    by_cases hr : (exec ρ a).returned = true
    · refine ⟨pa, ?_, hca, ?_⟩
      · simp only [paths, List.mem_flatMap]
        exact ⟨pa, hpa, by simp [hoa, hr]⟩
      · simp [exec, hr, hoa]
    · have hr' : (exec ρ a).returned = false := by simpa using hr
      refine ⟨⟨pa.cond ++ pb.cond, ⟨pa.out.trace ++ pb.out.trace, pb.out.returned, pb.out.defers ++ pa.out.defers⟩⟩, ?_, ?_, ?_⟩
      · simp only [paths, List.mem_flatMap]
        refine ⟨pa, hpa, ?_⟩
        simp only [hoa, hr', Bool.false_eq_true, if_false, List.mem_map]
        exact ⟨pb, hpb, rfl⟩
      · intro cb hcb'
        simp only [List.mem_append] at hcb'
        cases hcb' with
        | inl h => exact hca cb h
        | inr h => exact hcb cb h
      · simp [exec, hr', hoa, hob]
  | scope s ih =>
    obtain ⟨p, hp, hcp, hop⟩ := ih
    refine ⟨{ p with out := ⟨p.out.trace ++ p.out.defers, false, []⟩ }, ?_, hcp, ?_⟩
    · simp only [paths, List.mem_map]; exact ⟨p, hp, rfl⟩
    · simp [exec, hop]
  | ite c t e iht ihe =>
    by_cases hc : ρ c = true
    · obtain ⟨p, hp, hcp, hop⟩ := iht
      refine ⟨{ p with cond := (c, true) :: p.cond }, ?_, ?_, ?_⟩
      · simp only [paths, List.mem_append, List.mem_map]
        exact Or.inl ⟨p, hp, rfl⟩
      · intro cb hcb
        simp only [List.mem_cons] at hcb
        cases hcb with
        | inl h => subst h; exact hc
        | inr h => exact hcp cb h
      · simp [exec, hc, hop]
    · have hc' : ρ c = false := by simpa using hc
      obtain ⟨p, hp, hcp, hop⟩ := ihe
      refine ⟨{ p with cond := (c, false) :: p.cond }, ?_, ?_, ?_⟩
      · simp only [paths, List.mem_append, List.mem_map]
        exact Or.inr ⟨p, hp, rfl⟩
      · intro cb hcb
        simp only [List.mem_cons] at hcb
        cases hcb with
        | inl h => subst h; exact hc'
        | inr h => exact hcp cb h
      · simp [exec, hc', hop]

/-- satisfiable = no atom required both true and false (with one fresh atom per `if` every path
    is satisfiable; the filter matters only for hand-written skeletons that reuse atoms) -/
def sat (p : Path) : Bool := p.cond.all fun cb => !(p.cond.contains (cb.1, !cb.2))

theorem sat_of_consistent (ρ : Atom → Bool) (p : Path) (hc : consistent ρ p) : sat p = true := by
  simp only [sat, List.all_eq_true, Bool.not_eq_true', List.contains_eq_mem, decide_eq_false_iff_not]
  intro cb hcb hneg
  have h1 := hc cb hcb
  have h2 := hc _ hneg
  simp at h2
  rw [h1] at h2
  cases hb : cb.2 <;> simp [hb] at h2

/-- the traces of all paths (what the kernel evaluates; conditions are not computed) -/
def traces (s : Stmt) : List (List Ev) := (paths s).map (·.out.trace)

/-- lift: a Boolean check that holds on the trace of every enumerated path holds on every execution -/
theorem all_exec (s : Stmt) (P : List Ev → Bool) (h : (traces s).all P = true)
    (ρ : Atom → Bool) : P (exec ρ s).trace = true := by
  obtain ⟨p, hp, _, ho⟩ := exec_mem_paths ρ s
  rw [← ho]
  exact List.all_eq_true.mp h p.out.trace (by simp only [traces, List.mem_map]; exact ⟨p, hp, rfl⟩)

/-- same with the satisfiability filter (sketch A's `all_exec_balanced`, for any check) -/
theorem all_exec_sat (s : Stmt) (P : List Ev → Bool)
    (h : ((paths s).filter sat).all (fun p => P p.out.trace) = true)
    (ρ : Atom → Bool) : P (exec ρ s).trace = true := by
  obtain ⟨p, hp, hc, ho⟩ := exec_mem_paths ρ s
  rw [← ho]
  exact List.all_eq_true.mp h p (by simp [List.mem_filter, hp, sat_of_consistent ρ p hc])

/-! ### projection: forget the events an obligation does not talk about -/

def proj (keep : Ev → Bool) : Stmt → Stmt
  | .ev e => if keep e then .ev e else .skip
  | .skip => .skip
  | .ret => .ret
  | .defer e => if keep e then .defer e else .skip
  | .seq a b => .seq (proj keep a) (proj keep b)
  | .ite c t e => .ite c (proj keep t) (proj keep e)
  | .scope s => .scope (proj keep s)

def Out.filter (keep : Ev → Bool) (o : Out) : Out := ⟨o.trace.filter keep, o.returned, o.defers.filter keep⟩

theorem exec_proj (keep : Ev → Bool) (ρ : Atom → Bool) (s : Stmt) :
    exec ρ (proj keep s) = (exec ρ s).filter keep := by
  induction s with
  | ev e => by_cases h : keep e = true <;> simp [proj, exec, Out.filter, h]
  | skip => simp [proj, exec, Out.filter]
  | ret => simp [proj, exec, Out.filter]
  | defer e => by_cases h : keep e = true <;> simp [proj, exec, Out.filter, h]
  | seq a b iha ihb =>
    simp only [proj, exec, iha, ihb]
    by_cases hr : (exec ρ a).returned = true
    · simp [Out.filter, hr]
    · have hr' : (exec ρ a).returned = false := by simpa using hr
      simp [Out.filter, hr']
  | ite c t e iht ihe =>
    simp only [proj, exec, iht, ihe]
    by_cases hc : ρ c = true <;> simp [hc]
  | scope s ih =>
    simp only [proj, exec, ih]
    simp [Out.filter]

/-! ### pruning: remove structure that cannot influence any outcome -/

def mkSeq : Stmt → Stmt → Stmt
  | .skip, b => b
  | a, .skip => a
  | a, b => .seq a b

def mkIte (c : Atom) : Stmt → Stmt → Stmt
  | .skip, .skip => .skip
  | .ret, .ret => .ret
  | t, e => .ite c t e

/-- a statement without `ret` and `defer` needs no scope -/
def plain : Stmt → Bool
  | .ev _ => true
  | .skip => true
  | .ret => false
  | .defer _ => false
  | .seq a b => plain a && plain b
  | .ite _ t e => plain t && plain e
  | .scope _ => true

/-- no event and no deferred event anywhere inside -/
def silent : Stmt → Bool
  | .ev _ => false
  | .skip => true
  | .ret => true
  | .defer _ => false
  | .seq a b => silent a && silent b
  | .ite _ t e => silent t && silent e
  | .scope s => silent s

def mkScope (s : Stmt) : Stmt := if silent s then .skip else if plain s then s else .scope s

def prune : Stmt → Stmt
  | .seq a b => mkSeq (prune a) (prune b)
  | .ite c t e => mkIte c (prune t) (prune e)
  | .scope s => mkScope (prune s)
  | s => s

theorem exec_mkSeq (ρ : Atom → Bool) (a b : Stmt) : exec ρ (mkSeq a b) = exec ρ (.seq a b) := by
  unfold mkSeq
  split
  · simp [exec]
  · simp only [exec, List.append_nil, List.nil_append]
    cases hs : exec ρ a with
    | mk t r d => cases r <;> simp
  · rfl

theorem exec_mkIte (ρ : Atom → Bool) (c : Atom) (t e : Stmt) : exec ρ (mkIte c t e) = exec ρ (.ite c t e) := by
  unfold mkIte
  split <;> simp [exec]

theorem plain_exec (ρ : Atom → Bool) (s : Stmt) (h : plain s = true) :
    (exec ρ s).returned = false ∧ (exec ρ s).defers = [] := by
  induction s with
  | ev e => simp [exec]
  | skip => simp [exec]
  | ret => simp [plain] at h
  | defer e => simp [plain] at h
  | seq a b iha ihb =>
    simp only [plain, Bool.and_eq_true] at h
    obtain ⟨ha1, ha2⟩ := iha h.1
    obtain ⟨hb1, hb2⟩ := ihb h.2
    simp [exec, ha1, ha2, hb1, hb2]
  | ite c t e iht ihe =>
    simp only [plain, Bool.and_eq_true] at h
    by_cases hc : ρ c = true
    · simp [exec, hc, iht h.1]
    · simp [exec, hc, ihe h.2]
  | scope s _ => simp [exec]

theorem silent_exec (ρ : Atom → Bool) (s : Stmt) (h : silent s = true) :
    (exec ρ s).trace = [] ∧ (exec ρ s).defers = [] := by
  induction s with
  | ev e => simp [silent] at h
  | skip => simp [exec]
  | ret => simp [exec]
  | defer e => simp [silent] at h
  | seq a b iha ihb =>
    simp only [silent, Bool.and_eq_true] at h
    obtain ⟨ha1, ha2⟩ := iha h.1
    obtain ⟨hb1, hb2⟩ := ihb h.2
    simp only [exec]
    split <;> simp [ha1, ha2, hb1, hb2]
  | ite c t e iht ihe =>
    simp only [silent, Bool.and_eq_true] at h
    by_cases hc : ρ c = true
    · simp [exec, hc, iht h.1]
    · simp [exec, hc, ihe h.2]
  | scope s ih =>
    simp only [silent] at h
    simp [exec, ih h]

theorem exec_mkScope (ρ : Atom → Bool) (s : Stmt) : exec ρ (mkScope s) = exec ρ (.scope s) := by
  unfold mkScope
  by_cases hsil : silent s = true
  · obtain ⟨h1, h2⟩ := silent_exec ρ s hsil
    simp [hsil, exec, h1, h2]
  · by_cases h : plain s = true
    · obtain ⟨h1, h2⟩ := plain_exec ρ s h
      simp only [hsil, h, if_true, exec, h2, List.append_nil]
      cases hs : exec ρ s with
      | mk t r d => simp_all
    · simp [hsil, h]

theorem exec_prune (ρ : Atom → Bool) (s : Stmt) : exec ρ (prune s) = exec ρ s := by
  induction s with
  | seq a b iha ihb => simp only [prune, exec_mkSeq, exec, iha, ihb]
  | ite c t e iht ihe => simp only [prune, exec_mkIte, exec, iht, ihe]
  | scope s ih => simp only [prune, exec_mkScope, exec, ih]
  | _ => rfl

/-- the form the `Tie` obligations use: project, prune, enumerate, check -/
def slice (keep : Ev → Bool) (s : Stmt) : Stmt := prune (proj keep s)

theorem all_exec_slice (s : Stmt) (keep : Ev → Bool) (P : List Ev → Bool)
    (h : (traces (slice keep s)).all P = true) (ρ : Atom → Bool) :
    P ((exec ρ s).trace.filter keep) = true := by
  have := all_exec (slice keep s) P h ρ
  simpa [slice, exec_prune, exec_proj, Out.filter] using this

/-! ### panic exits

A designated class of events (`mp e`: user code is called — the handler chain, the NoRoute handler) may panic. The
panic unwinds: the rest of the statement list is skipped, the deferred events of every enclosing scope run (innermost
scope first, last deferred first), nothing else. `pexec ρ k` panics at the k-th such event it executes (`none`: never);
`ppaths` enumerates every normal and every panic outcome; `pexec_mem_ppaths` is the soundness of that enumeration. -/

/-- 0 running, 1 returned, 2 panicking -/
structure POut where
  trace : List Ev
  st : Nat
  defers : List Ev
  deriving DecidableEq, Repr

def pexec (mp : Ev → Bool) (ρ : Atom → Bool) : Stmt → Option Nat → POut × Option Nat
  | .ev e, k =>
    if mp e then
      match k with
      | some 0 => (⟨[e], 2, []⟩, none)
      | some (n + 1) => (⟨[e], 0, []⟩, some n)
      | none => (⟨[e], 0, []⟩, none)
    else (⟨[e], 0, []⟩, k)
  | .skip, k => (⟨[], 0, []⟩, k)
  | .ret, k => (⟨[], 1, []⟩, k)
  | .defer e, k => (⟨[], 0, [e]⟩, k)
  | .seq a b, k =>
    let ra := pexec mp ρ a k
    if ra.1.st != 0 then ra else
      let rb := pexec mp ρ b ra.2
      (⟨ra.1.trace ++ rb.1.trace, rb.1.st, rb.1.defers ++ ra.1.defers⟩, rb.2)
  | .ite c t e, k => if ρ c then pexec mp ρ t k else pexec mp ρ e k
  | .scope s, k =>
    let r := pexec mp ρ s k
    (⟨r.1.trace ++ r.1.defers, if r.1.st == 2 then 2 else 0, []⟩, r.2)

def ppaths (mp : Ev → Bool) : Stmt → List POut
  | .ev e => ⟨[e], 0, []⟩ :: (if mp e then [⟨[e], 2, []⟩] else [])
  | .skip => [⟨[], 0, []⟩]
  | .ret => [⟨[], 1, []⟩]
  | .defer e => [⟨[], 0, [e]⟩]
  | .seq a b =>
    (ppaths mp a).flatMap fun pa =>
      if pa.st != 0 then [pa] else
        (ppaths mp b).map fun pb => ⟨pa.trace ++ pb.trace, pb.st, pb.defers ++ pa.defers⟩
  | .ite _ t e => ppaths mp t ++ ppaths mp e
  | .scope s => (ppaths mp s).map fun p => ⟨p.trace ++ p.defers, if p.st == 2 then 2 else 0, []⟩

/-- every execution, panicking anywhere or not at all, is one of the enumerated outcomes -/
theorem pexec_mem_ppaths (mp : Ev → Bool) (ρ : Atom → Bool) (s : Stmt) :
    ∀ k, (pexec mp ρ s k).1 ∈ ppaths mp s := by
  induction s with
  | ev e =>
    intro k
    by_cases h : mp e = true
    · cases k with
      | none => simp [pexec, ppaths, h]
      | some n => cases n <;> simp [pexec, ppaths, h]
    · simp [pexec, ppaths, h]
  | skip => intro k; simp [pexec, ppaths]
  | ret => intro k; simp [pexec, ppaths]
  | defer e => intro k; simp [pexec, ppaths]
  | seq a b iha ihb =>
    intro k
    simp only [pexec, ppaths, List.mem_flatMap]
    refine ⟨(pexec mp ρ a k).1, iha k, ?_⟩
    by_cases hs : ((pexec mp ρ a k).1.st != 0) = true
    · simp [hs]
    · simp only [hs, if_false, Bool.false_eq_true, List.mem_map]
      exact ⟨(pexec mp ρ b (pexec mp ρ a k).2).1, ihb _, rfl⟩
  | ite c t e iht ihe =>
    intro k
    simp only [pexec, ppaths, List.mem_append]
    by_cases hc : ρ c = true
    · simp only [hc, if_true]; exact Or.inl (iht k)
    · simp only [hc, if_false, Bool.false_eq_true]; exact Or.inr (ihe k)
  | scope s ih =>
    intro k
    simp only [pexec, ppaths, List.mem_map]
    exact ⟨(pexec mp ρ s k).1, ih k, rfl⟩

/-- lift: a check that holds on every enumerated outcome holds on every execution -/
theorem all_pexec (mp : Ev → Bool) (s : Stmt) (P : POut → Bool) (h : (ppaths mp s).all P = true)
    (ρ : Atom → Bool) (k : Option Nat) : P (pexec mp ρ s k).1 = true :=
  List.all_eq_true.mp h _ (pexec_mem_ppaths mp ρ s k)

/-- without a panic `pexec` is `exec` -/
theorem pexec_none (mp : Ev → Bool) (ρ : Atom → Bool) (s : Stmt) :
    pexec mp ρ s none = (⟨(exec ρ s).trace, if (exec ρ s).returned then 1 else 0, (exec ρ s).defers⟩, none) := by
  induction s with
  | ev e => by_cases h : mp e = true <;> simp [pexec, exec, h]
  | skip => simp [pexec, exec]
  | ret => simp [pexec, exec]
  | defer e => simp [pexec, exec]
  | seq a b iha ihb =>
    simp only [pexec, exec, iha, ihb]
    cases hr : (exec ρ a).returned <;> simp [hr]
  | ite c t e iht ihe =>
    simp only [pexec, exec]
    by_cases hc : ρ c = true <;> simp [hc, iht, ihe]
  | scope s ih =>
    simp only [pexec, exec, ih]
    cases (exec ρ s).returned <;> simp

/-- number of paths (reported by the checks) -/
def pathCount (s : Stmt) : Nat := (paths s).length

end Rivaas.Skel
