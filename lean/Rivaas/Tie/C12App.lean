/-
C12, translator tie (B), app layer: `Gen/AppGuards.lean` lists, from the current source of app/*.go, for every exported
method of app.App / app.Group / app.VersionGroup the guards (`if a.router.Frozen() { panic }`), the calls into the
router layer, the writes of app state, the OpenAPI operations added and the route hooks fired — in source order, calls
to other methods of the three types inlined.

`app_traces_guarded`: in every listed method the first thing that leaves a trace in the app (a write of app state, an
OpenAPI operation, a fired route hook) comes after a frozen-guard or after a router-layer registration that
`Gen/Guards.lean` (same run) proves guarded — so an attempt made after serving began panics before it has changed
anything a request could observe (hooks list, served specification, route callbacks). Moving `AddOperation` in front
of the router registration, or dropping the `Frozen()` test from a hook registrar, breaks the obligation on the next run.
-/
import Rivaas.Gen.AppGuards
import Rivaas.Gen.Guards

namespace Rivaas.Tie.C12App
open Rivaas.Gen

abbrev Event := String × String × String

def isTrace (e : Event) : Bool := e.1 == "write" || e.1 == "doc" || e.1 == "hook"

/-- a frozen-guard, or a call of a router-layer method that checks frozen/serving before its first write -/
def isGuard (e : Event) : Bool :=
  e.1 == "guard" || (e.1 == "reg" && Guards.mutators.contains (e.2.1, e.2.2, true))

/-- the first trace is preceded by a guard -/
def guardedBeforeTrace : List Event → Bool
  | [] => true
  | e :: rest => if isGuard e then true else if isTrace e then false else guardedBeforeTrace rest

/-- group middleware lists only affect registrations made later through the group (which are rejected after the
    freeze); the verif-tag hook `VerifOpenAPIAddOperation` is the harness's own entry point -/
def excluded : List (String × String) :=
  [("Group", "Use"), ("VersionGroup", "Use"), ("App", "VerifOpenAPIAddOperation")]

/-- THE regenerated obligation -/
theorem app_traces_guarded :
    AppGuards.appMethods.all (fun m => guardedBeforeTrace m.2.2 || excluded.contains (m.1, m.2.1)) = true := by decide

/-- the methods the C12 app-layer cases exercise are in the table: the seven verbs on all three registrars and the six
    lifecycle hook registrars; each of them does leave a trace (so the obligation above is not vacuous for them) -/
theorem app_registrars_listed :
    ([("App", "GET"), ("App", "POST"), ("App", "PUT"), ("App", "DELETE"), ("App", "PATCH"), ("App", "HEAD"), ("App", "OPTIONS"),
      ("App", "Any"), ("Group", "GET"), ("Group", "POST"), ("Group", "Any"), ("VersionGroup", "GET"), ("VersionGroup", "POST"),
      ("VersionGroup", "Any"), ("App", "OnStart"), ("App", "OnReady"), ("App", "OnReload"), ("App", "OnShutdown"), ("App", "OnStop"),
      ("App", "OnRoute")] : List (String × String)).all
      (fun k => AppGuards.appMethods.any fun m => m.1 == k.1 && m.2.1 == k.2 && m.2.2.any isTrace) = true := by decide

/-- app.URLFor / MustURLFor go straight to the router's (guarded: `ErrRoutesNotFrozen` before the freeze) -/
theorem app_urlfor_delegates :
    AppGuards.appMethods.contains ("App", "URLFor", [("reg", "Router", "URLFor")]) = true ∧
    AppGuards.appMethods.contains ("App", "MustURLFor", [("reg", "Router", "MustURLFor")]) = true := by decide

/-! ### reverse patterns: built under the write lock, no lock upgrade -/

/-- lock state while walking a function in source order: mutexes write-held, read-held (a deferred unlock keeps the
    lock until the function returns) -/
structure Held where
  w : List String
  r : List String
  ok : Bool

def lockStep (h : Held) (e : String × String) : Held :=
  if e.1 == "lock" then
    -- taking the write lock of a mutex this goroutine read-holds (or write-holds) can never succeed
    { h with w := e.2 :: h.w, ok := h.ok && !h.r.contains e.2 && !h.w.contains e.2 }
  else if e.1 == "rlock" then { h with r := e.2 :: h.r, ok := h.ok && !h.w.contains e.2 }
  else if e.1 == "unlock" then { h with w := h.w.erase e.2 }
  else if e.1 == "runlock" then { h with r := h.r.erase e.2 }
  else if e.1 == "write" then
    -- `SetReversePattern`: only with the route table's write lock held (K12d: `Freeze` writes under the same lock)
    { h with ok := h.ok && h.w.contains "routesMutex" }
  else h   -- deferred unlocks release at return; `build` needs nothing

def lockDisciplineOK (evs : List (String × String)) : Bool := (evs.foldl lockStep ⟨[], [], true⟩).ok

/-- **every write of a route's reverse pattern happens under `routesMutex.Lock()`** — in `Freeze` (before `freeze.done`,
    i.e. before any goroutine that waited for the freeze can observe it) and in the lazy path of `URLFor` — **and no
    function takes the write lock of a mutex it still read-holds** (seeded C12-16: `defer RUnlock` + `Lock` in `URLFor`
    dead-locked itself and the freeze) -/
theorem reverse_patterns_written_under_lock :
    AppGuards.reverseLockEvents.all (fun f => lockDisciplineOK f.2) = true := by decide

/-- the two functions the model's `urlFor` / `freezeFinish` stand for are in the table (helpers of package router are
    inlined, so a write moved into a helper is still seen inside them), each with a write -/
theorem reverse_pattern_writers_listed :
    (["Router.Freeze", "Router.URLFor"] : List String).all
      (fun n => AppGuards.reverseLockEvents.any fun f => f.1 == n && f.2.contains ("write", "reversePattern")) = true := by
  decide

/-- not vacuous: the C12-16 shape and an unlocked write are rejected -/
example : lockDisciplineOK [("rlock", "routesMutex"), ("defer-runlock", "routesMutex"), ("lock", "routesMutex"),
    ("write", "reversePattern"), ("unlock", "routesMutex")] = false ∧
    lockDisciplineOK [("rlock", "routesMutex"), ("write", "reversePattern"), ("runlock", "routesMutex")] = false := by decide

end Rivaas.Tie.C12App
