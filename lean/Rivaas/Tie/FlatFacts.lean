/- Helpers for Tie obligations over the flat event lists of extract/flatfacts.go (events are pairs: kind, text):
   positions of events. Core Lean only. -/
namespace Rivaas.Tie.Flat

abbrev Ev := String × String

def call (n : String) : Ev := ("call", n)
def lit (n : String) : Ev := ("lit", n)
def iff (n : String) : Ev := ("if", n)
def var (n : String) : Ev := ("var", n)
def set (n : String) : Ev := ("set", n)
def kw (n : String) : Ev := (n, "")

/-- position of the first occurrence -/
def first (e : Ev) (l : List Ev) : Option Nat :=
  let i := l.findIdx (· == e)
  if i < l.length then some i else none

/-- position of the last occurrence -/
def last (e : Ev) (l : List Ev) : Option Nat :=
  (first e l.reverse).map fun i => l.length - 1 - i

/-- number of occurrences -/
def count (e : Ev) (l : List Ev) : Nat := (l.filter (· == e)).length

/-- `a` occurs, `b` occurs, and the first `a` comes before the first `b` -/
def firstBefore (a b : Ev) (l : List Ev) : Bool :=
  match first a l, first b l with
  | some i, some j => i < j
  | _, _ => false

/-- … the last `a` before the last `b` -/
def lastBefore (a b : Ev) (l : List Ev) : Bool :=
  match last a l, last b l with
  | some i, some j => i < j
  | _, _ => false

/-- … the first `a` before the last `b` -/
def firstBeforeLast (a b : Ev) (l : List Ev) : Bool :=
  match first a l, last b l with
  | some i, some j => i < j
  | _, _ => false

/-- `e` occurs strictly between the first `a` and the first `b` after it -/
def between (e a b : Ev) (l : List Ev) : Bool :=
  match first a l with
  | some i =>
    let rest := l.drop (i + 1)
    (match first b rest with
     | some j => (rest.take j).contains e
     | none => false)
  | none => false

/-- the texts of the events of one kind, in order (`"if"`, `"lit"`, `"set"`, `"var"`, `"call"`) -/
def only (kind : String) (l : List Ev) : List String := (l.filter (·.1 == kind)).map (·.2)

/-- the list starts with `e` -/
def nothingBefore (e : Ev) (l : List Ev) : Bool := l.head? == some e

end Rivaas.Tie.Flat
