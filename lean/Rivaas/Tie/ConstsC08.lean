/- Translator tie (B), constants: every literal of the Go source that the model of C03 and C08 mirrors equals the value
   extract/ regenerates from the current source (Gen/Consts.lean) on every run. An edited threshold, list or
   marker in /repo breaks the theorem named after it. -/
import Rivaas.Gen.Consts
import Rivaas.Model.Pool
import Rivaas.Spec.Obs
namespace Rivaas.Tie.ConstsC08
open Rivaas.Gen.Consts
theorem consts_C03_slotCount : Rivaas.Pool.slotCount = router_inlineSlots := by decide
theorem consts_C08_sentinels :
    router_sentinelPatterns.map String.toList = [Rivaas.Serve.sMethodNotAllowed, Rivaas.Serve.sNotFound, Rivaas.Serve.sUnmatched] ∧
    router_notFoundLabel.toList = Rivaas.Serve.sNotFound ∧
    (router_sentinelPatterns.map String.toList).all (Rivaas.Obs.sentinels.contains ·) = true := by decide
end Rivaas.Tie.ConstsC08
