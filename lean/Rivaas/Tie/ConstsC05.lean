/- Translator tie (B), constants: every literal of the Go source that the model of C05 mirrors equals the value
   extract/ regenerates from the current source (Gen/Consts.lean) on every run. An edited threshold, list or
   marker in /repo breaks the theorem named after it. -/
import Rivaas.Gen.Consts
import Rivaas.Model.Presence
namespace Rivaas.Tie.ConstsC05
open Rivaas.Gen.Consts
theorem consts_C05_maxRecursionDepth : Rivaas.Presence.maxRecursionDepth = validation_maxRecursionDepth := by decide
end Rivaas.Tie.ConstsC05
