/-
C08, translator tie (B): obligations on the skeleton of `(*Router).ServeHTTP` and its helpers that
`extract/` regenerates from router/*.go on every run (`Gen/Serve.lean`).

One kernel evaluation (`serve_shape_paths`, by `decide` over the enumerated paths of the sliced
skeleton) establishes the *shape* of every execution's observability-relevant trace:

    startG, wrapG, (response work)*, endG label(on the tracked writer)

and everything the property says about control flow follows from the shape by list lemmas:
the end callback runs exactly once, after the start, nothing response-related follows it, its label is
a pattern variable or a sentinel, it receives the wrapped writer, and no observability call occurs
outside the three guarded idioms. An early `return` without the end callback, a second end call, a
response write after it, or a label taken from `req.URL.Path` makes `decide` fail on the next run.
-/
import Rivaas.Tie.Skel
import Rivaas.Gen.Serve
import Rivaas.Props.C08

namespace Rivaas.Tie.C08
open Rivaas.Skel Rivaas.Gen.Serve

/-- events the C08 obligations talk about -/
def keepObs : Ev → Bool
  | .startG | .wrapG | .endG .. | .obsRaw _ | .wuse _ | .run .. => true
  | _ => false

/-- label argument is syntactically bounded: literal sentinel, pattern result of a lookup, or the key
    of a successful exact static lookup -/
def labelOK : Label → Bool
  | .sentinel _ | .lookup _ | .exactKey _ => true
  | .raw _ => false

/-- response-related work: handler chain / error responder on a context, or a call on the writer -/
def isResp : Ev → Bool
  | .wuse _ | .run .. => true
  | _ => false

def body : List Ev → Bool
  | [.endG l ok] => ok && labelOK l
  | .wuse _ :: r => body r
  | .run _ _ :: r => body r
  | _ => false

def shape : List Ev → Bool
  | .startG :: .wrapG :: r => body r
  | _ => false

/-- the observability-relevant trace of an execution -/
def obsTrace (ρ : Atom → Bool) : List Ev := (exec ρ serveHTTP).trace.filter keepObs

set_option maxRecDepth 100000 in
/-- THE regenerated obligation: every path of the current skeleton has the shape -/
theorem serve_shape_paths : (traces (slice keepObs serveHTTP)).all shape = true := by decide +kernel

theorem serve_shape (ρ : Atom → Bool) : shape (obsTrace ρ) = true :=
  all_exec_slice serveHTTP keepObs shape serve_shape_paths ρ

/-! ### what the shape means (pure list lemmas) -/

theorem lemma_body_decomp (t : List Ev) (h : body t = true) :
    ∃ mid l, t = mid ++ [Ev.endG l true] ∧ labelOK l = true ∧ ∀ e ∈ mid, isResp e = true := by
  induction t with
  | nil => simp [body] at h
  | cons e r ih =>
    cases e with
    | endG l ok =>
      cases r with
      | nil =>
        simp only [body, Bool.and_eq_true] at h
        exact ⟨[], l, by simp [h.1], h.2, by simp⟩
      | cons e' r' => simp [body] at h
    | wuse w =>
      simp only [body] at h
      obtain ⟨mid, l, h1, h2, h3⟩ := ih h
      refine ⟨Ev.wuse w :: mid, l, by simp [h1], h2, ?_⟩
      intro e he
      simp only [List.mem_cons] at he
      rcases he with rfl | he
      · rfl
      · exact h3 e he
    | run k w =>
      simp only [body] at h
      obtain ⟨mid, l, h1, h2, h3⟩ := ih h
      refine ⟨Ev.run k w :: mid, l, by simp [h1], h2, ?_⟩
      intro e he
      simp only [List.mem_cons] at he
      rcases he with rfl | he
      · rfl
      · exact h3 e he
    | _ => simp [body] at h

theorem lemma_shape_decomp (t : List Ev) (h : shape t = true) :
    ∃ mid l, t = Ev.startG :: Ev.wrapG :: (mid ++ [Ev.endG l true]) ∧ labelOK l = true ∧
      ∀ e ∈ mid, isResp e = true := by
  match t, h with
  | .startG :: .wrapG :: r, h =>
    simp only [shape] at h
    obtain ⟨mid, l, h1, h2, h3⟩ := lemma_body_decomp r h
    exact ⟨mid, l, by rw [h1], h2, h3⟩

def isEnd : Ev → Bool | .endG .. => true | _ => false
def isStart : Ev → Bool | .startG => true | _ => false
def isRaw : Ev → Bool | .obsRaw _ => true | _ => false

theorem lemma_resp_not (mid : List Ev) (h : ∀ e ∈ mid, isResp e = true) :
    mid.filter isEnd = [] ∧ mid.filter isStart = [] ∧ mid.filter isRaw = [] := by
  refine ⟨?_, ?_, ?_⟩ <;>
  · rw [List.filter_eq_nil_iff]
    intro e he
    have := h e he
    cases e <;> simp_all [isResp, isEnd, isStart, isRaw]

/-- filtering the full trace for ends/starts/raw calls sees the same events as filtering the sliced one -/
theorem lemma_filter_keep (p : Ev → Bool) (hp : ∀ e, p e = true → keepObs e = true) (t : List Ev) :
    (t.filter keepObs).filter p = t.filter p := by
  rw [List.filter_filter]
  congr 1
  funext e
  by_cases h : p e = true
  · simp [h, hp e h]
  · simp [h]

/-- **exactly once**: on every path of the current `ServeHTTP` (static, tree, compiled, versioned, 404, 405,
    NoRoute, sunset) the guarded end callback occurs exactly once, and so does the guarded start -/
theorem end_exactly_once (ρ : Atom → Bool) :
    ((exec ρ serveHTTP).trace.filter isEnd).length = 1 ∧
    ((exec ρ serveHTTP).trace.filter isStart).length = 1 := by
  obtain ⟨mid, l, ht, _, hm⟩ := lemma_shape_decomp _ (serve_shape ρ)
  obtain ⟨h1, h2, _⟩ := lemma_resp_not mid hm
  have e1 := lemma_filter_keep isEnd (by intro e h; cases e <;> simp_all [isEnd, keepObs]) (exec ρ serveHTTP).trace
  have e2 := lemma_filter_keep isStart (by intro e h; cases e <;> simp_all [isStart, keepObs]) (exec ρ serveHTTP).trace
  unfold obsTrace at ht
  rw [ht] at e1 e2
  constructor
  · rw [← e1]; simp [List.filter_cons, List.filter_append, isEnd, h1]
  · rw [← e2]; simp [List.filter_cons, List.filter_append, isStart, h2]

/-- **after the response is complete**: the end callback is the last observability/response event of the
    request — the start and the writer wrap precede everything, no handler, error responder or writer call follows
    the end callback -/
theorem end_last (ρ : Atom → Bool) :
    ∃ mid l, obsTrace ρ = Ev.startG :: Ev.wrapG :: (mid ++ [Ev.endG l true]) ∧ ∀ e ∈ mid, isResp e = true := by
  obtain ⟨mid, l, ht, _, hm⟩ := lemma_shape_decomp _ (serve_shape ρ)
  exact ⟨mid, l, ht, hm⟩

/-- **bounded label, truthful writer**: every end callback of every path passes a literal sentinel or a
    pattern bound from a route lookup (never `req.URL.Path`), and passes the writer that was wrapped -/
theorem label_bounded (ρ : Atom → Bool) :
    ∀ e ∈ (exec ρ serveHTTP).trace, ∀ l ok, e = Ev.endG l ok → labelOK l = true ∧ ok = true := by
  intro e he l ok hel
  obtain ⟨mid, l', ht, hl, hm⟩ := lemma_shape_decomp _ (serve_shape ρ)
  have hmem : e ∈ obsTrace ρ := by
    unfold obsTrace
    rw [List.mem_filter]
    exact ⟨he, by subst hel; rfl⟩
  rw [ht] at hmem
  simp only [List.mem_cons, List.mem_append, List.not_mem_nil, or_false] at hmem
  subst hel
  rcases hmem with h | h | h | h
  · cases h
  · cases h
  · have := hm _ h; simp [isResp] at this
  · injection h with h1 h2; subst h1; subst h2; exact ⟨hl, rfl⟩

/-- no `OnRequestStart` / `OnRequestEnd` / `WrapResponseWriter` call, no assignment to the state variable or the
    writer, no `panic` outside the three guarded idioms, on any path -/
theorem no_unguarded_obs_call (ρ : Atom → Bool) : (exec ρ serveHTTP).trace.filter isRaw = [] := by
  obtain ⟨mid, l, ht, _, hm⟩ := lemma_shape_decomp _ (serve_shape ρ)
  obtain ⟨_, _, h3⟩ := lemma_resp_not mid hm
  have e1 := lemma_filter_keep isRaw (by intro e h; cases e <;> simp_all [isRaw, keepObs]) (exec ρ serveHTTP).trace
  unfold obsTrace at ht
  rw [ht] at e1
  rw [← e1]; simp [List.filter_append, isRaw, h3]

/-- the literal sentinels start with `_` (95): they cannot be mistaken for a request path, which starts with `/` -/
theorem sentinels_not_paths : sentinelFirstByte.all (fun p => p.2 == 95) = true := by decide

/-! ### calls made, given whether the recorder is installed and did not exclude the request -/

/-- number of `OnRequestEnd` calls the trace stands for: the idiom calls iff the state is non-nil -/
def endCalls (live : Bool) (t : List Ev) : Nat := if live then (t.filter isEnd).length else 0
/-- number of `OnRequestStart` calls that returned a non-nil state -/
def liveStarts (live : Bool) (t : List Ev) : Nat := if live then (t.filter isStart).length else 0

/-- `#OnRequestEnd == #OnRequestStart(state != nil)` on every path, whatever the recorder answered -/
theorem starts_eq_ends (ρ : Atom → Bool) (live : Bool) :
    endCalls live (exec ρ serveHTTP).trace = liveStarts live (exec ρ serveHTTP).trace ∧
    endCalls true (exec ρ serveHTTP).trace = 1 := by
  obtain ⟨h1, h2⟩ := end_exactly_once ρ
  cases live <;> simp [endCalls, liveStarts, h1, h2]

/-! ### the hand-written model and the regenerated skeleton have the same exits -/

open Rivaas.Serve in
/-- router-level response operation an event stands for; `none`: start/wrap/end (covered by the shape);
    `some none`: an operation the model does not know -/
def ropOf : Ev → Option (Option ROp)
  | .run _ w =>
    some (if w = whatNext then some .next else if w = whatNotFound then some .notFound
      else if w = whatMethodNotAllowed then some .methodNotAllowed else if w = whatCallHandler then some .noRoute else none)
  | .wuse w =>
    some (if w = whatSetLifecycleHeaders then some .lifecycle else if w = whatWriteHeader then some .writeHeader
      else if w = whatWrite then some .writeBody else none)
  | _ => none

def dedup : List (List (Option Rivaas.Serve.ROp)) → List (List (Option Rivaas.Serve.ROp))
  | [] => []
  | x :: r => if (dedup r).contains x then dedup r else x :: dedup r

/-- the distinct sequences of router-level response operations over all paths of the current skeleton -/
def skeletonExits : List (List (Option Rivaas.Serve.ROp)) :=
  dedup ((traces (slice keepObs serveHTTP)).map (·.filterMap ropOf))

set_option maxRecDepth 100000 in
/-- every exit of the regenerated skeleton is an exit of the model (`Model/Serve.lean` misses no serve path of the
    code: a new helper, a new early answer or a new writer call in ServeHTTP breaks this), and every exit of the model
    occurs in the skeleton (the model invents none) -/
theorem exits_agree :
    skeletonExits.all (fun s => (Rivaas.C08.modelExits.map (·.map some)).contains s) = true ∧
    Rivaas.C08.modelExits.all (fun m => skeletonExits.contains (m.map some)) = true := by decide +kernel

/-- for all lookup answers and handler programs, the operations the model's dispatch performs are the operations of
    some path of the code's skeleton -/
theorem model_exits_are_skeleton_exits (f : Rivaas.Serve.Facts) (p : Rivaas.Serve.Prog) :
    (Rivaas.Serve.dispatch false f p).ops.map some ∈ skeletonExits := by
  have h := Rivaas.C08.lemma_dispatch_ops false f p
  have h2 := exits_agree.2
  rw [List.all_eq_true] at h2
  have := h2 _ h
  simpa using this

end Rivaas.Tie.C08
