/- Translator tie (B), constants: every literal of the Go source that the model of C04 mirrors equals the value
   extract/ regenerates from the current source (Gen/Consts.lean) on every run. An edited threshold, list or
   marker in /repo breaks the theorem named after it. -/
import Rivaas.Gen.Consts
import Rivaas.Model.BindTypes
namespace Rivaas.Tie.ConstsC04
open Rivaas.Gen.Consts Rivaas.Bind
theorem consts_C04_defaultLimits :
    Cfg.default.maxDepth = binding_defaultMaxDepth ∧ Cfg.default.maxSlice = binding_defaultMaxSliceLen ∧
    Cfg.default.maxMap = binding_defaultMaxMapSize := by decide
end Rivaas.Tie.ConstsC04
