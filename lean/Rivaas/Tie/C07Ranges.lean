/-
C07, translator tie (B): `Gen/OpenAPIRanges.lean` is rewritten by `extract/oaranges.go` from the current source of
openapi/generate.go and openapi/internal/{build,schema,export}/*.go on every run: every `range` statement of the
generation path with the (syntactically resolved) kind of what it ranges over and, for a map, the shape of the loop.

Go randomises map iteration order; the determinism theorems of `Props/C07.lean` (`deterministic`,
`deterministic_path_order`, `deterministic_status_order`) are about a model in which `Build` visits the path keys and
the status codes in sorted order and everything else is order-free. Here the source is held to that:

* `ranges_resolved` — the kind of every ranged expression was resolved (nothing `unknown`): no map loop can hide.
* `map_ranges_order_free` — every loop over a map is `sortedKeys` (the keys are collected and the very next
  statement sorts them) or `keyedCopy` (every effect on anything outside the body is an assignment indexed by the
  loop's own key: iterations commute), with the one listed exception.
* `build_paths_sorted`, `build_statuses_sorted`, `sortSpec_sorted` — the loops the model sorts are sorted in the source.
* `map_loop_callees_allowed` — the functions called from inside key-wise loops are the projection functions (they
  return the projected value; their only effect on the context is `warn`: `proj_context_writes_only_warnings`),
  the two keyed setters of the builder (`servers[last].Variables[name] = …`, `securitySchemes[name] = …`, name = the
  loop key), accessors of `example.Example`, and `validateExtensionKey` (pure).
-/
import Rivaas.Gen.OpenAPIRanges

namespace Rivaas.Tie.C07Ranges
open Rivaas.Gen.OpenAPIRanges

theorem extraction_complete : extractError = none := by decide

theorem ranges_resolved : ranges.all (fun r => r.kind != "unknown") = true := by decide

/-- `proj30.components` collects the names of the mutualTLS schemes it drops into a slice in iteration order; the
    slice is used for the `len > 0` test under StrictDownlevel and for one warning per name — the order reaches
    `Result.Warnings` only, never the document (C07 speaks about the JSON bytes) -/
def orderReachesWarningsOnly : List (String × String) := [("proj30.components", "in.SecuritySchemes")]

theorem map_ranges_order_free :
    ranges.all (fun r => r.kind != "map" || r.shape == "sortedKeys" || r.shape == "keyedCopy" ||
      orderReachesWarningsOnly.contains (r.fn, r.expr)) = true := by decide

/-- the exception is exactly the loop described above, not a wildcard for the function -/
theorem exception_is_the_known_loop :
    (ranges.filter (fun r => orderReachesWarningsOnly.contains (r.fn, r.expr))).map (·.shape) =
      ["unordered: write to mutualTLSSchemes"] := by decide

theorem build_paths_sorted :
    ranges.contains ⟨"openapi/internal/build/builder.go", "Builder.Build", "byPath", "map", "sortedKeys"⟩ = true := by decide

theorem build_statuses_sorted :
    ranges.contains ⟨"openapi/internal/build/builder.go", "Builder.buildOperation", "doc.ResponseTypes", "map", "sortedKeys"⟩ = true := by
  decide

theorem sortSpec_sorted :
    ranges.contains ⟨"openapi/internal/build/builder.go", "sortSpec", "s.Paths", "map", "sortedKeys"⟩ = true ∧
    ranges.contains ⟨"openapi/internal/build/builder.go", "sortSpec", "s.Components.Schemas", "map", "sortedKeys"⟩ = true := by
  decide

/-- `Build` and `buildOperation` range over no other map -/
theorem build_has_no_other_map_loop :
    (ranges.filter (fun r => (r.fn == "Builder.Build" || r.fn == "Builder.buildOperation") && r.kind == "map")).length = 2 := by
  decide

/-- a map iterated through `maps.Keys` / `maps.Values` / `maps.All` is order-free only directly under `slices.Sorted` -/
theorem map_iterators_sorted : mapIterCalls.all (fun c => c.2.2) = true := by decide

def allowedCallees : List String :=
  ["b.AddSecurityScheme", "b.AddServerVariable",
   "ex.Description", "ex.ExternalValue", "ex.Name", "ex.Summary", "ex.Value",
   "p.callback", "p.encoding", "p.example", "p.ext", "p.header", "p.link", "p.mediaType", "p.parameter", "p.pathItem",
   "p.requestBody", "p.response", "p.securityScheme", "p.validateServerVariableEnum",
   "schema30", "schema31", "validateExtensionKey"]

theorem map_loop_callees_allowed : mapLoopCallees.all (fun c => allowedCallees.contains c) = true := by decide

theorem proj_context_writes_only_warnings : projWrites = ["proj30: warns", "proj31: warns"] := by decide

end Rivaas.Tie.C07Ranges
