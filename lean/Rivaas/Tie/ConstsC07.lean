/- Translator tie (B), constants: every literal of the Go source that the model of C07 mirrors equals the value
   extract/ regenerates from the current source (Gen/Consts.lean) on every run. An edited threshold, list or
   marker in /repo breaks the theorem named after it. -/
import Rivaas.Gen.Consts
import Rivaas.Model.OpenAPIBuild
namespace Rivaas.Tie.ConstsC07
open Rivaas.Gen.Consts Rivaas.OpenAPI
theorem consts_C07_responseCodePattern : validResponseCodeSrc = openapi_responseCodePattern.toList := by decide
set_option maxRecDepth 100000 in
/-- the character class of `sanitizeComponentName`, byte by byte -/
theorem consts_C07_nameClass :
    (List.range 256).all (fun n =>
      nameByteOK (Char.ofNat n) ==
        (openapi_nameRanges.any (fun r => r.1 ≤ n && n ≤ r.2) || openapi_nameSingles.contains n)) = true := by decide +kernel
theorem consts_C07_nameReplacement : sanitize [Char.ofNat 0] = [Char.ofNat openapi_nameReplacement] := by decide
end Rivaas.Tie.ConstsC07
