/-
C15, translator tie (B): structural facts of middleware/compression that the model (`Model/Compress.lean`) relies on,
regenerated from the current source on every run (`Gen/Compress.lean`, extract/compress.go + extract/mwskel.go) and
compared with the model here.  An edit of the source that changes one of them breaks the theorem named after it;
`./check C15` then searches for a concrete failing input and otherwise reports the theorem.

Event codes (`Gen.Compress.vocab`, pinned by `vocab_codes`):
  1 c.Next · 2 defer registered · 3 deferred cw.Close · 4 deferred c.Response = original · 5 c.Response = cw ·
  6 chooseEncoding · 7 c.Response.Header().Get("Content-Encoding") · 45 cfg.excludePaths[…] · 46 range cfg.excludeExtensions ·
  11 cw.WriteHeader(200) · 12 encoder Write · 13 base Write · 14 holdBack · 15 start(pending) · 16 start(cw.buffer) ·
  17 restoreHeader · 18 base Header().Get("Content-Encoding") · 19 base WriteHeader(cw.statusCode) · 20 restoreTrailers ·
  21 http.DetectContentType · 22 initCompression · 23 Del Content-Length · 24 Set Content-Encoding · 25 Set Vary ·
  26 pool.Get · 27 w.Reset(cw.ResponseWriter) · 28 cw.writer = w · 29 encoder Close · 30 w.Reset(nil) · 31 pool.Put ·
  32 base WriteHeader(code) · 33 shouldSkipStatus · 34 shouldSkipContentType · 35 cw.committed = … · 36 cw.statusCode = … ·
  37 Flush (encoder / base) · 42 cw.buffer = … · 43 cw.trailers = … · 47 Header().Clone() · 48 clear(h)
-/
import Rivaas.Gen.Compress
import Rivaas.Tie.MwSkel
import Rivaas.Model.Compress

namespace Rivaas.Tie.C15Compress
open Rivaas.Skel Rivaas.MwSkel Rivaas.Gen.Compress

/-- the extractor understood every statement of every function it reads -/
theorem extraction_complete : problem = none := by decide

/-- the numerals used below mean what the header of this file says -/
theorem vocab_codes :
    vocab.map (·.2) =
      [".Next", "defer", "defer:.Close", "defer:=.Response", "=.Response", "chooseEncoding",
       ".Response.Header.Get(Content-Encoding)", "strings.HasSuffix", "getBrotliWriterPool(.brotliLevel)",
       "getGzipWriterPool(.gzipLevel)", ".WriteHeader(http.StatusOK)", ".writer.Write", ".ResponseWriter.Write", ".holdBack",
       ".start", ".start(.buffer)", ".restoreHeader", ".ResponseWriter.Header.Get(Content-Encoding)",
       ".ResponseWriter.WriteHeader(.statusCode)", ".restoreTrailers", "http.DetectContentType", ".initCompression",
       ".ResponseWriter.Header.Del(Content-Length)", ".ResponseWriter.Header.Set(Content-Encoding)",
       ".ResponseWriter.Header.Set(Vary)", ".pool.Get", ".Reset(.ResponseWriter)", "=.writer", ".writer.Close", ".Reset(nil)",
       ".pool.Put(.writer)", ".ResponseWriter.WriteHeader", "shouldSkipStatus", "shouldSkipContentType", "=.committed",
       "=.statusCode", ".Flush", ".Set(Content-Type)", "=.headersSent", "=.decided", "=.compress", "=.buffer", "=.trailers",
       ".Request.Header.Get(Accept-Encoding)", "[].excludePaths", "range.excludeExtensions", ".ResponseWriter.Header.Clone",
       "clear"] := by
  decide

/-! ### `New`: decision order of the early exits, wrap, deferred Close before `c.Next()` -/

/-- The handler closure, on every path: the early exits are consulted in the order of `Compress.active` (excluded
    path, excluded extension, Content-Encoding already set, `chooseEncoding`); a request that leaves through one of
    them goes to `c.Next()` unwrapped; otherwise the writer is wrapped (5), the finalisation is registered (2) BEFORE
    `c.Next()` (1), and when the chain returns — or panics — `cw.Close()` (3) runs before `c.Response` is put back (4).
    This is the `Op.panic` clause of `CW.step` (`close` then `restored := true`) and `finalCW`. -/
theorem new_decision_order_and_finalisation (ρ : Atom → Bool) :
    [[45, 1], [45, 46, 1], [45, 46, 7, 1], [45, 46, 7, 6, 1], [45, 46, 7, 6, 5, 2, 1, 3, 4]].contains
      (codesOf ((exec ρ newHandler).trace.filter (keepCodes [1, 2, 3, 4, 5, 6, 7, 45, 46]))) = true :=
  every_exec newHandler [1, 2, 3, 4, 5, 6, 7, 45, 46] _ (by decide) ρ

/-- every request reaches the rest of the chain exactly once (the middleware never answers by itself) -/
theorem new_next_exactly_once (ρ : Atom → Bool) :
    (codesOf ((exec ρ newHandler).trace.filter (keepCodes [1]))) = [1] := by
  have := every_exec newHandler [1] (fun t => t == [1]) (by decide) ρ
  simpa using this

/-! ### the compressWriter methods -/

/-- `start`: `restoreHeader` first, then the Content-Encoding test; pass-through = deferred status, `restoreTrailers`,
    bytes to the base writer; compressing = sniff (only before `initCompression`), `initCompression`, `restoreTrailers`,
    bytes to the encoder — the order of `CW.start` -/
theorem start_order (ρ : Atom → Bool) :
    [[17, 18, 19, 20, 13], [17, 18, 19, 20], [17, 18, 20, 13], [17, 18, 20], [17, 18, 21, 22, 20, 12], [17, 18, 21, 22, 20],
     [17, 18, 22, 20, 12], [17, 18, 22, 20]].contains
      (codesOf ((exec ρ cwstart).trace.filter (keepCodes [17, 18, 19, 20, 21, 22, 12, 13]))) = true :=
  every_exec cwstart [17, 18, 19, 20, 21, 22, 12, 13] _ (by decide) ρ

/-- `initCompression`: Content-Length deleted, Content-Encoding and Vary set BEFORE the header block is written; a pooled
    encoder is `Reset` onto this response's writer before it becomes `cw.writer` (never used un-reset) -/
theorem init_headers_then_reset_before_use (ρ : Atom → Bool) :
    [[23, 24, 25], [23, 24, 25, 19], [23, 24, 25, 26], [23, 24, 25, 19, 26], [23, 24, 25, 26, 27, 28],
     [23, 24, 25, 19, 26, 27, 28]].contains
      (codesOf ((exec ρ cwinitCompression).trace.filter (keepCodes [23, 24, 25, 19, 26, 27, 28]))) = true :=
  every_exec cwinitCompression [23, 24, 25, 19, 26, 27, 28] _ (by decide) ρ

/-- `Close`: an undecided response is decided first (`start(cw.buffer, …)`); the encoder is closed at most once, and put
    back into its pool at most once and only after it was closed -/
theorem close_finishes_then_returns_encoder_once (ρ : Atom → Bool) :
    [[], [16], [16, 29, 31], [16, 29, 30, 31], [29, 31], [29, 30, 31]].contains
      (codesOf ((exec ρ cwClose).trace.filter (keepCodes [16, 29, 30, 31]))) = true :=
  every_exec cwClose [16, 29, 30, 31] _ (by decide) ρ

/-- `WriteHeader`: first call wins (nothing happens), informational codes go straight through, then the status is recorded,
    `shouldSkipStatus` is asked before `shouldSkipContentType`, a skipped response is committed at once and only an
    unskipped one snapshots the headers — the chain of `CW.writeHeader` -/
theorem writeHeader_chain (ρ : Atom → Bool) :
    [[], [32], [36, 33, 32], [36, 33, 34, 32], [36, 33, 34, 47, 35]].contains
      (codesOf ((exec ρ cwWriteHeader).trace.filter (keepCodes [32, 33, 34, 35, 36, 47]))) = true :=
  every_exec cwWriteHeader [32, 33, 34, 35, 36, 47] _ (by decide) ρ

/-- `Write`: optional implied 200, then exactly one of: encoder write, base write, hold back (buffer grows, nothing is
    sent), decision (`start`) — the four arms of `CW.write` -/
theorem write_arms (ρ : Atom → Bool) :
    [[12], [13], [14, 42], [14, 15], [11, 12], [11, 13], [11, 14, 42], [11, 14, 15]].contains
      (codesOf ((exec ρ cwWrite).trace.filter (keepCodes [11, 12, 13, 14, 15, 42]))) = true :=
  every_exec cwWrite [11, 12, 13, 14, 15, 42] _ (by decide) ρ

/-- the hold-back test is strict: `len(buffer)+len(data) < holdBack()` (`CW.write`: `w.buffer.length + d.length < w.holdBack`) -/
theorem holdBack_is_strict : holdBackCmp = ["<"] := by decide

def flushOK (t : List Nat) : Bool := t == [] || (endsWith [37] t && before 11 16 t && before 16 37 t)

/-- `Flush`: nothing at all without a flusher underneath; otherwise implied 200, decision, encoder flush, and the base
    flush last (`CW.flush`) -/
theorem flush_order (ρ : Atom → Bool) :
    flushOK (codesOf ((exec ρ cwFlush).trace.filter (keepCodes [11, 16, 37]))) = true :=
  every_exec cwFlush [11, 16, 37] flushOK (by decide) ρ

def restoreOK (t : List Nat) : Bool := t == [] || (t.count 48 == 1 && endsWith [48, 35] t)

/-- `restoreHeader`: nothing without a committed snapshot; otherwise the trailer values are taken aside (43) first, the live
    map is emptied (`clear`, 48) on EVERY such path — not only when it grew — and the snapshot reinstalled before it is
    dropped (35): `CW.restoreHeader` sets `live := h` whatever the map held -/
theorem restoreHeader_clears_unconditionally (ρ : Atom → Bool) :
    restoreOK (codesOf ((exec ρ cwrestoreHeader).trace.filter (keepCodes [35, 43, 48]))) = true :=
  every_exec cwrestoreHeader [35, 43, 48] restoreOK (by decide) ρ

/-! ### literal tables -/

/-- `shouldSkipStatus` names exactly the codes of the model -/
theorem skipStatus_model (c : Nat) : Rivaas.Compress.shouldSkipStatus c = skipStatus.contains (c : Int) := by
  rw [Bool.eq_iff_iff]
  simp only [Rivaas.Compress.shouldSkipStatus, skipStatus, List.contains_cons, List.contains_nil, Bool.or_false,
    Bool.or_eq_true, beq_iff_eq]
  omega

/-- the content types that are always passed through are the three literals of the model -/
theorem alwaysSkipped_model (ct : Rivaas.Bytes) (excl : List Rivaas.Bytes) :
    Rivaas.Compress.shouldSkipContentType ct excl =
      (if ct.isEmpty then false
       else (alwaysSkippedTypes.map String.toList).any (fun l => Rivaas.Compress.contains (Rivaas.Compress.lowerA ct) l) ||
            excl.any (fun e => Rivaas.Compress.contains (Rivaas.Compress.lowerA ct) (Rivaas.Compress.lowerA e))) := by
  simp [Rivaas.Compress.shouldSkipContentType, alwaysSkippedTypes, Bool.or_assoc]

/-! ### `defaultConfig()` and the options (`Compress.defaultConfig`, `Compress.applyOpt`) -/

theorem defaults_model :
    defaults = [("gzipLevel", "gzip.DefaultCompression"), ("brotliLevel", "4"), ("minSize", "0"), ("enableGzip", "true"),
                ("enableBrotli", "true"), ("excludePaths", "make(map[string]bool)"),
                ("excludeExtensions", "make(map[string]bool)"), ("excludeContentTypes", "make(map[string]bool)")] ∧
    Rivaas.Compress.defaultConfig =
      { gzipLevel := -1, brotliLevel := 4, minSize := 0, enableGzip := true, enableBrotli := true,
        exclPaths := [], exclExts := [], exclCT := [] } := by
  constructor <;> decide

/-- what each option assigns is what `Compress.applyOpt` does for the constructor of the same name: the levels and the
    threshold are stored (brotli clamped to [0, 11]), the Disabled options clear one flag, the exclusion options insert
    into their map, the logger touches nothing else -/
theorem optionWrites_model :
    optionWrites =
      [("WithBrotliDisabled", "enableBrotli := false"),
       ("WithBrotliLevel", "brotliLevel := max(0, min($0, 11))"),
       ("WithExcludeContentTypes", "excludeContentTypes[] := true"),
       ("WithExcludeExtensions", "excludeExtensions[] := true"),
       ("WithExcludePaths", "excludePaths[] := true"),
       ("WithGzipDisabled", "enableGzip := false"),
       ("WithGzipLevel", "gzipLevel := $0"),
       ("WithLogger", "logger := $0"),
       ("WithMinSize", "minSize := $0")] := by decide

end Rivaas.Tie.C15Compress
