/- Translator tie (B), constants: every literal of the Go source that the model of C15 mirrors equals the value
   extract/ regenerates from the current source (Gen/Consts.lean) on every run. An edited threshold, list or
   marker in /repo breaks the theorem named after it. -/
import Rivaas.Gen.Consts
import Rivaas.Model.Compress
namespace Rivaas.Tie.ConstsC15
open Rivaas.Gen.Consts
theorem consts_C15_sniffLen : Rivaas.Compress.sniffLen = compression_sniffLen := by decide
end Rivaas.Tie.ConstsC15
