/- Translator tie (B), constants: every literal of the Go source that the model of C17 mirrors equals the value
   extract/ regenerates from the current source (Gen/Consts.lean) on every run. An edited threshold, list or
   marker in /repo breaks the theorem named after it. -/
import Rivaas.Gen.Consts
import Rivaas.Model.Gates
namespace Rivaas.Tie.ConstsC17
open Rivaas.Gen.Consts
theorem consts_C17_maxEmptyReads : Rivaas.Gates.Body.maxEmptyReads = bodylimit_maxEmptyReads := by decide
theorem consts_C17_basicPrefix : Rivaas.Gates.Auth.prefixBasic = basicauth_prefix.toList := by decide
end Rivaas.Tie.ConstsC17
