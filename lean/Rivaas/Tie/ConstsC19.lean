/- Translator tie (B), constants: every literal of the Go source that the model of C19 mirrors equals the value
   extract/ regenerates from the current source (Gen/Consts.lean) on every run. An edited threshold, list or
   marker in /repo breaks the theorem named after it. -/
import Rivaas.Gen.Consts
import Rivaas.Model.Accept
namespace Rivaas.Tie.ConstsC19
open Rivaas.Gen.Consts
theorem consts_C19_arenaSpecs : Rivaas.Accept.arenaSpecs = accept_arenaSpecs := by decide
end Rivaas.Tie.ConstsC19
