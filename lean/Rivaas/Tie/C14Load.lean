/-
C14, translator tie (B): `Gen/ConfigLoad.lean` is rewritten by `extract/configload.go` from the current source of
`config/*.go` on every run (go/parser only, located by callee and field names, not by the names of locals).

* `load_program_is_model` — the statement groups of `(*Config).Load`, in source order, are exactly the program
  `ConfigSM.modelLoad` that the statement-level theorems of `Props/C14.lean` (`sm_refines_atomic`,
  `sm_readers_see_installed`, `sm_quiescent_consistent`, `sm_result_is_load_stage`) are about. An edit that moves the
  swap before a validation, takes `bindAndValidate` out of the locked region, drops the `defer`, adds a second write
  to the receiver, a `go` statement, an early unlock or a new call on the receiver breaks this equation.
* the named consequences, stated on the regenerated list itself so that the report says *which* fact broke:
  `load_validates_before_swap`, `load_swap_under_lock`, `load_no_write_before_sources_loaded`, `load_single_swap`.
* `sources_loop_is_model` — `loadSourcesSequential`: sources in slice order into a fresh accumulator; per source:
  context test, `Load` (error ⇒ abort), nil ⇒ empty, `normalizeMapKeys`, `mergo.Map(&acc, normalised, WithOverride)`
  (error ⇒ abort); the accumulator is returned. This is `Config.loadSources` + `mergeAll` (`normalize` then `merge`
  into the accumulator, first failure aborts with its index).
* `values_written_only_by_swap`, `values_never_written_through`, `values_read_under_lock` — the field `values` is
  assigned in `Load` only (the swap, under the write lock), nothing in the package writes through the pointer (an
  installed map is immutable: what `Values()` handed out stays whole), every other mention is under the read lock.
-/
import Rivaas.Gen.ConfigLoad
import Rivaas.Model.ConfigSM
import Rivaas.Spec.Config
import Rivaas.Props.C14

namespace Rivaas.Tie.C14Load
open Rivaas.Gen.ConfigLoad Rivaas.ConfigSkel Rivaas.ConfigSM

/-- the extractor recognised every statement (it writes its complaint into the generated file otherwise) -/
theorem extraction_complete : extractError = none := by decide

/-- THE regenerated obligation: the source of `Load` is the program of the state-machine model -/
theorem load_program_is_model : loadSteps = modelLoad := by decide

def idxOf (s : Step) (l : List Step) : Nat := l.findIdx (· == s)

/-- every validation stage comes before the swap -/
theorem load_validates_before_swap :
    idxOf .loadSources loadSteps < idxOf .schema loadSteps ∧
    idxOf .schema loadSteps < idxOf (.validators true) loadSteps ∧
    idxOf (.validators true) loadSteps < idxOf .bindAndValidate loadSteps ∧
    idxOf .bindAndValidate loadSteps < idxOf .bind loadSteps ∧
    idxOf .bind loadSteps < idxOf .swap loadSteps ∧ idxOf .swap loadSteps < loadSteps.length := by decide

/-- the binding stages and the swap are between `Lock` and the return, the unlock is deferred directly after the
    `Lock`, and there is no explicit `Unlock` -/
theorem load_swap_under_lock :
    idxOf .lock loadSteps + 1 = idxOf .deferUnlock loadSteps ∧
    idxOf .deferUnlock loadSteps < idxOf .bindAndValidate loadSteps ∧
    loadSteps.contains .unlock = false ∧ loadSteps.contains .goStmt = false := by decide

/-- nothing is written to the receiver before (or while) the sources are loaded and validated: the only writes are
    `bind` and the swap -/
theorem load_no_write_before_sources_loaded :
    loadSteps.all (fun s => match s with
      | .writeField _ | .writeThrough | .call _ | .retOther => false
      | _ => true) = true ∧
    (loadSteps.take (idxOf .lock loadSteps)).all (fun s => s != .bind && s != .swap) = true := by decide

/-- exactly one swap, and it is the last thing before `return nil` -/
theorem load_single_swap :
    (loadSteps.filter (· == .swap)).length = 1 ∧ loadSteps.getLast? = some .retNil ∧
    idxOf .swap loadSteps + 2 = loadSteps.length := by decide

/-- `loadSourcesSequential` is the loop the model's `loadSources` / `mergeAll` describe -/
theorem sources_loop_is_model :
    srcLoop = { rangesOverSources := true, accFresh := true, returnsAcc := true,
                body := [.ctxCheck, .srcLoad, .nilToEmpty, .normalize, .mergoMap true true true] } := by decide

/-- the field `values` is assigned in `Load` only, holding the write lock -/
theorem values_written_only_by_swap :
    (valuesUses.filter (·.kind == .assignPtr)) = [{ fn := "Load", kind := .assignPtr, held := .write }] := by decide

/-- nothing in the package writes through the installed pointer -/
theorem values_never_written_through :
    valuesUses.all (fun u => u.kind != .derefWrite && u.kind != .other) = true := by decide

/-- every reading mention of `values` holds `c.mu` (read or write) with the unlock deferred -/
theorem values_read_under_lock :
    valuesUses.all (fun u => u.held != .none) = true ∧
    valuesUses.any (fun u => u.fn == "Values" && u.kind == .returnPtr && u.held == .read) = true ∧
    valuesUses.any (fun u => u.fn == "getValueFromMap" && u.kind == .derefRead && u.held == .read) = true := by decide

/-- `getValueFromMap` is what `Config.getValue` models: under the read lock (unlock deferred), the key lower-cased, the
    whole lower-cased key tried as a top-level key first (returning on a hit), then split at "." and traversed -/
theorem get_steps_are_model :
    getSteps = ["RLock", "defer RUnlock", "values == nil: return nil", "copy of the map header", "strings.ToLower",
      "direct lookup of the lower-cased key: return on hit", "strings.Split of the lower-cased key at \".\"",
      "traversal loop", "return nil"] := by decide

/-- the model does what these steps say: the direct match wins over the dotted path, the key is lower-cased as a whole -/
theorem model_get_follows_steps :
    Rivaas.Config.classify (Rivaas.Config.getValue
      [("a.b".toList, .leaf "s:direct".toList), ("a".toList, .map [("b".toList, .leaf "s:nested".toList)])] "A.B".toList) =
      .leaf "s:direct".toList ∧
    Rivaas.Config.classify (Rivaas.Config.getValue
      [("a".toList, .map [("b".toList, .leaf "s:nested".toList)])] "A.b".toList) = .leaf "s:nested".toList := by decide

/-- the headline, stated on the regenerated program itself: the statement groups `extract/` found in the current
    source of `(*Config).Load`, run one group at a time by any number of loader and reader threads under any schedule,
    give the readers exactly what the atomic model gives on the recorded linearisation, and leave — whenever nobody
    holds the write lock — the atomic model's state -/
theorem source_program_refines_atomic (schema : Bool) (nv : Nat) (inputs : List Rivaas.Config.LoadInput)
    (st0 : Rivaas.Config.State) (sched : List Act) :
    let s := run loadSteps schema nv inputs (Sys.init st0) sched
    s.seen.reverse = Rivaas.Config.runSched schema nv inputs st0 s.ops.reverse [] ∧
    (s.writer = none → s.conc = (coarse schema nv inputs st0 s.ops.reverse).1) := by
  rw [load_program_is_model]
  exact Rivaas.C14.sm_refines_atomic schema nv inputs st0 sched

end Rivaas.Tie.C14Load
