/-
C13, translator tie (B): `Gen/Version.lean` holds, regenerated from the current source, the decision trees of the
functions the C13 model mirrors (option constructors, `NewConfig`, `Config.validate`, `Engine.DetectVersion`,
`validateVersion`, `ShouldApplyVersioning`, `ExtractPathSegment`, `StripPathVersion`, `SetLifecycleHeaders`,
`Router.processVersioning`, `selectRoutingTree`) with their atom / result / effect tables.

Two kinds of obligations per function:
* `…_tables`: the tables are the expected texts (this fixes what every atom, result and effect number MEANS);
* `…_meaning`: for every input of a finite family that realises every combination of the atoms, running the
  regenerated tree under the valuation the input induces gives what the MODEL function computes on that input
  (which return, which effects, in which loop iteration). The tree itself is compared by meaning, not by shape: an
  early return turned into if/else, or a reordering of independent tests, keeps the obligation true; a changed order of
  decisions (the sunset test behind the `!Deprecated` return, a detector appended instead of inserted at the front,
  stripping made dependent on the detected version, …) breaks it.
-/
import Rivaas.Gen.Version
import Rivaas.Model.VersionCfg

namespace Rivaas.Tie.C13Version
open Rivaas Rivaas.Version Rivaas.Tie.Dec

-- the `decide` proofs below evaluate the regenerated trees on whole input families
set_option maxRecDepth 16384

/-! ### option constructors -/

theorem extraction_lists_all_options :
    Gen.Version.optionNames = ["WithAcceptDetection", "WithClock", "WithCustomDetection", "WithDefault", "WithHeaderDetection",
      "WithObserver", "WithPathDetection", "WithQueryDetection", "WithResponseHeaders", "WithSunsetEnforcement",
      "WithValidVersions", "WithWarning299"] := by decide

theorem option_tables :
    Gen.Version.opt_WithPathDetection_atoms = ["p0 == \"\"", "!strings.Contains(p0, \"{version}\")"] ∧
    Gen.Version.opt_WithPathDetection_results =
      ["ErrEmptyPathPattern", "fmt.Errorf(\"%w: path pattern %q\", ErrMissingVersionPlaceholder, p0)", "nil"] ∧
    Gen.Version.opt_WithPathDetection_effects = ["cfg.detectors = append(cfg.detectors, newPathDetector(p0))"] ∧
    Gen.Version.opt_WithAcceptDetection_atoms = ["p0 == \"\"", "!strings.Contains(p0, \"{version}\")"] ∧
    Gen.Version.opt_WithAcceptDetection_results =
      ["ErrEmptyAcceptPattern", "fmt.Errorf(\"%w: accept pattern %q\", ErrMissingVersionPlaceholder, p0)", "nil"] ∧
    Gen.Version.opt_WithAcceptDetection_effects = ["cfg.detectors = append(cfg.detectors, newAcceptDetector(p0))"] ∧
    Gen.Version.opt_WithHeaderDetection_atoms = ["p0 == \"\""] ∧
    Gen.Version.opt_WithHeaderDetection_results = ["ErrEmptyHeaderName", "nil"] ∧
    Gen.Version.opt_WithHeaderDetection_effects = ["cfg.detectors = append(cfg.detectors, &headerDetector{header: p0})"] ∧
    Gen.Version.opt_WithQueryDetection_atoms = ["p0 == \"\""] ∧
    Gen.Version.opt_WithQueryDetection_results = ["ErrEmptyQueryParam", "nil"] ∧
    Gen.Version.opt_WithQueryDetection_effects = ["cfg.detectors = append(cfg.detectors, &queryDetector{param: p0})"] ∧
    Gen.Version.opt_WithCustomDetection_atoms = ["p0 == nil"] ∧
    Gen.Version.opt_WithCustomDetection_results = ["ErrNilCustomDetector", "nil"] ∧
    Gen.Version.opt_WithCustomDetection_effects =
      ["cfg.detectors = append([]Detector{&customDetector{fn: p0}}, cfg.detectors...)"] ∧
    Gen.Version.opt_WithDefault_atoms = ["p0 == \"\""] ∧
    Gen.Version.opt_WithDefault_results = ["ErrEmptyDefaultVersion", "nil"] ∧
    Gen.Version.opt_WithDefault_effects = ["cfg.defaultVersion = p0"] ∧
    Gen.Version.opt_WithValidVersions_atoms = ["len(p0) == 0", "elem(p0) == \"\""] ∧
    Gen.Version.opt_WithValidVersions_results =
      ["ErrNoValidVersions", "range p0", "fmt.Errorf(\"%w at index %d\", ErrEmptyVersionEntry, idx(p0))", "nil"] ∧
    Gen.Version.opt_WithValidVersions_effects = ["cfg.validVersions = p0"] ∧
    Gen.Version.opt_WithResponseHeaders_effects = ["cfg.sendVersionHeader = true"] ∧
    Gen.Version.opt_WithWarning299_effects = ["cfg.sendWarning299 = true"] ∧
    Gen.Version.opt_WithSunsetEnforcement_effects = ["cfg.enforceSunset = true"] ∧
    Gen.Version.opt_WithObserver_effects = ["elem(p0)(&Observer{})", "cfg.observer = &Observer{}"] ∧
    Gen.Version.opt_WithClock_effects = ["cfg.now = p0"] := by decide

/-- a configuration that already holds one detector (so that "appended" and "inserted at the front" differ) -/
def b0 : Built := { Built.init with dets := [.header vb!"X-Seen"] }

/-- what an option tree did, read with the tables above: `none` = it returned an error (result number kept), else the
    configuration after its single effect -/
structure OptTie where
  tree : D
  /-- the option of the model for an argument -/
  opt : Bytes → Opt
  args : List Bytes
  /-- the atoms, valued on an argument -/
  sem : Bytes → Nat → Bool
  /-- result number → the sentinel error it stands for (`none` = `nil`) -/
  err : Nat → Option CfgErr
  /-- the effect (number 0), read from its text -/
  eff : Built → Bytes → Built

def optOK (t : OptTie) : Bool :=
  t.args.all fun a =>
    let r := run noIters t.tree (pure (t.sem a))
    match r.fin, applyOption b0 (t.opt a) with
    | .ret k, .error e => r.acts == [] && t.err k == some e
    | .ret k, .ok b' => r.acts == [0] && t.err k == none && b' == t.eff b0 a
    | _, _ => false

def emptyOr (s : Bytes) : Bytes → Nat → Bool := fun a n => n == 0 && a == s

def patSem : Bytes → Nat → Bool := fun a n =>
  (n == 0 && a == []) || (n == 1 && !containsSub a versionPlaceholder)

def optTies : List OptTie :=
  [ { tree := Gen.Version.opt_WithPathDetection, opt := fun a => .det (.path a), args := [[], vb!"/api/", vb!"/v{version}/"],
      sem := patSem, err := fun k => if k == 0 then some .emptyPathPattern else if k == 1 then some .missingPlaceholder else none,
      eff := fun b a => { b with dets := b.dets ++ [.path (newPathDetector a)] } },
    { tree := Gen.Version.opt_WithAcceptDetection, opt := fun a => .det (.accept a), args := [[], vb!"application/json", vb!"a/{version}+j"],
      sem := patSem, err := fun k => if k == 0 then some .emptyAcceptPattern else if k == 1 then some .missingPlaceholder else none,
      eff := fun b a => { b with dets := b.dets ++ [.accept a] } },
    { tree := Gen.Version.opt_WithHeaderDetection, opt := fun a => .det (.header a), args := [[], vb!"X-V"],
      sem := emptyOr [], err := fun k => if k == 0 then some .emptyHeaderName else none,
      eff := fun b a => { b with dets := b.dets ++ [.header a] } },
    { tree := Gen.Version.opt_WithQueryDetection, opt := fun a => .det (.query a), args := [[], vb!"v"],
      sem := emptyOr [], err := fun k => if k == 0 then some .emptyQueryParam else none,
      eff := fun b a => { b with dets := b.dets ++ [.query a] } },
    -- the argument stands for the function: `[]` = nil
    { tree := Gen.Version.opt_WithCustomDetection, opt := fun a => if a == [] then .customNil else .det (.custom 7), args := [[], vb!"f"],
      sem := emptyOr [], err := fun k => if k == 0 then some .nilCustom else none,
      eff := fun b _ => { b with dets := .custom 7 :: b.dets } },
    { tree := Gen.Version.opt_WithDefault, opt := .dflt, args := [[], vb!"v2"],
      sem := emptyOr [], err := fun k => if k == 0 then some .emptyDefault else none,
      eff := fun b a => { b with dflt := a } },
    { tree := Gen.Version.opt_WithResponseHeaders, opt := fun _ => .responseHeaders, args := [[]], sem := fun _ _ => false,
      err := fun _ => none, eff := fun b _ => { b with sendVersionHeader := true } },
    { tree := Gen.Version.opt_WithWarning299, opt := fun _ => .warning299, args := [[]], sem := fun _ _ => false,
      err := fun _ => none, eff := fun b _ => { b with sendWarning299 := true } },
    { tree := Gen.Version.opt_WithSunsetEnforcement, opt := fun _ => .sunsetEnforcement, args := [[]], sem := fun _ _ => false,
      err := fun _ => none, eff := fun b _ => { b with enforceSunset := true } },
    { tree := Gen.Version.opt_WithClock, opt := fun _ => .clock, args := [[]], sem := fun _ _ => false,
      err := fun _ => none, eff := fun b _ => { b with hasClock := true } } ]

/-- **every option constructor does what the model's `applyOption` does**: the same guard order, the same sentinel
    error, and on success the single effect the model performs — a detector APPENDED for path / header / query /
    Accept, INSERTED AT THE FRONT for a custom detector -/
theorem options_meaning : optTies.all optOK = true := by decide

/-- `WithValidVersions`: an empty list, then the first empty entry (by position), else the list is stored -/
theorem valid_versions_meaning :
    ([[], [vb!"a"], [vb!"a", []], [[], vb!"a"], [vb!"a", vb!"b", []], [vb!"a", [], []]] : List (List Bytes)).all (fun vs =>
      let r := run (fun _ => vs.map fun v => pure fun n => n == 1 && v == []) Gen.Version.opt_WithValidVersions
        (pure fun n => n == 0 && vs.length == 0)
      match applyOption b0 (.valid vs) with
      | .error .noValidVersions => r.fin == .ret 0 && r.acts == []
      | .error (.emptyVersionEntry i) => r.fin == .ret 2 && r.iter == some i && r.acts == []
      | .ok b' => r.fin == .ret 3 && r.acts == [0] && b' == { b0 with valid := vs }
      | _ => false) = true := by decide

/-! ### `NewConfig`, `Config.validate` -/

theorem newConfig_tables :
    Gen.Version.newConfig_atoms =
      ["elem(p0)(&Config{defaultVersion: \"v1\", versionLifecycles: make(map[string]*LifecycleConfig)}) != nil",
       "&Config{defaultVersion: \"v1\", versionLifecycles: make(map[string]*LifecycleConfig)}.validate() != nil"] ∧
    Gen.Version.newConfig_results.length = 4 ∧ Gen.Version.newConfig_effects = [] := by decide

/-- option lists of flags: `true` = an option that fails -/
def flagLists : List (List Bool) :=
  [[], [false], [true], [false, false], [false, true], [true, false], [true, true], [false, false, true], [false, true, false]]

/-- **`NewConfig` starts from default version `v1`, applies the options left to right, stops at the first error** (in
    the iteration of the failing option), validates, and returns the configuration -/
theorem newConfig_meaning :
    flagLists.all (fun fl =>
      let opts : List Opt := fl.map fun bad => if bad then .customNil else .responseHeaders
      let r := run (fun _ => fl.map fun bad => pure fun n => n == 0 && bad) Gen.Version.newConfig (pure fun _ => false)
      match newConfig opts with
      | .error _ => r.fin == .ret 1 && r.iter == some (fl.takeWhile (· == false)).length
      | .ok b => r.fin == .ret 3 && b.dflt == vb!"v1") = true := by decide

theorem validate_tables :
    Gen.Version.validate_atoms = ["recv.defaultVersion == \"\"", "elem(recv.detectors).(*pathDetector)#1",
      "!strings.Contains(elem(recv.detectors).(*pathDetector)#0.pattern, \"{version}\")"] ∧
    Gen.Version.validate_results = ["fmt.Errorf(\"%w: use version.WithDefault(\\\"v1\\\")\", ErrDefaultRequired)",
      "range recv.detectors",
      "fmt.Errorf(\"%w: path pattern %q\", ErrMissingVersionPlaceholder, elem(recv.detectors).(*pathDetector)#0.pattern)", "nil"] ∧
    Gen.Version.validate_effects = [] := by decide

def someDets : List Det := [.header vb!"h", .path (newPathDetector vb!"/v{version}"), .path { pattern := vb!"/api/", pfx := [] }]

def detLists : List (List Det) :=
  [[]] ++ someDets.map (fun d => [d]) ++ someDets.flatMap fun d => someDets.map fun e => [d, e]

theorem validate_meaning :
    ([[], vb!"v1"] : List Bytes).all (fun dflt => detLists.all fun dets =>
      let r := run (fun _ => dets.map fun d => pure fun n => (n == 1 && d.isPath) || (n == 2 && d.lacksPlaceholder))
        Gen.Version.validate (pure fun n => n == 0 && dflt == [])
      match validate { Built.init with dflt := dflt, dets := dets } with
      | .error .defaultRequired => r.fin == .ret 0
      | .error .missingPlaceholder => r.fin == .ret 2
      | .ok _ => r.fin == .ret 3
      | _ => false) = true := by decide

/-! ### `Engine.DetectVersion`, `validateVersion` -/

theorem validateVersion_tables :
    Gen.Version.validateVersion_atoms =
      ["p0 == \"\"", "len(recv.config.validVersions) == 0", "slices.Contains(recv.config.validVersions, p0)"] ∧
    Gen.Version.validateVersion_results = ["\"\"", "p0"] ∧
    Gen.Version.validateVersion_effects = ["recv.notifyInvalid(p0)"] := by decide

/-- the chain `"" → invalid; no list → valid; in the list → valid; else OnInvalid + invalid` -/
theorem validateVersion_meaning :
    ([[], vb!"a", vb!"b"] : List Bytes).all (fun v => ([[], [vb!"a"]] : List (List Bytes)).all fun valid =>
      let r := run noIters Gen.Version.validateVersion
        (pure fun n => (n == 0 && v == []) || (n == 1 && valid.length == 0) || (n == 2 && valid.contains v))
      (match validateVersion valid v with
       | some w => r.fin == .ret 1 && w == v
       | none => r.fin == .ret 0) &&
      r.acts.map (fun _ => ObsEv.invalid v) == validateEv valid v) = true := by decide

theorem detectVersion_tables :
    Gen.Version.detectVersion_atoms = ["recv == nil || recv.config == nil", "p0 == nil",
      "elem(recv.config.detectors).Detect(p0)#1",
      "recv.validateVersion(elem(recv.config.detectors).Detect(p0)#0) != \"\""] ∧
    Gen.Version.detectVersion_results = ["\"v1\"", "recv.config.defaultVersion", "range recv.config.detectors",
      "recv.validateVersion(elem(recv.config.detectors).Detect(p0)#0)"] ∧
    Gen.Version.detectVersion_effects =
      ["recv.notifyDetected(recv.validateVersion(elem(recv.config.detectors).Detect(p0)#0), elem(recv.config.detectors).Method())",
       "recv.notifyMissing()"] := by decide

/-- what one detector says: nothing, a version the valid list rejects, a version it accepts -/
inductive Cand | nothing | bad | good
  deriving DecidableEq, Repr

def Cand.lib : Cand → LibVal
  | .nothing => .custom [] | .bad => .custom vb!"v9" | .good => .custom vb!"v2"

def cands : List Cand := [.nothing, .bad, .good]

def candLists : List (List Cand) :=
  [[]] ++ cands.map (fun c => [c]) ++ (cands.flatMap fun c => cands.map fun d => [c, d]) ++
  (cands.flatMap fun c => cands.flatMap fun d => cands.map fun e => [c, d, e])

/-- **the detectors are consulted front to back and the first one whose version the valid list accepts decides; else
    the default** — with `OnDetected` at that point and `OnMissing` only at the end. Every list of up to three
    detectors over {nothing, rejected, accepted}: the tree returns in the iteration of the first accepted candidate with
    the validated value, exactly when the model's `detectLoop` returns it. -/
theorem detectVersion_meaning :
    candLists.all (fun cs =>
      let dets : List (Det × LibVal) := cs.map fun c => (Det.custom 0, c.lib)
      let r := run (fun _ => cs.map fun c => pure fun n => (n == 2 && c != .nothing) || (n == 3 && c == .good))
        Gen.Version.detectVersion (pure fun _ => false)
      let m := detectLoop [vb!"v2"] vb!"dflt" [] [] dets
      let firstGood := (cs.takeWhile (· != .good)).length
      (if cs.contains .good then r.fin == .ret 3 && r.iter == some firstGood && m == vb!"v2" && r.acts == [0]
       else r.fin == .ret 1 && r.iter == none && m == vb!"dflt" && r.acts == [1]) &&
      -- the callbacks of the loop itself (OnInvalid is `validateVersion`'s)
      r.acts.map (fun k => if k == 0 then ObsEv.detected vb!"v2" vb!"custom" else ObsEv.missing) ==
        (detectLoopEv [vb!"v2"] [] [] dets).filter (fun e => match e with | .invalid _ => false | _ => true)) = true := by
  decide

/-! ### path helpers of the engine -/

theorem path_helper_tables :
    Gen.Version.extractPathSegment_atoms = ["recv == nil || recv.config == nil", "elem(recv.config.detectors).(*pathDetector)#1",
      "elem(recv.config.detectors).(*pathDetector)#0.ExtractSegment(p0)#1"] ∧
    Gen.Version.extractPathSegment_results = ["\"\", false", "range recv.config.detectors",
      "elem(recv.config.detectors).(*pathDetector)#0.ExtractSegment(p0)#0, true"] ∧
    Gen.Version.stripPathVersion_atoms = ["recv == nil || recv.config == nil", "elem(recv.config.detectors).(*pathDetector)#1",
      "elem(recv.config.detectors).(*pathDetector)#0.StripVersion(p0, p1) != p0"] ∧
    Gen.Version.stripPathVersion_results = ["p0", "range recv.config.detectors",
      "elem(recv.config.detectors).(*pathDetector)#0.StripVersion(p0, p1)"] ∧
    Gen.Version.shouldApplyVersioning_atoms = ["recv == nil || recv.config == nil", "elem(recv.config.detectors).(*pathDetector)#1",
      "!m0", "elem(recv.config.detectors).(*pathDetector)#0.extractFromPath(p0)#1"] ∧
    Gen.Version.shouldApplyVersioning_results = ["false", "range recv.config.detectors", "true", "recv.config.defaultVersion != \"\""] ∧
    Gen.Version.shouldApplyVersioning_effects = ["m0 := false", "m0 = true"] := by decide

/-- detectors for the request path `/v1/x`: not a path detector, a path pattern that does not match, two that do
    (with different prefixes, so that their strip results differ) -/
def pathDets : List Det :=
  [.header vb!"h", .path (newPathDetector vb!"/api/v{version}"), .path (newPathDetector vb!"/v{version}"),
   .path (newPathDetector vb!"/{version}")]

def pathDetLists : List (List Det) :=
  [[]] ++ pathDets.map (fun d => [d]) ++ (pathDets.flatMap fun c => pathDets.map fun d => [c, d]) ++
  (pathDets.flatMap fun c => pathDets.flatMap fun d => pathDets.map fun e => [c, d, e])

def thePath : Bytes := vb!"/v1/x"

def segOf : Det → Option Bytes
  | .path pd => pd.extractSegment thePath
  | _ => none

def stripsOf : Det → Bool
  | .path pd => pd.stripVersion thePath != thePath
  | _ => false

/-- `ExtractPathSegment` / `StripPathVersion`: the FIRST path detector (configuration order) that finds a segment /
    changes the path decides; `ShouldApplyVersioning`: no path detector → yes; some path detector matches → yes;
    otherwise "a default exists" -/
theorem path_helpers_meaning :
    pathDetLists.all (fun ds =>
      let r1 := run (fun _ => ds.map fun d => pure fun n => (n == 1 && d.isPath) || (n == 2 && (segOf d).isSome))
        Gen.Version.extractPathSegment (pure fun _ => false)
      let r2 := run (fun _ => ds.map fun d => pure fun n => (n == 1 && d.isPath) || (n == 2 && stripsOf d))
        Gen.Version.stripPathVersion (pure fun _ => false)
      (match extractPathSegment thePath ds with
       | some s => r1.fin == .ret 2 && (match r1.iter with | some i => (ds[i]?.bind segOf) == some s && (ds.take i).all (fun d => (segOf d).isNone) | none => false)
       | none => r1.fin == .ret 0) &&
      (if stripPathVersion thePath ds != thePath then
         r2.fin == .ret 2 && (match r2.iter with
           | some i => (ds.take i).all (fun d => !stripsOf d) &&
                       (match ds[i]? with | some (.path pd) => pd.stripVersion thePath == stripPathVersion thePath ds | _ => false)
           | none => false)
       else r2.fin == .ret 0) &&
      ([[], vb!"v1"] : List Bytes).all fun dflt =>
        let r3 := run (fun _ => ds.map fun d => fun _ n =>
            (n == 1 && d.isPath) || (n == 3 && (match d with | .path pd => (pd.extractFromPath thePath).isSome | _ => false)))
          Gen.Version.shouldApplyVersioning (fun acts n => n == 2 && !acts.contains 1)
        let cfg : Cfg := { opts := [], dflt := dflt, valid := [], sendVersionHeader := false, sendWarning299 := false,
                           enforceSunset := false, now := 0, lifecycles := [] }
        (match r3.fin with
         | .ret 2 => shouldApplyVersioning cfg ds thePath == true
         | .ret 3 => shouldApplyVersioning cfg ds thePath == (dflt != [])
         | _ => false)) = true := by decide

/-! ### `Engine.SetLifecycleHeaders` -/

theorem setLifecycleHeaders_tables :
    Gen.Version.setLifecycleHeaders_atoms =
      ["recv == nil || recv.config == nil || p0 == nil",
       "recv.config.sendVersionHeader && p1 != \"\"",
       "recv.config.GetLifecycle(p1) == nil",
       "recv.config.enforceSunset && !recv.config.GetLifecycle(p1).SunsetDate.IsZero() && recv.config.Now().After(recv.config.GetLifecycle(p1).SunsetDate)",
       "recv.config.GetLifecycle(p1).MigrationURL != \"\"",
       "!recv.config.GetLifecycle(p1).Deprecated",
       "!recv.config.GetLifecycle(p1).SunsetDate.IsZero()",
       "recv.config.sendWarning299",
       "recv.config.observer != nil && recv.config.observer.OnDeprecatedUse != nil"] ∧
    Gen.Version.setLifecycleHeaders_results = ["false", "true"] ∧
    Gen.Version.setLifecycleHeaders_effects =
      ["p0.Header().Set(\"X-API-Version\", p1)",
       "p0.Header().Set(\"Sunset\", recv.config.GetLifecycle(p1).SunsetDate.UTC().Format(http.TimeFormat))",
       "p0.Header().Set(\"Link\", fmt.Sprintf(\"<%s>; rel=\\\"sunset\\\"\", recv.config.GetLifecycle(p1).MigrationURL))",
       "p0.Header().Set(\"Deprecation\", \"true\")",
       "m0 := []string{fmt.Sprintf(\"<%s>; rel=\\\"deprecation\\\"\", recv.config.GetLifecycle(p1).MigrationURL)}",
       "m0 = append(m0, fmt.Sprintf(\"<%s>; rel=\\\"sunset\\\"\", recv.config.GetLifecycle(p1).MigrationURL))",
       "p0.Header().Set(\"Link\", strings.Join(m0, \", \"))",
       "m1 := fmt.Sprintf(\"299 - \\\"API %s is deprecated\", p1)",
       "m1 += \" and will be removed on \" + recv.config.GetLifecycle(p1).SunsetDate.Format(time.RFC3339)",
       "m1 += \". Please upgrade to a supported version.\\\"\"",
       "p0.Header().Set(\"Warning\", m1)",
       "recv.config.observer.OnDeprecatedUse(p1, p2)"] := by decide

def bools : List Bool := [false, true]

/-- lifecycles of version `v2`: none; and every combination of deprecated × sunset date (none / past / future at
    now = 100) × migration URL -/
def lcChoices : List (Option LC) :=
  none :: (bools.flatMap fun dep => ([none, some (50, vb!"H50", vb!"R50"), some (150, vb!"H150", vb!"R150")] : List (Option (Nat × Bytes × Bytes))).flatMap
    fun sun => ([[], vb!"https://m"] : List Bytes).map fun mig => some { deprecated := dep, sunset := sun, migration := mig })

/-- **the decision order of `SetLifecycleHeaders`**: X-API-Version first; no lifecycle → nothing; the sunset test (under
    enforcement) BEFORE the `!Deprecated` return (K13c), setting Sunset and the sunset Link; then Deprecation, Sunset,
    Link (deprecation, + sunset), Warning 299 (+ date), `OnDeprecatedUse` — compared with the model on every
    combination of the three switches × empty/non-empty version × lifecycle -/
theorem setLifecycleHeaders_meaning :
    bools.all (fun svh => bools.all fun sw => bools.all fun enf => ([[], vb!"v2"] : List Bytes).all fun ver =>
      lcChoices.all fun lc =>
        let cfg : Cfg := { opts := [], dflt := vb!"v1", valid := [], sendVersionHeader := svh, sendWarning299 := sw,
                           enforceSunset := enf, now := 100,
                           lifecycles := match lc with | some l => [(ver, l)] | none => [] }
        let past := match lc with
          | some { sunset := some (d, _, _), .. } => enf && decide (100 > d)
          | _ => false
        let r := run noIters Gen.Version.setLifecycleHeaders (pure fun n =>
          (n == 1 && svh && ver != []) || (n == 2 && lc.isNone) || (n == 3 && past) ||
          (n == 4 && (match lc with | some l => l.migration != [] | none => false)) ||
          (n == 5 && (match lc with | some l => !l.deprecated | none => false)) ||
          (n == 6 && (match lc with | some l => l.sunset.isSome | none => false)) ||
          (n == 7 && sw) || n == 8)
        let (h, gone) := setLifecycleHeaders cfg ver
        r.fin == .ret (if gone then 1 else 0) &&
        h.xapi.isSome == r.acts.contains 0 && h.sunset.isSome == r.acts.contains 1 &&
        h.deprecation.isSome == r.acts.contains 3 &&
        h.link.isSome == (r.acts.contains 2 || r.acts.contains 6) &&
        h.warning.isSome == r.acts.contains 10 &&
        -- the sunset relation / the removal date are added exactly when there is a sunset date
        (r.acts.contains 5 == (r.acts.contains 6 && (match lc with | some l => l.sunset.isSome | none => false))) &&
        (r.acts.contains 8 == (r.acts.contains 10 && (match lc with | some l => l.sunset.isSome | none => false))) &&
        -- OnDeprecatedUse exactly with the Deprecation header
        r.acts.contains 11 == h.deprecation.isSome) = true := by decide

/-! ### `Router.processVersioning`, `selectRoutingTree` -/

theorem processVersioning_tables :
    Gen.Version.processVersioning_atoms = ["recv.versionEngine == nil", "!recv.versionEngine.ShouldApplyVersioning(p1)",
      "recv.versionEngine.ExtractPathSegment(p1)#1"] ∧
    Gen.Version.processVersioning_results = ["versionContext{version: \"\", routingPath: p1, tree: nil}",
      "versionContext{version: recv.versionEngine.DetectVersion(p0), routingPath: m0, tree: recv.selectRoutingTree(p0.Method, recv.versionEngine.DetectVersion(p0))}"] ∧
    Gen.Version.processVersioning_effects =
      ["m0 := p1", "m0 = recv.versionEngine.StripPathVersion(p1, recv.versionEngine.ExtractPathSegment(p1)#0)"] := by decide

/-- configurations × paths realising: versioning not applied / applied without a version segment / with one (valid,
    unknown to the valid list, and with a header detector winning over the path) -/
def pvCases : List (Cfg × Req) :=
  let mk (opts : List DetOpt) (dflt : Bytes) (valid : List Bytes) (path : Bytes) (lib : List LibVal) : Cfg × Req :=
    ({ opts := opts, dflt := dflt, valid := valid, sendVersionHeader := false, sendWarning299 := false,
       enforceSunset := false, now := 0, lifecycles := [] },
     { method := vb!"GET", path := path, rawQuery := [], lib := lib })
  [ mk [.path vb!"/v{version}"] [] [] vb!"/x" [.none],
    mk [.header vb!"h"] vb!"v1" [] vb!"/x" [.header vb!"v2"],
    mk [.path vb!"/v{version}"] vb!"v1" [] vb!"/x" [.none],
    mk [.path vb!"/v{version}"] vb!"v1" [] vb!"/v2/x" [.none],
    mk [.path vb!"/v{version}"] vb!"v1" [vb!"v1"] vb!"/v9/x" [.none],
    mk [.header vb!"h", .path vb!"/v{version}"] vb!"v1" [] vb!"/v2/x" [.header vb!"v3", .none] ]

/-- **the strip decision**: the version segment is stripped whenever a configured path pattern finds one in the path —
    whatever version was detected (invalid segment, another detector winning) —, and the version handed on is the
    detected one -/
theorem processVersioning_meaning :
    pvCases.all (fun (cfg, req) =>
      let dets := (detectors cfg req).map (·.1)
      let seg := extractPathSegment req.path dets
      let r := run noIters Gen.Version.processVersioning
        (pure fun n => (n == 1 && !shouldApplyVersioning cfg dets req.path) || (n == 2 && seg.isSome))
      let vc := processVersioning cfg [] req
      match r.fin with
      | .ret 0 => vc.version == [] && vc.routingPath == req.path && r.acts == []
      | .ret 1 =>
        vc.version == detectVersion cfg req &&
        (if r.acts == [0, 1] then seg.isSome && vc.routingPath == stripPathVersion req.path dets
         else r.acts == [0] && vc.routingPath == req.path)
      | _ => false) = true := by decide

/-- every branch of the tree is exercised by `pvCases` -/
theorem processVersioning_cases_cover :
    (pvCases.map fun (cfg, req) =>
      let dets := (detectors cfg req).map (·.1)
      (shouldApplyVersioning cfg dets req.path, (extractPathSegment req.path dets).isSome)) =
    [(false, false), (true, false), (true, false), (true, true), (true, true), (true, true)] := by decide

theorem selectRoutingTree_tables :
    Gen.Version.selectRoutingTree_atoms = ["recv.versionEngine == nil || p1 == \"\"", "m0 != nil",
      "recv.versionEngine.Config().DefaultVersion() != \"\" && p1 != recv.versionEngine.Config().DefaultVersion()"] ∧
    Gen.Version.selectRoutingTree_results = ["nil", "m0"] ∧
    Gen.Version.selectRoutingTree_effects = ["m0 := recv.getVersionTree(p1, p0)",
      "m0 = recv.getVersionTree(recv.versionEngine.Config().DefaultVersion(), p0)"] := by decide

/-- **the default-tree fallback**: the detected version's own tree if it has one for the method, else the default
    version's, else none — on every combination of {no version, v1 (the default), v2} × which of the two trees exist -/
theorem selectRoutingTree_meaning :
    ([[], vb!"v1", vb!"v2"] : List Bytes).all (fun ver => bools.all fun has1 => bools.all fun has2 =>
      let routes : List Route :=
        (if has1 then [{ ver := some vb!"v1", method := vb!"GET", path := vb!"/x" }] else []) ++
        (if has2 then [{ ver := some vb!"v2", method := vb!"GET", path := vb!"/x" }] else [])
      let cfg : Cfg := { opts := [], dflt := vb!"v1", valid := [], sendVersionHeader := false, sendWarning299 := false,
                         enforceSunset := false, now := 0, lifecycles := [] }
      let has (v : Bytes) : Bool := treeExists routes (some v) vb!"GET"
      -- `m0` is the tree fetched last: for the version (effect 0) or for the default (effect 1)
      let r := run noIters Gen.Version.selectRoutingTree (fun acts n =>
        (n == 0 && ver == []) || (n == 1 && (if acts.getLast? == some 1 then has vb!"v1" else has ver)) ||
        (n == 2 && ver != vb!"v1"))
      match selectRoutingTree cfg routes vb!"GET" ver with
      | none => r.fin == .ret 0
      | some t => r.fin == .ret 1 && t == (if r.acts.getLast? == some 1 then vb!"v1" else ver)) = true := by decide

end Rivaas.Tie.C13Version
