/- Translator tie (B), structure of the tree lookup (C01): the order of the decision chains of
   `(*node).getRoute`, `(*node).addRouteWithConstraints` and `bindParamNames` (router/radix.go), regenerated from
   the current source by extract/routing.go (Gen/Routing.lean) on every run, against the order in which the
   model (Model/Radix.lean) takes the same decisions. The model's order is not written down a second time: it is
   *computed* by running the model on small probes in which the alternatives compete (a node with a static child,
   a parameter child and a wildcard; a path that is both a `staticPaths` key and a parameter match; a constraint
   on a name only the matched route declares; …). A reordered chain, a validation moved before the naming, a
   dropped early return in /repo breaks the theorem named after it. -/
import Rivaas.Gen.Routing
import Rivaas.Model.Radix
namespace Rivaas.Tie.C01Routing
open Rivaas.Gen.Routing Rivaas.Radix Rivaas.Route

/-- extract/routing.go recognised every statement form it looked at -/
theorem extraction_complete : problem = none := rfl

private def G : Bytes := ['G', 'E', 'T']
private def yes : Nat → Bytes → Bool := fun _ _ => true
/-- constraint 0 accepts only the value `1` -/
private def one : Nat → Bytes → Bool := fun _ v => v = ['1']
private def mk (routes : List (Bytes × List (Bytes × Nat))) : Tree :=
  (routes.foldl (fun (acc : Tree × Nat) r => (addRoute acc.1 r.1 acc.2 r.2, acc.2 + 1)) (Tree.empty, 0)).1
private def ridOf (sat : Nat → Bytes → Bool) (t : Tree) (path : Bytes) : Option Nat :=
  (getRoute sat t path Ctx.fresh).1.map (·.rid)

/-! ### the descent: static child, then parameter child, then wildcard, else miss -/

private def rStatic : Bytes × List (Bytes × Nat) := (['/', 'x', '/', ':', 'a'], [])
private def rParam : Bytes × List (Bytes × Nat) := (['/', ':', 'p', '/', ':', 'a'], [])
private def rWild : Bytes × List (Bytes × Nat) := (['/', '*'], [])
private def probePath : Bytes := ['/', 'x', '/', 'v']

/-- which arm answers when the arms listed compete for the first segment of `/x/v` -/
private def armOf (routes : List (Bytes × List (Bytes × Nat))) (labels : List String) : String :=
  match ridOf yes (mk routes) probePath with
  | some i => labels.getD i "?"
  | none => "miss"

/-- the order of the model's descent, computed: with all three present the static child answers, without
it the parameter child, without both the wildcard, with none of them nothing -/
def modelDescentChain : List String :=
  [armOf [rStatic, rParam, rWild] ["findChild", "param", "wildcard"],
   armOf [rParam, rWild] ["param", "wildcard"],
   armOf [rWild] ["wildcard"],
   armOf [] []]

theorem getRoute_descent_order : descentChain = modelDescentChain := by decide

/-! ### the descent backtracks: an arm that finds no route hands over to the next one -/

/-- `/u/a/p` with `/u/:i/p` next to `/u/a/:x/y`: the static edge `a` leads nowhere, the parameter sibling
answers (static arm falls through). `/v/abc` with `/v/:i` (constraint 0 accepts only `1`) next to `/v/*`: the
parameter leaf rejects, the wildcard answers (parameter arm falls through). `/a/z` with `/a/*` (its constraint
rejects `z`) next to `/:p/z`: the wildcard below `a` rejects, the search resumes at the root's parameter child
(wildcard arm falls through). -/
def modelFallsThrough : List String :=
  (if ridOf yes (mk [(['/', 'u', '/', ':', 'i', '/', 'p'], []), (['/', 'u', '/', 'a', '/', ':', 'x', '/', 'y'], [])])
      ['/', 'u', '/', 'a', '/', 'p'] = some 0 then ["findChild"] else []) ++
  (if ridOf one (mk [(['/', 'v', '/', ':', 'i'], [(['i'], 0)]), (['/', 'v', '/', '*'], [])])
      ['/', 'v', '/', 'a', 'b', 'c'] = some 1 then ["param"] else []) ++
  (if ridOf one (mk [(['/', 'a', '/', '*'], [(wildParam, 0)]), (['/', ':', 'p', '/', 'z'], [])])
      ['/', 'a', '/', 'z'] = some 1 then ["wildcard"] else [])

theorem getRoute_backtracks : descentFallsThrough = modelFallsThrough := by decide

/-- what each arm does: the static and the parameter arm ask `accepts` at the last segment and descend
otherwise, the parameter and the wildcard arm capture first and drop the capture when they hand over -/
theorem descent_arm_calls : descentArmCalls =
    ["findChild:accepts,descend", "param:captureParam,accepts,descend,dropCaptures", "wildcard:captureParam,accepts,dropCaptures"] := by decide

/-! ### `getRoute`: root and empty path, then `staticPaths`, then the descent -/

private def rootLeaf (rid : Nat) : Leaf := ⟨rid, [], ['/'], []⟩
/-- a tree (not reachable by registration) whose root node and whose `staticPaths` both answer `/` and `` -/
private def preludeTree : Tree := ⟨[([], ⟨some (rootLeaf 1), none, none⟩)], [(['/'], rootLeaf 2), ([], rootLeaf 2)]⟩

def modelPrelude : List String :=
  (if ridOf yes preludeTree ['/'] = some 1 then ["root"] else []) ++
  (if ridOf yes preludeTree [] = some 1 then ["empty"] else []) ++
  (if ridOf yes (mk [(['/', ':', 'p'], []), (['/', 'x'], [])]) ['/', 'x'] = some 1 then ["staticPaths"] else []) ++
  (if ridOf yes (mk [(['/', ':', 'p'], [])]) ['/', 'x'] = some 0 then ["descend"] else [])

theorem getRoute_prelude_order : getRoutePrelude = modelPrelude := by decide

/-! ### `accepts`: a node without a route is not an answer; the captured values are named after the
route before its constraints are validated -/

private def namesLeaf : List (Bytes × List (Bytes × Nat)) :=
  [(['/', 'a', '/', ':', 'x', '/', 'b'], []), (['/', 'a', '/', ':', 'y', '/', 'c'], [(['y'], 0)])]
private def namesWild : List (Bytes × List (Bytes × Nat)) :=
  [(['/', 'a', '/', ':', 'x', '/', 'b'], []), (['/', 'a', '/', ':', 'y', '/', '*'], [(['y'], 0)])]

/-- `/a` with only `/a/:x` registered: the node `a` exists and carries no route. The second route's
constraint is on `y`, a name the shared node does not hold: it can only pass if the naming comes first, and
it must reject the value `2` — at a last-segment node and at a wildcard alike. -/
def modelAcceptsOrder : List String :=
  (if ridOf yes (mk [(['/', 'a', '/', ':', 'x'], [])]) ['/', 'a'] = none then ["handlers"] else []) ++
  (if ridOf one (mk namesLeaf) ['/', 'a', '/', '1', '/', 'c'] = some 1 ∧ ridOf one (mk namesWild) ['/', 'a', '/', '1', '/', 'z'] = some 1
   then ["bindParamNames"] else []) ++
  (if ridOf one (mk namesLeaf) ['/', 'a', '/', '2', '/', 'c'] = none ∧ ridOf one (mk namesWild) ['/', 'a', '/', '2', '/', 'z'] = none
   then ["validateConstraints"] else [])

theorem accepts_order : acceptsOrder = modelAcceptsOrder := by decide

/-! ### inline slots, `bindParamNames` -/

theorem slot_bounds : slotWriteBounds ≠ [] ∧ slotWriteBounds.all (· = inlineSlots) = true ∧
    bindSlotBounds = [inlineSlots] := by decide

/-- `bindParamNames` renames the inline keys and fills `Params` from the positional overflow — the two
components `bindNames` computes -/
theorem bind_shape : bindShape = ["inline:paramKeys", "overflow:Params"] := by decide

/-! ### `addRouteWithConstraints`: root, empty, `/*` suffix, parameter-free, standard — in this order -/

private def lf0 : Leaf := ⟨0, [], [], []⟩
private def kindOf (path : Bytes) : String :=
  let t := addLeafGen false Tree.empty path lf0
  if t.statics ≠ [] then "static"
  else if (getK t.nodes []).leaf.isSome then "rootleaf"
  else if t.nodes.any (fun kv => kv.2.wild.isSome) then "wildcard"
  else "standard"

/-- the cases the model's registration distinguishes, probed where the tests overlap: `/*` and `/x/*`
contain no `:` (wildcard is tested before parameter-free), `/:a/*` contains one (wildcard before standard) -/
def modelInsertBranches : List String :=
  (if kindOf ['/'] = "rootleaf" then ["root"] else []) ++
  (if kindOf [] = "rootleaf" then ["empty"] else []) ++
  (if kindOf ['/', '*'] = "wildcard" ∧ kindOf ['/', 'x', '/', '*'] = "wildcard" ∧ kindOf ['/', ':', 'a', '/', '*'] = "wildcard" then ["wildcard"] else []) ++
  (if kindOf ['/', 'x'] = "static" then ["static"] else []) ++
  (if kindOf ['/', ':', 'a'] = "standard" ∧ kindOf ['/', 'x', '/', ':', 'a'] = "standard" then ["standard"] else [])

theorem insert_branch_order : insertBranches = modelInsertBranches := by decide

theorem insert_segment_arms : insertSegArms = ["param", "static"] := by decide

/-- `paramNames` is assigned exactly in the cases in which the model's leaf carries names -/
def modelLeafWrites : List String :=
  [['/'], [], ['/', 'x', '/', '*'], ['/', 'x'], ['/', ':', 'a']].map fun p =>
    if paramNamesOf p = [] then "constraints,handlers,path" else "constraints,handlers,paramNames,path"

theorem insert_leaf_writes : insertLeafWrites = modelLeafWrites := by decide


/-! ### `Router.Mount` / `mountRoute`: the prefix loses ONE trailing slash, gets a leading one when it is empty
or has none; the sub-router's route `/` is the prefix itself, any other route the prefix followed by its path -/

/-- the statements as they stand in the source, and the model's `mountPath` on the inputs that tell the variants
apart (`TrimRight` instead of `TrimSuffix`: `/m//`; no leading-slash rule: `m`, ``; no `/` rule: the last two) -/
theorem mount_glue :
    mountPrefixNorm = ["TrimSuffix(\"/\")", "if $p == \"\" || $p[0] != '/' { $p = \"/\" + $p }"] ∧
    mountJoin = ["Path()==\"/\":$p", "else:$p + Path()"] ∧
    mountPath ['/', 'm', '/'] ['/', 'x'] = ['/', 'm', '/', 'x'] ∧
    mountPath ['m'] ['/', 'x'] = ['/', 'm', '/', 'x'] ∧
    mountPath ['/', 'm', '/', '/'] ['/', 'x'] = ['/', 'm', '/', '/', 'x'] ∧
    mountPath [] ['/', 'x'] = ['/', '/', 'x'] ∧
    mountPath ['/', 'm'] ['/'] = ['/', 'm'] ∧
    mountPath ['/'] ['/'] = ['/'] := by decide

end Rivaas.Tie.C01Routing
