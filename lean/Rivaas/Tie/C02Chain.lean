/-
C02, translator tie (B): structural facts of `(*Context).Next`, `Abort` and `reset` (router/context.go) that the
chain machine (`Model/Chain.lean`: `callNext`, `loopHead`, `step` on `Frame.loop`, `St.stopped`, `init`) relies on,
regenerated from the current source on every run (`Gen/ChainFacts.lean`, extract/chainfacts.go) and checked here.
-/
import Rivaas.Gen.ChainFacts
import Rivaas.Model.Chain

namespace Rivaas.Tie.C02Chain
open Rivaas.Gen.ChainFacts

/-- the extractor understood every statement of every function it reads -/
theorem extraction_complete : problem = none := by decide

/-- `Next` starts with `c.index++` and a length taken once (`callNext` = `idx + 1` then `loopHead`) -/
theorem next_increments_first :
    ctx_next.take 2 = ["_1.index++", "_2 := int32(len(_1.handlers))"] := by decide

/-- with cancellation checks: loop bound `index < len`, then the abort test, then the `ctx.Err()` test, each
    returning; only then the handler at `index` is called, and `index++` follows the call
    (`loopHead`: bound, `St.stopped`, push `fn`+`loop`; `step` on `Frame.loop`: `idx + 1`, `loopHead`) -/
theorem next_checked_loop :
    (ctx_next.drop 2).take 14 =
      ["if _1.router != nil && _1.router.checkCancellation {", "for _1.index < _2 {",
       "if _1.aborted {", "return", "}",
       "_3 := _1.Request.Context().Err()", "if _3 != nil {", "return", "}",
       "_1.handlers[_1.index](_1)", "_1.index++", "}", "}", "else {"] := by decide

/-- without cancellation checks: the same loop without the `ctx.Err()` test (`Cfg.check = false`) -/
theorem next_unchecked_loop :
    ctx_next.drop 16 =
      ["for _1.index < _2 {", "if _1.aborted {", "return", "}", "_1.handlers[_1.index](_1)", "_1.index++", "}", "}"] := by
  decide

/-- `Abort` only sets the flag (`step`, act `.abort`) -/
theorem abort_sets_flag : ctx_abort = ["_1.aborted = true"] := by decide

/-- `reset` puts the chain state back to `Chain.init` / `PCtx.reset`: no handlers, `index = -1`, not aborted -/
theorem reset_restores_chain_state :
    ctx_reset_chain = ["_1.handlers = nil", "_1.index = -1", "_1.aborted = false"] ∧
    Rivaas.Chain.init.idx = -1 ∧ Rivaas.Chain.init.aborted = false ∧ Rivaas.Chain.PCtx.reset.aborted = false := by decide


/-! ### composition glue: the order in which the handler slices are put together (`Model/Compose.lean`) -/

/-- `App.registerRoute`: `WithBefore` handlers, the handler, `WithAfter` handlers, each wrapped once (`Op.aroute`) -/
theorem app_route_before_handler_after :
    app_registerRoute =
      ["_1 := make([]router.HandlerFunc, 0, len(_2.before)+1+len(_2.after))",
       "range _2.before {", "_1 = append(_1, _3.wrapHandler(_4))", "}",
       "_1 = append(_1, _3.wrapHandler(_5))",
       "range _2.after {", "_1 = append(_1, _3.wrapHandler(_4))", "}"] := by decide

/-- per-route options (`Model/RouteOpts.lean`: `apply`, `applyAll`): `WithBefore` / `WithAfter` append to the
    configuration, a `RouteOptions` set applies its members in order to the same configuration, and `registerRoute`
    applies the options in the order given to an empty `routeConfig` -/
theorem app_route_options_shape :
    app_WithBefore = ["_1.before = append(_1.before, _2...)"] ∧
    app_WithAfter = ["_1.after = append(_1.after, _2...)"] ∧
    app_RouteOptions = ["range _1 {", "_2(_3)", "}"] ∧
    app_registerRoute_options.take 4 = ["_1 := &routeConfig{}", "range _2 {", "_3(_1)", "}"] := by decide

/-- `wrapHandler` is transparent for the chain: it calls the app handler exactly once; its only deferred work is the
    hand-back of the pooled app context -/
theorem app_wrap_is_transparent : app_wrapHandler = ["defer {", "}", "_1(_2)"] := by decide

/-- app groups and app version groups: group middleware, before, handler, after — into a fresh slice -/
theorem app_group_route_order :
    app_group_addRoute =
      ["_1 := make([]route.Handler, 0, len(_2.middleware)+len(_3.before)+1+len(_3.after))",
       "range _2.middleware {", "_1 = append(_1, _2.app.wrapHandler(_4))", "}",
       "range _3.before {", "_1 = append(_1, _2.app.wrapHandler(_5))", "}",
       "_1 = append(_1, _2.app.wrapHandler(_6))",
       "range _3.after {", "_1 = append(_1, _2.app.wrapHandler(_5))", "}"] ∧
    app_vgroup_addRoute =
      ["_1 := make([]router.HandlerFunc, 0, len(_2.middleware)+len(_3.before)+1+len(_3.after))",
       "range _2.middleware {", "_1 = append(_1, _2.app.wrapHandler(_4))", "}",
       "range _3.before {", "_1 = append(_1, _2.app.wrapHandler(_5))", "}",
       "_1 = append(_1, _2.app.wrapHandler(_6))",
       "range _3.after {", "_1 = append(_1, _2.app.wrapHandler(_5))", "}"] := by decide

/-- nested groups copy the parent's middleware into a fresh slice and append their own (no aliasing: K02 and the
    `Group.Group` mutation); `App.Group` copies its variadic slice (the K02 fix); `Use` appends in place -/
theorem groups_copy_then_append :
    app_group_Group = ["_1 := make([]HandlerFunc, 0, len(_2.middleware)+len(_3))", "_1 = append(_1, _2.middleware...)",
                       "_1 = append(_1, _3...)"] ∧
    route_group_Group = ["_1 := make([]Handler, 0, len(_2.middleware)+len(_3))", "_1 = append(_1, _2.middleware...)",
                         "_1 = append(_1, _3...)"] ∧
    app_App_Group = ["_1 := make([]HandlerFunc, len(_2))", "copy(_1, _2)"] ∧
    app_group_Use = ["_1.middleware = append(_1.middleware, _2...)"] ∧
    route_group_Use = ["_1.middleware = append(_1.middleware, _2...)"] ∧
    router_Use = ["_1.middleware = append(_1.middleware, _2...)"] := by decide

/-- a route's chain: router-global middleware as of registration, then its own handlers (`RegisterRoute`); a group
    route: group middleware, then the handlers; a version-group route likewise — always a fresh slice -/
theorem route_chain_order :
    route_RegisterRoute.take 4 =
      ["_1 := _2.registrar.GetGlobalMiddleware()", "_3 := make([]Handler, 0, len(_1)+len(_2.handlers))",
       "_3 = append(_3, _1...)", "_3 = append(_3, _2.handlers...)"] ∧
    route_group_addRoute = ["_1 := make([]Handler, 0, len(_2.middleware)+len(_3))", "_1 = append(_1, _2.middleware...)",
                            "_1 = append(_1, _3...)"] ∧
    router_vgroup_Handle = ["_1 := make([]HandlerFunc, 0, len(_2.middleware)+len(_3))", "_1 = append(_1, _2.middleware...)",
                            "_1 = append(_1, _3...)"] := by decide

/-- `Mount`: the parent's middleware (only with `InheritMiddleware`), the sub-router's middleware, the `WithMiddleware`
    extras, in this order; a mounted route = that chain, then the route's own handlers (`Op.mount`) -/
theorem mount_chain_order :
    router_Mount =
      ["if _1.InheritMiddleware {", "_2 = make([]HandlerFunc, 0, len(_3.middleware))", "_2 = append(_2, _3.middleware...)", "}",
       "_2 = append(_2, _4.middleware...)",
       "range _1.ExtraMiddleware {", "if _5 {", "_2 = append(_2, _6)", "}", "}",
       "_3.mergeSubrouterRoutes(_7, _4, _2, _1.NamePrefix)"] ∧
    router_mountRoute.take 8 =
      ["_1 := make([]HandlerFunc, 0, len(_2)+len(_3))", "_1 = append(_1, _2...)",
       "range _3 {", "if _4 {", "_1 = append(_1, _5)", "}", "}",
       "_6 := _7.addRouteInternal(_8.Method(), _9, _1)"] := by decide

/-- `Mount` after the K02b fix (`Compose.mountOp` folds over `RouterSt.objs`): every route created on a router is
    logged — before the decision "register now / defer" —, the log only grows, and `mergeSubrouterRoutes` mounts
    exactly the logged routes through `mountRoute` (no reading back from the sub-router's trees) -/
theorem mount_from_route_objects :
    router_mergeSubrouterRoutes =
      ["if _1.routeLog != nil {", "_2 = make([]*route.Route, 0, len(_1.routeLog.routes))",
       "_2 = append(_2, _1.routeLog.routes...)", "}", "range _2 {", "_3.mountRoute(_4, _5, _6, _7)", "}"] ∧
    router_enqueueRoute =
      ["_1.logRoute(_2)", "if _1.warmedUp {", "_2.RegisterRoute()", "}", "else {",
       "_1.pendingRoutes = append(_1.pendingRoutes, _2)", "}"] ∧
    router_logRoute =
      ["if _1.routeLog == nil {", "_1.routeLog = &routeLog{}", "}", "_1.routeLog.routes = append(_1.routeLog.routes, _2)"] := by
  decide

end Rivaas.Tie.C02Chain
