/-
C02, translator tie (B): structural facts of `(*Context).Next`, `Abort` and `reset` (router/context.go) that the
chain machine (`Model/Chain.lean`: `callNext`, `loopHead`, `step` on `Frame.loop`, `St.stopped`, `init`) relies on,
regenerated from the current source on every run (`Gen/ChainFacts.lean`, extract/chainfacts.go) and checked here.
-/
import Rivaas.Gen.ChainFacts
import Rivaas.Model.Chain

namespace Rivaas.Tie.C02Chain
open Rivaas.Gen.ChainFacts

/-- the extractor understood every statement of every function it reads -/
theorem extraction_complete : problem = none := by decide

/-- `Next` starts with `c.index++` and a length taken once (`callNext` = `idx + 1` then `loopHead`) -/
theorem next_increments_first :
    ctx_next.take 2 = ["_1.index++", "_2 := int32(len(_1.handlers))"] := by decide

/-- with cancellation checks: loop bound `index < len`, then the abort test, then the `ctx.Err()` test, each
    returning; only then the handler at `index` is called, and `index++` follows the call
    (`loopHead`: bound, `St.stopped`, push `fn`+`loop`; `step` on `Frame.loop`: `idx + 1`, `loopHead`) -/
theorem next_checked_loop :
    (ctx_next.drop 2).take 14 =
      ["if _1.router != nil && _1.router.checkCancellation {", "for _1.index < _2 {",
       "if _1.aborted {", "return", "}",
       "_3 := _1.Request.Context().Err()", "if _3 != nil {", "return", "}",
       "_1.handlers[_1.index](_1)", "_1.index++", "}", "}", "else {"] := by decide

/-- without cancellation checks: the same loop without the `ctx.Err()` test (`Cfg.check = false`) -/
theorem next_unchecked_loop :
    ctx_next.drop 16 =
      ["for _1.index < _2 {", "if _1.aborted {", "return", "}", "_1.handlers[_1.index](_1)", "_1.index++", "}", "}"] := by
  decide

/-- `Abort` only sets the flag (`step`, act `.abort`) -/
theorem abort_sets_flag : ctx_abort = ["_1.aborted = true"] := by decide

/-- `reset` puts the chain state back to `Chain.init` / `PCtx.reset`: no handlers, `index = -1`, not aborted -/
theorem reset_restores_chain_state :
    ctx_reset_chain = ["_1.handlers = nil", "_1.index = -1", "_1.aborted = false"] ∧
    Rivaas.Chain.init.idx = -1 ∧ Rivaas.Chain.init.aborted = false ∧ Rivaas.Chain.PCtx.reset.aborted = false := by decide

end Rivaas.Tie.C02Chain
