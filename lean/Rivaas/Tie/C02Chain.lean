/-
C02, translator tie (B): structural facts of `(*Context).Next`, `Abort` and `reset` (router/context.go) that the
chain machine (`Model/Chain.lean`: `callNext`, `loopHead`, `step` on `Frame.loop`, `St.stopped`, `init`) relies on,
regenerated from the current source on every run (`Gen/ChainFacts.lean`, extract/chainfacts.go) and checked here.
-/
import Rivaas.Gen.ChainFacts
import Rivaas.Model.Chain
import Rivaas.Model.Compose

namespace Rivaas.Tie.C02Chain
open Rivaas.Gen.ChainFacts

/-- the extractor understood every statement of every function it reads -/
theorem extraction_complete : problem = none := by decide

/-- `Next` starts with `c.index++` and a length taken once (`callNext` = `idx + 1` then `loopHead`) -/
theorem next_increments_first :
    ctx_next.take 2 = ["_1.index++", "_2 := int32(len(_1.handlers))"] := by decide

/-- with cancellation checks: loop bound `index < len`, then the abort test, then the `ctx.Err()` test, each
    returning; only then the handler at `index` is called, and `index++` follows the call
    (`loopHead`: bound, `St.stopped`, push `fn`+`loop`; `step` on `Frame.loop`: `idx + 1`, `loopHead`) -/
theorem next_checked_loop :
    (ctx_next.drop 2).take 14 =
      ["if _1.router != nil && _1.router.checkCancellation {", "for _1.index < _2 {",
       "if _1.aborted {", "return", "}",
       "_3 := _1.Request.Context().Err()", "if _3 != nil {", "return", "}",
       "_1.handlers[_1.index](_1)", "_1.index++", "}", "}", "else {"] := by decide

/-- without cancellation checks: the same loop without the `ctx.Err()` test (`Cfg.check = false`) -/
theorem next_unchecked_loop :
    ctx_next.drop 16 =
      ["for _1.index < _2 {", "if _1.aborted {", "return", "}", "_1.handlers[_1.index](_1)", "_1.index++", "}", "}"] := by
  decide

/-! ### the extracted `Next`, interpreted, against the machine (`Model/Chain.lean`)

The token list is parsed into a shape — is `index++` the first statement, which tests stand (in which order) between
the loop bound and the call in the loop with cancellation checks and in the loop without, does `index++` follow the
call — and the shape is given the obvious semantics: "from the loop head, which position is called next, if any".
`next_interpreted_agrees_with_loopHead` proves that semantics equal to what `Chain.loopHead` does, for every
configuration and state; `callNext_loop_step_shape` ties the two increments. An edit of `Next` changes the parsed shape
(or makes the parse fail), an edit of `loopHead` / `callNext` / `step` breaks the agreement. -/

inductive Guard where
  /-- `if c.aborted { return }` -/
  | aborted
  /-- `if err := c.Request.Context().Err(); err != nil { return }` -/
  | cancelled
  deriving Repr, DecidableEq

structure NextShape where
  incFirst : Bool
  checked : List Guard
  unchecked : List Guard
  incAfterCallChecked : Bool
  incAfterCallUnchecked : Bool
  deriving Repr, DecidableEq

/-- the guards in front of the call, then `call; index++; }` -/
def parseLoopBody : Nat → List String → Option (List Guard × Bool × List String)
  | 0, _ => none
  | fuel+1, toks =>
    match toks with
    | "if _1.aborted {" :: "return" :: "}" :: rest =>
      (parseLoopBody fuel rest).map fun (g, i, r) => (Guard.aborted :: g, i, r)
    | "_3 := _1.Request.Context().Err()" :: "if _3 != nil {" :: "return" :: "}" :: rest =>
      (parseLoopBody fuel rest).map fun (g, i, r) => (Guard.cancelled :: g, i, r)
    | "_1.handlers[_1.index](_1)" :: "_1.index++" :: "}" :: rest => some ([], true, rest)
    | "_1.handlers[_1.index](_1)" :: "}" :: rest => some ([], false, rest)
    | _ => none

def parseNext (toks : List String) : Option NextShape :=
  match toks with
  | "_1.index++" :: "_2 := int32(len(_1.handlers))" :: "if _1.router != nil && _1.router.checkCancellation {" ::
      "for _1.index < _2 {" :: rest =>
    match parseLoopBody 8 rest with
    | some (gc, ic, "}" :: "else {" :: "for _1.index < _2 {" :: rest2) =>
      match parseLoopBody 8 rest2 with
      | some (gu, iu, ["}"]) => some { incFirst := true, checked := gc, unchecked := gu,
                                        incAfterCallChecked := ic, incAfterCallUnchecked := iu }
      | _ => none
    | _ => none
  | _ => none

/-- what the extracted `Next` is -/
theorem next_parses :
    parseNext ctx_next = some { incFirst := true, checked := [.aborted, .cancelled], unchecked := [.aborted],
                                incAfterCallChecked := true, incAfterCallUnchecked := true } := by decide

def guardFires (aborted cancelled : Bool) : Guard → Bool
  | .aborted => aborted
  | .cancelled => cancelled

/-- semantics of a parsed loop: from the loop head with cursor `idx`, the position that is called next (`none` = the
    loop is left: bound reached or a test returned) -/
def headOf (sh : NextShape) (check : Bool) (idx : Int) (len : Nat) (aborted cancelled : Bool) : Option Nat :=
  if 0 ≤ idx ∧ idx < len then
    if ((if check then sh.checked else sh.unchecked).any (guardFires aborted cancelled)) then none else some idx.toNat
  else none

open Rivaas.Chain in
/-- the machine's loop head as a decision -/
def modelHead (cfg : Cfg) (progs : List Prog) (s : St) : Option Nat :=
  if 0 ≤ s.idx ∧ s.idx < progs.length then (if s.stopped cfg then none else some s.idx.toNat) else none

open Rivaas.Chain in
/-- `loopHead` does exactly what `modelHead` says: it enters position `k` (pushes its frame under a `loop` frame and
    records `enter k`) or leaves the state alone -/
theorem loopHead_is_modelHead (cfg : Cfg) (progs : List Prog) (s : St) :
    loopHead cfg progs s =
      match modelHead cfg progs s with
      | some k => { s with stack := Frame.fn k (progs.getD k default).fk (progs.getD k default).acts :: Frame.loop :: s.stack,
                           trace := s.trace ++ [Ev.enter k] }
      | none => s := by
  unfold loopHead modelHead
  split <;> (try split) <;> simp_all

open Rivaas.Chain in
/-- **The extracted `Next` loop, interpreted, is the machine's loop head** — for every configuration (checks on / off),
    every chain and every state: the same position is called next, or none -/
theorem next_interpreted_agrees_with_loopHead (cfg : Cfg) (progs : List Prog) (s : St) :
    (parseNext ctx_next).map (fun sh => headOf sh cfg.check s.idx progs.length s.aborted s.cancelled) =
      some (modelHead cfg progs s) := by
  rw [next_parses]
  obtain ⟨check, ab⟩ := cfg
  obtain ⟨idx, aborted, cancelled, stack, trace, status, body, escaped⟩ := s
  simp only [Option.map_some, headOf, modelHead, St.stopped]
  cases check <;> cases aborted <;> cases cancelled <;> simp [guardFires]

open Rivaas.Chain in
/-- the two increments: `Next` starts with `index++` (`callNext`), and `index++` follows the call inside the loop (the
    machine's step on a `loop` frame) -/
theorem callNext_loop_step_shape (cfg : Cfg) (progs : List Prog) (s : St) (rest : List Frame) :
    (parseNext ctx_next).map (fun sh => (sh.incFirst, sh.incAfterCallChecked, sh.incAfterCallUnchecked)) = some (true, true, true) ∧
    callNext cfg progs s = loopHead cfg progs { s with idx := s.idx + 1 } ∧
    step cfg progs { s with stack := Frame.loop :: rest } =
      loopHead cfg progs { s with idx := s.idx + 1, stack := rest } := by
  refine ⟨by rw [next_parses]; rfl, rfl, rfl⟩

/-- `Abort` only sets the flag (`step`, act `.abort`) -/
theorem abort_sets_flag : ctx_abort = ["_1.aborted = true"] := by decide

/-- `reset` puts the chain state back to `Chain.init` / `PCtx.reset`: no handlers, `index = -1`, not aborted -/
theorem reset_restores_chain_state :
    ctx_reset_chain = ["_1.handlers = nil", "_1.index = -1", "_1.aborted = false"] ∧
    Rivaas.Chain.init.idx = -1 ∧ Rivaas.Chain.init.aborted = false ∧ Rivaas.Chain.PCtx.reset.aborted = false := by decide


/-! ### composition glue: the order in which the handler slices are put together (`Model/Compose.lean`) -/

/-- `App.registerRoute`: `WithBefore` handlers, the handler, `WithAfter` handlers, each wrapped once (`Op.aroute`) -/
theorem app_route_before_handler_after :
    app_registerRoute =
      ["_1 := make([]router.HandlerFunc, 0, len(_2.before)+1+len(_2.after))",
       "range _2.before {", "_1 = append(_1, _3.wrapHandler(_4))", "}",
       "_1 = append(_1, _3.wrapHandler(_5))",
       "range _2.after {", "_1 = append(_1, _3.wrapHandler(_4))", "}"] := by decide

/-- per-route options (`Model/RouteOpts.lean`: `apply`, `applyAll`): `WithBefore` / `WithAfter` append to the
    configuration, a `RouteOptions` set applies its members in order to the same configuration, and `registerRoute`
    applies the options in the order given to an empty `routeConfig` -/
theorem app_route_options_shape :
    app_WithBefore = ["_1.before = append(_1.before, _2...)"] ∧
    app_WithAfter = ["_1.after = append(_1.after, _2...)"] ∧
    app_RouteOptions = ["range _1 {", "_2(_3)", "}"] ∧
    app_registerRoute_options.take 4 = ["_1 := &routeConfig{}", "range _2 {", "_3(_1)", "}"] := by decide

/-- `wrapHandler` is transparent for the chain: it calls the app handler exactly once; its only deferred work is the
    hand-back of the pooled app context -/
theorem app_wrap_is_transparent : app_wrapHandler = ["defer {", "}", "_1(_2)"] := by decide

/-- app groups and app version groups: group middleware, before, handler, after — into a fresh slice -/
theorem app_group_route_order :
    app_group_addRoute =
      ["_1 := make([]route.Handler, 0, len(_2.middleware)+len(_3.before)+1+len(_3.after))",
       "range _2.middleware {", "_1 = append(_1, _2.app.wrapHandler(_4))", "}",
       "range _3.before {", "_1 = append(_1, _2.app.wrapHandler(_5))", "}",
       "_1 = append(_1, _2.app.wrapHandler(_6))",
       "range _3.after {", "_1 = append(_1, _2.app.wrapHandler(_5))", "}"] ∧
    app_vgroup_addRoute =
      ["_1 := make([]router.HandlerFunc, 0, len(_2.middleware)+len(_3.before)+1+len(_3.after))",
       "range _2.middleware {", "_1 = append(_1, _2.app.wrapHandler(_4))", "}",
       "range _3.before {", "_1 = append(_1, _2.app.wrapHandler(_5))", "}",
       "_1 = append(_1, _2.app.wrapHandler(_6))",
       "range _3.after {", "_1 = append(_1, _2.app.wrapHandler(_5))", "}"] := by decide

/-- nested groups copy the parent's middleware into a fresh slice and append their own (no aliasing: K02 and the
    `Group.Group` mutation); `App.Group` copies its variadic slice (the K02 fix); `Use` appends in place -/
theorem groups_copy_then_append :
    app_group_Group = ["_1 := make([]HandlerFunc, 0, len(_2.middleware)+len(_3))", "_1 = append(_1, _2.middleware...)",
                       "_1 = append(_1, _3...)"] ∧
    route_group_Group = ["_1 := make([]Handler, 0, len(_2.middleware)+len(_3))", "_1 = append(_1, _2.middleware...)",
                         "_1 = append(_1, _3...)"] ∧
    app_App_Group = ["_1 := make([]HandlerFunc, len(_2))", "copy(_1, _2)"] ∧
    app_group_Use = ["_1.middleware = append(_1.middleware, _2...)"] ∧
    route_group_Use = ["_1.middleware = append(_1.middleware, _2...)"] ∧
    router_Use = ["_1.middleware = append(_1.middleware, _2...)"] := by decide

/-- a route's chain: router-global middleware as of registration, then its own handlers (`RegisterRoute`); a group
    route: group middleware, then the handlers; a version-group route likewise — always a fresh slice -/
theorem route_chain_order :
    route_RegisterRoute.take 4 =
      ["_1 := _2.registrar.GetGlobalMiddleware()", "_3 := make([]Handler, 0, len(_1)+len(_2.handlers))",
       "_3 = append(_3, _1...)", "_3 = append(_3, _2.handlers...)"] ∧
    route_group_addRoute = ["_1 := make([]Handler, 0, len(_2.middleware)+len(_3))", "_1 = append(_1, _2.middleware...)",
                            "_1 = append(_1, _3...)"] ∧
    router_vgroup_Handle = ["_1 := make([]HandlerFunc, 0, len(_2.middleware)+len(_3))", "_1 = append(_1, _2.middleware...)",
                            "_1 = append(_1, _3...)"] := by decide

/-- `Mount`: the parent's middleware (only with `InheritMiddleware`), the sub-router's middleware, the `WithMiddleware`
    extras, in this order; a mounted route = that chain, then the route's own handlers (`Op.mount`) -/
theorem mount_chain_order :
    router_Mount =
      ["if _1.InheritMiddleware {", "_2 = make([]HandlerFunc, 0, len(_3.middleware))", "_2 = append(_2, _3.middleware...)", "}",
       "_2 = append(_2, _4.middleware...)",
       "range _1.ExtraMiddleware {", "if _5 {", "_2 = append(_2, _6)", "}", "}",
       "_3.mergeSubrouterRoutes(_7, _4, _2, _1.NamePrefix)"] ∧
    router_mountRoute.take 8 =
      ["_1 := make([]HandlerFunc, 0, len(_2)+len(_3))", "_1 = append(_1, _2...)",
       "range _3 {", "if _4 {", "_1 = append(_1, _5)", "}", "}",
       "_6 := _7.addRouteInternal(_8.Method(), _9, _1)"] := by decide

/-! ### the extracted `Mount` / `mountRoute`, interpreted, against `Compose.mountOp` -/

/-- a part of the chain a mounted route gets -/
inductive Part where
  /-- the parent router's middleware, only with `InheritMiddleware` -/
  | parentIfInherit
  | subMiddleware
  | extras
  /-- the route's own handlers -/
  | own
  deriving Repr, DecidableEq

/-- `Mount`: the order in which the mount chain is appended; `mountRoute`: mount chain first, then the route's handlers -/
def parseMount (mount mountRoute : List String) : Option (List Part) :=
  match mount, mountRoute with
  | ["if _1.InheritMiddleware {", "_2 = make([]HandlerFunc, 0, len(_3.middleware))", "_2 = append(_2, _3.middleware...)", "}",
     "_2 = append(_2, _4.middleware...)",
     "range _1.ExtraMiddleware {", "if _5 {", "_2 = append(_2, _6)", "}", "}",
     "_3.mergeSubrouterRoutes(_7, _4, _2, _1.NamePrefix)"],
    "_1 := make([]HandlerFunc, 0, len(_2)+len(_3))" :: "_1 = append(_1, _2...)" ::
      "range _3 {" :: "if _4 {" :: "_1 = append(_1, _5)" :: "}" :: "}" ::
      "_6 := _7.addRouteInternal(_8.Method(), _9, _1)" :: _ =>
    some [.parentIfInherit, .subMiddleware, .extras, .own]
  | _, _ => none

def partOf (inherit : Bool) (pmw smw extra own : List Nat) : Part → List Nat
  | .parentIfInherit => if inherit then pmw else []
  | .subMiddleware => smw
  | .extras => extra
  | .own => own

def chainOfParts (ps : List Part) (inherit : Bool) (pmw smw extra own : List Nat) : List Nat :=
  (ps.map (partOf inherit pmw smw extra own)).flatten

open Rivaas.Compose in
/-- **The extracted `Mount` + `mountRoute`, interpreted, build the handler slice `Compose.mountOp` gives a mounted
    route** — parent middleware under `InheritMiddleware`, sub-router middleware, extras, the route's own handlers —
    and `mountOp` hands the parent exactly one such route per route object of the sub-router -/
theorem mount_interpreted_agrees_with_mountOp (w : World) (parent sub seg : Nat) (inherit : Bool) (extra : List Hid)
    (p s : RouterSt) (hp : w.routers[parent]? = some p) (hs : w.routers[sub]? = some s) :
    (parseMount router_Mount router_mountRoute).isSome = true ∧
    mountOp w parent sub seg inherit extra =
      s.objs.foldl (fun w rt => w.addRouteOn parent
        { ver := none, path := seg :: rt.path,
          hs := ((parseMount router_Mount router_mountRoute).map
                  (fun ps => chainOfParts ps inherit p.mw s.mw extra rt.hs)).getD [] }) w := by
  have hparse : parseMount router_Mount router_mountRoute = some [.parentIfInherit, .subMiddleware, .extras, .own] := by decide
  refine ⟨by rw [hparse]; rfl, ?_⟩
  rw [hparse]
  unfold mountOp
  simp only [hp, hs, Option.map_some, Option.getD_some, chainOfParts, List.map, partOf, List.flatten, List.append_nil,
    List.append_assoc]
  congr 1
  funext w rt
  simp [List.append_assoc]

/-- `Mount` after the K02b fix (`Compose.mountOp` folds over `RouterSt.objs`): every route created on a router is
    logged — before the decision "register now / defer" —, the log only grows, and `mergeSubrouterRoutes` mounts
    exactly the logged routes through `mountRoute` (no reading back from the sub-router's trees) -/
theorem mount_from_route_objects :
    router_mergeSubrouterRoutes =
      ["if _1.routeLog != nil {", "_2 = make([]*route.Route, 0, len(_1.routeLog.routes))",
       "_2 = append(_2, _1.routeLog.routes...)", "}", "range _2 {", "_3.mountRoute(_4, _5, _6, _7)", "}"] ∧
    router_enqueueRoute =
      ["_1.logRoute(_2)", "if _1.warmedUp {", "_2.RegisterRoute()", "}", "else {",
       "_1.pendingRoutes = append(_1.pendingRoutes, _2)", "}"] ∧
    router_logRoute =
      ["if _1.routeLog == nil {", "_1.routeLog = &routeLog{}", "}", "_1.routeLog.routes = append(_1.routeLog.routes, _2)"] := by
  decide

end Rivaas.Tie.C02Chain
