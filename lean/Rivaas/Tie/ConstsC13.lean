/- Translator tie (B), constants: every literal of the Go source that the model of C13 mirrors equals the value
   extract/ regenerates from the current source (Gen/Consts.lean) on every run. An edited threshold, list or
   marker in /repo breaks the theorem named after it. -/
import Rivaas.Gen.Consts
import Rivaas.Model.Version
namespace Rivaas.Tie.ConstsC13
open Rivaas.Gen.Consts
theorem consts_C13_versionPlaceholder : Rivaas.Version.versionPlaceholder = version_placeholder.toList := by decide
theorem consts_C13_standardMethods : Rivaas.Version.standardMethods = router_standardMethods.map String.toList := by decide
end Rivaas.Tie.ConstsC13
