/-
C07, translator tie (B): `Gen/OpenAPIBuild.lean` is rewritten by `extract/oabuild.go` from
openapi/internal/build/builder.go on every run: the decisive calls and the error exits of `Builder.Build` and
`Builder.buildOperation` in source order (a call's arguments before the call).

The model (`Model/OpenAPIBuild.lean`: `build`, `buildGroups`, `buildGroup`, `buildOperation`, `genResps`) fixes
* which error wins: the duplicate operation id is detected before anything is generated for the operation; for a
  documented operation the style check of its parameters, then — per status code, in sorted order — the code check
  *before* the schema of that response is generated (a bad code registers nothing of its own response);
* the order in which component schemas are registered (first writer wins, K07h): parameters, request body,
  responses in sorted status order; paths in sorted key order;
* that components are collected after all operations were built, and the document is sorted last.
An edit that moves one of these (the code check behind `Generate`, the sort behind the loop, the duplicate test behind
the parameter block, …) breaks the theorem named after it.
-/
import Rivaas.Gen.OpenAPIBuild

namespace Rivaas.Tie.C07Build
open Rivaas.Gen.OpenAPIBuild

theorem extraction_complete : extractError = none := by decide

/-- `Build`: server validation, a fresh schema generator, grouping by converted path, the keys sorted, the operations
    built (an error aborts), the components collected afterwards, the document sorted last -/
theorem build_events_are_model :
    buildEvents = ["error server[%d]: variables require", "call NewSchemaGenerator", "call convertPath", "call Strings",
      "call buildOperation", "error failed to build", "call GetComponentSchemas", "call sortSpec"] := by decide

/-- `buildOperation`: the id, the duplicate test, (undocumented: the route's parameters and out) the route's parameters,
    per declared parameter the style check and the conversion, the projected body, the statuses sorted, per status the
    code check and then the schema -/
theorem buildOperation_events_are_model :
    buildOperationEvents = ["call generateOperationID", "error duplicate operation ID:", "call extractPathParams",
      "call extractPathParams", "call validateParamStyle", "call paramSpecToParameter", "call GenerateProjected",
      "call Ints", "call ValidateResponseCode", "call Generate"] := by decide

def idx (e : String) (l : List String) : Nat := l.findIdx (· == e)

/-- the duplicate-id test comes before every schema generation of the operation -/
theorem dup_check_before_generation :
    idx "error duplicate operation ID:" buildOperationEvents < idx "call paramSpecToParameter" buildOperationEvents ∧
    idx "error duplicate operation ID:" buildOperationEvents < idx "call GenerateProjected" buildOperationEvents ∧
    idx "error duplicate operation ID:" buildOperationEvents < idx "call Generate" buildOperationEvents := by decide

/-- the statuses are sorted before the loop, and a response code is checked before its schema is generated -/
theorem code_checked_before_schema :
    idx "call Ints" buildOperationEvents < idx "call ValidateResponseCode" buildOperationEvents ∧
    idx "call ValidateResponseCode" buildOperationEvents < idx "call Generate" buildOperationEvents := by decide

/-- component registration order: parameters, request body, responses -/
theorem registration_order :
    idx "call paramSpecToParameter" buildOperationEvents < idx "call GenerateProjected" buildOperationEvents ∧
    idx "call GenerateProjected" buildOperationEvents < idx "call Generate" buildOperationEvents := by decide

/-- paths are sorted before the operations are built; components are read after the last operation -/
theorem paths_sorted_before_building :
    idx "call Strings" buildEvents < idx "call buildOperation" buildEvents ∧
    idx "call buildOperation" buildEvents < idx "call GetComponentSchemas" buildEvents ∧
    idx "call GetComponentSchemas" buildEvents < idx "call sortSpec" buildEvents := by decide

end Rivaas.Tie.C07Build
