/-
C14, translator tie (B) for the environment source: `Gen/ConfigEnv.lean` is rewritten by `extract/configenv.go` from
config/codec/env.go (`EnvVarCodec.Decode`) and config/source/env.go (`OSEnvVar.Load`) on every run. The model
(`Model/ConfigEnv.lean`) hard-codes the separators and the order of the steps; here they are compared with the source:
an edited separator, a dropped `TrimSpace` / `ToLower`, a new or removed skip condition, the prefix no longer
stripped, a non-map on the way no longer replaced — each breaks the theorem named after it.
-/
import Rivaas.Gen.ConfigEnv
import Rivaas.Model.ConfigEnv

namespace Rivaas.Tie.C14Env
open Rivaas.Gen.ConfigEnv Rivaas.Config

theorem extraction_complete : extractError = none := by decide

/-- lines are separated by a line feed (`envSource` splits at '\n'), and `OSEnvVar.Load` joins with the same -/
theorem env_line_separator : lineSep = "\n" ∧ joinSep = "\n" := by decide

/-- `NAME=value` is cut at the first "=" into at most two parts (`cutEq`) -/
theorem env_key_value_separator : kvSep = "=" ∧ kvParts = 2 := by decide

/-- the name is trimmed, lower-cased and split at "_", empty parts are dropped (`envDef`) -/
theorem env_name_to_path : keyTrimmed = true ∧ keyLowered = true ∧ partSep = "_" ∧ dropsEmptyParts = true := by decide

/-- the value is trimmed (`envDef`) -/
theorem env_value_trimmed : valueTrimmed = true := by decide

/-- a line is skipped in exactly three situations, tested in this order: no "=", an empty name, no non-empty part
    (`envDef` returns `none` in exactly these) -/
theorem env_skip_conditions : skips = ["len(_) != 2", "_ == \"\"", "len(_) == 0"] := by decide

/-- a non-map value on the way down is replaced by a fresh map (`insertPath`, second branch) -/
theorem env_non_map_replaced : nonMapReplaced = true := by decide

/-- `OSEnvVar.Load` keeps the entries with the prefix and strips it (`stripPrefix`) -/
theorem env_prefix_filter : prefixFiltered = true ∧ prefixStripped = true := by decide

/-- the model does what these facts say, on a sample that exercises every one of them -/
theorem model_follows_facts :
    envDef "  Db__POOL_=  a=b ".toList = some (["db".toList, "pool".toList], "a=b".toList) ∧
    envDef "novalue".toList = none ∧ envDef " =x".toList = none ∧ envDef "__=x".toList = none ∧
    stripPrefix "P_".toList "P_A=1".toList = some "A=1".toList ∧ stripPrefix "P_".toList "PX_A=1".toList = none ∧
    (envSource "P_".toList ["P_A=1\nB=2".toList]).length = 2 := by decide

end Rivaas.Tie.C14Env
