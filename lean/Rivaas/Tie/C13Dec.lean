/-
Decision trees regenerated from Go function bodies by `extract/version.go` (C13, tie B), and their meaning.
Core Lean only. A tree branches on *atoms* (conditions, numbered per function; the text is in the function's atom
table), performs *effects* (assignments to fields / to locals that are assigned more than once, calls), returns a
*result*, or loops over a slice (`each`): inside the loop body `next` goes on with the next element, `brk` leaves the
loop, a `ret` leaves the function.
-/
namespace Rivaas.Tie.Dec

inductive D where
  | ret (k : Nat)
  | act (k : Nat) (rest : D)
  | ite (a : Nat) (t e : D)
  | each (src : Nat) (body after : D)
  | next
  | brk
  | fall
  deriving Repr, DecidableEq

/-- how a run ends -/
inductive End where
  | ret (k : Nat)   -- `return` with result number k
  | next | brk      -- only inside a loop body
  | fall            -- the end of the body was reached
  deriving Repr, DecidableEq

structure Run where
  /-- the effects performed, in order -/
  acts : List Nat
  fin : End
  /-- the loop iteration (0-based) in which the function returned, if it returned from inside a loop -/
  iter : Option Nat
  deriving Repr, DecidableEq

/-- a valuation of the atoms: it may look at the effects performed so far (a condition on a local that is
    assigned more than once) -/
abbrev Val := List Nat → Nat → Bool

/-- the iterations of a loop, one valuation per element -/
def iterate (runBody : Val → List Nat → Run) : List Val → Nat → List Nat → Run
  | [], _, acts => ⟨acts, .fall, none⟩
  | ρ :: rest, i, acts =>
    let r := runBody ρ acts
    match r.fin with
    | .ret k => ⟨r.acts, .ret k, some i⟩
    | .brk => ⟨r.acts, .fall, none⟩
    | _ => iterate runBody rest (i + 1) r.acts

/-- run a tree from the effects `acts` performed so far: `ρ` values the atoms outside loops, `iters src` lists one
    valuation per element of loop `src` -/
def runFrom (iters : Nat → List Val) : D → Val → List Nat → Run
  | .ret k, _, acts => ⟨acts, .ret k, none⟩
  | .next, _, acts => ⟨acts, .next, none⟩
  | .brk, _, acts => ⟨acts, .brk, none⟩
  | .fall, _, acts => ⟨acts, .fall, none⟩
  | .act k rest, ρ, acts => runFrom iters rest ρ (acts ++ [k])
  | .ite a t e, ρ, acts => if ρ acts a then runFrom iters t ρ acts else runFrom iters e ρ acts
  | .each src body after, ρ, acts =>
    let l := iterate (fun ρi ac => runFrom iters body ρi ac) (iters src) 0 acts
    match l.fin with
    | .ret k => ⟨l.acts, .ret k, l.iter⟩
    | _ => runFrom iters after ρ l.acts

def run (iters : Nat → List Val) (d : D) (ρ : Val) : Run := runFrom iters d ρ []

/-- no loops -/
def noIters : Nat → List Val := fun _ => []

/-- a valuation that ignores the effects -/
def pure (f : Nat → Bool) : Val := fun _ a => f a

end Rivaas.Tie.Dec
