/- Translator tie (B), constants: every literal of the Go source that the model of C11 mirrors equals the value
   extract/ regenerates from the current source (Gen/Consts.lean) on every run. An edited threshold, list or
   marker in /repo breaks the theorem named after it. -/
import Rivaas.Gen.Consts
import Rivaas.Model.Compiler
namespace Rivaas.Tie.ConstsC11
open Rivaas.Gen.Consts Rivaas.Compiler
theorem consts_C11_minRoutesForIndexing : minRoutesForIndexing = compiler_minRoutesForIndexing := by decide
theorem consts_C11_staticDirectThreshold : staticDirectThreshold = compiler_staticDirectThreshold := by decide
theorem consts_C11_tableDirectThreshold : tableDirectThreshold = router_tableDirectThreshold := by decide
theorem consts_C11_maxSegments : maxSegments = compiler_maxSegments := by decide
theorem consts_C11_inlineSlots : inlineSlots = router_inlineSlots ∧ Rivaas.Radix.inlineSlots = router_inlineSlots := by decide
theorem consts_C11_defaultBloomFilterSize : defaultBloomFilterSize = router_defaultBloomFilterSize := by decide
theorem consts_C11_defaultBloomHashFunctions : defaultBloomHashFunctions = router_defaultBloomHashFunctions := by decide
theorem consts_C11_optimalBloom :
    bloomBitsPerRoute = router_bloomBitsPerRoute ∧ bloomMinSize = router_bloomMinSize ∧ bloomMaxSize = router_bloomMaxSize ∧
    tableBloomMinSize = router_tableBloomMinSize := by decide
end Rivaas.Tie.ConstsC11
