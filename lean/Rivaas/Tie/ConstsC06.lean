/- Translator tie (B), constants: every literal of the Go source that the model of C06 mirrors equals the value
   extract/ regenerates from the current source (Gen/Consts.lean) on every run. An edited threshold, list or
   marker in /repo breaks the theorem named after it. -/
import Rivaas.Gen.Consts
import Rivaas.Model.ErrFmt
namespace Rivaas.Tie.ConstsC06
open Rivaas.Gen.Consts
theorem consts_C06_reservedMembers : Rivaas.ErrFmt.reserved = errors_reservedMembers.map String.toList := by decide
/-- every member MarshalJSON writes itself, and every json member of the struct, is in the guard list (a member added
    to the struct or to the map but not to the `k != …` chain could be overridden by an extension) -/
theorem consts_C06_membersProtected :
    errors_writtenMembers.all (errors_reservedMembers.contains ·) = true ∧
    errors_structMembers.all (errors_reservedMembers.contains ·) = true := by decide
theorem consts_C06_mediaTypes :
    Rivaas.ErrFmt.ctRFC = errors_ctRFC9457.toList ∧ Rivaas.ErrFmt.ctJSONAPI = errors_ctJSONAPI.toList ∧
    Rivaas.ErrFmt.ctSimple = errors_ctSimple.toList := by decide
end Rivaas.Tie.ConstsC06
