/- Translator tie (B), structure of the compiled lookup (C11): the order of the lookup stages of
   `(*Router).ServeHTTP` (router/serve.go) and of the decisions of router/compiler (`AddRoute`,
   `sortRoutesBySpecificity`, `LookupStatic`, `MatchDynamic`), regenerated from the current source by
   extract/routing.go (Gen/Routing.lean) on every run, against the model (Model/Compiler.lean). Where an order is
   observable in the model it is *computed* by running the model on probes in which the alternatives compete;
   the shifting condition of the insertion sort is interpreted as an operator and the model's sort is compared
   with a right-to-left insertion sort that uses it. -/
import Rivaas.Gen.Routing
import Rivaas.Model.Compiler
namespace Rivaas.Tie.C11Routing
open Rivaas.Gen.Routing Rivaas.Compiler Rivaas.Radix Rivaas.Route

private def G : Bytes := ['G', 'E', 'T']
private def yes : Nat → Bytes → Bool := fun _ _ => true
/-- a hash that separates the few keys of the probes -/
private def h (b : Bytes) : Nat := b.foldl (fun a c => a * 257 + c.toNat) 7
private def reg (p : Bytes) : Reg := ⟨G, [], p, [], none⟩
private def ranOf (script : List Reg) (path : Bytes) : Option Nat :=
  (serveCompiled h yes ⟨true, 0, 0, false, none⟩ script false ⟨G, path, []⟩).ran

/-! ### `ServeHTTP`: compiler static table, then compiled dynamic templates, then the tree -/

/-- `/a/b` is both a parameter-free route and an instance of `/a/:x` registered before it: the static
table answers first. `/users/list` is served by `/:k/list` (first in the template list) although the tree
prefers `/users/:id`: the templates answer before the tree. The per-tree table and the tree walk that
follows it cannot be told apart by their answers (`stage3_eq`); their order is taken as written. -/
def modelServeStages : List String :=
  (if ranOf [reg ['/', 'a', '/', ':', 'x'], reg ['/', 'a', '/', 'b']] ['/', 'a', '/', 'b'] = some 1 then ["LookupStatic"] else []) ++
  (if ranOf [reg ['/', ':', 'k', '/', 'l'], reg ['/', 'u', '/', ':', 'i']] ['/', 'u', '/', 'l'] = some 0 ∧
      (serve yes (build false [reg ['/', ':', 'k', '/', 'l'], reg ['/', 'u', '/', ':', 'i']]) ⟨G, ['/', 'u', '/', 'l'], []⟩).ran = some 1
    then ["MatchDynamic"] else []) ++
  ["compiled.getRoute", "getRoute"]

theorem serve_stage_order : serveStages = modelServeStages := by decide

/-! ### `AddRoute`: parameter-free → static table + bloom; else unless wildcard → template list, sorted, index dropped -/

private def cr (rid nstat : Nat) (isStatic hasWildcard : Bool) : CRoute :=
  ⟨G, ['/', 'p'], 1, List.replicate nstat (0, []), [], isStatic, hasWildcard, rid⟩
private def rc0 : RC := { RC.empty with hasIndex := true }

def modelAddRouteArms : List String :=
  let s := rc0.add h (cr 0 1 true false)
  let d := rc0.add h (cr 0 1 false false)
  let w := rc0.add h (cr 0 1 false true)
  [if s.staticRoutes.length = 1 ∧ s.staticBloom.bits ≠ [] ∧ s.dynamic = [] ∧ s.hasIndex then "isStatic:staticRoutes[]=;staticBloom.Add" else "?",
   if d.dynamic.length = 1 ∧ d.staticRoutes = [] ∧ d.hasIndex = false ∧ w.dynamic = [] ∧ w.staticRoutes = [] ∧ w.hasIndex
   then "!hasWildcard:dynamicRoutes=append;sortRoutesBySpecificity;hasFirstSegmentIndex=false" else "?"]

theorem addRoute_arms : addRouteArms = modelAddRouteArms := by decide

/-! ### `sortRoutesBySpecificity`: insertion sort, an earlier element moves right while it has fewer static segments -/

private def interp (op : String) : Nat → Nat → Bool :=
  if op = "<" then fun a b => a < b
  else if op = "<=" then fun a b => a ≤ b
  else if op = ">" then fun a b => b < a
  else if op = ">=" then fun a b => b ≤ a
  else fun _ _ => false

/-- one round of the Go loop: from the right end of the sorted prefix, every element for which the shifting
condition holds moves one place to the right; the key goes into the gap -/
private def goInsert (shift : Nat → Nat → Bool) (key : CRoute) (pre : List CRoute) : List CRoute :=
  let moved := (pre.reverse.takeWhile fun e => shift e.statics.length key.statics.length).reverse
  pre.take (pre.length - moved.length) ++ key :: moved

private def goSort (shift : Nat → Nat → Bool) (l : List CRoute) : List CRoute :=
  l.foldl (fun acc r => goInsert shift r acc) []

private def probe (specs : List Nat) : List CRoute :=
  (List.range specs.length).map fun i => cr i (specs.getD i 0) false false

private def sortProbes : List (List CRoute) :=
  [probe [1, 2, 1, 2, 0, 3, 1], probe [2, 2, 2], probe [0, 1, 2, 3], probe [3, 2, 1, 0], probe [0, 0, 1, 1, 0], probe []]

theorem sort_shift_condition : sortKey = "len(staticSegments)" ∧
    sortProbes.all (fun l => decide (sortSpec l = goSort (interp sortShiftWhile) l)) = true := by decide

/-- the probes tell the operators apart: with `<=` (not stable) or `>` (ascending) the model's sort differs -/
theorem sort_probes_discriminate :
    sortProbes.all (fun l => decide (sortSpec l = goSort (interp "<=") l)) = false ∧
    sortProbes.all (fun l => decide (sortSpec l = goSort (interp ">") l)) = false := by decide

/-! ### `LookupStatic`, `MatchDynamic` -/

/-- below the threshold the map alone; otherwise the bloom filter may only say "absent" before the map is read -/
theorem lookupStatic_order :
    lookupStaticOrder = ["len(staticRoutes)<" ++ toString staticDirectThreshold ++ ":map", "!bloom:nil", "map"] := by decide

/-- the first-segment index answers alone for an ASCII first byte (hit or miss), the linear scan otherwise;
both test the method before the path — `RC.matchDynamic` / `scan` -/
theorem matchDynamic_order :
    matchDynamicOrder = ["index[first<128]:method&&matchAndExtract:return", "scan:method&&matchAndExtract"] := by decide

/-- the model's index decision on probes: with the index on, an ASCII first byte is answered from its bucket
alone (a template filed under another byte is not tried), a non-ASCII first byte by the full scan -/
theorem matchDynamic_index_probe :
    let t : CRoute := ⟨G, ['/', ':', 'x'], 1, [], [(0, ['x'], [])], false, false, 0⟩
    let rc : RC := { RC.empty with dynamic := [t], hasIndex := true }
    (rc.matchDynamic yes G ['/', 'a']).isNone = true ∧
    (rc.matchDynamic yes G ['/', 'é']).isSome = true ∧
    ({ rc with hasIndex := false }.matchDynamic yes G ['/', 'a']).isSome = true := by decide

end Rivaas.Tie.C11Routing
