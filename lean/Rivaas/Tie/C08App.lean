import Rivaas.Gen.ObsApp
import Rivaas.Tie.Skel
import Rivaas.Model.ObsApp
import Rivaas.Spec.Obs
/-
C08, app layer — obligations over the facts regenerated from the CURRENT source by extract/obsapp.go
(`Gen/ObsApp.lean`: skeletons of the app recorder's three callbacks, of metrics BeginRequest / Finish, of the request
closures of metrics.Middleware / tracing.Middleware and of the tracer's span functions; canonical conditions of every
branch; provenance of the label / status / size arguments).

Every theorem is a Boolean check over ALL paths of a skeleton (`Skel.paths`, sound by `Skel.exec_mem_paths`) or over a
regenerated table, closed by kernel evaluation: an edit of the source that breaks one makes the next `./check C08`
fail on this file.
-/
namespace Rivaas.Tie.C08App
open Rivaas.Skel Rivaas.Gen.ObsApp

def opsOf (t : List Ev) : List Nat := t.filterMap fun e => match e with | .op c => some c | _ => none
def cnt (c : Nat) (o : List Nat) : Nat := (o.filter (· == c)).length
def condOf (a : Nat) : String := (conds.lookup a).getD ""

/-- the op traces of all paths, without duplicates -/
def opTraces (s : Stmt) : List (List Nat) := ((traces s).map opsOf).eraseDups
def sameSet (a b : List (List Nat)) : Bool := a.all b.contains && b.all a.contains

/-- on every path: the op occurs iff the branch with the canonical condition `c` is taken (paths through an early
    return excepted: they contain no op at all besides the return marker) -/
def guardedBy (s : Stmt) (op : Nat) (c : String) : Bool :=
  (paths s).all fun p =>
    let o := opsOf p.out.trace
    if o.contains op_retEarly then !o.contains op
    else if o.contains op then p.cond.any (fun ab => ab.2 && condOf ab.1 == c)
    else p.cond.any (fun ab => !ab.2 && condOf ab.1 == c)

/-- the branch with canonical condition `c` is taken on the path (`b`: which way) -/
def took (p : Path) (c : String) (b : Bool) : Bool := p.cond.any fun ab => ab.2 == b && condOf ab.1 == c

/-- on every path that gets past the early exits (`live`): the op occurs iff none of the conditions `cs` holds -/
def unlessAny (s : Stmt) (op : Nat) (cs : List String) (live : List Nat → Bool) : Bool :=
  (paths s).all fun p =>
    let o := opsOf p.out.trace
    !live o || (o.contains op == cs.all fun c => !took p c true)

def markerTest : String := "#0.(observabilityWrappedWriter) ; _"

/-! ### app recorder: OnRequestStart -/

/-- what the model's `runTerm` assumes: an excluded request returns the nil state BEFORE anything is started; otherwise
    a span may be started, metrics may be begun (in this order) and the state is returned -/
theorem start_traces_agree :
    sameSet (opTraces appOnRequestStart)
      [[op_retNilState], [op_retState], [op_spanStart, op_retState], [op_metricsBegin, op_retState],
       [op_spanStart, op_metricsBegin, op_retState]] = true := by decide +kernel

/-- the exclusion test is the first statement and is the path filter on the request path -/
theorem start_exclusion_first :
    ((paths appOnRequestStart).all fun p =>
      (opsOf p.out.trace).contains op_retNilState == p.cond.contains (startFirstAtom, true)) = true ∧
    condOf startFirstAtom = "_.pathFilter != nil && _.pathFilter.shouldExclude(#1.URL.Path)" := by
  constructor <;> decide +kernel

/-- what was started is remembered in the state fields the end callback tests -/
theorem start_results_kept :
    startSpanAssignedTo = ["span"] ∧ startMetricsAssignedTo = ["metricsData"] := by decide

/-! ### app recorder: WrapResponseWriter -/

/-- the writer is wrapped unless the state is nil (excluded request) or the writer carries the marker -/
theorem wrap_traces_agree :
    sameSet (opTraces appWrapResponseWriter) [[op_retSame], [op_wrap, op_retWrap]] = true ∧
    unlessAny appWrapResponseWriter op_wrap ["#1 == nil", markerTest] (fun _ => true) = true := by
  refine ⟨by decide +kernel, by decide +kernel⟩

/-! ### app recorder: OnRequestEnd -/

/-- after the state guard nothing returns early: SetName?, FinishSpan?, metrics.Finish? in this order, each at most once -/
theorem end_shape :
    ((traces appOnRequestEnd).all fun t =>
      let o := opsOf t
      o == [op_retEarly] || o.isSublist [op_setName, op_spanFinish, op_metricsFinish]) = true := by decide +kernel

/-- the only early return is the state guard (first statement) -/
theorem end_guard_first :
    ((paths appOnRequestEnd).all fun p =>
      (opsOf p.out.trace).contains op_retEarly == p.cond.contains (endFirstAtom, true)) = true ∧
    condOf endFirstAtom = "!_ || _ == nil" := by
  constructor <;> decide +kernel

/-- **pairing**: the span is finished iff the state holds one (`span` is what StartSpan's result was assigned to);
    metrics are finished iff the state holds the RequestMetrics (`metricsData`, BeginRequest's result) — and Finish is
    given exactly that value -/
theorem end_finishes_what_start_began :
    guardedBy appOnRequestEnd op_spanFinish "_.span != nil" = true ∧
    guardedBy appOnRequestEnd op_metricsFinish "_.metricsData != nil" = true ∧
    endFinishState = "_.metricsData" ∧ endFinishSpanArgs.head? = some ["_.span"] := by
  refine ⟨by decide +kernel, by decide +kernel, by decide +kernel, by decide +kernel⟩

/-- a Go string literal as the extractor prints it -/
def quoted (s : String) : String := "\"" ++ s ++ "\""

/-- **bounded labels**: the route attribute of the request rows and the last part of the span name only ever hold the
    label parameter of OnRequestEnd (#3) or the `_unmatched` literal; the span name is Method + " " + that -/
theorem end_label_provenance :
    endFinishRoute = [quoted "_unmatched", "#3"] ∧
    endSpanNameParts = [["_.req.Method"], [quoted " "], [quoted "_unmatched", "#3"]] := by
  constructor <;> decide +kernel

/-- the model's `routeAttr` uses the same literal, and it is one of the oracle's sentinels -/
theorem end_label_matches_model :
    ObsApp.routeAttr [] = "_unmatched".toList ∧ Obs.sentinels.contains "_unmatched".toList = true := by
  constructor <;> decide

/-- **truthful status / size**: what is handed to FinishSpan and metrics.Finish is read from the writer argument (#2)
    through StatusCode() / Size() (default 200 / 0 when the writer exposes nothing) — never from anything else -/
theorem end_status_size_provenance :
    endStatusProv = ["_.StatusCode()", "http.StatusOK"] ∧
    endSizeProv = ["0", "_.Size()", "int64(_.Size())"] ∧
    endFinishSpanArgs = [["_.span"], ["_.StatusCode()", "http.StatusOK"]] ∧
    -- the three type assertions are on the writer argument (#2)
    (["#2.(router.ResponseInfo) ; _", "#2.(interface{ StatusCode() int }) ; _", "#2.(interface{ Size() int }) ; _"].all
      fun c => conds.any fun ac => ac.2 == c) = true := by
  refine ⟨by decide +kernel, by decide +kernel, by decide +kernel, by decide +kernel⟩

/-! ### metrics recorder -/

/-- BeginRequest: either nil without touching the gauge, or exactly one +1 and a value -/
theorem begin_traces_agree :
    sameSet (opTraces metricsBeginRequest) [[op_retNil], [op_gaugeInc, op_retVal]] = true := by decide +kernel

/-- Finish: after the nil guard (first statement, on the RequestMetrics parameter) every path counts the request once
    and decrements the gauge once; no path increments it or adds anything else to it -/
theorem finish_exactly_once :
    ((traces metricsFinish).all fun t =>
      let o := opsOf t
      o == [op_retEarly] || (cnt op_gaugeDec o == 1 && cnt op_countAdd o == 1 && cnt op_gaugeInc o == 0 && cnt op_gaugeOther o == 0)) = true ∧
    ((paths metricsFinish).all fun p =>
      (opsOf p.out.trace).contains op_retEarly == p.cond.contains (finishFirstAtom, true)) = true ∧
    condOf finishFirstAtom = "#1 == nil" := by
  refine ⟨by decide +kernel, by decide +kernel, by decide +kernel⟩

/-- increment and decrement hit the same series: both carry no attribute option (K08d) -/
theorem gauge_same_series : gaugeIncArgs = ["#0 | 1"] ∧ gaugeDecArgs = ["#0 | -1"] := by
  constructor <;> decide +kernel

/-- the attributes of the request rows: fixed keys; status from the status parameter, route from the route parameter -/
theorem finish_attrs :
    finishAttrs = [["http.status_code", "Int", "#2"], ["http.status_class", "String", "statusClass(#2)"],
                   ["http.route", "String", "#4"]] := by decide +kernel

/-! ### standalone middlewares -/

/-- metrics.Middleware: the next handler runs exactly once on every path; a request that was begun is finished exactly
    once, after the handler — unless BeginRequest returned nil (`_ == nil` right after it: nothing was begun) (K08c) -/
theorem metrics_mw_paired :
    ((paths metricsMiddleware).all fun p =>
      let o := opsOf p.out.trace
      cnt op_next o == 1 &&
      (if !o.contains op_metricsBegin then !o.contains op_metricsFinish
       else if p.cond.any (fun ab => ab.2 && condOf ab.1 == "_ == nil") then !o.contains op_metricsFinish
       else o.getLast? == some op_metricsFinish && cnt op_metricsFinish o == 1 && cnt op_metricsBegin o == 1 &&
            (o.dropWhile (· != op_next)).contains op_metricsFinish)) = true ∧
    mwBeginResultIsLocal = true := by
  constructor <;> decide +kernel

/-- the model's `run` for the metrics layer performs exactly these op sequences -/
theorem metrics_mw_traces_agree :
    sameSet (opTraces metricsMiddleware)
      [[op_next], [op_metricsBegin, op_next], [op_metricsBegin, op_next, op_metricsFinish],
       [op_metricsBegin, op_wrap, op_next, op_metricsFinish]] = true := by decide +kernel

/-- tracing.Middleware: the next handler runs exactly once; a started span is finished exactly once, after it -/
theorem tracing_mw_paired :
    ((traces tracingMiddleware).all fun t =>
      let o := opsOf t
      cnt op_next o == 1 &&
      (if !o.contains op_spanStart then !o.contains op_spanFinish
       else o.getLast? == some op_spanFinish && cnt op_spanFinish o == 1 && cnt op_spanStart o == 1)) = true ∧
    sameSet (opTraces tracingMiddleware)
      [[op_next], [op_spanStart, op_next, op_spanFinish], [op_spanStart, op_wrap, op_next, op_spanFinish]] = true := by
  constructor <;> decide +kernel

/-- the "already wrapped" test of both middlewares is the marker interface: once something was begun / started, the
    writer is wrapped iff it does not carry the marker (and, for metrics, BeginRequest did not answer nil) -/
theorem wrapped_test_is_marker :
    unlessAny metricsMiddleware op_wrap [markerTest, "_ == nil"] (fun o => o.contains op_metricsBegin) = true ∧
    unlessAny tracingMiddleware op_wrap [markerTest] (fun o => o.contains op_spanStart) = true := by
  constructor <;> decide +kernel

/-! ### tracer: one `span.End()` per finished span -/

theorem finish_span_ends_once :
    ((traces tracerFinishSpan).all fun t => let o := opsOf t; o == [op_retEarly] || o == [op_spanEnd]) = true ∧
    ((traces tracerFinishRequestSpan).all fun t => let o := opsOf t; o == [op_retEarly] || o == [op_spanEnd]) = true ∧
    ((traces tracerStartSpan).all fun t => cnt op_spanStart (opsOf t) ≤ 1) = true := by
  refine ⟨by decide +kernel, by decide +kernel, by decide +kernel⟩

/-! ### lifted to every execution (any valuation of the branch conditions) -/

theorem end_shape_exec (ρ : Atom → Bool) :
    (let o := opsOf (exec ρ appOnRequestEnd).trace
     o == [op_retEarly] || o.isSublist [op_setName, op_spanFinish, op_metricsFinish]) = true :=
  all_exec appOnRequestEnd _ end_shape ρ

theorem finish_exactly_once_exec (ρ : Atom → Bool) :
    (let o := opsOf (exec ρ metricsFinish).trace
     o == [op_retEarly] || (cnt op_gaugeDec o == 1 && cnt op_countAdd o == 1 && cnt op_gaugeInc o == 0 && cnt op_gaugeOther o == 0)) = true :=
  all_exec metricsFinish _ finish_exactly_once.1 ρ

/-- non-vacuity: the skeletons are not empty (path counts) -/
example : pathCount appOnRequestEnd > 10 ∧ pathCount metricsMiddleware > 3 ∧ pathCount tracingMiddleware > 2 := by decide +kernel

end Rivaas.Tie.C08App
