/-
C12, translator tie (B), the order of the phase-relevant operations: `Gen/AppGuards.lean` (`phaseEvents`) lists, from the
current source of router/*.go, for `Router.Freeze`, `Warmup`, `doWarmup`, `ServeHTTP`, `enqueueRoute`, `addRouteInternal`
the lock operations, the stores / loads of `serving` / `frozen` / `warmedUp`, the `verifYield` points, the calls of
Freeze / Warmup / RegisterRoute / CompileAllRoutes / enqueueRoute / Once.Do, `panic`, `return` and the writes of
`pendingRoutes`, in source order (function literals entered).

The phase model (`Model/Phases.lean`) has one atomic step per stretch between two yield points; the obligations below say
that the code between the points does, in this order, what the model's step does — `enterFreeze` (both flags, under
`pendingRoutesMu`, then `freeze.flags`), `freezeCallWarmup`, the tail, `drain` (`warmedUp` BEFORE the list is taken, both
under the mutex), `warmupStep`s, the request's `serve.entry → Freeze() → serve.frozen` with nothing in between, the two
halves of a registration (unlocked test, `register.checked`, re-test under the mutex, enqueue / register).
-/
import Rivaas.Gen.AppGuards

namespace Rivaas.Tie.C12Phases
open Rivaas.Gen

abbrev Ev := String × String

def evsOf (n : String) : List Ev := (AppGuards.phaseEvents.lookup n).getD []

def idx (l : List Ev) (e : Ev) : Option Nat :=
  let i := l.findIdx (· == e)
  if i < l.length then some i else none

/-- the events of `es` occur in `l`, each (first occurrence) strictly after the previous one -/
def inOrder (l : List Ev) : List Ev → Bool
  | a :: b :: rest =>
    (match idx l a, idx l b with
     | some i, some j => decide (i < j)
     | _, _ => false) && inOrder l (b :: rest)
  | [a] => (idx l a).isSome
  | [] => true

/-- `Freeze`: inside `freezeOnce.Do` — the two flags are stored under `pendingRoutesMu` (under which a registration
    re-tests them, K12e), then `freeze.flags`, then `Warmup()`, then the reverse patterns and the snapshot under
    `routesMutex`, then `freeze.done`; each flag is stored exactly once -/
theorem freeze_body_order :
    inOrder (evsOf "Router.Freeze")
      [("call", "freezeOnce.Do"), ("lock", "pendingRoutesMu"), ("store", "serving"), ("store", "frozen"),
       ("unlock", "pendingRoutesMu"), ("yield", "freeze.flags"), ("call", "Warmup"), ("lock", "routesMutex"),
       ("unlock", "routesMutex"), ("yield", "freeze.done")] = true ∧
    (evsOf "Router.Freeze").count ("store", "serving") = 1 ∧ (evsOf "Router.Freeze").count ("store", "frozen") = 1 ∧
    (evsOf "Router.Freeze").count ("return", "") = 0 := by decide

/-- `Warmup` is `warmupOnce.Do(doWarmup)` and nothing else; `doWarmup`: `warmedUp` is set BEFORE the pending list is
    taken, both under `pendingRoutesMu` (the model's `drain`), then `warmup.drained`, the registrations,
    `warmup.registered`, the compilation, `warmup.compiled`; no early return -/
theorem warmup_body_order :
    evsOf "Router.Warmup" = [("call", "warmupOnce.Do")] ∧
    inOrder (evsOf "Router.doWarmup")
      [("lock", "pendingRoutesMu"), ("store", "warmedUp"), ("write", "pendingRoutes"), ("unlock", "pendingRoutesMu"),
       ("yield", "warmup.drained"), ("call", "RegisterRoute"), ("yield", "warmup.registered"),
       ("call", "CompileAllRoutes"), ("yield", "warmup.compiled")] = true ∧
    (evsOf "Router.doWarmup").count ("return", "") = 0 := by decide

/-- a request: `serve.entry`, `Freeze()`, `serve.frozen` are the FIRST three things `ServeHTTP` does — no return, no
    lookup before the freeze (seeded C12-14 put an early return in front of `Freeze()`) -/
theorem serve_entry_order :
    (evsOf "Router.ServeHTTP").take 3 = [("yield", "serve.entry"), ("call", "Freeze"), ("yield", "serve.frozen")] := by
  decide

/-- the first half of a registration: the unlocked tests of `serving` and `frozen` (each followed by a panic), then
    `register.checked`, then `enqueueRoute` -/
theorem register_checks_first :
    inOrder (evsOf "Router.addRouteInternal")
      [("load", "serving"), ("panic", ""), ("load", "frozen"), ("yield", "register.checked"), ("call", "enqueueRoute")] = true ∧
    (evsOf "Router.addRouteInternal").count ("panic", "") = 2 := by decide

/-- the second half (K12e): under `pendingRoutesMu`, held until the function returns (deferred unlock, no other unlock
    of it), the flags are tested AGAIN before the route is registered or enqueued -/
theorem enqueue_rechecks_under_lock :
    inOrder (evsOf "Router.enqueueRoute")
      [("lock", "pendingRoutesMu"), ("defer-unlock", "pendingRoutesMu"), ("load", "serving"), ("load", "frozen"), ("panic", ""),
       ("load", "warmedUp"), ("call", "RegisterRoute")] = true ∧
    inOrder (evsOf "Router.enqueueRoute") [("panic", ""), ("write", "pendingRoutes")] = true ∧
    (evsOf "Router.enqueueRoute").count ("unlock", "pendingRoutesMu") = 0 := by decide

end Rivaas.Tie.C12Phases
