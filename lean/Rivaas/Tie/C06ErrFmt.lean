/- Translator tie (B) for C06: structural facts of app/context.go, app/options.go and errors/*.go that
   Model/ErrFmt.lean relies on, over the event lists extract/errfmt.go regenerates from the current source on every
   run (Gen/ErrFmt.lean). An edit that moves `c.Abort()` behind a return, swaps the interface checks of a formatter,
   reorders `selectFormatter` or changes what an option assigns breaks the theorem named after the fact. -/
import Rivaas.Gen.ErrFmt
import Rivaas.Tie.FlatFacts
import Rivaas.Model.ErrFmt
namespace Rivaas.Tie.C06ErrFmt
open Rivaas.Gen.ErrFmt Rivaas.Tie.Flat

/-- the extractor understood every statement it met -/
theorem errfmt_extracted : problem = none := by decide

/-- `fail` aborts the chain before anything that can end it or go wrong: `c.Abort()` comes before the first
    `return` (the encoding-failure paths included), before the first `Format` (user code: the formatter, the error's
    `Error()` / `Details()`), before the log line and before every write (model: `aborted := true` in every `Resp`) -/
theorem fail_abort_dominates :
    count (call "Abort") fail_events = 1 ∧
    firstBefore (call "Abort") (kw "return") fail_events = true ∧
    firstBefore (call "Abort") (call "Format") fail_events = true ∧
    firstBefore (call "Abort") (call "ErrorContext") fail_events = true ∧
    firstBefore (call "Abort") (call "Header") fail_events = true ∧
    firstBefore (call "Abort") (call "Status") fail_events = true := by decide

/-- the order of the steps of `fail` the model's `fail`/`failResp`/`failLog` follow: select, format, log, encode;
    the fallback formats a second time with `WithStatus(errors.New(err.Error()), …)` and encodes again; the
    Content-Type is set before the status is written and the status before the body -/
theorem fail_step_order :
    firstBefore (call "selectFormatter") (call "Format") fail_events = true ∧
    firstBefore (call "Format") (lit "handler error") fail_events = true ∧
    firstBefore (lit "handler error") (iff "NewEncoder,Encode,Body") fail_events = true ∧
    count (call "Format") fail_events = 2 ∧ count (iff "NewEncoder,Encode,Body") fail_events = 2 ∧
    firstBefore (iff "NewEncoder,Encode,Body") (call "WithStatus") fail_events = true ∧
    lastBefore (call "WithStatus") (iff "NewEncoder,Encode,Body") fail_events = true ∧
    lastBefore (lit "Content-Type") (call "Status") fail_events = true ∧
    lastBefore (call "Status") (iff "Response,Write,Bytes") fail_events = true ∧
    count (iff "Response,Write,Bytes") fail_events = 1 := by decide

/-- `Fail(nil)` returns before `fail`; `FailStatus` is `fail(WithStatus(err, status))` (model: `Call.err`) -/
theorem entry_points :
    Fail_events = [iff "", kw "then", kw "return", kw "endif", call "fail"] ∧
    FailStatus_events = [call "fail", call "WithStatus"] := by decide

/-- `MustBind` is `Bind` followed by `Fail(err)` on an error (model `mustBind`) -/
theorem mustbind_is_fail :
    MustBind_events = [iff "Bind", call "Bind", kw "then", call "Fail", kw "return", kw "endif", kw "return"] ∧
    Rivaas.ErrFmt.mustBind none = none ∧ ∀ e, Rivaas.ErrFmt.mustBind (some e) = some (.fail e) := by
  refine ⟨by decide, rfl, fun _ => rfl⟩

/-- the decision chain of `selectFormatter`, in the order of the model's `selectFormatter`: no configuration, the
    single formatter, the negotiated table (an `Accepts` answer looked up in the table), the default format
    (looked up in the table), the fallback -/
theorem selectFormatter_chain :
    only "if" selectFormatter_events =
      ["", "formatter", "len,formatters", "", "formatters", "defaultFormat", "formatters,defaultFormat"] ∧
    count (call "Accepts") selectFormatter_events = 1 ∧
    firstBefore (iff "formatter") (call "Accepts") selectFormatter_events = true ∧
    firstBefore (call "Accepts") (iff "defaultFormat") selectFormatter_events = true := by decide

/-- the ten status helpers and their statuses (model: `Helper.status`) -/
def statusConst : String → Nat
  | "StatusNotFound" => 404 | "StatusBadRequest" => 400 | "StatusUnauthorized" => 401 | "StatusForbidden" => 403
  | "StatusConflict" => 409 | "StatusGone" => 410 | "StatusUnprocessableEntity" => 422 | "StatusTooManyRequests" => 429
  | "StatusInternalServerError" => 500 | "StatusServiceUnavailable" => 503 | _ => 0

def helperName : Rivaas.ErrFmt.Helper → String
  | .notFound => "NotFound" | .badRequest => "BadRequest" | .unauthorized => "Unauthorized" | .forbidden => "Forbidden"
  | .conflict => "Conflict" | .gone => "Gone" | .unprocessable => "UnprocessableEntity" | .tooMany => "TooManyRequests"
  | .internal => "InternalError" | .unavailable => "ServiceUnavailable"

def allHelpers : List Rivaas.ErrFmt.Helper :=
  [.notFound, .badRequest, .unauthorized, .forbidden, .conflict, .gone, .unprocessable, .tooMany, .internal, .unavailable]

theorem status_helpers :
    statusHelpers.length = 10 ∧
    allHelpers.all (fun h => (statusHelpers.lookup (helperName h)).map statusConst == some h.status) = true := by decide

/-- what the three options assign (model: `applyOpt`): `WithErrorFormatters` also resets the single formatter
    (K06b repair), the other two touch one field each -/
theorem option_writes :
    only "set" WithErrorFormatter_closure = ["errors", "formatter"] ∧
    only "set" WithErrorFormatters_closure = ["errors", "formatters", "formatter"] ∧
    only "set" WithDefaultErrorFormat_closure = ["errors", "defaultFormat"] := by decide

/-- `determineStatus` is the same chain in all three formatters, in the model's order: the StatusResolver first,
    then `errors.As(err, &ErrorType)`, then 500 -/
theorem determineStatus_chain :
    RFC9457_determineStatus = JSONAPI_determineStatus ∧ JSONAPI_determineStatus = Simple_determineStatus ∧
    only "if" RFC9457_determineStatus = ["StatusResolver", "As"] ∧
    only "var" RFC9457_determineStatus = ["ErrorType"] ∧
    firstBefore (call "StatusResolver") (call "HTTPStatus") RFC9457_determineStatus = true := by decide

/-- `RFC9457.Format`: status and type first; the extensions in the order `error_id` (unless disabled), `errors`
    (ErrorDetails), `code` (ErrorCode) — model `rfcExtensions`; `determineType`: resolver, code (+ BaseURL), about:blank -/
theorem rfc_format_chain :
    only "var" RFC9457_Format = ["string", "ErrorDetails", "ErrorCode"] ∧
    (only "lit" RFC9457_Format) = ["error_id", "errors", "code", "application/problem+json; charset=utf-8"] ∧
    firstBefore (iff "DisableErrorID") (var "ErrorDetails") RFC9457_Format = true ∧
    only "if" RFC9457_determineType = ["TypeResolver", "As", "BaseURL"] ∧
    only "lit" RFC9457_determineType = ["", "/", "about:blank"] := by decide

/-- `Simple.Format`: `error`, then `details` (ErrorDetails), then `code` (ErrorCode) — model `simpleKvs` -/
theorem simple_format_chain :
    only "var" Simple_Format = ["ErrorDetails", "ErrorCode"] ∧
    only "lit" Simple_Format = ["error", "details", "code", "application/json; charset=utf-8"] := by decide

/-- `JSONAPI.Format`: the details branch comes first and the code is read only in its `else` (model
    `jsonAPIErrorsRaw`); the final guard and the two fallbacks are there (three `len(apiErrors) == 0`-style tests) -/
theorem jsonapi_format_chain :
    only "var" JSONAPI_Format = ["[]jsonAPIError", "ErrorDetails", "any", "ErrorCode"] ∧
    firstBefore (var "ErrorDetails") (kw "else") JSONAPI_Format = true ∧
    firstBefore (kw "else") (var "ErrorCode") JSONAPI_Format = true ∧
    count (iff "len") JSONAPI_Format = 3 ∧
    firstBefore (lit "details") (kw "else") JSONAPI_Format = true := by decide

/-- `statusError`: `HTTPStatus` just returns the field; `Error` is the status text only around nil (model
    `Msg.statusText` / `Msg.inherit`) -/
theorem statusError_shape :
    statusError_HTTPStatus = [kw "return"] ∧ WithStatus_events = [kw "return"] ∧
    only "if" statusError_Error = ["err"] ∧ firstBefore (call "StatusText") (call "Error") statusError_Error = true := by decide

end Rivaas.Tie.C06ErrFmt
