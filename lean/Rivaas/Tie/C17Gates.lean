/-
C17, translator tie (B): structural facts of the five gates that the models (`Model/Gates.lean`) rely on, regenerated
from the current source on every run (`Gen/Gates.lean`, extract/gates.go + extract/mwskel.go) and checked here:
the check dominates `c.Next()`, a rejection is followed by `c.Abort()` and `return`, the rewrite / redirect happens
only behind its tests, and the defaults and options are those of the models.  An edit of the source that changes one
of them breaks the theorem named after it; `./check C17` then searches for a concrete failing input.

Event codes (`Gen.Gates.vocab`, pinned by `vocab_codes`):
  1 c.Next · 2 c.Abort · 3 cfg.errorHandler · 4 cfg.skipPaths[…] · 5 Header.Get("Content-Length") · 6 strconv.ParseInt ·
  7 c.Request.Body = … · 8 Header.Get("Authorization") · 9 strings.HasPrefix · 10 base64 DecodeString · 11 strings.Cut ·
  12 cfg.validator · 13 cfg.users[…] · 14 subtle.ConstantTimeCompare · 15 Set WWW-Authenticate · 16 cfg.unauthorizedHandler ·
  17 context.WithValue · 18 c.Request = … · 19 Header.Get("Origin") · 20 cfg.allowOriginFunc · 21 slices.Contains(cfg.allowedOrigins, …) ·
  22 Set Access-Control-Allow-Origin · 23 …-Allow-Credentials · 24 …-Expose-Headers · 25 …-Allow-Methods · 26 …-Allow-Headers ·
  27 …-Max-Age · 28 WriteHeader(204) · 29 strings.ToUpper · 30 Header.Get(cfg.header) · 31 URL.Query().Get(cfg.queryParam) ·
  32 strings.TrimSpace · 33 c.Request.Method = … · 34 redirect308 · 35 Set Location · 36 WriteHeader(308) · 37 redirectLocation ·
  38 u.String() · 39 lr.reader.Read · 40 fmt.Errorf("%w: %d bytes", ErrBodyLimitExceeded, …) · 41 lr.read += n ·
  42 redirect308HTTP · 43 h.ServeHTTP · 44 w.Header().Set("Location") · 45 w.WriteHeader(308) · 46 Context().Value(csrf key) ·
  47 c.Request.URL.Path = … · 48 newURL.Path = … · 49 lookup in a local map (onlyOnMap[…], allowMap[…])
-/
import Rivaas.Gen.Gates
import Rivaas.Tie.MwSkel
import Rivaas.Model.Gates

namespace Rivaas.Tie.C17Gates
open Rivaas.Skel Rivaas.MwSkel Rivaas.Gen.Gates

/-- the extractor understood every statement of every function it reads -/
theorem extraction_complete : problem = none := by decide

theorem vocab_codes :
    vocab.map (·.2) =
      [".Next", ".Abort", ".errorHandler", "[].skipPaths", ".Request.Header.Get(Content-Length)", "strconv.ParseInt",
       "=.Request.Body", ".Request.Header.Get(Authorization)", "strings.HasPrefix", "base64.StdEncoding.DecodeString",
       "strings.Cut", ".validator", "[].users", "subtle.ConstantTimeCompare", ".Response.Header.Set(WWW-Authenticate)",
       ".unauthorizedHandler", "context.WithValue", "=.Request", ".Request.Header.Get(Origin)", ".allowOriginFunc",
       "slices.Contains(.allowedOrigins)", ".Response.Header.Set(Access-Control-Allow-Origin)",
       ".Response.Header.Set(Access-Control-Allow-Credentials)", ".Response.Header.Set(Access-Control-Expose-Headers)",
       ".Response.Header.Set(Access-Control-Allow-Methods)", ".Response.Header.Set(Access-Control-Allow-Headers)",
       ".Response.Header.Set(Access-Control-Max-Age)", ".Response.WriteHeader(http.StatusNoContent)", "strings.ToUpper",
       ".Request.Header.Get(.header)", ".Request.URL.Query.Get(.queryParam)", "strings.TrimSpace", "=.Request.Method",
       "redirect308", ".Response.Header.Set(Location)", ".Response.WriteHeader(http.StatusPermanentRedirect)",
       "redirectLocation", ".String", ".reader.Read", "fmt.Errorf(%w: %d bytes)", "=.read", "redirect308HTTP", ".ServeHTTP",
       ".Header.Set(Location)", ".WriteHeader(http.StatusPermanentRedirect)", ".Request.Context.Value", "=.Request.URL.Path",
       "=.Path", "[]"] := by decide

/-! ### bodylimit -/

def bodyOK (t : List Nat) : Bool :=
  t.head? == some 4 && dominates 5 6 t && dominates 5 3 t &&
  (if t.contains 3 then endsWith [3, 2] t && !t.contains 1 && !t.contains 7
   else endsWith [1] t && t.count 1 == 1 && !t.contains 2 && before 7 1 t)

/-- `bodylimit.New`'s handler, on every path: the skip-path test comes first (`Body.serve`: `r.skip`); the Content-Length
    header is read before it is parsed and before anything is rejected; the rejection is `errorHandler; Abort; return`
    without `c.Next()` and without touching the body; every other path calls `c.Next()` exactly once, last, and a limited
    reader — when one is installed — is installed before it -/
theorem bodylimit_check_dominates_next (ρ : Atom → Bool) :
    bodyOK (codesOf ((exec ρ bodylimit_handler).trace.filter (keepCodes [1, 2, 3, 4, 5, 6, 7]))) = true :=
  every_exec bodylimit_handler [1, 2, 3, 4, 5, 6, 7] bodyOK (by decide) ρ

/-- `limitedReader.Read`: the counter is updated after the (clipped) read; the limit error is produced only after that
    and after the look-ahead; at most one representative look-ahead read per call (`LR.read1`) -/
theorem bodylimit_read_shape (ρ : Atom → Bool) :
    [[], [39, 41], [39, 41, 39], [39, 41, 39, 40], [39, 41, 40]].contains
      (codesOf ((exec ρ bodylimit_Read).trace.filter (keepCodes [39, 40, 41]))) = true :=
  every_exec bodylimit_Read [39, 40, 41] _ (by decide) ρ

/-- `WithLimit` refuses a non-positive limit (the hypothesis `1 ≤ limit` of `bodylimit_meets_spec`); the default is 2 MiB -/
theorem bodylimit_config :
    bodylimit_optionWrites = [("WithErrorHandler", "errorHandler := $0"), ("WithLimit", "limit := $0 unless $0 <= 0 (panic)"),
                              ("WithSkipPaths", "skipPaths[] := true")] ∧
    bodylimit_defaults = [("limit", "2 * 1024 * 1024"), ("errorHandler", "defaultErrorHandler"), ("skipPaths", "make(map[string]bool)")] := by
  constructor <;> decide

/-! ### basicauth -/

def authOK (t : List Nat) : Bool :=
  if t.contains 1 then
    t == [4, 1] ||
      ([4, 8, 9, 10, 11].isPrefixOf t && endsWith [17, 18, 1] t && (t.contains 12 || t.contains 13) &&
        !t.contains 16 && !t.contains 2 && !t.contains 15)
  else endsWith [15, 16, 2] t && t.count 16 == 1

/-- `basicauth.New`'s handler, on every path: `c.Next()` is reached either through the skip-path test or after the header
    was read, its prefix tested, its payload decoded and cut, and the validator or the user table consulted — the user
    name goes into the request context directly before `c.Next()`; every other path ends with `WWW-Authenticate` set, the
    unauthorized handler called once, `c.Abort()`, `return` (`Auth.serve` / `Auth.reject` / `Auth.gate`) -/
theorem basicauth_check_dominates_next (ρ : Atom → Bool) :
    authOK (codesOf ((exec ρ basicauth_handler).trace.filter
      (keepCodes [1, 2, 4, 8, 9, 10, 11, 12, 13, 14, 15, 16, 17, 18]))) = true :=
  every_exec basicauth_handler [1, 2, 4, 8, 9, 10, 11, 12, 13, 14, 15, 16, 17, 18] authOK (by decide) ρ

/-- the six rejections and the three accepting shapes, exactly -/
theorem basicauth_paths (ρ : Atom → Bool) :
    [[4, 1], [4, 8, 15, 16, 2], [4, 8, 9, 15, 16, 2], [4, 8, 9, 10, 15, 16, 2], [4, 8, 9, 10, 11, 15, 16, 2],
     [4, 8, 9, 10, 11, 12, 15, 16, 2], [4, 8, 9, 10, 11, 12, 17, 18, 1], [4, 8, 9, 10, 11, 13, 14, 15, 16, 2],
     [4, 8, 9, 10, 11, 13, 14, 17, 18, 1], [4, 8, 9, 10, 11, 13, 15, 16, 2], [4, 8, 9, 10, 11, 13, 17, 18, 1]].contains
      (codesOf ((exec ρ basicauth_handler).trace.filter
        (keepCodes [1, 2, 4, 8, 9, 10, 11, 12, 13, 14, 15, 16, 17, 18]))) = true :=
  every_exec basicauth_handler [1, 2, 4, 8, 9, 10, 11, 12, 13, 14, 15, 16, 17, 18] _ (by decide) ρ

/-- the password comparison is `subtle.ConstantTimeCompare` on the entry of the user table, and its outcome can go both
    ways: the accepting and the rejecting path behind it exist, as do those behind a validator (removing the comparison, or
    the test of `authenticated`, removes one of them). That the OUTCOME of the comparison is what selects the path is not
    visible at this level of abstraction (conditions are atoms): correspondence only. -/
theorem basicauth_compare_can_go_both_ways :
    (codeTraces basicauth_handler [1, 2, 4, 8, 9, 10, 11, 12, 13, 14, 15, 16, 17, 18]).contains [4, 8, 9, 10, 11, 13, 14, 17, 18, 1] = true ∧
    (codeTraces basicauth_handler [1, 2, 4, 8, 9, 10, 11, 12, 13, 14, 15, 16, 17, 18]).contains [4, 8, 9, 10, 11, 13, 14, 15, 16, 2] = true ∧
    (codeTraces basicauth_handler [1, 2, 4, 8, 9, 10, 11, 12, 13, 14, 15, 16, 17, 18]).contains [4, 8, 9, 10, 11, 12, 17, 18, 1] = true ∧
    (codeTraces basicauth_handler [1, 2, 4, 8, 9, 10, 11, 12, 13, 14, 15, 16, 17, 18]).contains [4, 8, 9, 10, 11, 12, 15, 16, 2] = true ∧
    (∀ t ∈ codeTraces basicauth_handler [1, 2, 4, 8, 9, 10, 11, 12, 13, 14, 15, 16, 17, 18], dominates 13 14 t = true) := by
  decide

theorem basicauth_config :
    basicauth_defaults = [("users", "make(map[string]string)"), ("realm", "\"Restricted\""), ("validator", "nil"),
                          ("unauthorizedHandler", "defaultUnauthorizedHandler"), ("skipPaths", "make(map[string]bool)")] ∧
    basicauth_optionWrites = [("WithRealm", "realm := $0"), ("WithSkipPaths", "skipPaths[] := true"),
                              ("WithUnauthorizedHandler", "unauthorizedHandler := $0"), ("WithUsers", "users := $0"),
                              ("WithValidator", "validator := $0")] := by
  constructor <;> decide

/-! ### cors -/

def corsOK (t : List Nat) : Bool :=
  t.head? == some 19 && !t.contains 2 &&
  -- no CORS response header without Access-Control-Allow-Origin, and that one first
  ((t.contains 23 || t.contains 24 || t.contains 25 || t.contains 26 || t.contains 27 || t.contains 28) → t.contains 22) &&
  dominates 22 23 t && dominates 22 24 t && dominates 22 25 t && t.count 22 ≤ 1 &&
  -- the preflight answer is complete and ends the middleware without `c.Next()`; everything else goes on exactly once
  (if t.contains 28 then endsWith [25, 26, 27, 28] t && !t.contains 1 else endsWith [1] t && t.count 1 == 1) &&
  -- at most one origin decision is consulted
  !(t.contains 20 && t.contains 21)

/-- `cors.New`'s handler, on every path (`Cors.serveWith`): the Origin header is read first; `Access-Control-Allow-Origin`
    is set at most once and before every other CORS header; the preflight branch writes its three headers and 204 and
    returns without `c.Next()` and — as the model says — without `c.Abort()`; every other path calls `c.Next()` once -/
theorem cors_header_discipline (ρ : Atom → Bool) :
    corsOK (codesOf ((exec ρ cors_handler).trace.filter (keepCodes [1, 2, 19, 20, 21, 22, 23, 24, 25, 26, 27, 28]))) = true :=
  every_exec cors_handler [1, 2, 19, 20, 21, 22, 23, 24, 25, 26, 27, 28] corsOK (by decide) ρ

/-- the defaults and the eight options are those of `Cors.defaultCfg` / `Cors.applyOpt` (`WithAllowedOrigins` also clears
    allow-all) -/
theorem cors_config :
    cors_defaults =
      [("allowedOrigins", "[]string{}"),
       ("allowedMethods", "[]string{\"GET\", \"POST\", \"PUT\", \"PATCH\", \"DELETE\", \"HEAD\", \"OPTIONS\"}"),
       ("allowedHeaders", "[]string{\"Origin\", \"Content-Type\", \"Accept\", \"Authorization\"}"),
       ("exposedHeaders", "[]string{}"), ("allowCredentials", "false"), ("maxAge", "3600"), ("allowAllOrigins", "false"),
       ("allowOriginFunc", "nil")] ∧
    cors_optionWrites =
      [("WithAllowAllOrigins", "allowAllOrigins := $0"), ("WithAllowCredentials", "allowCredentials := $0"),
       ("WithAllowOriginFunc", "allowOriginFunc := $0"), ("WithAllowedHeaders", "allowedHeaders := $0"),
       ("WithAllowedMethods", "allowedMethods := $0"), ("WithAllowedOrigins", "allowedOrigins := $0; allowAllOrigins := false"),
       ("WithExposedHeaders", "exposedHeaders := $0"), ("WithMaxAge", "maxAge := $0")] ∧
    Rivaas.Gates.Cors.defaultCfg.maxAge = 3600 ∧ Rivaas.Gates.Cors.defaultCfg.allowAll = false ∧
    Rivaas.Gates.Cors.defaultCfg.allowCredentials = false ∧ Rivaas.Gates.Cors.defaultCfg.allowedOrigins = [] := by
  refine ⟨by decide, by decide, by decide, by decide, by decide, by decide⟩

/-! ### methodoverride -/

def methodOK (t : List Nat) : Bool :=
  [29, 49].isPrefixOf t && endsWith [1] t && t.count 1 == 1 &&
  (t.contains 33 → endsWith [32, 29, 49, 17, 18, 33, 1] t && t.contains 30 && t.count 49 == 2) &&
  dominates 30 31 t

/-- `methodoverride.New`'s handler, on every path (`Method.serve`): the only-on lookup (49) on the upper-cased request
    method comes first; the query parameter is consulted only after the header; the method is rewritten only after the value
    was normalised (`TrimSpace`, `ToUpper`), LOOKED UP in the allow map (the second 49) and the original recorded in the
    request context, directly before the single `c.Next()`; every request goes on (this gate never rejects) -/
theorem methodoverride_rewrite_behind_tests (ρ : Atom → Bool) :
    methodOK (codesOf ((exec ρ methodoverride_handler).trace.filter (keepCodes [1, 29, 30, 31, 32, 33, 46, 17, 18, 49]))) = true :=
  every_exec methodoverride_handler [1, 29, 30, 31, 32, 33, 46, 17, 18, 49] methodOK (by decide) ρ

/-- both lookups can refuse: there is an exit right after the only-on lookup and one right after the allow-list lookup
    (deleting either test removes its exit and breaks this) -/
theorem methodoverride_lookups_can_refuse :
    (codeTraces methodoverride_handler [1, 29, 30, 31, 32, 33, 46, 17, 18, 49]).contains [29, 49, 1] = true ∧
    (codeTraces methodoverride_handler [1, 29, 30, 31, 32, 33, 46, 17, 18, 49]).contains [29, 49, 30, 32, 29, 49, 1] = true ∧
    (codeTraces methodoverride_handler [1, 29, 30, 31, 32, 33, 46, 17, 18, 49]).contains [29, 49, 30, 32, 29, 49, 17, 18, 33, 1] = true := by
  decide

theorem methodoverride_config :
    methodoverride_defaults =
      [("header", "\"X-HTTP-Method-Override\""), ("queryParam", "\"_method\""), ("allow", "[]string{\"PUT\", \"PATCH\", \"DELETE\"}"),
       ("onlyOn", "[]string{\"POST\"}"), ("respectBody", "false"), ("requireCSRFToken", "false")] ∧
    methodoverride_optionWrites =
      [("WithAllow", "allow := $0"), ("WithHeader", "header := $0"), ("WithOnlyOn", "onlyOn := $0"),
       ("WithQueryParam", "queryParam := $0"), ("WithRequireCSRFToken", "requireCSRFToken := $0"),
       ("WithRespectBody", "respectBody := $0")] ∧
    Rivaas.Gates.Method.defaultCfg.header = "X-HTTP-Method-Override".toList ∧
    Rivaas.Gates.Method.defaultCfg.queryParam = "_method".toList := by
  refine ⟨by decide, by decide, by decide, by decide⟩

/-! ### trailingslash -/

/-- `New`: a redirect (`redirect308`) is never followed by `c.Next()`; `Wrap`: a redirect is never followed by the wrapped
    handler (`Slash.serveWith`: `ran := false` with 308) -/
theorem trailingslash_redirect_or_next (ρ : Atom → Bool) :
    [[1], [34], [47, 1]].contains (codesOf ((exec ρ trailingslash_handler).trace.filter (keepCodes [1, 34, 47]))) = true ∧
    [[43], [42]].contains (codesOf ((exec ρ trailingslash_wrap).trace.filter (keepCodes [42, 43]))) = true :=
  ⟨every_exec trailingslash_handler [1, 34, 47] _ (by decide) ρ, every_exec trailingslash_wrap [42, 43] _ (by decide) ρ⟩

/-- `redirect308`: the new path is put on the URL, the Location comes from `redirectLocation` (the K17 repair), 308 is
    written, the chain is aborted; `redirect308HTTP` the same without a chain; `redirectLocation` prints the URL — as it
    is when it has a host (K17d), otherwise the path reference, whose `//` prefix it tests (K17) -/
theorem trailingslash_redirect_shape (ρ : Atom → Bool) :
    codesOf ((exec ρ trailingslash_redirect308).trace.filter (keepCodes [48, 37, 35, 36, 2, 1])) = [48, 37, 35, 36, 2] ∧
    codesOf ((exec ρ trailingslash_redirect308HTTP).trace.filter (keepCodes [48, 37, 44, 45, 43])) = [48, 37, 44, 45] ∧
    [[38], [38, 9]].contains (codesOf ((exec ρ trailingslash_redirectLocation).trace.filter (keepCodes [38, 9]))) = true := by
  refine ⟨?_, ?_, ?_⟩
  · simpa using every_exec trailingslash_redirect308 [48, 37, 35, 36, 2, 1] (fun t => t == [48, 37, 35, 36, 2]) (by decide) ρ
  · simpa using every_exec trailingslash_redirect308HTTP [48, 37, 44, 45, 43] (fun t => t == [48, 37, 44, 45]) (by decide) ρ
  · exact every_exec trailingslash_redirectLocation [38, 9] _ (by decide) ρ

/-- the policies are numbered as the model numbers them (`Slash.Req.policy`: 0 remove, 1 add, 2 strict), remove is the
    default -/
theorem trailingslash_config :
    trailingslash_policies = ["PolicyRemove", "PolicyAdd", "PolicyStrict"] ∧
    trailingslash_defaults = [("policy", "PolicyRemove")] ∧
    trailingslash_optionWrites = [("WithPolicy", "policy := $0")] := by
  refine ⟨by decide, by decide, by decide⟩

end Rivaas.Tie.C17Gates
