import Rivaas.Gen.Lifecycle
import Rivaas.Model.LifecycleSkel
import Rivaas.Model.LifecycleWhole
import Rivaas.Props.C09Whole
/-
C09 — the call order of `Start` / `StartTLS` / `StartMTLS` / `runServer` in the Go source, checked in the kernel.

`Gen/Lifecycle.lean` is regenerated from `app/*.go` by `extract/` on every run (fails closed, but only for
this module: a statement form the walker does not know is recorded as `extractError`). The obligations are
those of `Model/LifecycleSkel.lean` (`check`), evaluated by `decide` over all paths of the regenerated
skeletons; `Props/C09.lean` (`onAll_sound`, `skel_*_every_path`) says what a passed check means for every
valuation of the branch conditions: the order the lifecycle model follows, and no exit that skips
`abortStartup` once observability is started or skips a step of the shutdown sequence.
-/
namespace Rivaas.Tie.C09
open Rivaas.LifecycleSkel Rivaas.Gen.Lifecycle

/-- every statement around a call of interest was understood by the extractor -/
theorem extraction_complete : extractError = "" := by decide

theorem entries_obligation : (check skels).entries = true := by decide
theorem pre_loop_obligation : (check skels).pre = true := by decide
theorem goroutine_obligation : (check skels).go = true := by decide
theorem loop_arms_obligation : (check skels).arms = true ∧ (check skels).leaves = true := by decide
theorem shutdown_sequence_obligation : (check skels).after = true := by decide

/-- all obligations on the skeletons regenerated from the source of this run -/
theorem lifecycle_skeleton_ok : (check skels).ok = true := by decide

/-! ### the assembled program (`Model/LifecycleWhole.lean`) over the regenerated slices

`Props/C09Whole.lean` proves for any slices that pass `checkWhole`: every execution of entry point → `runServer` →
event loop (any schedule of arms, any number of iterations) → statements after the label ends in a `return` with a
call word of the lifecycle language. These are its hypotheses, discharged on the source of this run. -/

/-- every slice meets its obligation over the one vocabulary of the lifecycle language -/
theorem whole_program_obligation : checkWhole skels = true := by decide

/-- the paths the lifecycle model follows exist: prologue into `runServer`, the ready path, an arm that is exactly one
    `Reload` and goes round again, an arm that leaves to the label, the shutdown sequence -/
theorem model_paths_live : liveness skels = true := by decide

/-- … and, enumerated: failed start, failed listen, served with 0, 1, 2 SIGHUP reloads -/
theorem model_paths_present : modelPathsPresent skels 2 = true := by decide

/-- no entry point returns without having written out the startup logs buffered since `New` (K09g, K09h): every returning
    path of `Start` / `StartTLS` / `StartMTLS` goes through `abortStartup` or `flushStartupLogs`; after `runServer` has
    been entered the same holds by `pre_loop_obligation` / `loop_arms_obligation` (failure exits are `abortStartup; return`)
    and `goroutine_obligation` (the serving goroutine flushes before it signals readiness) -/
theorem failed_entry_flushes_startup_logs : skels.entries.all (onAll entryFlushes) = true := by decide

/-- **model ↔ source, in one statement**: every run of the lifecycle model (every scenario, both values of `race`) that does
    not end in a hook panic follows a path shape whose call word is the word of an execution of the control flow
    regenerated from the source of this run — and that execution ends in a `return` and is in the lifecycle language -/
theorem model_runs_are_executions_of_the_source (sc : Rivaas.Lifecycle.Scenario) (race : Bool) (nHup : Nat) :
    (Rivaas.Lifecycle.runSegs Rivaas.Lifecycle.current sc race).res = .panic ∨
    ∃ p n o, Rivaas.C09.pathOfRes nHup (Rivaas.Lifecycle.runSegs Rivaas.Lifecycle.current sc race).res = some p ∧
      o ∈ startOuts skels n ∧ word o = modelWord p ∧ inStartLang (word o) = true ∧ isRet o.fin = true :=
  Rivaas.C09.model_run_is_an_execution skels whole_program_obligation model_paths_live (by decide) sc race nHup

/-! ### shapes -/

/-- the event loop waits on the server error, the reload signal and the lifecycle context, in this order; the only
    `goto` target is the label right after the loop -/
theorem loop_shape_obligation : loopShape.ok = true := by decide

/-- which arm does what: the server-error arm aborts, the SIGHUP arm reloads and goes round again (it never leaves the
    loop), the `ctx.Done()` arm leaves to the label -/
theorem arm_roles_obligation :
    skels.arms.map (armRole (nm loopShape.label)) = [.abort, .reload, .leave] ∧
    afterLabel skels.after = nm loopShape.label := by decide

/-- the hook executors loop the way the model's `startHooks` / `readyHooks` / `ranFrom` / `lifo` / `stopHooks` do -/
theorem hook_loops_obligation : hookLoops = modelHookLoops := by decide

/-- `Reload` = `reloadMu.Lock(); defer reloadMu.Unlock(); … executeReloadHooks …` (Model/ReloadMutex.lean) -/
theorem reload_under_mutex_obligation : reloadShape = modelReloadShape := by decide

/-- observability: what is started is what is shut down, no step skips the next, and the contexts of the shutdown
    sequence and of `abortStartup` are detached from the (already cancelled) lifecycle context -/
theorem observability_pairing_obligation : obsShape = modelObsShape := by decide

end Rivaas.Tie.C09
