import Rivaas.Gen.Lifecycle
import Rivaas.Model.LifecycleSkel
/-
C09 — the call order of `Start` / `StartTLS` / `StartMTLS` / `runServer` in the Go source, checked in the kernel.

`Gen/Lifecycle.lean` is regenerated from `app/*.go` by `extract/` on every run (fails closed, but only for
this module: a statement form the walker does not know is recorded as `extractError`). The obligations are
those of `Model/LifecycleSkel.lean` (`check`), evaluated by `decide` over all paths of the regenerated
skeletons; `Props/C09.lean` (`onAll_sound`, `skel_*_every_path`) says what a passed check means for every
valuation of the branch conditions: the order the lifecycle model follows, and no exit that skips
`abortStartup` once observability is started or skips a step of the shutdown sequence.
-/
namespace Rivaas.Tie.C09
open Rivaas.LifecycleSkel Rivaas.Gen.Lifecycle

/-- every statement around a call of interest was understood by the extractor -/
theorem extraction_complete : extractError = "" := by decide

theorem entries_obligation : (check skels).entries = true := by decide
theorem pre_loop_obligation : (check skels).pre = true := by decide
theorem goroutine_obligation : (check skels).go = true := by decide
theorem loop_arms_obligation : (check skels).arms = true ∧ (check skels).leaves = true := by decide
theorem shutdown_sequence_obligation : (check skels).after = true := by decide

/-- all obligations on the skeletons regenerated from the source of this run -/
theorem lifecycle_skeleton_ok : (check skels).ok = true := by decide

end Rivaas.Tie.C09
