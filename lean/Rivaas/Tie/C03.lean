/-
C03, translator tie (B): obligations on the facts `extract/` regenerates from the current source.

* `Gen/Ctx.lean`: the field list of router.Context and how `(*Context).reset` treats every field —
  `reset_covers_every_field` fails as soon as a field is added that reset does not clear, or reset is made
  conditional in a way the extractor does not recognise (then the extractor fails closed);
  `reset_matches_model` pins the per-field treatment the hand-written model `Model/Pool.lean` assumes.
* `Gen/Serve.lean`: on every path of every extracted entry point (ServeHTTP with all helpers inlined,
  RouteExists) and for every `getContextFromGlobalPool()` occurrence k:
  - ownership: the events of k are `get k, (assign|use|reset|run|loop marker)*, release k` — exactly one
    release, nothing of k after it (no use-after-put, no double put, no leak);
  - initialisation: before any handler / responder runs on k (`run`), Request, Response, router and index
    and paramCount were assigned since the get (and handlers before `c.Next()`), and a `reset` in between
    forgets them;
  - parameter writes: a lookup that writes parameters into k (`tree.getRoute(path, c)`, `MatchDynamic`) happens
    only on a context whose parameter slots are fresh: since the get / the last `reset` / the last
    `paramCount = 0` no other such lookup ran. Loop bodies are checked unrolled twice, so a probe loop that does
    not reset between iterations is rejected.
-/
import Rivaas.Tie.Skel
import Rivaas.Gen.Serve
import Rivaas.Gen.Ctx
import Rivaas.Model.Pool

namespace Rivaas.Tie.C03
open Rivaas.Skel Rivaas.Gen.Serve

/-! ### reset covers the fields -/

/-- fields reset is allowed to leave alone: `router` (every serve path assigns it before use) -/
def allowedUncleared : List String := ["router"]

theorem reset_covers_every_field :
    Rivaas.Gen.Ctx.resetKindByName.all (fun p => p.2 != 0 || allowedUncleared.contains p.1) = true ∧
    Rivaas.Gen.Ctx.resetKindByName.length = Rivaas.Gen.Ctx.fieldCount ∧
    Rivaas.Gen.Ctx.resetKindByName.map (·.1) = Rivaas.Gen.Ctx.ctxFields := by decide

/-- what the model's reset does to a field, by name -/
def modelKind (n : String) : Option Nat :=
  ((Rivaas.Pool.fieldNames.zip Rivaas.Pool.resetKinds).find? (·.1 == n)).map (·.2)

/-- the model's Context has exactly the fields of the source (in any declaration order) and its `reset` treats each of
    them the way the source does (kinds as documented in Gen/Ctx.lean) -/
theorem reset_matches_model :
    Rivaas.Gen.Ctx.ctxFields.length = Rivaas.Pool.fieldNames.length ∧
    Rivaas.Gen.Ctx.resetKindByName.all (fun p => modelKind p.1 == some p.2) = true ∧
    Rivaas.Pool.fieldNames.all (Rivaas.Gen.Ctx.ctxFields.contains ·) = true ∧
    Rivaas.Gen.Ctx.slotBound = Rivaas.Pool.slotCount ∧
    Rivaas.Gen.Ctx.slotGuardName = "paramCount" := by decide

/-- the app-level pool (app/context_pool.go, App.wrapHandler): all three fields are cleared on Put, cleared again
    in the deferred function and assigned before the handler runs; get, deferred put, init, handler in this order -/
theorem app_pool_covers_fields :
    Rivaas.Gen.Ctx.appCtxFields.length = 3 ∧
    Rivaas.Gen.Ctx.appPutCleared = [0, 1, 2] ∧
    Rivaas.Gen.Ctx.appWrapInit = [0, 1, 2] ∧
    Rivaas.Gen.Ctx.appWrapDeferCleared = [0, 1, 2] ∧
    Rivaas.Gen.Ctx.appWrapShape = ["get", "deferPut", "init", "handler"] := by decide

/-! ### ownership and initialisation on every path -/

/-! ### the pools themselves: who may Get and Put (regenerated `poolSites`) -/

def col (s : List String) (i : Nat) : String := s.getD i ""

/-- **pool ownership**: the only pools of the package are the context pool and the arena pool; a pooled context is
    taken only by `getContextFromGlobalPool` and handed back only by `releaseGlobalContext`, right after `reset()` on
    the same value; an arena is taken only into an empty `cachedArena` field and handed back only by
    `(*Context).reset`, from that field, if it is set, after the arena's own `reset()` and followed by clearing the
    field — so an arena (and the cached specs that alias it) belongs to at most one context at a time and goes back
    exactly once. A new Get/Put site, or a Put that is not followed by clearing the field, breaks this obligation. -/
theorem pool_sites :
    Rivaas.Gen.Ctx.pools = ["arenaPool", "globalContextPool"] ∧
    (Rivaas.Gen.Ctx.poolSites.all fun s =>
      if col s 0 == "arenaPool" then
        (if col s 1 == "get" then col s 3 == "_.cachedArena == nil" && col s 4 == "_.cachedArena"
         else col s 1 == "put" && col s 2 == "Context.reset" && col s 3 == "_.cachedArena != nil" &&
              col s 4 == "_.cachedArena" && col s 5 == "_.cachedArena.reset()" && col s 6 == "_.cachedArena = nil")
      else col s 0 == "globalContextPool" &&
        (if col s 1 == "get" then col s 2 == "getContextFromGlobalPool" && col s 4 == "return"
         else col s 1 == "put" && col s 2 == "releaseGlobalContext" && col s 4 == "_" && col s 5 == "_.reset()")) = true ∧
    (Rivaas.Gen.Ctx.poolSites.filter fun s => col s 0 == "arenaPool" && col s 1 == "put").length = 1 ∧
    (Rivaas.Gen.Ctx.poolSites.filter fun s => col s 0 == "globalContextPool" && col s 1 == "put").length = 1 := by
  refine ⟨by decide, by decide, by decide, by decide⟩

def keepK (k : Nat) : Ev → Bool
  | .get j | .release j | .assign j _ | .reset j | .use j _ | .run j _ | .loopBegin j | .loopEnd j => j == k
  | _ => false

/-- simple shape: after the get only mentions, then exactly one release as the last event of k -/
def heldShape : List Ev → Bool
  | [.release _] => true
  | .assign .. :: r | .reset _ :: r | .use .. :: r | .run .. :: r | .loopBegin _ :: r | .loopEnd _ :: r => heldShape r
  | _ => false

def shapeK : List Ev → Bool
  | [] => true                      -- the path does not obtain this context
  | .get _ :: r => heldShape r
  | _ => false

/-- replace every `loopBegin … loopEnd` bracket by two copies of its body -/
def unroll (acc : Option (List Ev)) : List Ev → List Ev
  | [] => []
  | .loopBegin _ :: r => unroll (some []) r
  | .loopEnd _ :: r =>
    match acc with
    | some b => b.reverse ++ (b.reverse ++ unroll none r)
    | none => unroll none r
  | e :: r =>
    match acc with
    | some b => unroll (some (e :: b)) r
    | none => e :: unroll none r

/-- fields that must have been assigned since the get before anything runs on the context -/
def required : List Nat := [fRequest, fResponse, fRouter, fIndex, fParamCount]

/-- `assigned`: fields assigned since the get / the last reset; `written`: a parameter-writing lookup ran since
    the get / the last reset / the last `paramCount = 0`; `early`: such a lookup ran before paramCount was assigned
    (harmless for a borrowed probe context, not allowed on a context a handler will see) -/
def heldInit (assigned : List Nat) (written early : Bool) : List Ev → Bool
  | [] => true
  | .assign _ f :: r => heldInit (f :: assigned) (written && f != fParamCount) early r
  | .reset _ :: r => heldInit [] false early r
  | .use _ w :: r =>
    if w == 0 then heldInit assigned written early r
    else !written && heldInit assigned true (early || !assigned.contains fParamCount) r
  | .run _ w :: r =>
    required.all assigned.contains && !early && (w != whatNext || assigned.contains fHandlers) &&
      heldInit assigned written early r
  | _ :: r => heldInit assigned written early r

def initK : List Ev → Bool
  | .get _ :: r => heldInit [] false false (unroll none r)
  | _ => true

def okK (t : List Ev) : Bool := shapeK t && initK t

set_option maxRecDepth 100000 in
/-- THE regenerated obligation for C03: every path of every entry point, every pooled context -/
theorem ownership_paths :
    (entryPoints.all fun s => ctxIds.all fun k => (traces (slice (keepK k) s)).all okK) = true := by decide +kernel

/-! ### the model's own `covers` on the extracted preparation steps

`prepare_fresh` (Props/C03) needs `Pool.covers {} steps` for the preparation a serve path performs before the first
handler. Here the events of a context between its get (or its last reset) and every `run` are translated into model
`Step`s and the MODEL's `covers` is evaluated on them, on every path — the side condition of the theorem is checked on
the code's skeleton with the theorem's own definition, not with a look-alike. -/

def mpRunEv : Ev → Bool
  | .run .. => true
  | _ => false

/-- the model step of an assignment to field `f` (the assigned value does not matter to `covers`) -/
def fieldStep (f : Nat) : List Rivaas.Pool.Step :=
  if f == fRequest then [.setRequest 0] else if f == fResponse then [.setResponse 0]
  else if f == fHandlers then [.setHandlers 0] else if f == fRouter then [.setRouter 0]
  else if f == fIndex then [.setIndex 0] else if f == fParamCount then [.zeroCount] else []

/-- at every `run` event the steps since the get / the last reset satisfy the model's `covers` -/
def coversAtRuns (acc : List Rivaas.Pool.Step) : List Ev → Bool
  | [] => true
  | .run _ _ :: r => Rivaas.Pool.covers {} acc.reverse && coversAtRuns acc r
  | .reset _ :: r => coversAtRuns [] r
  | .assign _ f :: r => coversAtRuns ((fieldStep f).reverse ++ acc) r
  | .use _ w :: r => if w == 0 then coversAtRuns acc r else coversAtRuns (.writeParam [] [] :: acc) r
  | _ :: r => coversAtRuns acc r

def coversK : List Ev → Bool
  | .get _ :: r => coversAtRuns [] (unroll none r)
  | _ => true

set_option maxRecDepth 100000 in
/-- regenerated obligation: the hypothesis `covers` of `C03.prepare_fresh`, evaluated with the model's definition on
    the steps extracted from every path, for every pooled context, before every handler / responder that runs on it -/
theorem covers_on_paths :
    (entryPoints.all fun s => ctxIds.all fun k => (traces (slice (keepK k) s)).all coversK) = true := by decide +kernel

/-- non-vacuity: a handler that runs on an unprepared context is rejected; a parameter-writing lookup before
    `paramCount = 0` is rejected; and the skeleton does contain paths on which a handler runs -/
example : coversK [.get 0, .run 0 1] = false ∧
    coversK [.get 0, .assign 0 fRequest, .assign 0 fResponse, .assign 0 fRouter, .assign 0 fIndex, .use 0 3,
             .assign 0 fParamCount, .run 0 1] = false ∧
    ((traces (slice (keepK 0) serveHTTP)).any fun t => t.any mpRunEv) = true := by
  refine ⟨by decide, by decide, by decide +kernel⟩

theorem covers_exec (ρ : Atom → Bool) (s : Stmt) (hs : s ∈ entryPoints) (k : Nat) (hk : k ∈ ctxIds) :
    coversK ((exec ρ s).trace.filter (keepK k)) = true := by
  have h := covers_on_paths
  rw [List.all_eq_true] at h
  have h2 := h s hs
  rw [List.all_eq_true] at h2
  exact all_exec_slice s (keepK k) coversK (h2 k hk) ρ

theorem ownership (ρ : Atom → Bool) (s : Stmt) (hs : s ∈ entryPoints) (k : Nat) (hk : k ∈ ctxIds) :
    okK ((exec ρ s).trace.filter (keepK k)) = true := by
  have h := ownership_paths
  rw [List.all_eq_true] at h
  have h2 := h s hs
  rw [List.all_eq_true] at h2
  exact all_exec_slice s (keepK k) okK (h2 k hk) ρ

/-! ### panic exits: a handler (or the NoRoute handler, or a responder) panics and nothing recovers it inside ServeHTTP

The statement quantifies over "whatever requests were served before" — including requests whose handler panicked out
of ServeHTTP (net/http recovers per connection and the process goes on). `Skel.ppaths` enumerates, next to the normal
outcomes, the outcome of a panic at every `run` event: the rest is skipped, the deferred events of the enclosing
scopes run. On every such outcome every pooled context is either dropped (never handed back: the garbage collector
gets it) or handed back by exactly one `release` — which is `reset()` + Put (`pool_sites`) — as its last event. -/

def mpRun : Ev → Bool
  | .run .. => true
  | _ => false

def isReleaseEv : Ev → Bool
  | .release _ => true
  | _ => false

/-- one pass over an outcome for all contexts at once: `held` = obtained and not yet handed back, `gone` = handed
    back. A context is obtained at most once, mentioned only while held, handed back at most once, never touched
    afterwards; what is still held at the end is dropped. -/
def okPanicAll (held gone : List Nat) : List Ev → Bool
  | [] => true
  | .get k :: r => !held.contains k && !gone.contains k && okPanicAll (k :: held) gone r
  | .release k :: r => held.contains k && okPanicAll (held.erase k) (k :: gone) r
  | .assign k _ :: r | .reset k :: r | .use k _ :: r | .run k _ :: r | .loopBegin k :: r | .loopEnd k :: r =>
    held.contains k && okPanicAll held gone r
  | _ :: r => okPanicAll held gone r

set_option maxRecDepth 100000 in
/-- regenerated obligation: every panic outcome of every entry point, every pooled context -/
theorem panic_paths_ownership :
    (entryPoints.all fun s => (ppaths mpRun s).all fun o => o.st != 2 || okPanicAll [] [] o.trace) = true := by
  decide +kernel

/-- for every valuation of the branch conditions and a panic at any `run` event -/
theorem panic_exit_ownership (ρ : Atom → Bool) (s : Stmt) (hs : s ∈ entryPoints) (n : Option Nat)
    (hp : (pexec mpRun ρ s n).1.st = 2) : okPanicAll [] [] (pexec mpRun ρ s n).1.trace = true := by
  have h := panic_paths_ownership
  rw [List.all_eq_true] at h
  have h2 := all_pexec mpRun s _ (h s hs) ρ n
  simpa [hp] using h2

/-- non-vacuity: there are panic outcomes; some hand a context back through a deferred release, some drop it -/
example : ((ppaths mpRun serveHTTP).any fun o => o.st == 2 && o.trace.getLast?.any isReleaseEv) = true ∧
    ((ppaths mpRun routeExists).length = 6) := by
  constructor <;> decide +kernel

/-! ### what the shape means -/

def isRelease : Ev → Bool | .release _ => true | _ => false
def isGet : Ev → Bool | .get _ => true | _ => false

theorem lemma_heldShape (t : List Ev) (h : heldShape t = true) :
    ∃ mid j, t = mid ++ [Ev.release j] ∧ mid.filter isRelease = [] ∧ mid.filter isGet = [] := by
  induction t with
  | nil => simp [heldShape] at h
  | cons e r ih =>
    cases e with
    | release j =>
      cases r with
      | nil => exact ⟨[], j, rfl, rfl, rfl⟩
      | cons _ _ => simp [heldShape] at h
    | assign k f => simp only [heldShape] at h; obtain ⟨m, j, h1, h2, h3⟩ := ih h; exact ⟨Ev.assign k f :: m, j, by simp [h1], by simp [isRelease, h2], by simp [isGet, h3]⟩
    | reset k => simp only [heldShape] at h; obtain ⟨m, j, h1, h2, h3⟩ := ih h; exact ⟨Ev.reset k :: m, j, by simp [h1], by simp [isRelease, h2], by simp [isGet, h3]⟩
    | use k w => simp only [heldShape] at h; obtain ⟨m, j, h1, h2, h3⟩ := ih h; exact ⟨Ev.use k w :: m, j, by simp [h1], by simp [isRelease, h2], by simp [isGet, h3]⟩
    | run k w => simp only [heldShape] at h; obtain ⟨m, j, h1, h2, h3⟩ := ih h; exact ⟨Ev.run k w :: m, j, by simp [h1], by simp [isRelease, h2], by simp [isGet, h3]⟩
    | loopBegin k => simp only [heldShape] at h; obtain ⟨m, j, h1, h2, h3⟩ := ih h; exact ⟨Ev.loopBegin k :: m, j, by simp [h1], by simp [isRelease, h2], by simp [isGet, h3]⟩
    | loopEnd k => simp only [heldShape] at h; obtain ⟨m, j, h1, h2, h3⟩ := ih h; exact ⟨Ev.loopEnd k :: m, j, by simp [h1], by simp [isRelease, h2], by simp [isGet, h3]⟩
    | _ => simp [heldShape] at h

/-- **each get is followed by exactly one release, and no use after it**: on every path of every entry point the
    events of a pooled context are either absent or `get, …, release` with the release last and unique -/
theorem get_release_exactly_once (ρ : Atom → Bool) (s : Stmt) (hs : s ∈ entryPoints) (k : Nat) (hk : k ∈ ctxIds) :
    (exec ρ s).trace.filter (keepK k) = [] ∨
    ∃ g mid j, (exec ρ s).trace.filter (keepK k) = Ev.get g :: (mid ++ [Ev.release j]) ∧
      mid.filter isRelease = [] ∧ mid.filter isGet = [] := by
  have h := ownership ρ s hs k hk
  simp only [okK, Bool.and_eq_true] at h
  generalize (exec ρ s).trace.filter (keepK k) = t at h
  match t, h with
  | [], _ => exact Or.inl rfl
  | .get g :: r, ⟨h1, _⟩ =>
    simp only [shapeK] at h1
    obtain ⟨mid, j, e1, e2, e3⟩ := lemma_heldShape r h1
    exact Or.inr ⟨g, mid, j, by rw [e1], e2, e3⟩

end Rivaas.Tie.C03
