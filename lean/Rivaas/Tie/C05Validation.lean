/- Translator tie (B) for C05: structural facts of validation/{tags,validate,presence,errors,interface}.go that
   Model/Presence.lean and Model/PresenceResolve.lean rely on, over the event lists extract/validation.go regenerates
   from the current source on every run (Gen/Validation.lean). An edit that moves the cap test into the inner loop,
   drops the final Sort, tries promoted fields before direct ones, lets a numeric segment index a struct, or changes
   the order the strategies run in breaks the theorem named after the fact. -/
import Rivaas.Gen.Validation
import Rivaas.Tie.FlatFacts
import Rivaas.Model.PresenceResolve
namespace Rivaas.Tie.C05Validation
open Rivaas.Gen.Validation Rivaas.Tie.Flat

/-- the extractor understood every statement it met -/
theorem validation_extracted : problem = none := by decide

/-- the leaf loop of `validatePartialLeafsOnly` in the model's order (`partialLoop`, `ownTagsT`): leaves from
    `LeafPaths`, per leaf `resolvePath`, `elementTag`, `Var`, the redactor (`coversValue`) before `Add`; the cap
    test sits after the loop over one leaf's errors and inside the leaf loop (`Truncated`, `break`); `Sort` runs
    after the leaf loop and only when there are errors -/
theorem partial_loop_shape :
    firstBefore (call "LeafPaths") (call "resolvePath") validatePartialLeafsOnly_events = true ∧
    firstBefore (call "resolvePath") (call "elementTag") validatePartialLeafsOnly_events = true ∧
    firstBefore (call "elementTag") (call "Var") validatePartialLeafsOnly_events = true ∧
    firstBefore (call "Var") (call "coversValue") validatePartialLeafsOnly_events = true ∧
    firstBefore (call "coversValue") (call "Add") validatePartialLeafsOnly_events = true ∧
    between (kw "endfor") (call "Add") (iff "maxErrors,len,Fields,maxErrors") validatePartialLeafsOnly_events = true ∧
    between (set "Truncated") (iff "maxErrors,len,Fields,maxErrors") (kw "break") validatePartialLeafsOnly_events = true ∧
    lastBefore (iff "maxErrors,len,Fields,maxErrors") (kw "endfor") validatePartialLeafsOnly_events = true ∧
    lastBefore (kw "endfor") (iff "HasErrors") validatePartialLeafsOnly_events = true ∧
    firstBefore (iff "HasErrors") (call "Sort") validatePartialLeafsOnly_events = true ∧
    firstBefore (lit "validate") (call "Var") validatePartialLeafsOnly_events = true ∧
    firstBefore (lit "tag.") (call "Add") validatePartialLeafsOnly_events = true := by decide

/-- `resolvePath` (model `resolveFrom`): pointers are dereferenced first (a nil one gives up); a numeric segment
    is an index only when the value is not a struct (K05d: the `Atoi` test carries the `Struct` guard); on a struct
    the field map is consulted before the promoted fields (K05h), and a promoted struct is not a direct hit -/
theorem resolvePath_chain :
    firstBefore (iff "IsNil") (iff "Atoi,Kind,Struct") resolvePath_events = true ∧
    count (iff "Atoi,Kind,Struct") resolvePath_events = 1 ∧
    firstBefore (iff "Atoi,Kind,Struct") (iff "Kind,Slice,Kind,Array") resolvePath_events = true ∧
    firstBefore (iff "Kind,Slice,Kind,Array") (iff "Len") resolvePath_events = true ∧
    firstBefore (iff "Kind,Struct") (iff "isPromotedStruct,Field") resolvePath_events = true ∧
    firstBefore (iff "isPromotedStruct,Field") (iff "promotedField") resolvePath_events = true ∧
    between (kw "else") (iff "isPromotedStruct,Field") (iff "promotedField") resolvePath_events = true ∧
    only "lit" resolvePath_events = ["."] := by decide

/-- `promotedField` (model `promotedField`): the depth guard first; embedded structs in field order; in each its
    own fields (not promoted structs themselves) before what it promotes in turn -/
theorem promotedField_chain :
    promotedField_events.take 4 = [iff "", kw "then", kw "return", kw "endif"] ∧
    firstBefore (call "NumField") (iff "isPromotedStruct,Field") promotedField_events = true ∧
    firstBefore (iff "isPromotedStruct,Field") (iff "Kind,Struct") promotedField_events = true ∧
    firstBefore (iff "Kind,Struct") (iff "getFieldMap,isPromotedStruct,Field") promotedField_events = true ∧
    firstBefore (iff "getFieldMap,isPromotedStruct,Field") (iff "promotedField") promotedField_events = true := by decide

/-- `getJSONFieldName`, `buildFieldMap`, `isPromotedStruct`, `elementTag` (models `jsonFieldName`, `mapsTo`,
    `isPromotedStruct`, `afterDive`): the literals they compare with, in order, the `continue` that keeps a
    `json:"-"` field out of the map (K05k) and the one that keeps a promoted embedded struct from being entered
    under a JSON name (K05m) -/
theorem name_rules :
    only "lit" getJSONFieldName_events = ["json", "", "-", ",", ""] ∧
    only "if" getJSONFieldName_events = ["", "Cut", ""] ∧
    firstBefore (lit "-") (iff "isPromotedStruct") buildFieldMap_events = true ∧
    between (kw "continue") (lit "-") (iff "isPromotedStruct") buildFieldMap_events = true ∧
    between (kw "continue") (iff "isPromotedStruct") (iff "getJSONFieldName") buildFieldMap_events = true ∧
    only "if" isPromotedStruct_events = ["Anonymous,Tag,Get", "Kind,Pointer"] ∧
    only "lit" isPromotedStruct_events = ["json", ""] ∧
    only "lit" elementTag_events = ["", ",", "dive", ""] ∧
    Rivaas.Presence.diveRule = "dive".toList := by decide

/-- `WithRunAll` (model `validateAll [interface, tags]`): the strategies run in this order; the combined list is
    capped and cut after every strategy (K05g: `Fields` is re-sliced, `Truncated` set, `break`), sorted at the end.
    `determineStrategy` asks in the same order. -/
theorem strategies_order :
    only "list" validateAll_events = ["StrategyInterface,StrategyTags,StrategyJSONSchema"] ∧
    firstBefore (call "validateByStrategy") (call "AddError") validateAll_events = true ∧
    firstBefore (call "AddError") (iff "maxErrors,len,Fields,maxErrors") validateAll_events = true ∧
    between (set "Fields") (iff "maxErrors,len,Fields,maxErrors") (kw "break") validateAll_events = true ∧
    between (set "Truncated") (iff "maxErrors,len,Fields,maxErrors") (kw "break") validateAll_events = true ∧
    lastBefore (kw "endfor") (call "Sort") validateAll_events = true ∧
    (only "if" determineStrategy_events).take 3 =
      ["isApplicable,StrategyInterface", "isApplicable,StrategyTags", "isApplicable,StrategyJSONSchema"] := by decide

/-- full mode (`formatTagErrors`, model `fullLoop`): the redactor before `Add`, the cap test after `Add` inside the
    loop, `Sort` after the loop; the interface strategy (`coerceToValidationErrors`, model `coerce`) cuts, then sorts;
    `ValidatePartial` is `Validate` with `WithPresence` and `WithPartial(true)` appended -/
theorem full_and_interface_shape :
    firstBefore (call "coversValue") (call "Add") formatTagErrors_events = true ∧
    between (set "Truncated") (call "Add") (kw "break") formatTagErrors_events = true ∧
    lastBefore (kw "endfor") (call "Sort") formatTagErrors_events = true ∧
    firstBefore (iff "maxErrors,len,Fields,maxErrors") (call "Sort") coerceToValidationErrors_events = true ∧
    between (set "Truncated") (iff "maxErrors,len,Fields,maxErrors") (call "Sort") coerceToValidationErrors_events = true ∧
    firstBefore (call "WithPresence") (call "Validate") ValidatePartial_events = true ∧
    firstBefore (call "WithPartial") (call "Validate") ValidatePartial_events = true ∧
    count (call "Validate") ValidatePartial_events = 1 := by decide

/-- `Validator.Validate` (model `validateTop`): the options are folded first; the custom validator runs before
    anything else and its error returns through `coerceToValidationErrors`; then `WithRunAll`; then the strategy —
    determined only under `StrategyAuto` — through `validateByStrategy`, which dispatches interface / tags / schema -/
theorem validate_top_order :
    firstBefore (call "applyOptions") (iff "customValidator") Validate_events = true ∧
    firstBefore (call "customValidator") (call "coerceToValidationErrors") Validate_events = true ∧
    firstBefore (call "coerceToValidationErrors") (iff "runAll") Validate_events = true ∧
    firstBefore (iff "runAll") (call "validateAll") Validate_events = true ∧
    firstBefore (call "validateAll") (iff "StrategyAuto") Validate_events = true ∧
    between (call "determineStrategy") (iff "StrategyAuto") (call "validateByStrategy") Validate_events = true ∧
    (validateByStrategy_events.filter (·.1 == "case")).map (·.2) =
      ["StrategyInterface", "StrategyTags", "StrategyJSONSchema", ""] ∧
    between (call "validateWithInterface") (("case", "StrategyInterface")) (("case", "StrategyTags")) validateByStrategy_events = true ∧
    between (call "validateWithTags") (("case", "StrategyTags")) (("case", "StrategyJSONSchema")) validateByStrategy_events = true := by
  decide

/-- the redaction walk `coversValue` (model `coversValue`): the redactor is asked about the path first, then the
    depth guard, then pointers and interfaces are looked through (a nil one reveals nothing); a struct is walked
    through the cached field map with the promoted-struct test, a slice or array by index (`Itoa`), a map by key
    (`Sprint`); every branch recurses into `coversValue` -/
theorem coversValue_chain :
    coversValue_events.take 5 = [iff "redactor", call "redactor", kw "then", kw "return", kw "endif"] ∧
    firstBefore (iff "redactor") (iff "IsNil") coversValue_events = true ∧
    firstBefore (iff "IsNil") (kw "switch") coversValue_events = true ∧
    (coversValue_events.filter (·.1 == "case")).map (·.2) = ["Struct", "Slice,Array", "Map", ""] ∧
    between (call "getFieldMap") (("case", "Struct")) (("case", "Slice,Array")) coversValue_events = true ∧
    between (iff "isPromotedStruct,Type,Field") (("case", "Struct")) (("case", "Slice,Array")) coversValue_events = true ∧
    between (iff "coversValue,Itoa,Index") (("case", "Slice,Array")) (("case", "Map")) coversValue_events = true ∧
    between (iff "coversValue,Sprint,Key,Value") (("case", "Map")) (kw "endswitch") coversValue_events = true ∧
    count (call "coversValue") coversValue_events = 3 := by decide

/-- `Error.Sort` compares paths first (model `errLe`); `LeafPaths` ends by sorting (model `leafPaths`) -/
theorem sort_shape :
    only "if" Error_Sort_events = ["Fields,Path,Fields,Path"] ∧
    only "call" Error_Sort_events = ["Slice"] ∧
    last (call "Strings") PresenceMap_LeafPaths_events = some (PresenceMap_LeafPaths_events.length - 2) := by decide

end Rivaas.Tie.C05Validation
