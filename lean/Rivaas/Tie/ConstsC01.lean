/- Translator tie (B), constants: every literal of the Go source that the model of C01 mirrors equals the value
   extract/ regenerates from the current source (Gen/Consts.lean) on every run. An edited threshold, list or
   marker in /repo breaks the theorem named after it. -/
import Rivaas.Gen.Consts
import Rivaas.Model.Radix
namespace Rivaas.Tie.ConstsC01
open Rivaas.Gen.Consts
theorem consts_C01_inlineSlots : Rivaas.Radix.inlineSlots = router_inlineSlots := by decide
theorem consts_C01_standardMethods : Rivaas.Route.stdMethods = router_standardMethods.map String.toList := by decide
theorem consts_C01_wildcardParam : Rivaas.Radix.wildParam = router_wildcardParam.toList := by decide
theorem consts_C01_sentinels :
    router_sentinelPatterns.map String.toList = ["_method_not_allowed".toList, Rivaas.Radix.notFoundPattern, Rivaas.Radix.unmatched] := by decide
end Rivaas.Tie.ConstsC01
