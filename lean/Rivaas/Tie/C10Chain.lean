/-
C10, translator tie (B): structural facts of `middleware/recovery`, `middleware/timeout` and of `app.New` that the
models (`Model/Chain.lean`: `unwind`, `Cfg.abortOnRecover`; `Model/Timeout.lean`: `stepH`, `stepR`, `finishR`) rely
on, regenerated from the current source on every run (`Gen/ChainFacts.lean`, extract/chainfacts.go: flat token
lists, locals numbered in order of first occurrence, only tokens that mention a keyword of the function's
vocabulary) and checked here. An edit of the source that changes one of them breaks the theorem named after it;
`./check C10` then searches for a concrete failing input.
-/
import Rivaas.Gen.ChainFacts
import Rivaas.Model.Chain
import Rivaas.Model.Timeout

set_option maxRecDepth 100000
namespace Rivaas.Tie.C10Chain
open Rivaas.Gen.ChainFacts

/-- `l` occurs in `t` as a contiguous block -/
def isInfix (l t : List String) : Bool :=
  (List.range (t.length + 1)).any fun i => l.isPrefixOf (t.drop i)

/-- first position of a token -/
def pos (x : String) (t : List String) : Option Nat := t.findIdx? (· == x)

def before (a b : String) (t : List String) : Bool :=
  match pos a t, pos b t with
  | some i, some j => i < j
  | _, _ => false

/-- the extractor understood every statement of every function it reads -/
theorem extraction_complete : problem = none := by decide

/-! ### recovery (`Chain.unwind`, case `Frame.fn k .recover _`; `Chain.Prog.recovers` with acts `[next]`) -/

/-- the deferred `recover` is registered before the one `c.Next()`, and a non-nil recovered value goes to
    `handlePanic` — the model's recovery position is `{ recovers := true, acts := [.next] }` -/
theorem recovery_defer_registered_before_next :
    recovery_handler =
      ["defer {", "_1 := recover()", "if _1 != nil {", "handlePanic(_2, _3, _1)", "}", "}", "_2.Next()"] := by decide

/-- `handlePanic` aborts the chain first (K10c fix; `Cfg.abortOnRecover = true`), on every path — no `return`
    in front of it —, and calls the response handler afterwards (`St.write Chunk.rec500`) -/
theorem handlePanic_aborts_then_responds :
    recovery_handlePanic = ["_1.Abort()", "if _2.handler != nil {", "_2.handler(_1, _3)", "}"] := by decide

/-- the default response handler is one `c.JSON(500, …)` and does not touch the chain -/
theorem recovery_default_response :
    recovery_defaultHandler =
      ["_1.JSON(http.StatusInternalServerError, map[string]any{ \"error\": \"Internal server error\", \"code\": \"INTERNAL_ERROR\", })"] := by
  decide

/-- `captureStack` (`Recovery.captureStack`): a negative limit is clamped to 0 before it is used as a slice bound
    (K10e fix); the stack is captured only under `logger != nil` and `stackTrace` (`Recovery.reachesHandler`), between
    `c.Abort()` and the response handler; every option assigns exactly its own field (`Recovery.applyOpt`) -/
theorem recovery_capture_and_options :
    recovery_captureStack =
      ["_1 := debug.Stack()", "if _2 < 0 {", "_2 = 0", "}", "if len(_1) > _2 {", "return _1[:_2]", "}", "return _1"] ∧
    recovery_handlePanic_stack =
      ["_1.Abort()", "if _2.logger != nil {",
       "_2.logger.Error(\"panic recovered\", \"error\", fmt.Sprintf(\"%v\", _3), \"method\", _1.Request.Method, \"path\", _1.Request.URL.Path, )",
       "if _2.stackTrace {", "_4 := captureStack(_2.stackSize)", "}", "}", "if _2.handler != nil {", "_2.handler(_1, _3)", "}"] ∧
    recovery_opt_WithoutLogging = ["_1.logger = nil"] ∧ recovery_opt_WithLogger = ["_1.logger = _2"] ∧
    recovery_opt_WithHandler = ["_1.handler = _2"] ∧ recovery_opt_WithStackTrace = ["_1.stackTrace = _2"] ∧
    recovery_opt_WithStackSize = ["_1.stackSize = _2"] ∧ recovery_opt_WithPrettyStack = ["_1.prettyStack = &_2"] := by
  decide

/-! ### the app installs recovery first (assumption "recovery is the first handler of the chain") -/

/-- `applyDefaultMiddleware` ends with `r.Use(recovery.New(…))` -/
theorem app_default_middleware_is_recovery :
    app_defaultMiddleware.getLast? = some "_3.Use(recovery.New(_1...))" := by decide

/-- in `app.New` the default middleware goes onto the freshly made router before the `WithMiddleware` functions
    (and `App.Use` is only possible on the finished app): recovery is position 0 of every app chain -/
theorem app_recovery_first :
    app_new_middleware_order =
      ["_1, _2 := router.New(_3...)", "if shouldApplyDefaultMiddleware(_4) {", "applyDefaultMiddleware(_1, _5)", "}",
       "if _6 != nil || _7 != nil || _8 != nil {", "_1.SetObservabilityRecorder(_9)", "}",
       "if len(_4.middleware.functions) > 0 {", "_10.Use(_4.middleware.functions...)", "}"] := by decide

/-! ### timeout (`Timeout.stepH`, `Timeout.stepR`, `Timeout.finishR`) -/

/-- the whole handler closure, as far as the model is concerned -/
theorem timeout_handler_shape :
    timeout_handler =
      ["if shouldSkip(_1, _2) {", "_2.Next()", "return", "}",
       "_3, _4 := context.WithTimeout(_2.Request.Context(), _1.duration)", "defer _4()",
       "_2.Request = _2.Request.WithContext(_3)",
       "_5 := _2.Response", "_6 := *_2", "_7 := &timeoutWriter{ResponseWriter: _5, header: _5.Header().Clone()}",
       "_2.Response = _7",
       "_8 := make(chan struct{})", "_9 := make(chan any, 1)",
       "go {", "defer {", "_10 := recover()", "if _10 != nil {", "_9 <- _10", "}", "close(_8)", "}", "_2.Next()", "}",
       "select {", "case <-_8 {", "}", "case <-_3.Done() {",
       "if errors.Is(_3.Err(), context.DeadlineExceeded) {", "if _1.logger != nil {", "_1.logger.Warn(\"request timeout\", \"method\", _6.Request.Method, \"path\", _6.Request.URL.Path, \"timeout\", _1.duration.String(), )", "}",
       "_11 = _7.timeout()", "if _11 {",
       "_1.handler(&_6, _1.duration)", "}", "}", "<-_8", "}", "}",
       "if !_11 {", "_2.Response = _5", "}",
       "select {", "case _12 := <-_9 {", "panic(_12)", "}", "}"] := by decide

/-- the guard is installed and the timeout handler's own context is copied before the goroutine exists
    (`stepH`'s writes go through the guard from its first step; no race on the copy) -/
theorem timeout_guard_before_goroutine :
    before "_2.Response = _7" "go {" timeout_handler = true ∧ before "_6 := *_2" "go {" timeout_handler = true := by decide

/-- thread H: the deferred function recovers, forwards a non-nil value to `panicChan` and closes `done` last,
    around the one `c.Next()` (`stepH`: `.panic v` ⇒ `panicChan := some v, hDone := true`; `[]` ⇒ `hDone := true`) -/
theorem timeout_goroutine_shape :
    isInfix ["go {", "defer {", "_10 := recover()", "if _10 != nil {", "_9 <- _10", "}", "close(_8)", "}", "_2.Next()", "}"]
      timeout_handler = true := by decide

/-- thread R at the `select`: two arms, `<-done` and `<-ctx.Done()`; in the second, under `DeadlineExceeded`, the
    timeout is logged FIRST (`RPc.logging`, reading the request from the copied context), THEN `tw.timeout()` decides
    atomically, and the timeout handler runs only if it claimed the response, on the copied context; the arm ends
    with `<-done` on every path (`stepR .select` / `.logging`: `.thandler` / `.waitDone`, never `.returned`) -/
theorem timeout_select_shape :
    isInfix ["select {", "case <-_8 {", "}", "case <-_3.Done() {",
       "if errors.Is(_3.Err(), context.DeadlineExceeded) {", "if _1.logger != nil {", "_1.logger.Warn(\"request timeout\", \"method\", _6.Request.Method, \"path\", _6.Request.URL.Path, \"timeout\", _1.duration.String(), )", "}",
       "_11 = _7.timeout()", "if _11 {",
       "_1.handler(&_6, _1.duration)", "}", "}", "<-_8", "}", "}"] timeout_handler = true := by decide

/-- after the select: the real writer comes back unless the request timed out, then the panic is re-raised
    (`finishR`: recovery's body is dropped iff `timedOut`) — and this is the end of the closure -/
theorem timeout_restore_then_repanic :
    ["if !_11 {", "_2.Response = _5", "}", "select {", "case _12 := <-_9 {", "panic(_12)", "}", "}"].isSuffixOf
      timeout_handler = true := by decide

/-- `timeoutWriter.Write` / `WriteHeader`: under the lock, dropped when timed out, otherwise `start()` and the
    underlying write (`stepH .write`: `if s.timedOut then skip else started := true; write`) -/
theorem guard_write_shape :
    tw_Write = ["_1.mu.Lock()", "if _1.timedOut {", "return 0, http.ErrHandlerTimeout", "}", "_1.start()",
                "return _1.ResponseWriter.Write(_2)"] ∧
    tw_WriteHeader = ["_1.mu.Lock()", "if _1.timedOut {", "return", "}", "_1.start()",
                      "_1.ResponseWriter.WriteHeader(_2)"] ∧
    tw_Flush = ["_1.mu.Lock()", "_2, _3 := _1.ResponseWriter.(http.Flusher)", "if _3 && !_1.timedOut {", "_1.start()", "}"] := by
  decide

/-- `timeoutWriter.timeout`: claims the response only if the chain has not started it, and reports the claim
    (`stepR .select`, deadline: `if s.started then .waitDone else timedOut := true, .thandler`) -/
theorem guard_timeout_shape :
    tw_timeout = ["_1.mu.Lock()", "if !_1.started {", "_1.timedOut = true", "}", "return _1.timedOut"] ∧
    tw_start.take 4 = ["if _1.started {", "return", "}", "_1.started = true"] := by decide

end Rivaas.Tie.C10Chain
