/-
Helpers for the Tie obligations over the middleware skeletons of `Gen/Compress.lean` (C15) and `Gen/Gates.lean` (C17).
Those skeletons are terms of `Rivaas.Skel.Stmt` whose events are `Ev.obsRaw <code>`, the code being the position of
the call / field assignment in the fixed vocabulary of the extractor (extract/mwskel.go, printed as `vocab`).
An obligation has the shape

    ∀ ρ, P (codesOf ((exec ρ s).trace.filter (keepCodes K))) = true

"for every valuation ρ of the branch conditions, the calls of K that the function makes, in order, satisfy P" —
proved by `Skel.all_exec_slice` from one kernel evaluation over the enumerated paths (`decide`).  Core Lean only.
-/
import Rivaas.Tie.Skel

namespace Rivaas.MwSkel
open Rivaas.Skel

def keepCodes (k : List Nat) : Ev → Bool
  | .obsRaw n => k.contains n
  | _ => false

def codesOf (t : List Ev) : List Nat :=
  t.filterMap fun e => match e with
    | .obsRaw n => some n
    | _ => none

/-- all code traces of `s` projected on `k` (what the kernel evaluates) -/
def codeTraces (s : Stmt) (k : List Nat) : List (List Nat) := (traces (slice (keepCodes k) s)).map codesOf

/-- the obligation form: a Boolean check on the projected code trace of every execution -/
theorem every_exec (s : Stmt) (k : List Nat) (P : List Nat → Bool)
    (h : (codeTraces s k).all P = true) (ρ : Atom → Bool) :
    P (codesOf ((exec ρ s).trace.filter (keepCodes k))) = true := by
  have h' : (traces (slice (keepCodes k) s)).all (fun t => P (codesOf t)) = true := by
    simpa [codeTraces, List.all_map] using h
  exact all_exec_slice s (keepCodes k) (fun t => P (codesOf t)) h' ρ

/-- when both occur, the first `a` comes before the first `b` -/
def before (a b : Nat) (t : List Nat) : Bool :=
  match t.findIdx? (· == a), t.findIdx? (· == b) with
  | some i, some j => i < j
  | _, _ => true

/-- `b` occurs only after an `a` -/
def dominates (a b : Nat) (t : List Nat) : Bool :=
  match t.findIdx? (· == a), t.findIdx? (· == b) with
  | some i, some j => i < j
  | _, none => true
  | none, some _ => false

/-- the trace ends with `suffix` -/
def endsWith (suffix t : List Nat) : Bool := suffix.isSuffixOf t

end Rivaas.MwSkel
