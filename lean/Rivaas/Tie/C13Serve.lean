/-
C13, translator tie (B), the versioned arms of `router/serve.go` (`serveVersionedRequest`, `serveVersionedHandlers`): a module of
its own, so that a change of the plumbing in `serve.go` that the extractor cannot follow stops only these two obligations.
-/
import Rivaas.Gen.Version

namespace Rivaas.Tie.C13Serve
open Rivaas Rivaas.Tie.Dec

set_option maxRecDepth 16384

/-! ### `serveVersionedRequest` / `serveVersionedHandlers`: 410 without running a handler -/

def allBits : Nat → List (List Bool)
  | 0 => [[]]
  | n + 1 => (allBits n).flatMap fun l => [false :: l, true :: l]

/-- position of a text in a table (`= length` when it is missing) -/
def at' (tbl : List String) (t : String) : Nat := tbl.findIdx (· == t)

def bitVal (bits : List Bool) : Val := pure fun a => bits.getD a false

/-- **a version past its sunset date answers 410 without running a handler; otherwise the handlers run and no 410 is
    written** — `serveVersionedHandlers` (static version table): over ALL valuations of its atoms, `SetLifecycleHeaders`
    is consulted before the chain, its `true` leads to `WriteHeader(410)` and never to `Next()`, its `false` (or no
    engine) to `Next()` and never to the 410 -/
theorem serveVersionedHandlers_gone_without_handler :
    let atoms := Gen.Version.serveVersionedHandlers_atoms
    let effs := Gen.Version.serveVersionedHandlers_effects
    let eng := at' atoms "recv.versionEngine != nil"
    let sun := at' atoms "recv.versionEngine.SetLifecycleHeaders(p0, p4, p3)"
    let gone := at' effs "p0.WriteHeader(http.StatusGone)"
    let next := at' effs "getContextFromGlobalPool().Next()"
    eng < atoms.length ∧ sun < atoms.length ∧ gone < effs.length ∧ next < effs.length ∧
    (allBits atoms.length).all (fun bits =>
      let r := run noIters Gen.Version.serveVersionedHandlers (bitVal bits)
      if bits.getD eng false && bits.getD sun false then r.acts.contains gone && !r.acts.contains next
      else r.acts.contains next && !r.acts.contains gone) = true := by decide

/-- the same for `serveVersionedRequest` (version tree): a static-table hit is handed to `serveVersionedHandlers`; no
    route → the 404/405 path, no handler, no 410; route found → 410 without `Next()` exactly when `SetLifecycleHeaders`
    says so, else `Next()` -/
theorem serveVersionedRequest_gone_without_handler :
    let atoms := Gen.Version.serveVersionedRequest_atoms
    let effs := Gen.Version.serveVersionedRequest_effects
    let c1 := at' atoms "recv.versionCache.Load(p4 + \":\" + p1.Method)#1"
    let c2 := at' atoms "recv.versionCache.Load(p4 + \":\" + p1.Method)#0.(*CompiledRouteTable)#1 && recv.versionCache.Load(p4 + \":\" + p1.Method)#0.(*CompiledRouteTable)#0 != nil"
    let c3 := at' atoms "recv.versionCache.Load(p4 + \":\" + p1.Method)#0.(*CompiledRouteTable)#0.getRouteWithPath(p3)#0 != nil"
    let nf := at' atoms "p2.getRoute(p3, getContextFromGlobalPool())#0 == nil"
    let eng := at' atoms "recv.versionEngine != nil"
    let sun := at' atoms "recv.versionEngine.SetLifecycleHeaders(p0, p4, p2.getRoute(p3, getContextFromGlobalPool())#1)"
    let gone := at' effs "p0.WriteHeader(http.StatusGone)"
    let next := at' effs "getContextFromGlobalPool().Next()"
    let notFound := at' effs "recv.handleNotFoundWithObs(p0, p1, p5)"
    let static := at' effs "recv.serveVersionedHandlers(p0, p1, recv.versionCache.Load(p4 + \":\" + p1.Method)#0.(*CompiledRouteTable)#0.getRouteWithPath(p3)#0, recv.versionCache.Load(p4 + \":\" + p1.Method)#0.(*CompiledRouteTable)#0.getRouteWithPath(p3)#1, p4, p5)"
    [c1, c2, c3, nf, eng, sun].all (· < atoms.length) ∧ [gone, next, notFound, static].all (· < effs.length) ∧
    (allBits atoms.length).all (fun bits =>
      let b (i : Nat) := bits.getD i false
      let r := run noIters Gen.Version.serveVersionedRequest (bitVal bits)
      if b c1 && b c2 && b c3 then r.acts == [static]
      else if b nf then r.acts.contains notFound && !r.acts.contains next && !r.acts.contains gone
      else if b eng && b sun then r.acts.contains gone && !r.acts.contains next && !r.acts.contains notFound
      else r.acts.contains next && !r.acts.contains gone && !r.acts.contains notFound) = true := by decide

end Rivaas.Tie.C13Serve
