/- Translator tie (B) for C04: structural facts of binding/*.go and app/context.go, regenerated from the current
   source by extract/bindfacts.go into Gen/BindFacts.lean on every run, against what the model of request binding
   (Model/Bind.lean, Model/BindBody.lean) does at the same place. Every theorem is a conjunction
   "the source has this shape" ∧ "the model does the corresponding thing, for all inputs"; an edit to the source that
   changes the shape (an arm of a kind switch added or dropped, an overflow check moved behind the store, a limit
   compared with `>=`, a check moved behind the allocation / the recursive call, the order of the passes of
   bindMultiSource or of the sources of app.Context.bindInternal, a getter paired with another tag) breaks the
   theorem named after the fact on the next run. Core Lean only. -/
import Rivaas.Gen.BindFacts
import Rivaas.Model.BindBody
namespace Rivaas.Tie.C04Bind
open Rivaas.Gen.BindFacts Rivaas.Bind

/-- position of the first top-level statement that contains a call of `c` -/
def firstWith (c : String) (its : List Item) : Option Nat := its.findIdx? (fun it => it.calls.contains c)
/-- position of the top-level guard `g` -/
def guardAt (g : String) (its : List Item) : Option Nat := its.findIdx? (fun it => it.guard == g)
/-- the top-level guard `g` (an `if … { … return }` among the statements of the body) comes before the first
    statement in which `c` is called: it dominates every call of `c` -/
def dominates (g c : String) (its : List Item) : Bool :=
  match guardAt g its, firstWith c its with
  | some i, some j => decide (i < j)
  | _, _ => false
/-- no other limit / overflow test in the body -/
def onlyGuard (g : String) (its : List Item) : Bool := its.all (fun it => it.guard == "" || it.guard == g)
/-- `a` is called before `b` inside one statement list -/
def callsBefore (a b : String) (cs : List String) : Bool :=
  match cs.findIdx? (· == a), cs.findIdx? (· == b) with
  | some i, some j => decide (i < j)
  | _, _ => false

/-- the extractor found every function it was asked for and understood every limit / overflow test in it -/
theorem extraction_complete : problem = none := by decide

/-! ### the kind switches of setFieldValue / convertValue -/

/-- reflect.Kind of a scalar leaf of the model's grammar -/
def kindOf : Prim → Option String
  | .int 0 => some "Int" | .int 8 => some "Int8" | .int 16 => some "Int16" | .int 32 => some "Int32" | .int 64 => some "Int64"
  | .uint 0 => some "Uint" | .uint 8 => some "Uint8" | .uint 16 => some "Uint16" | .uint 32 => some "Uint32"
  | .uint 64 => some "Uint64"
  | .f32 => some "Float32" | .f64 => some "Float64" | .bool => some "Bool" | .str => some "String"
  | _ => none

/-- what the model does for the kind: (strconv parser whose result it consults, range check it makes, setter) -/
def modelArm : Prim → String × String × String
  | .int _ => ("ParseInt:64", "OverflowInt", "SetInt")
  | .uint _ => ("ParseUint:64", "OverflowUint", "SetUint")
  | .f32 => ("ParseFloat:64", "OverflowFloat", "SetFloat")
  | .f64 => ("ParseFloat:64", "OverflowFloat", "SetFloat")
  | .bool => ("parseBoolGenerous", "", "SetBool")
  | _ => ("", "", "SetString")

def kindPrims : List Prim :=
  [.str, .int 0, .int 8, .int 16, .int 32, .int 64, .uint 0, .uint 8, .uint 16, .uint 32, .uint 64, .f32, .f64, .bool]

/-- the arm of `setFieldValue` / `convertValue` for a kind -/
def setArm (k : String) : Option (List Item) := (setFieldValue_arms.find? (fun a => a.1.contains k)).map (·.2)
def convArm (k : String) : Option (List String) := (convertValue_arms.find? (fun a => a.1.contains k)).map (·.2)

def armOK (p : Prim) : Bool :=
  match kindOf p with
  | none => false
  | some k =>
    let (parser, check, setter) := modelArm p
    (match convArm k with
     | some cs => if parser == "" then cs.isEmpty else cs == [parser]
     | none => false) &&
    (match setArm k with
     | some its =>
       firstWith setter its != none &&
       (if check == "" then onlyGuard "" its else dominates check setter its && onlyGuard check its)
     | none => false)

/-- **The arms of the two kind switches are the scalar kinds of the model's grammar, each with the parser the model
    consults** (ParseInt / ParseUint / ParseFloat with bit size 64, parseBoolGenerous, the string itself), and no
    kind outside them is converted: the switches have exactly these five arms, the default arms store nothing. -/
theorem tie_kind_switch_arms :
    setFieldValue_arms.map (·.1) = convertValue_arms.map (·.1) ∧
    (setFieldValue_arms.map (·.1)).flatten = kindPrims.filterMap kindOf ∧
    kindPrims.all armOK = true ∧
    setFieldValue_default.all (fun it => it.calls.isEmpty) = true ∧
    convertValue_default.all (fun it => it.calls.isEmpty) = true := by decide

/-- model side of the range checks: what `convPrim` stores for an integer kind lies in the range of the kind, what it
    stores for float32 did not overflow -/
theorem model_int_in_range (P : Params) (cfg : Cfg) (w : Nat) (s : Bytes) (v : Val)
    (h : convPrim P cfg (.int w) s = some v) : ∃ i, v = .int i ∧ inRangeInt w i = true := by
  simp only [convPrim] at h
  split at h
  · rename_i i _
    by_cases hr : inRangeInt w i = true
    · rw [if_pos hr] at h; exact ⟨i, by cases h; rfl, hr⟩
    · rw [if_neg hr] at h; cases h
  · cases h

theorem model_uint_in_range (P : Params) (cfg : Cfg) (w : Nat) (s : Bytes) (v : Val)
    (h : convPrim P cfg (.uint w) s = some v) : ∃ n, v = .uint n ∧ inRangeUint w n = true := by
  simp only [convPrim] at h
  split at h
  · rename_i n _
    by_cases hr : inRangeUint w n = true
    · rw [if_pos hr] at h; exact ⟨n, by cases h; rfl, hr⟩
    · rw [if_neg hr] at h; cases h
  · cases h

theorem model_f32_no_overflow (P : Params) (cfg : Cfg) (s : Bytes) (v : Val)
    (h : convPrim P cfg .f32 s = some v) : ∃ b64 b32 inf, (P s).f = some (b64, b32, false, inf) ∧ v = .flt b32 := by
  simp only [convPrim] at h
  split at h
  · rename_i b64 b32 ovf inf hf
    cases ovf with
    | true => simp at h
    | false => exact ⟨b64, b32, inf, hf, by simp at h; exact h.symm⟩
  · cases h

/-- **Every integer / float arm performs the overflow check before the store** (`field.OverflowX(v)` in an
    `if … return` that precedes `field.SetX(v)`, and is the arm's only test), as the model does
    (`model_int_in_range`, `model_uint_in_range`, `model_f32_no_overflow`). -/
theorem tie_overflow_check_before_set :
    ((kindPrims.filter (fun p => (modelArm p).2.1 != "")).all fun p =>
      match (kindOf p).bind setArm with
      | some its => dominates (modelArm p).2.1 (modelArm p).2.2 its
      | none => false) = true ∧
    (∀ (P : Params) (cfg : Cfg) (w : Nat) (s : Bytes) (v : Val), convPrim P cfg (.int w) s = some v →
      ∃ i, v = .int i ∧ inRangeInt w i = true) ∧
    (∀ (P : Params) (cfg : Cfg) (w : Nat) (s : Bytes) (v : Val), convPrim P cfg (.uint w) s = some v →
      ∃ n, v = .uint n ∧ inRangeUint w n = true) ∧
    (∀ (P : Params) (cfg : Cfg) (s : Bytes) (v : Val), convPrim P cfg .f32 s = some v →
      ∃ b64 b32 inf, (P s).f = some (b64, b32, false, inf) ∧ v = .flt b32) :=
  ⟨by decide, model_int_in_range, model_uint_in_range, model_f32_no_overflow⟩

/-! ### the stages of setFieldValue -/

/-- **A registered converter is consulted first, then the special types, then `UnmarshalText`, then the kinds** -
    and so in the model: with a converter registered for the leaf type its result is the value, whatever the
    standard parse says. -/
theorem tie_conversion_stage_order :
    setFieldValue_stages = ["findConverter", "switch:type", "UnmarshalText", "convertValue", "switch:kind"] ∧
    setFieldValue_specialTypes = ["timeType", "durationType", "urlType", "ipType", "ipNetType", "regexpType"] ∧
    (∀ (P : Params) (cfg : Cfg) (s : Bytes) (c : Nat), cfg.convs.lookup timeKey = some c →
      convPrim P cfg .time s = ((P s).c.lookup c).map .time) ∧
    (∀ (P : Params) (cfg : Cfg) (s : Bytes) (k c : Nat), cfg.convs.lookup k = some c →
      convPrim P cfg (.opq k) s = ((P s).c.lookup c).map .time) := by
  refine ⟨by decide, by decide, ?_, ?_⟩
  · intro P cfg s c h; simp [convPrim, h]
  · intro P cfg s k c h; simp [convPrim, h]

/-! ### limits before allocation / insertion / descent -/

theorem model_slice_limit (P : Params) (cfg : Cfg) (ty : Ty) (cur : Val) (vs : List Bytes)
    (hne : vs.isEmpty = false) (hcsv : cfg.csv = false) :
    (cfg.maxSlice > 0 ∧ vs.length > cfg.maxSlice → setSlice P cfg ty cur vs = .error .sliceLen) ∧
    (vs.length ≤ cfg.maxSlice → setSlice P cfg ty cur vs ≠ .error .sliceLen) := by
  constructor
  · rintro ⟨h0, h1⟩
    simp [setSlice, hne, hcsv, h0, h1]
  · intro hle
    have hn : ¬ (cfg.maxSlice > 0 ∧ vs.length > cfg.maxSlice) := by omega
    unfold setSlice
    simp only [hne, hcsv, Bool.false_eq_true, if_false, Bool.false_and, decide_eq_true_eq, Bool.and_eq_true]
    rw [if_neg hn]
    split
    · split <;> simp
    · split <;> simp
    · simp

/-- **`setSliceField` compares the number of values with `maxSliceLen` (`len > limit`, 0 = no limit) before it
    allocates the slice and before it converts an element**; the model: strictly more values than the limit is the
    slice-length error, exactly the limit is not. -/
theorem tie_slice_limit_before_alloc :
    dominates "len > .maxSliceLen" "MakeSlice" setSliceField_items = true ∧
    dominates "len > .maxSliceLen" "setFieldValue" setSliceField_items = true ∧
    onlyGuard "len > .maxSliceLen" setSliceField_items = true ∧
    (∀ (P : Params) (cfg : Cfg) (ty : Ty) (cur : Val) (vs : List Bytes), vs.isEmpty = false → cfg.csv = false →
      (cfg.maxSlice > 0 ∧ vs.length > cfg.maxSlice → setSlice P cfg ty cur vs = .error .sliceLen) ∧
      (vs.length ≤ cfg.maxSlice → setSlice P cfg ty cur vs ≠ .error .sliceLen)) :=
  ⟨by decide, by decide, by decide, model_slice_limit⟩

theorem model_map_entry_limit (P : Params) (cfg : Cfg) (vty : Ty) (pre key : Bytes) (vals : List Bytes)
    (rest : List (Bytes × List Bytes)) (count : Nat) (m : List (Bytes × Val)) (mk : Bytes)
    (hk : extractMapKey key pre = some mk) (hne : mk.isEmpty = false) (h0 : cfg.maxMap > 0) (h1 : count + 1 > cfg.maxMap) :
    bindMapEntries P cfg vty pre ((key, vals) :: rest) count m = .error .mapSize := by
  simp [bindMapEntries, hk, hne, h0, h1]

/-- **The map-size limit is tested before the map is allocated (`setMapField`: counted keys `> limit`), before every
    insertion of `bindMapFromValues` (entry count `> limit`) and before the insertions of `parseJSONToMap`
    (`len > limit`)**; the model: the entry that would be number limit + 1 is the map-size error. -/
theorem tie_map_limit_before_insert :
    dominates "_ > .maxMapSize" "MakeMapWithSize" setMapField_items = true ∧
    dominates "_ > .maxMapSize" "bindMapFromValues(0)" setMapField_items = true ∧
    dominates "_ > .maxMapSize" "parseJSONToMap" setMapField_items = true ∧
    dominates "_ > .maxMapSize" "SetMapIndex" bindMapFromValues_loop = true ∧
    dominates "_ > .maxMapSize" "convertToType" bindMapFromValues_loop = true ∧
    dominates "len > .maxMapSize" "SetMapIndex" parseJSONToMap_items = true ∧
    onlyGuard "_ > .maxMapSize" setMapField_items = true ∧ onlyGuard "_ > .maxMapSize" bindMapFromValues_loop = true ∧
    onlyGuard "len > .maxMapSize" parseJSONToMap_items = true ∧
    (∀ (P : Params) (cfg : Cfg) (vty : Ty) (pre key : Bytes) (vals : List Bytes) (rest : List (Bytes × List Bytes))
       (count : Nat) (m : List (Bytes × Val)) (mk : Bytes),
       extractMapKey key pre = some mk → mk.isEmpty = false → cfg.maxMap > 0 → count + 1 > cfg.maxMap →
       bindMapEntries P cfg vty pre ((key, vals) :: rest) count m = .error .mapSize) :=
  ⟨by decide, by decide, by decide, by decide, by decide, by decide, by decide, by decide, by decide, model_map_entry_limit⟩

theorem model_depth_check (P : Params) (cfg : Cfg) (nest : Nest) (g : Getter) (depth : Nat) (f : FieldInfo) (cur : Val)
    (hm : isMapTy f.ty = false) (hs : isStructTy f.ty = true) (hd : cfg.maxDepth < depth + 1) :
    fieldAction P cfg nest g depth f cur = .inr (.err (.bind f.name .depth)) := by
  simp [fieldAction, hm, hs, hd]

/-- **The depth test (`depth > maxDepth`) is the first statement of `bindFieldsWithDepth`, before the loop that
    descends; the descent passes `depth + 1`, `setNestedStructWithDepth` hands the depth on unchanged - and makes the
    same test first, before it looks at the JSON form of the value (K04k) - and `bindFromSource` starts at 0**; the model: a nested struct at depth + 1 beyond the limit is the depth error
    naming the field, and the nested bind is not entered. -/
theorem tie_depth_check_before_descent :
    guardAt "_ > .maxDepth" bindFieldsWithDepth_items = some 0 ∧
    dominates "_ > .maxDepth" "setNestedStructWithDepth(+1)" bindFieldsWithDepth_items = true ∧
    onlyGuard "_ > .maxDepth" bindFieldsWithDepth_items = true ∧
    firstWith "setNestedStructWithDepth(+1)" bindFieldsWithDepth_loop ≠ none ∧
    firstWith "bindFieldsWithDepth" setNestedStruct_items ≠ none ∧
    guardAt "_ > .maxDepth" setNestedStruct_items = some 0 ∧
    dominates "_ > .maxDepth" "Unmarshal" setNestedStruct_items = true ∧
    firstWith "bindFieldsWithDepth(0)" bindFromSource_items ≠ none ∧
    (∀ (P : Params) (cfg : Cfg) (nest : Nest) (g : Getter) (depth : Nat) (f : FieldInfo) (cur : Val),
      isMapTy f.ty = false → isStructTy f.ty = true → cfg.maxDepth < depth + 1 →
      fieldAction P cfg nest g depth f cur = .inr (.err (.bind f.name .depth))) :=
  ⟨by decide, by decide, by decide, by decide, by decide, by decide, by decide, by decide, model_depth_check⟩

/-! ### the order inside the loop of bindFieldsWithDepth -/

/-- **The loop dispatches file, map, nested struct, then looks the value up (primary, aliases), then the typed
    default, then slices, then single values** - the order of `fieldAction` (map, struct, lookup, typed default, slice,
    scalar). -/
theorem tie_field_dispatch_order :
    ((bindFieldsWithDepth_loop.map (·.calls)).flatten.filter
      (fun c => ["setFileField", "setMapField", "setNestedStructWithDepth(+1)", "applyTypedDefault", "setSliceField", "setField"].contains c))
      = ["setFileField", "setMapField", "setNestedStructWithDepth(+1)", "applyTypedDefault", "setSliceField", "setField"] := by
  decide

/-! ### several sources -/

theorem model_multi_two_passes (P : Params) (cfg : Cfg) (fs : List Fld) (init : Val) (s1 s2 : Src) (rest : List Src) :
    bindMulti P cfg fs init (s1 :: s2 :: rest) =
      match bindPass P cfg fs (fun _ => .struct fs) ((s1 :: s2 :: rest).map fun s => { s with kvs := [] }) init with
      | .ok v => bindPass P cfg fs (fun _ => .struct (stripFs fs)) (s1 :: s2 :: rest) v
      | o => o := by
  unfold bindMulti
  have h1 : (s1 :: s2 :: rest).isEmpty = false := rfl
  have h2 : ((s1 :: s2 :: rest).length == 1) = false := by simp
  simp only [h1, h2, Bool.false_eq_true, if_false]
  cases bindPass P cfg fs (fun _ => Ty.struct fs) ((s1 :: s2 :: rest).map fun s => { s with kvs := [] }) init <;> rfl

/-- **`bindMultiSource` runs the defaults pass (every value source whose tag the type has, with a source without
    values; then `skipDefaults`) before the loop over the sources, and both loops ask `HasStructTag` before they
    bind from depth 0**; the model: with two or more sources `bindMulti` is the pass over the emptied sources
    followed by the pass over the sources on the type without default tags. -/
theorem tie_multi_source_pass_order :
    (match firstWith "=.skipDefaults" bindMultiSource_items, firstWith "bindJSONBytesInternal" bindMultiSource_items with
     | some i, some j => decide (i < j)
     | _, _ => false) = true ∧
    (bindMultiSource_items.filter (fun it => it.calls.contains "bindFieldsWithDepth(0)")).all
      (fun it => callsBefore "HasStructTag" "bindFieldsWithDepth(0)" it.calls) = true ∧
    (bindMultiSource_items.filter (fun it => it.calls.contains "bindFieldsWithDepth(0)")).length = 2 ∧
    (∀ (P : Params) (cfg : Cfg) (fs : List Fld) (init : Val) (s1 s2 : Src) (rest : List Src),
      bindMulti P cfg fs init (s1 :: s2 :: rest) =
        match bindPass P cfg fs (fun _ => .struct fs) ((s1 :: s2 :: rest).map fun s => { s with kvs := [] }) init with
        | .ok v => bindPass P cfg fs (fun _ => .struct (stripFs fs)) (s1 :: s2 :: rest) v
        | o => o) :=
  ⟨by decide, by decide, by decide, model_multi_two_passes⟩

/-! ### sources, getters and tags -/

/-- the names that go with a tag kind: entry point, `…To`, Binder method, `From…` option, getter constructor, tag
    constant, value of the constant -/
def names : Tag → List String × String × String × String
  | .query => (["Query", "QueryTo", "Binder.QueryTo", "FromQuery"], "NewQueryGetter", "TagQuery", "query")
  | .path => (["Path", "PathTo", "Binder.PathTo", "FromPath"], "NewPathGetter", "TagPath", "path")
  | .form => (["Form", "FormTo", "Binder.FormTo", "FromForm"], "NewFormGetter", "TagForm", "form")
  | .header => (["Header", "HeaderTo", "Binder.HeaderTo", "FromHeader"], "NewHeaderGetter", "TagHeader", "header")
  | .cookie => (["Cookie", "CookieTo", "Binder.CookieTo", "FromCookie"], "NewCookieGetter", "TagCookie", "cookie")
def allTags : List Tag := [.query, .path, .form, .header, .cookie]

/-- **Every entry point binds its own getter under its own tag**: `Query`, `QueryTo`, `Binder.QueryTo`, `FromQuery`
    pair `NewQueryGetter` with `TagQuery`, … for the five kinds, and the tag constants have the values the model's tag
    kinds stand for (`FieldHdr.tags`: query, path, form, header, cookie). -/
theorem tie_entry_point_tags :
    entryTags = allTags.flatMap (fun t => (names t).1.map (fun f => (f, (names t).2.1, (names t).2.2.1))) ∧
    allTags.all (fun t => tagConsts.lookup (names t).2.2.1 == some (names t).2.2.2) = true ∧
    allTags.map Tag.idx = [0, 1, 2, 3, 4] := by decide

def fromName (t : Tag) : String := (names t).1.getD 3 ""

/-- **`app.Context.bindInternal` binds path, query, header, cookie - in this order - in one `BindTo` call, before it
    looks at the body**; the model's `appBind` runs `bindMulti` over `Http.params` (the driver refuses an app case
    whose captured sources are not `appSourceKinds`) and decodes the body only after it succeeded. -/
theorem tie_app_source_order :
    app_bindInternal_sources = appSourceKinds.map fromName ∧
    (match firstWith "BindTo" app_bindInternal_items, firstWith "bindJSON" app_bindInternal_items with
     | some i, some j => decide (i < j)
     | _, _ => false) = true ∧
    (∀ (P : Params) (fs : List Fld) (init : Val) (h : Http) (strict : Bool) (st : CtxState) (e : Err),
      bindMulti P Cfg.default fs init h.params = .err e → (appBind P fs init h strict st).last = .err (.bind e)) := by
  refine ⟨by decide, by decide, ?_⟩
  intro P fs init h strict st e he
  simp [appBind, he]

/-- **The content types `bindInternal` dispatches on are those the model's `classifyCT` knows, arm by arm** (JSON and
    its patch variants and the empty type to `bindJSON`, URL-encoded and multipart forms to `bindForm`), **and `bindForm`
    tests the raw header for the prefix the model's `formSrc` tests**: with it the fields of the multipart body alone are
    bound, without it `Request.Form`. -/
theorem tie_app_content_types :
    app_contentTypeArms.map (·.2) = [["bindJSON"], ["bindForm"], ["bindForm"]] ∧
    ((app_contentTypeArms.map (·.1)).zip [CT.json, CT.form, CT.multipart]).all
      (fun p => p.1.all (fun s => classifyCT (B s) == p.2)) = true ∧
    app_bindForm_prefixes = ["multipart/form-data"] ∧
    (∀ h : Http, hasPrefix h.ctype (B "multipart/form-data") = true → formSrc h = h.mform.getD { kind := .form, kvs := [] }) ∧
    (∀ h : Http, hasPrefix h.ctype (B "multipart/form-data") = false → formSrc h = h.form) := by
  refine ⟨by decide, by decide, by decide, ?_, ?_⟩
  · intro h hp; simp [formSrc, hp]
  · intro h hp; simp [formSrc, hp]

/-- **The struct-info cache is keyed by both things the field table depends on - the struct type and the tag -, the
    table is parsed from exactly these two, and the write lock is released by a `defer` registered right after it is
    taken, before the parse (which runs application code: the `UnmarshalText` of default values)**; the model's field
    table `flatten P tag fs` is a function of the tag and the type alone, so a memo under this key is transparent. -/
theorem tie_struct_info_cache :
    cacheKey_fields.map (·.2) = ["reflect.Type", "string"] ∧
    getStructInfo_key = (cacheKey_fields.map (·.1)).zipWith (fun f p => f ++ "=" ++ p) ["param0", "param1"] ∧
    getStructInfo_parseArgs = ["param0", "param1"] ∧
    (match firstWith "Lock" getStructInfo_items, firstWith "defer:Unlock" getStructInfo_items,
       firstWith "parseStructInfo" getStructInfo_items with
     | some a, some b, some c => decide (a < b ∧ b < c)
     | _, _, _ => false) = true ∧
    firstWith "Unlock" getStructInfo_items = none ∧
    (∀ (P : Params) (tag : Tag) (fs : List Fld), flatten P tag fs = flattenFs P tag [] 0 fs) := by
  refine ⟨by decide, ?_, by decide, by decide, by decide, fun _ _ _ => rfl⟩
  decide

/-- **The literal tables**: the words `parseBoolGenerous` accepts (after ToLower ∘ TrimSpace; anything else is an
    error) are the model's `trueWords` / `falseWords`; the tag parser splits at `,` and drops `omitempty`; the bracket
    reader knows `[`, `]` and the two quotes; a prefix getter extends keys with `.` - the literals of `parseTag`,
    `extractBracketKey`, `Getter.push` / `Getter.has`. -/
theorem tie_literal_tables :
    parseBool_arms.map (fun a => (a.1.map B, a.2)) = [(trueWords, "true"), (falseWords, "false")] ∧
    parseBool_defaultIsError = true ∧ parseBool_prep = ["ToLower", "TrimSpace"] ∧
    parseTag_literals.filter (· != "") = [",", "omitempty"] ∧
    (extractBracketKey_literals.filter (· != "")).eraseDups = ["[", "]", "\"'"] ∧
    prefixGetter_Has_literals = [".", "."] ∧
    (trueWords.all (fun w => parseBool w == some true) && falseWords.all (fun w => parseBool w == some false)) = true := by
  decide

/-- what the option `name` assigns -/
def optOf (name : String) : List String := (optionWrites.filter (·.1 == name)).map (·.2)

/-- the configuration field a write goes to -/
def fieldOfWrite (w : String) : String := String.mk (w.toList.takeWhile (· != '='))

/-- **Every option the cases use assigns exactly the configuration field the limit checks / the conversion read**
    (`WithMaxDepth` → `maxDepth`, `WithMaxSliceLen` → `maxSliceLen`, `WithMaxMapSize` → `maxMapSize` - the fields of the
    guards of `tie_depth_check_before_descent`, `tie_slice_limit_before_alloc`, `tie_map_limit_before_insert` -,
    `WithSliceMode` → `sliceMode`, `WithIntBaseAuto` → `intBaseAuto`, `WithTimeLayouts` → `timeLayouts` as given,
    `WithAllErrors` → `allErrors`, `WithUnknownFields` / `WithStrictJSON` → `unknownFields`), no option writes two
    different fields, and `clone()` - the per-call configuration of a Binder - copies the whole struct and re-makes its
    two reference-typed fields. -/
theorem tie_option_writes :
    optOf "WithMaxDepth" = ["maxDepth=$0"] ∧ optOf "WithMaxSliceLen" = ["maxSliceLen=$0"] ∧
    optOf "WithMaxMapSize" = ["maxMapSize=$0"] ∧ optOf "WithSliceMode" = ["sliceMode=$0"] ∧
    optOf "WithIntBaseAuto" = ["intBaseAuto=true"] ∧ optOf "WithTimeLayouts" = ["timeLayouts=$0"] ∧
    optOf "WithAllErrors" = ["allErrors=true"] ∧ optOf "WithUnknownFields" = ["unknownFields=$0"] ∧
    optOf "WithStrictJSON" = ["->WithUnknownFields(UnknownError)"] ∧
    optionWrites.all (fun w => (optOf w.1).all (fun v => fieldOfWrite v == fieldOfWrite w.2)) = true ∧
    clone_copiesStruct = true ∧ ["sources", "typeConverters"].all clone_deepFields.contains = true := by
  decide

end Rivaas.Tie.C04Bind
