/-
C12, translator tie (B): `Gen/Guards.lean` lists, from the current source of router/*.go and router/route/*.go, every
exported method of Router, VersionRouter, VersionGroup, route.Route and route.Group that (transitively) writes
state of its receiver, with the syntactic verdict whether a frozen/serving check — or a call to a function that
performs one first — comes before the first state write.

`mutators_guarded`: every listed mutator is guarded or is on the explicit exclusion list below. A new exported
mutator without a check, or a check removed from a registration / naming / `Where*` method, makes the obligation
fail on the next run (`./check C12` then searches for a late mutation that is accepted, through the C12 harness).
-/
import Rivaas.Gen.Guards

namespace Rivaas.Tie.C12
open Rivaas.Gen.Guards

/-- middleware, 404 handler, recorder: accepted after the freeze by design; they cannot change the routing table or
    a chain that was already composed (notes/C12.md, "Observed, not findings") -/
def exclMiddleware : List (String × String) :=
  [("Router", "Use"), ("Router", "NoRoute"), ("Router", "SetObservabilityRecorder"), ("Group", "Use")]

/-- the `route.Registrar` bridge and `Route.RegisterRoute`: called by the registration functions and by `SetName`
    after their own check; `enqueueRoute` re-checks under the mutex (K12e). They are EXPORTED (the interface lives in
    package route) and unguarded: a direct call of `AddRouteToTree` / `AddVersionRoute` after serving began is accepted and
    the route is served — OPEN finding K12f (`known_findings.d/C12.jsonl`, probe `c12b-*`, `Rivaas.C12.late_bridge_call_asis`);
    they stay on this list so that the finding is reported once, by its probe, and not as a broken obligation -/
def exclRegistrarBridge : List (String × String) :=
  [("Router", "AddPendingRoute"), ("Router", "RegisterRouteNow"), ("Router", "AddRouteToTree"), ("Router", "AddVersionRoute"),
   ("Router", "RegisterNamedRoute"), ("Router", "StoreRouteInfo"), ("Route", "RegisterRoute")]

/-- metadata that never enters the routing table (descriptions, tags, back references, the name prefix that only
    affects a later — guarded — `SetName`), and the lifecycle headers of a version (C13) -/
def exclMetadata : List (String × String) :=
  [("Route", "SetDescription"), ("Route", "SetTags"), ("Route", "SetGroup"), ("Route", "SetVersionGroup"),
   ("Route", "SetReversePattern"), ("Group", "SetNamePrefix"), ("VersionGroup", "SetNamePrefix"), ("VersionRouter", "Configure")]

/-- serving itself (ServeHTTP performs the freeze), server start/stop, and RouteExists (borrows a pooled context) -/
def exclServing : List (String × String) :=
  [("Router", "ServeHTTP"), ("Router", "Serve"), ("Router", "ServeTLS"), ("Router", "Shutdown"), ("Router", "RouteExists")]

def excluded : List (String × String) := exclMiddleware ++ exclRegistrarBridge ++ exclMetadata ++ exclServing

/-- THE regenerated obligation: every exported mutator checks frozen/serving before its first state write, or is excluded -/
theorem mutators_guarded :
    mutators.all (fun m => m.2.2 || excluded.contains (m.1, m.2.1)) = true := by decide

/-- the methods the phase model of C12 is about are in the table and guarded: registration through all four registrars,
    static file routes, mounting, naming, the eight `Where*`, URL building -/
theorem registration_naming_where_guarded :
    ([("Router", "GET"), ("Router", "POST"), ("Router", "PUT"), ("Router", "DELETE"), ("Router", "PATCH"), ("Router", "OPTIONS"),
      ("Router", "HEAD"), ("Router", "AddRouteWithConstraints"), ("Router", "Static"), ("Router", "StaticFS"), ("Router", "StaticFile"),
      ("Router", "StaticEmbed"), ("Router", "Mount"),
      ("Group", "GET"), ("Group", "POST"), ("Group", "PUT"), ("Group", "DELETE"), ("Group", "PATCH"), ("Group", "OPTIONS"), ("Group", "HEAD"),
      ("VersionRouter", "Handle"), ("VersionRouter", "GET"), ("VersionRouter", "POST"), ("VersionRouter", "PUT"), ("VersionRouter", "DELETE"),
      ("VersionRouter", "PATCH"), ("VersionRouter", "OPTIONS"), ("VersionRouter", "HEAD"),
      ("VersionGroup", "Handle"), ("VersionGroup", "GET"), ("VersionGroup", "POST"),
      ("Route", "SetName"), ("Route", "Where"), ("Route", "WhereInt"), ("Route", "WhereFloat"), ("Route", "WhereUUID"), ("Route", "WhereRegex"),
      ("Route", "WhereEnum"), ("Route", "WhereDate"), ("Route", "WhereDateTime")] : List (String × String)).all
      (fun k => mutators.contains (k.1, k.2, true)) = true := by decide

end Rivaas.Tie.C12
