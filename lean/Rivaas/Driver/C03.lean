import Rivaas.Proto
import Rivaas.Model.Pool
import Rivaas.Model.Radix
/-
Driver for C03. One case = one history of requests on the process-wide context pool.

  <id> H <n> (<obj> <steps> <dirty> <accRef> <acceptHeader>)^n <names> => <n> (<view>)^n

  obj     = index of the pooled object the request's handler received (numbered by first appearance: measured)
  steps   = <k> (Q n | P n | H n | R n | I int | Z | V str | T str | W str str)^k     preparation of the serve path
  dirty   = <k> (E n | A | M str str | S idx str str | C int | X str | N int | P | D | Y str str)^k      what the handlers did afterwards
  accRef  = str    results of the four Accept* helpers on a brand-new context for this request (parameter)
  names   = <m> str^m    parameter names the probe asks for
  routes  = <k> (method version pattern intParam)^k   the registered routes; lookups = <j> (reqIndex method version path)^j:
            requests whose parameters come from a radix-tree lookup — recomputed with Model/Radix.getRoute
  view    = <paramCount int> <all: m (k v)^m sorted> <map: m (k v)^m sorted> <version> <pattern> <aborted> <nerrors>
            <acc str> <presence nat> <params: m (name value)^m> <retained: nat bitmask of non-clean fields after release> <stable 0|1> <shared 0|1>
  <id> N <goroutines> <iterations> => <requests served> <answers that differ from the sequential reference>
  observation `P` = a panic in framework code, `T` = the history did not complete within the harness's bound
-/
namespace Rivaas.DriverC03
open Rivaas.Proto Rivaas.Pool

inductive Dirty
  | errors (n : Nat)                  -- c.Error(err) n times
  | abort                             -- c.Abort()
  | mapSet (k v : Bytes)              -- c.Params[k] = v (allocating the map when nil)
  | setParam (i : Nat) (k v : Bytes)  -- c.SetParam(i, k, v)
  | setCount (n : Int)                -- c.SetParamCount(n)
  | accepts (hdr : Bytes)             -- an Accept* helper parsed and cached this header
  | index (n : Int)                   -- the chain ran: c.index is past the last handler
  | panics                            -- the handler panicked out of ServeHTTP (deferred releases still reset; otherwise the object is dropped)
  | stream                            -- c.DataFromReader to a connection that dies: no field of the context changes
  | copyEdit (k v : Bytes)            -- the handler changes the map AllParams() returned: a copy, invisible to everyone

def Dirty.apply : Dirty → Ctx → Ctx
  | .errors n, c => { c with errors := c.errors ++ List.replicate n 1 }
  | .abort, c => { c with aborted := true }
  | .mapSet k v, c => { c with params := some (Rivaas.Pool.mapSet (c.params.getD []) k v) }
  | .setParam i k v, c =>
    if i < 8 then { c with slots := fun j => if j = i then (k, v) else c.slots j }
    else { c with params := some (Rivaas.Pool.mapSet (c.params.getD []) k v) }
  | .setCount n, c => { c with paramCount := n }
  | .accepts h, c => { c with acceptHeader := h, acceptSpecs := 1, arena := 1 }
  | .index n, c => { c with index := n }
  | .panics, c => c
  | .stream, c => c
  | .copyEdit _ _, c => c

def pStep : P Step := do
  let k ← tok
  if k == "Q" then Step.setRequest <$> nat
  else if k == "P" then Step.setResponse <$> nat
  else if k == "H" then Step.setHandlers <$> nat
  else if k == "R" then Step.setRouter <$> nat
  else if k == "I" then Step.setIndex <$> int
  else if k == "Z" then pure Step.zeroCount
  else if k == "V" then Step.setVersion <$> str
  else if k == "T" then Step.setPattern <$> str
  else if k == "W" then (do let a ← str; let b ← str; pure (Step.writeParam a b))
  else failure

def pDirty : P Dirty := do
  let k ← tok
  if k == "E" then Dirty.errors <$> nat
  else if k == "A" then pure Dirty.abort
  else if k == "M" then (do let a ← str; let b ← str; pure (Dirty.mapSet a b))
  else if k == "S" then (do let i ← nat; let a ← str; let b ← str; pure (Dirty.setParam i a b))
  else if k == "C" then Dirty.setCount <$> int
  else if k == "X" then Dirty.accepts <$> str
  else if k == "N" then Dirty.index <$> int
  else if k == "P" then pure Dirty.panics
  else if k == "D" then pure Dirty.stream
  else if k == "Y" then (do let a ← str; let b ← str; pure (Dirty.copyEdit a b))
  else failure

structure Req where
  obj : Nat
  steps : List Step
  dirty : List Dirty
  accRef : Bytes
  hdr : Bytes          -- this request's Accept header

def pReq : P Req := do
  let o ← nat; let s ← list pStep; let d ← list pDirty; let a ← str; let h ← str
  pure ⟨o, s, d, a, h⟩

def pKV : P KV := do let k ← str; let v ← str; pure (k, v)

/-- what the probe reads through the API (canonical) -/
structure Probe where
  paramCount : Int
  all : List KV          -- AllParams(), sorted by key
  mapE : List KV         -- c.Params, sorted by key
  version : Bytes
  pattern : Bytes
  aborted : Bool
  nerrors : Nat
  acc : Bytes            -- results of the four Accept* helpers
  presence : Nat         -- app level: len(c.Presence()) at handler start
  params : List KV       -- Param(name) for every asked name
  deriving DecidableEq

/-- probe, retained-object mask, `stable` (the view did not change while a nested request was served), `shared`
    (the nested request's handler received the same *Context) -/
def pProbe : P (Probe × Nat × Bool × Bool) := do
  let pc ← int; let all ← list pKV; let mp ← list pKV
  let v ← str; let pt ← str; let ab ← bool; let ne ← nat; let acc ← str; let pr ← nat
  let ps ← list pKV; let retained ← nat; let stable ← bool; let shared ← bool
  pure (⟨pc, all, mp, v, pt, ab, ne, acc, pr, ps⟩, retained, stable, shared)

/-- lexicographic order on byte strings -/
def ltBytes : Bytes → Bytes → Bool
  | [], [] => false
  | [], _ :: _ => true
  | _ :: _, [] => false
  | a :: r, b :: s => a.toNat < b.toNat || (a.toNat == b.toNat && ltBytes r s)

def insertKV (kv : KV) : List KV → List KV
  | [] => [kv]
  | x :: r => if ltBytes kv.1 x.1 then kv :: x :: r else if kv.1 = x.1 then kv :: r else x :: insertKV kv r

/-- Go map built by inserting in order (later wins), rendered sorted by key -/
def sortedMap (l : List KV) : List KV := l.foldl (fun m kv => insertKV kv m) []

def lookupKV (l : List KV) (k : Bytes) : Option Bytes := (l.find? (·.1 == k)).map (·.2)

/-- `Param(key)`: visible slots in slot order (first hit), then the map -/
def paramOf (v : View) (k : Bytes) : Bytes :=
  match lookupKV v.visible k with
  | some x => x
  | none => (lookupKV v.mapEntries k).getD []

/-- render a model view the way the probe reads the implementation. The Accept cache is observed through the
    helpers' results: they equal the reference whenever no stale cache entry for this request's header is visible. -/
def render (v : View) (names : List Bytes) (accRef : Bytes) (hdr : Bytes) : Probe :=
  { paramCount := v.paramCount,
    all := sortedMap (v.visible ++ v.mapEntries),     -- AllParams: slots first, then maps.Copy overrides
    mapE := sortedMap v.mapEntries,
    version := v.version, pattern := v.routePattern, aborted := v.aborted, nerrors := v.errors.length,
    acc := if v.acceptHeader = [] ∨ v.acceptHeader ≠ hdr then accRef else "<stale-accept-cache>".toList,
    presence := 0,
    params := names.map fun n => (n, paramOf v n) }

/-- run the pool model over the history, picking the pooled object the implementation was observed to reuse -/
def runModel (reqs : List Req) : List View × List View :=
  let rec go (pool : List (Nat × Ctx)) (rs : List Req) (seen fresh : List View) : List View × List View :=
    match rs with
    | [] => (seen.reverse, fresh.reverse)
    | r :: rest =>
      let c := ((pool.find? (·.1 == r.obj)).map (·.2)).getD brandNew
      let s := prepare r.steps c
      let after := reset (r.dirty.foldl (fun c d => d.apply c) s)
      go ((r.obj, after) :: pool.filter (·.1 != r.obj)) rest (view s :: seen) (view (prepare r.steps brandNew) :: fresh)
  go [] reqs [] []

/-! ### the parameter writes of radix-tree lookups, recomputed with the routing model (Model/Radix) -/

structure RouteReg where
  method : Bytes
  ver : Bytes
  pattern : Bytes
  intParam : Bytes     -- name of a parameter constrained to digits ([] = none)

structure Lookup where
  out : Nat            -- index of the request in the case
  method : Bytes
  ver : Bytes          -- [] = main tree, else the version tree
  path : Bytes

def isDigits (v : Bytes) : Bool := v != [] && v.all fun c => '0' ≤ c && c ≤ '9'

/-- the method tree the router builds from the registrations, in registration order -/
def treeFor (routes : List RouteReg) (method ver : Bytes) : Rivaas.Radix.Tree :=
  let rec go (t : Rivaas.Radix.Tree) (i : Nat) : List RouteReg → Rivaas.Radix.Tree
    | [] => t
    | r :: rest =>
      if r.method == method && r.ver == ver then
        go (Rivaas.Radix.addRoute t r.pattern i (if r.intParam == [] then [] else [(r.intParam, 1)])) (i + 1) rest
      else go t (i + 1) rest
  go Rivaas.Radix.Tree.empty 0 routes

/-- the `writeParam` steps of a preparation -/
def writesOf (steps : List Step) : List KV :=
  steps.filterMap fun s => match s with | .writeParam k v => some (k, v) | _ => none

/-- the routing model's answer for the lookup equals the predicted parameter writes: the first eight in the slots, in
    order, the rest in the map -/
def lookupAgrees (routes : List RouteReg) (reqs : List Req) (lk : Lookup) : Bool :=
  match reqs[lk.out]? with
  | none => false
  | some r =>
    let (leaf, ctx) := Rivaas.Radix.getRoute (fun _ v => isDigits v) (treeFor routes lk.method lk.ver) lk.path Rivaas.Radix.Ctx.fresh
    let ws := writesOf r.steps
    leaf.isSome && ctx.slots == ws.take 8 && sortedMap ctx.over == sortedMap (ws.drop 8)

/-- fields that may be non-zero on a released object: router (3), index (4), paramKeys (6), paramValues (7) -/
def retainedAllowed : Nat := 2^3 + 2^4 + 2^6 + 2^7

def step (line : String) : String :=
  match splitCase line with
  | none => "? bad-line"
  | some (id, inp, obs) =>
    -- a framework panic during the history, or a request that never completed: violations by themselves
    if obs == ["P"] then verdict id false false "-" "framework-panic" else
    if obs == ["T"] then verdict id false false "-" "request-never-completed" else
    match inp with
    | "N" :: _ =>
      -- concurrent negotiation: every answer was compared with the answer a fresh sequential call gives for the
      -- request's own headers; the model (no state shared between requests) predicts no mismatch
      match runP (do let served ← nat; let bad ← nat; pure (served, bad)) obs with
      | some (served, bad) => verdict id (bad == 0 && served > 0) (bad == 0 && served > 0) "-" s!"{served} 0"
      | none => s!"{id} bad-case"
    | "H" :: rest =>
      match runP (do
          let rs ← list pReq; let ns ← list str
          let routes ← list (do let m ← str; let v ← str; let p ← str; let ip ← str; pure (⟨m, v, p, ip⟩ : RouteReg))
          let lks ← list (do let o ← nat; let m ← str; let v ← str; let p ← str; pure (⟨o, m, v, p⟩ : Lookup))
          pure (rs, ns, routes, lks)) rest, runP (list pProbe) obs with
      | some (reqs, names, routes, lks), some probes =>
        -- the predicted parameter writes are what the routing model computes for the registered routes
        let routed := lks.all (lookupAgrees routes reqs)
        let (seen, fresh) := runModel reqs
        let mk := fun (vs : List View) => (vs.zip reqs).map fun (v, r) => render v names r.accRef r.hdr
        let mSeen := mk seen
        let mFresh := mk fresh
        let impl := probes.map (·.1)
        -- the model: two requests in flight never share a context, so nothing changes under a running handler
        let exclusive := probes.all (fun p => p.2.2.1 && !p.2.2.2)
        let mi := mSeen == impl && exclusive && routed
        -- oracle: the implementation's view is the brand-new view, it stays the request's own while another request
        -- is served, no two in-flight requests hold the same context, and the released object is clean
        let s := mFresh == impl && exclusive &&
          probes.all (fun p => p.2.1 &&& (Nat.xor (2^30 - 1) retainedAllowed) == 0)
        verdict id mi s "-" s!"{mSeen.length}"
      | _, _ => s!"{id} bad-case"
    | _ => s!"{id} bad-case"

end Rivaas.DriverC03

def main : IO UInt32 := Rivaas.Proto.driverMain Rivaas.DriverC03.step
