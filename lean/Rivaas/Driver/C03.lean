import Rivaas.Proto
/- Driver for C03 (stub: not built yet) -/
def main : IO UInt32 := do
  IO.eprintln "driver for C03 is not built yet"
  return 2
