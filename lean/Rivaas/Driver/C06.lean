import Rivaas.Proto
import Rivaas.Spec.ErrFmt
/-
Driver for C06.

Fail case:
  <id> A <r|s> <path> <stText: n (<nat> <str>)…> <opts: n opt…> <accept: 0 | 1 str> <answers: n str…>
       <ParseFloat table: n (<raw q value> <0 | 1 millionths>)…>
       <preCT: 0 | 1 str> <abortFirst> <ctxDone> <pos> <call>
       => R <status> <ctype> <bodies: n json…> <aborted> <entered: n nat…> <"handler error" log records: n (<error text> <status>)…> | P
MarshalJSON case:
  <id> M <type> <title> <status> <detail> <instance> <ext: n (<str> json)…> => R json | E | P

  opt  ::= F fmt | M <n> (<str> fmt)… | D <str>
  fmt  ::= <r|j|s> <baseURL> <disableID> <statusRes: 0 | 1 nat> <typeRes: 0 | 1 str>
  call ::= C err | S <nat> <0 | 1 err> | H <helper 0..9> <0 | 1 err>
  err  ::= N <st: 0 | 1 nat> <code: 0 | 1 str> <det: 0 | 1 json | 2 (Details() cannot be encoded)> msg <n> err…
  msg  ::= O <str> | P <str> | J | I | T <nat>
  json ::= z | t | f | n <str> | s <str> | a <n> json… | o <n> (<str> json)…
-/
namespace Rivaas.DriverC06
open Rivaas.Proto Rivaas.ErrFmt

def pJson : Nat → P Json
  | 0 => failure
  | fuel+1 => do
    let k ← tok
    if k == "z" then pure .null
    else if k == "t" then pure (.bool true)
    else if k == "f" then pure (.bool false)
    else if k == "n" then Json.num <$> str
    else if k == "s" then Json.str <$> str
    else if k == "a" then Json.arr <$> list (pJson fuel)
    else if k == "o" then Json.obj <$> list (do let key ← str; let v ← pJson fuel; pure (key, v))
    else failure

def pMsg : P Msg := do
  let k ← tok
  if k == "O" then Msg.own <$> str
  else if k == "P" then Msg.prefixed <$> str
  else if k == "J" then pure .joined
  else if k == "I" then pure .inherit
  else if k == "T" then Msg.statusText <$> nat
  else failure

def pErr : Nat → P Err
  | 0 => failure
  | fuel+1 => do
    lit "N"
    let st ← opt nat
    let code ← opt str
    let dk ← tok
    let (det, bad) ← (if dk == "0" then pure (none, false)
      else if dk == "1" then (fun j => (some j, false)) <$> pJson fuel
      else if dk == "2" then pure (some Json.null, true)
      else failure : P (Option Json × Bool))
    let m ← pMsg
    let kids ← list (pErr fuel)
    pure (.node { st := st, code := code, det := det, detBad := bad } m kids)

def pKind : P FKind := do
  let k ← tok
  if k == "r" then pure .rfc9457 else if k == "j" then pure .jsonapi else if k == "s" then pure .simple else failure

def pFmt : P Fmt := do
  let kind ← pKind
  let base ← str
  let dis ← bool
  let sr ← opt nat
  let tr ← opt str
  pure { kind := kind, baseURL := base, disableID := dis, statusRes := sr, typeRes := tr }

def pOpt : P Opt := do
  let k ← tok
  if k == "F" then Opt.formatter <$> pFmt
  else if k == "M" then Opt.formatters <$> list (do let mt ← str; let f ← pFmt; pure (mt, f))
  else if k == "D" then Opt.defaultFormat <$> str
  else failure

def helperOf : Nat → Option Helper
  | 0 => some .notFound | 1 => some .badRequest | 2 => some .unauthorized | 3 => some .forbidden
  | 4 => some .conflict | 5 => some .gone | 6 => some .unprocessable | 7 => some .tooMany
  | 8 => some .internal | 9 => some .unavailable | _ => none

def pCall (fuel : Nat) : P Call := do
  let k ← tok
  if k == "C" then Call.fail <$> pErr fuel
  else if k == "S" then do
    let s ← nat
    let e ← opt (pErr fuel)
    pure (.failStatus s e)
  else if k == "H" then do
    let i ← nat
    let e ← opt (pErr fuel)
    match helperOf i with
    | some h => pure (.helper h e)
    | none => failure
  else failure

structure ACase where
  wire : Wire
  path : Bytes
  stTab : List (Nat × Bytes)
  opts : List Opt
  accept : Option Bytes
  answers : List Bytes
  /-- `strconv.ParseFloat` on the raw q values of the header (parameter of C19's model of `Accepts`) -/
  pfTab : List (Bytes × Option Nat)
  preCT : Option Bytes
  abortFirst : Bool
  ctxDone : Bool
  pos : Nat
  call : Call

def pWire : P Wire := do
  let k ← tok
  if k == "r" then pure .recorder else if k == "s" then pure .server else failure

def pACase (fuel : Nat) : P ACase := do
  let w ← pWire
  let path ← str
  let tab ← list (do let n ← nat; let s ← str; pure (n, s))
  let opts ← list pOpt
  let accept ← opt str
  let answers ← list str
  let pfTab ← list (do let raw ← str; let v ← opt nat; pure (raw, v))
  let pre ← opt str
  let ab ← bool
  let cd ← bool
  let pos ← nat
  let call ← pCall fuel
  pure { wire := w, path := path, stTab := tab, opts := opts, accept := accept, answers := answers, pfTab := pfTab, preCT := pre, abortFirst := ab, ctxDone := cd,
         pos := pos, call := call }

def pResp (fuel : Nat) : P (Option (Resp × List LogRec)) := do
  let k ← tok
  if k == "R" then
    let st ← nat
    let ct ← str
    let bodies ← list (pJson fuel)
    let ab ← bool
    let entered ← list nat
    let logs ← list (do let e ← str; let s ← nat; pure ({ error := e, status := s } : LogRec))
    pure (some ({ status := st, contentType := ct, bodies := bodies, aborted := ab, entered := entered }, logs))
  else if k == "P" then pure none
  else failure

def stTextOf (tab : List (Nat × Bytes)) (n : Nat) : Bytes :=
  match tab.find? fun kv => kv.1 == n with
  | some kv => kv.2
  | none => []

partial def encJson : Json → String
  | .null => "z"
  | .bool true => "t"
  | .bool false => "f"
  | .num t => "n " ++ encStr t
  | .str s => "s " ++ encStr s
  | .arr xs => "a " ++ toString xs.length ++ String.join (xs.map fun x => " " ++ encJson x)
  | .obj kvs => "o " ++ toString kvs.length ++ String.join (kvs.map fun kv => " " ++ encStr kv.1 ++ " " ++ encJson kv.2)

def encResp (r : Resp) : String :=
  s!"R {r.status} {encStr r.contentType} {r.bodies.length}" ++ String.join (r.bodies.map fun b => " " ++ encJson b) ++
  (if r.aborted then " 1 " else " 0 ") ++ toString r.entered.length ++ String.join (r.entered.map fun n => " " ++ toString n)

def encLogs (l : List LogRec) : String :=
  s!" {l.length}" ++ String.join (l.map fun r => " " ++ encStr r.error ++ " " ++ toString r.status)

def respEq (a b : Resp) : Bool :=
  a.status == b.status && a.contentType == b.contentType && a.bodies == b.bodies && a.aborted == b.aborted && a.entered == b.entered

def canonResp (r : Resp) : Resp := { r with bodies := r.bodies.map Json.canon }

/-- the model's possible responses: one per answer `c.Accepts` can give (the order of the offers is
    the iteration order of a Go map) -/
def pfOf (tab : List (Bytes × Option Nat)) : Rivaas.Accept.PF := fun raw =>
  match tab.find? fun kv => kv.1 == raw with
  | some kv => kv.2
  | none => none

/-- what the modelled `c.Accepts` answers, for every order of the configured media types (the order of the offers
    is the iteration order of a Go map) -/
def modelAnswers (c : ACase) : List Bytes :=
  ((perms ((mkCfg c.opts).formatters.map (·.1))).map (acceptsOf (pfOf c.pfTab) c.accept)).eraseDups

def sameSet (a b : List Bytes) : Bool := a.all b.contains && b.all a.contains

/-- the model's possible responses: one per answer the modelled `c.Accepts` can give -/
def possible (c : ACase) : List (Resp × List LogRec) :=
  let env : Env := { path := c.path, stText := stTextOf c.stTab }
  let cfg := mkCfg c.opts
  (modelAnswers c).map fun ans => (canonResp (failH c.preCT c.abortFirst c.ctxDone env cfg ans c.wire c.pos c.call),
    failLogs env cfg ans c.wire c.call)

def stepA (id : String) (inp obs : List String) : String :=
  match runP (pACase inp.length) inp, runP (pResp obs.length) obs with
  | some c, some o =>
    let ms := possible c
    let mi := match o with
      -- the response is one the model can give, and the real `Accepts` answers (asked for every order of the
      -- offers) are exactly the ones C19's model of it gives
      | some (r, logs) => (ms.any fun m => respEq r m.1 && logs == m.2) && sameSet c.answers (modelAnswers c)
      | none => false
    let s := match o with
      | some (r, _) => specOK c.opts c.accept c.pos c.call r
      | none => false
    let d := if knownK06c c.wire c.opts c.accept c.call then "K06c" else "-"
    verdict id mi s d (match ms with | m :: _ => encResp m.1 ++ encLogs m.2 | [] => "none")
  | _, _ => s!"{id} bad-case"

/-- a formatter whose body never encodes: `<id> B <pos> => R … | P`; only the abort clause is judged -/
def stepB (id : String) (inp obs : List String) : String :=
  match runP nat inp, runP (pResp obs.length) obs with
  | some pos, some o =>
    let m := failUnencodable pos
    let mi := match o with | some (r, _) => respEq r m | none => false
    let s := match o with | some (r, _) => abortOK pos r | none => false
    verdict id mi s "-" (encResp m)
  | _, _ => s!"{id} bad-case"

def stepM (id : String) (inp obs : List String) : String :=
  let pIn : P Problem := do
    let ty ← str; let ti ← str; let st ← nat; let de ← str; let ins ← str
    let ext ← list (do let k ← str; let v ← pJson inp.length; pure (k, v))
    pure { type := ty, title := ti, status := st, detail := de, instance_ := ins, extensions := ext }
  let pOut : P (Option Json) := do
    let k ← tok
    if k == "R" then some <$> pJson obs.length else if k == "E" || k == "P" then pure none else failure
  match runP pIn inp, runP pOut obs with
  | some p, some o =>
    let m := (marshalProblem p).canon
    let mi := match o with | some b => b == m | none => false
    let s := match o with | some b => marshalOK p b | none => false
    verdict id mi s "-" ("R " ++ encJson m)
  | _, _ => s!"{id} bad-case"

/-- direct `Formatter.Format` call: `<id> F <path> <stText…> fmt err => R <status> <ctype> json | P` -/
def stepF (id : String) (inp obs : List String) : String :=
  let pIn : P (Bytes × List (Nat × Bytes) × Fmt × Err) := do
    let path ← str
    let tab ← list (do let n ← nat; let s ← str; pure (n, s))
    let f ← pFmt
    let e ← pErr inp.length
    pure (path, tab, f, e)
  let pOut : P (Option (Nat × Bytes × Json)) := do
    let k ← tok
    if k == "R" then do
      let st ← nat; let ct ← str; let b ← pJson obs.length
      pure (some (st, ct, b))
    else if k == "P" then pure none else failure
  match runP pIn inp, runP pOut obs with
  | some (path, tab, f, e), some o =>
    let env : Env := { path := path, stText := stTextOf tab }
    let m := format env f e
    let mb := m.body.canon
    let mi := match o with | some (st, ct, b) => st == m.status && ct == m.contentType && b == mb | none => false
    let s := match o with
      | some (st, ct, b) => st == docStatus f (.fail e) && headerMediaType ct == mediaTypeOf f.kind && shapeOK f.kind st b
      | none => false
    verdict id mi s "-" (s!"R {m.status} {encStr m.contentType} " ++ encJson mb)
  | _, _ => s!"{id} bad-case"

def step (line : String) : String :=
  match splitCase line with
  | none => "? bad-line"
  | some (id, inp, obs) =>
    match inp with
    | "A" :: rest => stepA id rest obs
    | "M" :: rest => stepM id rest obs
    | "B" :: rest => stepB id rest obs
    | "F" :: rest => stepF id rest obs
    | _ => s!"{id} bad-case"

end Rivaas.DriverC06

def main : IO UInt32 := Rivaas.Proto.driverMain Rivaas.DriverC06.step
