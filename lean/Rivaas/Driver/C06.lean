import Rivaas.Proto
/- Driver for C06 (stub: not built yet) -/
def main : IO UInt32 := do
  IO.eprintln "driver for C06 is not built yet"
  return 2
