import Rivaas.Proto
import Rivaas.Spec.Log
import Rivaas.Spec.LogBuf
import Rivaas.Spec.LogConfig
/-
Driver for C20.

Redaction case:
  <id> R <j|t|c> <buffered> <user> <root: n attr…> <chain: n op…> <call: n attr…> <cores: n str…>
       => O <pairs: n (<path: n str…> <value>)…> <occ: n bool…> | P
  attr ::= L <key> <value> | G <key> <n> attr…
  op   ::= W <n> attr… | Q <name>
  user ::= N | T <key> | A <key> | X <prefix>
-/
namespace Rivaas.DriverC20
open Rivaas.Proto Rivaas.Log

/-- attribute trees are nested: parse with fuel (the number of tokens bounds the depth) -/
def pAttr : Nat → P Attr
  | 0 => failure
  | fuel+1 => do
    let k ← tok
    if k == "L" then
      let key ← str
      let v ← str
      pure (.leaf key v)
    else if k == "G" then
      let key ← str
      let as ← list (pAttr fuel)
      pure (.group key as)
    else failure

def pOp (fuel : Nat) : P ChainOp := do
  let k ← tok
  if k == "W" then ChainOp.withAttrs <$> list (pAttr fuel)
  else if k == "Q" then ChainOp.withGroup <$> str
  else failure

def pUser : P UserRep := do
  let k ← tok
  if k == "N" then pure .none
  else if k == "T" then UserRep.dropTop <$> str
  else if k == "A" then UserRep.dropAny <$> str
  else if k == "X" then UserRep.addPrefix <$> str
  else failure

def pHType : P HType := do
  let k ← tok
  if k == "j" then pure .json else if k == "t" then pure .text else if k == "c" then pure .console else failure

structure RCase where
  c : Case
  cores : List Bytes

def pRCase (fuel : Nat) : P RCase := do
  let h ← pHType
  let b ← bool
  let u ← pUser
  let root ← list (pAttr fuel)
  let chain ← list (pOp fuel)
  let call ← list (pAttr fuel)
  let cores ← list str
  pure { c := { h := h, user := u, root := root, chain := chain, call := call, buffered := b }, cores := cores }

def pPair : P Pair := do
  let path ← list str
  let v ← str
  pure (path, v)

/-- `O pairs occ` or `P` (the log call panicked) -/
def pRObs : P (Option (List Pair × List Bool)) := do
  let k ← tok
  if k == "O" then
    let ps ← list pPair
    let occ ← list bool
    pure (some (ps, occ))
  else if k == "P" then pure none
  else failure

def isPrefix : Bytes → Bytes → Bool
  | [], _ => true
  | _ :: _, [] => false
  | a :: as, b :: bs => a == b && isPrefix as bs

def isInfix (needle : Bytes) : Bytes → Bool
  | [] => needle.isEmpty
  | hay@(_ :: rest) => isPrefix needle hay || isInfix needle rest

/-- does the core of each input attribute occur in some value the model prints -/
def modelOcc (cores : List Bytes) (out : List Pair) : List Bool :=
  cores.map fun core => out.any fun p => isInfix core p.2

def encPairs (ps : List Pair) : String :=
  toString ps.length ++ String.join (ps.map fun p =>
    " " ++ toString p.1.length ++ String.join (p.1.map fun k => " " ++ encStr k) ++ " " ++ encStr p.2)

def encBools (bs : List Bool) : String :=
  toString bs.length ++ String.join (bs.map fun b => if b then " 1" else " 0")

def stepR (id : String) (inp obs : List String) : String :=
  match runP (pRCase inp.length) inp, runP pRObs obs with
  | some rc, some o =>
    let m := emit rc.c
    let mocc := modelOcc rc.cores m
    let mi := match o with
      | some (ps, occ) => ps == m && occ == mocc
      | none => false
    let s := match o with
      | some (ps, occ) => specOK rc.c ps occ
      | none => false
    verdict id mi s "-" ("O " ++ encPairs m ++ " " ++ encBools mocc)
  | _, _ => s!"{id} bad-case"

/-! buffering cases:
  <id> B <custom> <progs: n (<n> op…)…> <sched: n step…> => T <n> ev… | X
  op ::= L <seq> <lvl> <derived> <fail> <stale> | S | F | V <lvl> | H      step ::= s <g> | r <g>
  ev ::= b <g> <i> | d <g> <i> | w <g> <seq> <intact> -/
open Rivaas.LogBuf in
def pBOp : P Op := do
  let k ← tok
  if k == "L" then do
    let seq ← nat; let lvl ← nat; let d ← bool; let f ← bool; let st ← bool
    pure (.log { seq := seq, lvl := lvl, derived := d, fail := f, stale := st })
  else if k == "S" then pure .startBuffering
  else if k == "F" then pure .flush
  else if k == "V" then Op.setLevel <$> nat
  else if k == "H" then pure .shutdown
  else failure

open Rivaas.LogBuf in
def pBStep : P Step := do
  let k ← tok
  if k == "s" then Step.seg <$> nat else if k == "r" then Step.run <$> nat else failure

open Rivaas.LogBuf in
def pEv : P Ev := do
  let k ← tok
  if k == "b" then do let g ← nat; let i ← nat; pure (.begin g i)
  else if k == "d" then do let g ← nat; let i ← nat; pure (.done g i)
  else if k == "w" then do let g ← nat; let s ← nat; let i ← bool; pure (.write g s i)
  else failure

open Rivaas.LogBuf in
def encEv : Ev → String
  | .begin g i => s!" b {g} {i}"
  | .done g i => s!" d {g} {i}"
  | .write g s i => s!" w {g} {s} {if i then 1 else 0}"

open Rivaas.LogBuf in
def stepB (id : String) (inp obs : List String) : String :=
  let pIn : P (Bool × List (List Op) × List Step) := do
    let c ← bool
    let progs ← list (list pBOp)
    let sched ← list pBStep
    pure (c, progs, sched)
  let pOut : P (Option (List Ev)) := do
    let k ← tok
    -- X: a worker panicked; Y: a second, independent Logger alive in the same process lost, duplicated or
    -- received records (no state may be shared between loggers) — neither has a trace, both fail the oracle
    if k == "T" then some <$> list pEv else if k == "X" || k == "Y" then pure none else failure
  match runP pIn inp, runP pOut obs with
  | some (custom, progs, sched), some o =>
    let m := LogBuf.run Flags.fixed custom progs sched
    let mi := match o with | some tr => tr == m | none => false
    let s := match o with | some tr => LogBuf.specOK custom progs tr | none => false
    verdict id mi s "-" ("T " ++ toString m.length ++ String.join (m.map encEv))
  | _, _ => s!"{id} bad-case"

/-! stress cases: `<id> Z <G> <logged…> => R <G> (<n> (<start> <len>)…)…` -/
def stepZ (id : String) (inp obs : List String) : String :=
  let pIn : P (List Nat) := list nat
  let pOut : P (List (List (Nat × Nat))) := do
    lit "R"
    list (list (do let a ← nat; let b ← nat; pure (a, b)))
  match runP pIn inp, runP pOut obs with
  | some logged, some runs =>
    let m := LogBuf.stressExpected logged
    let enc := toString m.length ++ String.join (m.map fun rs =>
      " " ++ toString rs.length ++ String.join (rs.map fun r => s!" {r.1} {r.2}"))
    verdict id (runs == m) (LogBuf.stressOK logged runs) "-" ("R " ++ enc)
  | _, _ => s!"{id} bad-case"

/-! construction + acceptance cases: `<id> O <nopts> <opt…> <ncalls> <call…> => N <res> <hasInfo> [<level> <src> <dbg> <n> <acc…>] | P` -/
open Rivaas.LogConfig in
def stepO (id : String) (inp obs : List String) : String :=
  let pOpt : P Opt := do
    let k ← tok
    if k == "h" then .handler <$> nat
    else if k == "l" then .level <$> nat
    else if k == "dl" then pure .debugLevel
    else if k == "s" then .source <$> bool
    else if k == "dm" then .debugMode <$> bool
    else if k == "sa" then do let i ← int; let t ← int; pure (.sampling i t)
    else if k == "o" then .output <$> bool
    else if k == "c" then .custom <$> bool
    else failure
  let pCall : P Call := do
    let k ← tok
    if k == "L" then .log <$> nat
    else if k == "V" then .setLevel <$> nat
    else if k == "H" then pure .shutdown
    else failure
  let pIn : P (List Opt × List Call) := do
    let os ← list pOpt
    let cs ← list pCall
    pure (os, cs)
  let pOut : P (Option (Nat × Option (Info × List Bool))) := do
    let k ← tok
    if k == "P" then pure none
    else if k == "N" then do
      let res ← nat
      let has ← bool
      if has then do
        let lv ← nat
        let src ← bool
        let dbg ← bool
        let acc ← list bool
        pure (some (res, some ({ level := lv, addSource := src, debugMode := dbg }, acc)))
      else pure (some (res, none))
    else failure
  match runP pIn inp, runP pOut obs with
  | some (opts, calls), some o =>
    let c := configure opts
    let mres : Nat := match newRes c with | .ok => 0 | .invalid => 1 | .badHandler => 2
    let driven := mres == 0 && !c.useCustom
    let minfo : Info := { level := c.level, addSource := c.addSource, debugMode := c.debugMode }
    let macc := accepted opts calls
    let encB (bs : List Bool) := String.join (bs.map fun b => if b then " 1" else " 0")
    let mobs := s!"N {mres} " ++ (if driven then s!"1 {minfo.level} {if minfo.addSource then 1 else 0} {if minfo.debugMode then 1 else 0} {macc.length}" ++ encB macc else "0")
    match o with
    | none => verdict id false false "-" mobs
    | some (res, extra) =>
      let mi := res == mres && (match extra with
        | some (info, acc) => driven && info == minfo && acc == macc
        | none => !driven)
      -- the oracle on what the implementation did: accepted iff valid; then the promised info and acceptance
      let s := (res == 0) == specValid opts && (match extra with
        | some (info, acc) => info == specInfo opts && acc == specAccepted opts calls
        | none => true)
      verdict id mi s "-" mobs
  | _, _ => s!"{id} bad-case"

def step (line : String) : String :=
  match splitCase line with
  | none => "? bad-line"
  | some (id, inp, obs) =>
    match inp with
    | "R" :: rest => stepR id rest obs
    | "B" :: rest => stepB id rest obs
    | "Z" :: rest => stepZ id rest obs
    | "O" :: rest => stepO id rest obs
    | _ => s!"{id} bad-case"

end Rivaas.DriverC20

def main : IO UInt32 := Rivaas.Proto.driverMain Rivaas.DriverC20.step
