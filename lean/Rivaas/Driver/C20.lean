import Rivaas.Proto
/- Driver for C20 (stub: not built yet) -/
def main : IO UInt32 := do
  IO.eprintln "driver for C20 is not built yet"
  return 2
