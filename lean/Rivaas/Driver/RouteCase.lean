import Rivaas.Proto
import Rivaas.Model.Radix
import Rivaas.Spec.MatchClass
/-
Case-line vocabulary shared by the C01 and C11 drivers.

input :=  <noRoute> <nRoutes> { <method> <nGroups> <prefix>* <path> <nCons> { <name> <cid> }* }*
          <nSat> { <cid> <value> <0|1> }*  <method> <path> <nAsk> <name>*
obs   :=  P                                   (the router panicked)
       |  O <status> <nAllow> <allow>* { 0 | 1 <rid> } <noRouteRan> <pattern>
            <nParams> { <k> <v> }* <nLookups> { <k> <v> }*
-/
namespace Rivaas.RouteCase
open Rivaas.Proto Rivaas.Route Rivaas.Radix Rivaas.Match

structure Case where
  noRoute : Bool
  script : List Reg
  satTab : List (Nat × Bytes × Bool)
  req : Req

def pReg : P Reg := do
  let m ← str
  let gs ← list str
  let p ← str
  let cs ← list (do let n ← str; let c ← nat; pure (n, c))
  let mt ← opt str
  pure { method := m, groups := gs, path := p, cons := cs, mount := mt }

def pCase : P Case := do
  let nr ← bool
  let script ← list pReg
  let tab ← list (do let c ← nat; let v ← str; let b ← bool; pure (c, v, b))
  let m ← str
  let p ← str
  let ask ← list str
  pure { noRoute := nr, script := script, satTab := tab, req := { method := m, path := p, ask := ask } }

def pKV : P (Bytes × Bytes) := do
  let k ← str
  let v ← str
  pure (k, v)

def pObs : P (Option Obs) := do
  let k ← tok
  if k == "P" then pure none
  else if k == "O" then
    let st ← nat
    let al ← list str
    let ran ← opt nat
    let nr ← bool
    let pat ← str
    let ps ← list pKV
    let ls ← list pKV
    pure (some { status := st, allow := al, ran := ran, noRoute := nr, pattern := pat, params := ps, lookups := ls })
  else failure

def satOf (tab : List (Nat × Bytes × Bool)) (cid : Nat) (v : Bytes) : Bool :=
  tab.any fun (c, x, b) => c == cid && x == v && b

def encKVs (l : List (Bytes × Bytes)) : String :=
  toString l.length ++ String.join (l.map fun (k, v) => " " ++ encStr k ++ " " ++ encStr v)

def encObs (o : Obs) : String :=
  s!"O {o.status} {o.allow.length}" ++ String.join (o.allow.map fun a => " " ++ encStr a) ++
  (match o.ran with | some r => s!" 1 {r}" | none => " 0") ++
  (if o.noRoute then " 1 " else " 0 ") ++ encStr o.pattern ++ " " ++ encKVs o.params ++ " " ++ encKVs o.lookups

/-- oracle verdict and finding class for one observed outcome of the plain tree engine (C01) -/
def judge (c : Case) (o : Obs) : Bool × String :=
  let sat := satOf c.satTab
  match specRoutes c.script with
  | none => (true, "-")                       -- a pattern outside the property's vocabulary: no claim
  | some R =>
    match normal R, parseCanonical c.req.path with
    | true, some segs => (specOK sat R c.req ⟨segs, false⟩ o, classify sat R c.req ⟨segs, false⟩)
    | _, _ => (soundOK R c.req o, "-")

end Rivaas.RouteCase
