import Rivaas.Proto
import Rivaas.Spec.Version
/-
Driver for C13. Case line:
  <id> <nOpts> { P <pattern> | H <name> | Q <param> | A <pattern> | C <n> }*
       <default> <nValid> <v>* <sendVersionHeader> <sendWarning299> <enforceSunset> <now>
       <nLC> { <version> <deprecated> { 0 | 1 <secs> <httpFormat> <rfc3339> } <migrationURL> }*
       <nRoutes> { { 0 | 1 <version> } <method> <path> }*
       <method> <path> <rawQuery> <nLib> { N | H <v> | Q <has> <get> | A <v> | C <v> }*
    => P | R <status> { 0 | 1 { 0 | 1 <tree> } <route> } { 0 | 1 <Version()> } <X-API-Version> <Deprecation> <Sunset> <Link> <Warning>
  (each of the five headers as `0` or `1 <value>`)
-/
namespace Rivaas.DriverC13
open Rivaas Rivaas.Proto Rivaas.Version

def pOpt : P DetOpt := do
  let k ← tok
  if k == "P" then DetOpt.path <$> str
  else if k == "H" then DetOpt.header <$> str
  else if k == "Q" then DetOpt.query <$> str
  else if k == "A" then DetOpt.accept <$> str
  else if k == "C" then DetOpt.custom <$> nat
  else failure

def pLib : P LibVal := do
  let k ← tok
  if k == "N" then pure LibVal.none
  else if k == "H" then LibVal.header <$> str
  else if k == "Q" then (do let h ← bool; let g ← str; pure (LibVal.query h g))
  else if k == "A" then LibVal.accept <$> str
  else if k == "C" then LibVal.custom <$> str
  else failure

def pLC : P (Bytes × LC) := do
  let v ← str
  let dep ← bool
  let sun ← opt (do let d ← nat; let h ← str; let r ← str; pure (d, h, r))
  let mig ← str
  pure (v, { deprecated := dep, sunset := sun, migration := mig })

def pRoute : P Route := do
  let v ← opt str
  let m ← str
  let p ← str
  pure { ver := v, method := m, path := p }

def pInput : P (Cfg × List Route × Req) := do
  let opts ← list pOpt
  let dflt ← str
  let valid ← list str
  let svh ← bool
  let sw ← bool
  let enf ← bool
  let now ← nat
  let lcs ← list pLC
  let routes ← list pRoute
  let m ← str
  let p ← str
  let q ← str
  let lib ← list pLib
  pure ({ opts := opts, dflt := dflt, valid := valid, sendVersionHeader := svh, sendWarning299 := sw,
          enforceSunset := enf, now := now, lifecycles := lcs },
        routes, { method := m, path := p, rawQuery := q, lib := lib })

/-- `none` = the implementation panicked -/
def pObs : P (Option Obs) := do
  let k ← tok
  if k == "P" then pure none
  else if k == "R" then do
    let st ← nat
    let h ← opt (do let t ← opt str; let r ← str; pure (t, r))
    let v ← opt str
    let a ← opt str
    let b ← opt str
    let c ← opt str
    let d ← opt str
    let e ← opt str
    pure (some { status := st, handler := h, version := v, hXAPIVersion := a, hDeprecation := b,
                 hSunset := c, hLink := d, hWarning := e })
  else failure

def encOpt (o : Option Bytes) : String :=
  match o with
  | none => "0"
  | some v => "1 " ++ encStr v

def encObs (o : Obs) : String :=
  let h := match o.handler with
    | none => "0"
    | some (t, r) => "1 " ++ encOpt t ++ " " ++ encStr r
  s!"R {o.status} {h} {encOpt o.version} {encOpt o.hXAPIVersion} {encOpt o.hDeprecation} {encOpt o.hSunset} {encOpt o.hLink} {encOpt o.hWarning}"

def step (line : String) : String :=
  match splitCase line with
  | none => "? bad-line"
  | some (id, inp, obs) =>
    match runP pInput inp, runP pObs obs with
    | some (cfg, routes, req), some o =>
      let m := serve cfg routes req
      let agrees := Spec.libAgrees cfg req
      let mi := (o == some m) && agrees
      let sOK := match o with
        | some io => Spec.specOK cfg routes req io
        | none => false
      verdict id mi sOK "-" (encObs m ++ (if agrees then "" else " lib-disagrees-with-standard-parser"))
    | _, _ => s!"{id} bad-case"

end Rivaas.DriverC13

def main : IO UInt32 := Rivaas.Proto.driverMain Rivaas.DriverC13.step
