import Rivaas.Proto
import Rivaas.Spec.Version
import Rivaas.Spec.VersionCfg
import Rivaas.Model.VersionChain
/-
Driver for C13. Case line:
  <id> <nOpts> { P <pattern> | H <name> | Q <param> | A <pattern> | C <n> }*
       <default> <nValid> <v>* <sendVersionHeader> <sendWarning299> <enforceSunset> <now>
       { <nLC> { <version> <deprecated> { 0 | 1 <secs> <httpFormat> <rfc3339> } <migrationURL> }*
       | S <nOps> { V <id> <version> <n> <lopt>* | C <id> <n> <lopt>* }* }     lopt: D | DS | S <secs> <httpFormat> <rfc3339> | M <url> | X
       <nRoutes> { { 0 | 1 <version> } <method> <path> }*
       <method> <path> <rawQuery> <nLib> { N | H <v> | Q <has> <get> | A <v> | C <v> }*
    => P | R <status> { 0 | 1 { 0 | 1 <tree> } <route> } { 0 | 1 <Version()> } <X-API-Version> <Deprecation> <Sunset> <Link> <Warning>
  (each of the five headers as `0` or `1 <value>`)
-/
namespace Rivaas.DriverC13
open Rivaas Rivaas.Proto Rivaas.Version

def pOpt : P DetOpt := do
  let k ← tok
  if k == "P" then DetOpt.path <$> str
  else if k == "H" then DetOpt.header <$> str
  else if k == "Q" then DetOpt.query <$> str
  else if k == "A" then DetOpt.accept <$> str
  else if k == "C" then DetOpt.custom <$> nat
  else failure

def pLib : P LibVal := do
  let k ← tok
  if k == "N" then pure LibVal.none
  else if k == "H" then LibVal.header <$> str
  else if k == "Q" then (do let h ← bool; let g ← str; pure (LibVal.query h g))
  else if k == "A" then LibVal.accept <$> str
  else if k == "C" then LibVal.custom <$> str
  else failure

def pLC : P (Bytes × LC) := do
  let v ← str
  let dep ← bool
  let sun ← opt (do let d ← nat; let h ← str; let r ← str; pure (d, h, r))
  let mig ← str
  pure (v, { deprecated := dep, sunset := sun, migration := mig })

def pLOpt : P LOpt := do
  let k ← tok
  if k == "D" then pure .deprecated
  else if k == "DS" then pure .deprecatedSince
  else if k == "S" then (do let d ← nat; let h ← str; let r ← str; pure (.sunset (d, h, r)))
  else if k == "M" then LOpt.migration <$> str
  else if k == "X" then pure .successor
  else failure

def pLOp : P LOp := do
  let k ← tok
  if k == "V" then (do let id ← nat; let v ← str; let o ← list pLOpt; pure (.version id v o))
  else if k == "C" then (do let id ← nat; let o ← list pLOpt; pure (.configure id o))
  else failure

/-- the lifecycles of a case: the effective list, or (`S` first) a script of `Version` / `Configure` statements -/
def pLifecycles : P (List (Bytes × LC)) := do
  match (← peek) with
  | some "S" => (do lit "S"; let ops ← list pLOp; pure (lifecyclesOf ops))
  | _ => list pLC

def pRoute : P Route := do
  let v ← opt str
  let m ← str
  let p ← str
  pure { ver := v, method := m, path := p }

def pInput : P (Cfg × List Route × Req) := do
  let opts ← list pOpt
  let dflt ← str
  let valid ← list str
  let svh ← bool
  let sw ← bool
  let enf ← bool
  let now ← nat
  let lcs ← pLifecycles
  let routes ← list pRoute
  let m ← str
  let p ← str
  let q ← str
  let lib ← list pLib
  pure ({ opts := opts, dflt := dflt, valid := valid, sendVersionHeader := svh, sendWarning299 := sw,
          enforceSunset := enf, now := now, lifecycles := lcs },
        routes, { method := m, path := p, rawQuery := q, lib := lib })

def pEv : P ObsEv := do
  let k ← tok
  if k == "D" then (do let v ← str; let m ← str; pure (.detected v m))
  else if k == "M" then pure .missing
  else if k == "I" then ObsEv.invalid <$> str
  else if k == "U" then (do let v ← str; let r ← str; pure (.deprecatedUse v r))
  else failure

/-- the observer callbacks, when the case carries them (`V <n> …` after the observation) -/
def pEvents : P (Option (List ObsEv)) := do
  match (← peek) with
  | some "V" => (do lit "V"; let l ← list pEv; pure (some l))
  | _ => pure none

def encEv : ObsEv → String
  | .detected v m => "D " ++ encStr v ++ " " ++ encStr m
  | .missing => "M"
  | .invalid v => "I " ++ encStr v
  | .deprecatedUse v r => "U " ++ encStr v ++ " " ++ encStr r

/-- `none` = the implementation panicked -/
def pObs : P (Option Obs) := do
  let k ← tok
  if k == "P" then pure none
  else if k == "R" then do
    let st ← nat
    let h ← opt (do let t ← opt str; let r ← str; pure (t, r))
    let v ← opt str
    let a ← opt str
    let b ← opt str
    let c ← opt str
    let d ← opt str
    let e ← opt str
    pure (some { status := st, handler := h, version := v, hXAPIVersion := a, hDeprecation := b,
                 hSunset := c, hLink := d, hWarning := e })
  else failure

def encOpt (o : Option Bytes) : String :=
  match o with
  | none => "0"
  | some v => "1 " ++ encStr v

def encObs (o : Obs) : String :=
  let h := match o.handler with
    | none => "0"
    | some (t, r) => "1 " ++ encOpt t ++ " " ++ encStr r
  s!"R {o.status} {h} {encOpt o.version} {encOpt o.hXAPIVersion} {encOpt o.hDeprecation} {encOpt o.hSunset} {encOpt o.hLink} {encOpt o.hWarning}"

/-! ### configuration cases:
  <id> O <n> { P <s> | H <s> | Q <s> | A <s> | C <n> | CN | D <s> | V <n> <s>* | RH | W | SE | OB | CK }*
    => P | E <kind> [<index>] | K <n> <method>* <default> <n> <valid>* <sendVersionHeader> <warning299> <enforceSunset> <observer> -/

def pCfgOpt : P Opt := do
  let k ← tok
  if k == "P" then (fun s => Opt.det (.path s)) <$> str
  else if k == "H" then (fun s => Opt.det (.header s)) <$> str
  else if k == "Q" then (fun s => Opt.det (.query s)) <$> str
  else if k == "A" then (fun s => Opt.det (.accept s)) <$> str
  else if k == "C" then (fun n => Opt.det (.custom n)) <$> nat
  else if k == "CN" then pure .customNil
  else if k == "D" then Opt.dflt <$> str
  else if k == "V" then Opt.valid <$> list str
  else if k == "RH" then pure .responseHeaders
  else if k == "W" then pure .warning299
  else if k == "SE" then pure .sunsetEnforcement
  else if k == "OB" then pure .observer
  else if k == "CK" then pure .clock
  else failure

def errNames : List (String × CfgErr) :=
  [("emptyPathPattern", .emptyPathPattern), ("emptyHeaderName", .emptyHeaderName), ("emptyQueryParam", .emptyQueryParam),
   ("emptyAcceptPattern", .emptyAcceptPattern), ("missingPlaceholder", .missingPlaceholder), ("nilCustom", .nilCustom),
   ("emptyDefault", .emptyDefault), ("noValidVersions", .noValidVersions), ("defaultRequired", .defaultRequired)]

/-- `none` = `version.New` panicked or returned an error that is none of the sentinels -/
def pCfgObs : P (Option CfgObs) := do
  let k ← tok
  if k == "P" then pure none
  else if k == "E" then do
    let e ← tok
    if e == "emptyVersionEntry" then (fun i => some (.rejected (.emptyVersionEntry i))) <$> nat
    else match errNames.lookup e with
      | some x => pure (some (.rejected x))
      | none => pure none
  else if k == "K" then do
    let ms ← list str
    let d ← str
    let vs ← list str
    let a ← bool
    let b ← bool
    let c ← bool
    let o ← bool
    pure (some (.accepted ms d vs a b c o))
  else failure

def encBool (b : Bool) : String := if b then "1" else "0"
def encStrs (l : List Bytes) : String := s!"{l.length}" ++ String.join (l.map fun s => " " ++ encStr s)

def encCfgObs : CfgObs → String
  | .rejected (.emptyVersionEntry i) => s!"E emptyVersionEntry {i}"
  | .rejected e => "E " ++ ((errNames.find? (fun p => p.2 == e)).map (·.1)).getD "?"
  | .accepted ms d vs a b c o =>
    s!"K {encStrs ms} {encStr d} {encStrs vs} {encBool a} {encBool b} {encBool c} {encBool o}"

def stepO (id : String) (inp obs : List String) : String :=
  match runP (do lit "O"; list pCfgOpt) inp, runP pCfgObs obs with
  | some opts, some o =>
    let m := observeCfg opts
    let sOK := match o with
      | some io => Spec.cfgSpecOK opts io
      | none => false
    verdict id (o == some m) sOK "-" (encCfgObs m)
  | _, _ => s!"{id} bad-case"

/-! ### handler-chain cases of the app layer:
  <id> G <n> { U <g> <k> <id>* | S <parent> <child> <k> <id>* | R <g> <route> <k> <before>* <k> <after>* | A <k> <id>* }*
    => X | <n> { <route> <status> <k> <marker>* }* -/

open Rivaas.VersionChain in
def pGOp : P GOp := do
  let k ← tok
  if k == "U" then (do let g ← nat; let ids ← list nat; pure (.use g ids))
  else if k == "S" then (do let p ← nat; let c ← nat; let ids ← list nat; pure (.sub p c ids))
  else if k == "R" then (do let g ← nat; let r ← nat; let b ← list nat; let a ← list nat; pure (.route g r b a))
  else if k == "A" then GOp.appUse <$> list nat
  else failure

def encNats (l : List Nat) : String := s!"{l.length}" ++ String.join (l.map fun n => s!" {n}")

/-- oracle for a chain case (the statement only says the version route is served): every route answers 200 and its
    handler runs exactly once -/
def chainOK (o : List (Nat × Nat × List Nat)) : Bool := o.all fun (_, st, seen) => st == 200 && seen.count 0 == 1

def stepG (id : String) (inp obs : List String) : String :=
  match runP (do lit "G"; list pGOp) inp,
        runP (list (do let r ← nat; let st ← nat; let seen ← list nat; pure (r, st, seen))) obs with
  | some ops, some o =>
    let m := (VersionChain.chains ops).map fun (r, c) => (r, 200, c)
    verdict id (o == m) (chainOK o) "-"
      (s!"{m.length}" ++ String.join (m.map fun (r, st, c) => s!" {r} {st} " ++ encNats c))
  | _, _ => s!"{id} bad-case"

def step (line : String) : String :=
  match splitCase line with
  | none => "? bad-line"
  | some (id, inp, obs) =>
    if inp.head? == some "O" then stepO id inp obs else
    if inp.head? == some "G" then stepG id inp obs else
    match runP pInput inp, runP (do let o ← pObs; let e ← pEvents; pure (o, e)) obs with
    | some (cfg, routes, req), some (o, evs) =>
      let m := serve cfg routes req
      let agrees := Spec.libAgrees cfg req
      let mev := serveEvents cfg routes req
      let evOK := match evs with
        | some l => l == mev
        | none => true
      let mi := (o == some m) && agrees && evOK
      let sOK := match o with
        | some io => Spec.specOK cfg routes req io
        | none => false
      verdict id mi sOK "-" (encObs m ++ (if agrees then "" else " lib-disagrees-with-standard-parser") ++
        (if evOK then "" else s!" observer-callbacks-differ: V {mev.length}" ++ String.join (mev.map fun e => " " ++ encEv e)))
    | _, _ => s!"{id} bad-case"

end Rivaas.DriverC13

def main : IO UInt32 := Rivaas.Proto.driverMain Rivaas.DriverC13.step
