import Rivaas.Proto
/- Driver for C13 (stub: not built yet) -/
def main : IO UInt32 := do
  IO.eprintln "driver for C13 is not built yet"
  return 2
