import Rivaas.Proto
/- Driver for C16 (stub: not built yet) -/
def main : IO UInt32 := do
  IO.eprintln "driver for C16 is not built yet"
  return 2
