import Rivaas.Proto
import Rivaas.Spec.RateLimit
/-
Driver for C16. The first token after the id is the case kind.

  S <rate> <burst> <n> {key now}* => <n> {allowed remaining reset}*
      a trace of store.Allow(key, now) calls on one InMemoryTokenBucketStore (now in 1/512 s ticks)
  C …same tokens…
      the same, but the last calls (same key, same now) were issued by simultaneous goroutines; the
      harness lists their results admitted-first, highest remaining first (any serialisation of calls
      with one timestamp yields exactly that sequence)
  K …same tokens as S…
      all calls are the very first requests of a fresh limiter on its default store, issued by goroutines
      released together (wall clock): judged by the bound and the shape of the answers only
  M <rate> <burst> <headers> <enforce> <callback> <n> {key now}* => <n> {allowed remaining reset  status ran limit remaining reset retry}*
      the trace driven through WithTokenBucket (httptest); per call what the store returned and what
      the client saw (each header `0 | 1 value`)
  W <limit> <Wsec> <headers> <enforce> <callback> <n> {key now_ns}* <m> {G i | I i}* <k> {i j}* => <n> {i status ran limit remaining reset retry}*
      requests through WithSlidingWindow under a schedule of GetCounts/Incr steps; `{i j}` marks
      request j as a retry of request i after waiting its Retry-After; answers in completion order

A panic of the real code is the single observation token `P`.
-/
namespace Rivaas.DriverC16
open Rivaas.Proto Rivaas.RateLimit

def b01 (b : Bool) : String := if b then "1" else "0"

def pair {α β} (p : P α) (q : P β) : P (α × β) := do
  let a ← p
  let b ← q
  pure (a, b)

def pOut : P Out := do
  let allowed ← bool
  let remaining ← int
  let reset ← int
  pure { allowed, remaining, reset }

def showOut (o : Out) : String := s!"{b01 o.allowed} {o.remaining} {o.reset}"

def optInt : P (Option Int) := opt int
def optNat : P (Option Nat) := opt nat
def showOptI : Option Int → String
  | none => "0"
  | some n => s!"1 {n}"
def showOptN : Option Nat → String
  | none => "0"
  | some n => s!"1 {n}"
def showOptS : Option Bytes → String
  | none => "0"
  | some s => "1 " ++ encStr s

/-! ### store traces -/

structure StoreCase where
  rate : Int
  burst : Int
  calls : List (Bytes × Int)

def pStoreCase : P StoreCase := do
  let rate ← int
  let burst ← int
  let calls ← list (pair str int)
  pure { rate, burst, calls }

def storeVerdict (id : String) (c : StoreCase) (obs : List Out) : String :=
  let m := runStore c.rate (c.burst * 512) [] c.calls
  let s := bucketSpecOK c.rate (c.burst * 512) c.calls obs
  verdict id (obs == m) s "-" (s!"{m.length} " ++ " ".intercalate (m.map showOut))

/-- cold start (kind `K`): no exact prediction — the goroutines read the wall clock themselves — so
    "model = implementation" means: the answers have the shape every serialisation produces, and the
    number admitted does not exceed what the model admits at most (`concurrent_le_tokens`) -/
def coldVerdict (id : String) (c : StoreCase) (obs : List Out) : String :=
  let m := runStore c.rate (c.burst * 512) [] c.calls
  let maxAdm := (m.filter (·.allowed)).length
  let s := coldSpecOK c.burst obs && obs.length == c.calls.length
  let mi := coldShapeOK c.burst obs && decide ((obs.filter (·.allowed)).length ≤ maxAdm) && obs.length == c.calls.length
  verdict id mi s "-" s!"at-most {maxAdm} admitted"

/-! ### token bucket middleware -/

structure MwCase where
  rate : Int
  burst : Nat
  cfg : MwCfg
  calls : List (Bytes × Int)

def pMwCase : P MwCase := do
  let rate ← int
  let burst ← nat
  let headers ← bool
  let enforce ← bool
  let hasCallback ← bool
  let calls ← list (pair str int)
  pure { rate, burst, cfg := { burst, headers, enforce, hasCallback }, calls }

/-- kind `N`: `ratelimit.New(opts…)` — the option values as given; the model computes the configuration -/
def pNewCase : P MwCase := do
  let rateOpts ← list int
  let burstOpts ← list int
  let headers ← bool
  let enforce ← bool
  let hasCallback ← bool
  let calls ← list (pair str int)
  let c := newConfig rateOpts burstOpts
  pure { rate := c.1, burst := c.2.toNat, cfg := { burst := c.2.toNat, headers, enforce, hasCallback }, calls }

def pMwObs : P MwObs := do
  let status ← nat
  let ran ← bool
  let limit ← opt str
  let remaining ← optInt
  let reset ← optInt
  let retryAfter ← optInt
  pure { status, ran, limit, remaining, reset, retryAfter }

def showMwObs (m : MwObs) : String :=
  s!"{m.status} {b01 m.ran} {showOptS m.limit} {showOptI m.remaining} {showOptI m.reset} {showOptI m.retryAfter}"

def mwVerdict (id : String) (c : MwCase) (obs : List (Out × MwObs)) : String :=
  let outs := runStore c.rate ((c.burst : Int) * 512) [] c.calls
  let limitText := (Nat.repr c.burst).toList
  let m := outs.map fun o => (o, mwBucket c.cfg limitText o)
  let s := bucketSpecOK c.rate ((c.burst : Int) * 512) c.calls (obs.map (·.1)) &&
           obs.all fun om => mwSpecOK c.cfg om.1 om.2 && (if c.cfg.headers then om.2.limit == some limitText else true)
  verdict id (obs == m) s "-"
    (s!"{m.length} " ++ " ".intercalate (m.map fun om => showOut om.1 ++ " " ++ showMwObs om.2))

/-! ### sliding window -/

structure WinCase where
  cfg : WinCfg
  reqs : List WinReq
  sched : List Op
  retries : List (Nat × Nat)

def pOp : P Op := do
  let k ← tok
  if k == "G" then Op.get <$> nat
  else if k == "I" then Op.inc <$> nat
  else failure

def pWinCase : P WinCase := do
  let limit ← nat
  let W ← nat
  let headers ← bool
  let enforce ← bool
  let hasCallback ← bool
  let atomic ← bool
  let reqs ← list (do let key ← str; let now ← nat; pure ({ key, now } : WinReq))
  let sched ← list pOp
  let retries ← list (pair nat nat)
  pure { cfg := { limit, W, headers, enforce, hasCallback, atomic }, reqs, sched, retries }

def pWinObs : P (Nat × WinObs) := do
  let i ← nat
  let status ← nat
  let ran ← bool
  let limit ← opt str
  let remaining ← optNat
  let reset ← optNat
  let retryAfter ← optNat
  pure (i, { status, ran, limit, remaining, reset, retryAfter })

def showWinObs (a : Nat × WinObs) : String :=
  s!"{a.1} {a.2.status} {b01 a.2.ran} {showOptS a.2.limit} {showOptN a.2.remaining} {showOptN a.2.reset} {showOptN a.2.retryAfter}"

def winLimitText (cfg : WinCfg) : Bytes := (Nat.repr cfg.limit).toList ++ ";w=".toList ++ (Nat.repr cfg.W).toList

/-- the known-finding class of the sliding window, stated on the *input*: a store that only has the
    two-call interface driven by a schedule that is not serial (K16b, the race inherent to
    `GetCounts`-then-`Incr`). A store with the one-call interface has no such class: every schedule is
    judged. -/
def winClass (c : WinCase) : String :=
  if !c.cfg.atomic && c.sched != serial c.reqs.length then "window-race"
  else "-"

def winVerdict (id : String) (c : WinCase) (obs : List (Nat × WinObs)) : String :=
  let m := runWin c.cfg (winLimitText c.cfg) c.reqs c.sched
  let s := windowBoundOK c.cfg c.reqs obs && retryOK c.reqs obs c.retries && rejectOK obs
  verdict id (obs == m) s (winClass c) (s!"{m.length} " ++ " ".intercalate (m.map showWinObs))

/-! ### sliding-window middleware over scripted counts -/

structure ScrCase where
  cfg : WinCfg
  /-- per request: counts and window start the store reported, the instant of the request -/
  rows : List (Nat × Nat × Nat × Nat)

def pScrCase : P ScrCase := do
  let limit ← nat
  let W ← nat
  let headers ← bool
  let enforce ← bool
  let hasCallback ← bool
  let rows ← list (do let c ← nat; let p ← nat; let ws ← nat; let now ← nat; pure (c, p, ws, now))
  pure { cfg := { limit, W, headers, enforce, hasCallback, atomic := true }, rows }

def scrVerdict (id : String) (c : ScrCase) (obs : List (Nat × WinObs)) : String :=
  let m := c.rows.zipIdx.map fun (r, i) =>
    (i, winAnswer c.cfg (winLimitText c.cfg) (decide_ c.cfg.limit c.cfg.W { cur := r.1, prev := r.2.1, ws := r.2.2.1 } r.2.2.2))
  let s := rejectOK obs && (c.rows.zipIdx.all fun (r, i) =>
    match obs.lookup i with
    | some o => scriptedRetryOK c.cfg.limit c.cfg.W r.1 r.2.1 r.2.2.1 r.2.2.2 o
    | none => false)
  verdict id (obs == m) s "-" (s!"{m.length} " ++ " ".intercalate (m.map showWinObs))

/-! ### dispatch -/

def pObs {α} (p : P α) : P (Option α) := do
  match ← peek with
  | some "P" => let _ ← tok; pure none
  | _ => some <$> p

def step (line : String) : String :=
  match splitCase line with
  | none => "? bad-line"
  | some (id, inp, obs) =>
    match inp with
    | "S" :: rest | "C" :: rest =>
      match runP pStoreCase rest, runP (pObs (list pOut)) obs with
      | some c, some (some o) => storeVerdict id c o
      | some _, some none => verdict id false false "-" "P"
      | _, _ => s!"{id} bad-case"
    | "K" :: rest =>
      match runP pStoreCase rest, runP (pObs (list pOut)) obs with
      | some c, some (some o) => coldVerdict id c o
      | some _, some none => verdict id false false "-" "P"
      | _, _ => s!"{id} bad-case"
    | "M" :: rest =>
      match runP pMwCase rest, runP (pObs (list (pair pOut pMwObs))) obs with
      | some c, some (some o) => mwVerdict id c o
      | some _, some none => verdict id false false "-" "P"
      | _, _ => s!"{id} bad-case"
    | "V" :: rest =>
      match runP pScrCase rest, runP (pObs (list pWinObs)) obs with
      | some c, some (some o) => scrVerdict id c o
      | some _, some none => verdict id false false "-" "P"
      | _, _ => s!"{id} bad-case"
    | "N" :: rest =>
      match runP pNewCase rest, runP (pObs (list (pair pOut pMwObs))) obs with
      | some c, some (some o) => mwVerdict id c o
      | some _, some none => verdict id false false "-" "P"
      | _, _ => s!"{id} bad-case"
    | "W" :: rest =>
      match runP pWinCase rest, runP (pObs (list pWinObs)) obs with
      | some c, some (some o) => winVerdict id c o
      | some _, some none => verdict id false false "-" "P"
      | _, _ => s!"{id} bad-case"
    | _ => s!"{id} bad-case"

end Rivaas.DriverC16

def main : IO UInt32 := Rivaas.Proto.driverMain Rivaas.DriverC16.step
