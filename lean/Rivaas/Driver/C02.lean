import Rivaas.Proto
/- Driver for C02 (stub: not built yet) -/
def main : IO UInt32 := do
  IO.eprintln "driver for C02 is not built yet"
  return 2
