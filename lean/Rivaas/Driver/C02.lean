import Rivaas.Proto
import Rivaas.Spec.Chain
import Rivaas.Spec.Compose
/-
Driver for C02. Case line (see harness/c02/main.go):

  <id> <check> <compiled> <script> <target> <path> <ver> <behaviours> => <probe> <trace> <status> <body> <escaped>

  compiled   = router.WithRouteCompilation: which serve path runs the chain; the model says it makes no
               difference (C11's subject), so the token is read and ignored — a difference shows as MI=0

  script     = n op…            op = NR | U r hs | G r seg hs | SG g seg hs | GU g hs | V r ver | VG v seg hs
                                     | R owner seg hs | M parent sub seg inherit hs | W r | WH r ver path
                                     | AU hs | AG seg hs arr cap | ASG g seg hs | AGU g hs | AV ver
                                     | AVSG vg seg hs | AVU vg hs | AR aowner seg hs h hs
  owner      = r k | g k | v k | vg k          aowner = a | ag k | avg k          hs = n id…
  target     = (n mountIdx…) routeIdx          path = n seg…          ver = 0 | 1 v
  behaviours = n (hid acts)…    acts = n act…   act = N | A | C | W | R | P v | K acts
  probe      = 0 | 1 (n hid…)   chain observed with every handler passing through
  trace      = n ev…            ev = e<hid> | x<hid> | u<hid>
  status     = HTTP status      body = n chunk… (chunk = hid, 100000 = recovery's 500 body)
  escaped    = 0 | 1 v
-/
namespace Rivaas.DriverC02
open Rivaas.Proto Rivaas.Chain Rivaas.Compose

def pHs : P (List Nat) := list nat

def pOwner : P Owner := do
  let k ← tok
  let n ← nat
  if k == "r" then pure (.router n) else if k == "g" then pure (.group n)
  else if k == "v" then pure (.vrouter n) else if k == "vg" then pure (.vgroup n) else failure

def pAOwner : P AOwner := do
  let k ← tok
  if k == "a" then pure .app
  else if k == "ag" then AOwner.agroup <$> nat
  else if k == "avg" then AOwner.avgroup <$> nat
  else failure

def pOp : P Op := do
  let k ← tok
  if k == "NR" then pure .newRouter
  else if k == "U" then do let r ← nat; let hs ← pHs; pure (.use r hs)
  else if k == "G" then do let r ← nat; let s ← nat; let hs ← pHs; pure (.group r s hs)
  else if k == "SG" then do let g ← nat; let s ← nat; let hs ← pHs; pure (.subgroup g s hs)
  else if k == "GU" then do let g ← nat; let hs ← pHs; pure (.guse g hs)
  else if k == "V" then do let r ← nat; let v ← nat; pure (.version r v)
  else if k == "VG" then do let v ← nat; let s ← nat; let hs ← pHs; pure (.vgroup v s hs)
  else if k == "R" then do let o ← pOwner; let s ← nat; let hs ← pHs; pure (.route o s hs)
  else if k == "M" then do
    let p ← nat; let sub ← nat; let s ← nat; let inh ← bool; let hs ← pHs; pure (.mount p sub s inh hs)
  else if k == "W" then Op.warmup <$> nat
  else if k == "WH" then do let r ← nat; let v ← opt nat; let p ← list nat; pure (.whereOp r v p)
  else if k == "AU" then Op.ause <$> pHs
  else if k == "AG" then do let s ← nat; let hs ← pHs; let a ← nat; let c ← nat; pure (.agroup s hs a c)
  else if k == "ASG" then do let g ← nat; let s ← nat; let hs ← pHs; pure (.asubgroup g s hs)
  else if k == "AGU" then do let g ← nat; let hs ← pHs; pure (.aguse g hs)
  else if k == "AV" then Op.aversion <$> nat
  else if k == "AVSG" then do let g ← nat; let s ← nat; let hs ← pHs; pure (.avsubgroup g s hs)
  else if k == "AVU" then do let g ← nat; let hs ← pHs; pure (.avuse g hs)
  else if k == "AR" then do
    let o ← pAOwner; let s ← nat; let b ← pHs; let h ← nat; let a ← pHs; pure (.aroute o s b h a)
  else failure

/-- acts, with a depth bound on `K` nesting (the parser is structurally recursive on it) -/
def pActs : Nat → P (List Act)
  | 0 => failure
  | d+1 => list do
    let k ← tok
    if k == "N" then pure Act.next else if k == "A" then pure .abort else if k == "C" then pure .cancel
    else if k == "W" then pure .write else if k == "R" then pure .ret
    else if k == "P" then Act.panic <$> nat
    else if k == "K" then Act.call <$> pActs d
    -- F: `c.Fail(err)` (app handlers; router-level handlers: Abort + JSON) — a call that aborts, then writes
    else if k == "F" then pure (Act.call [.abort, .write])
    -- T: overrun the budget of a timeout middleware in front of the chain — the request context is cancelled from then on
    else if k == "T" then pure .cancel
    else failure

structure Case where
  check : Bool
  script : List Op
  target : Target
  path : Path
  ver : Option Nat
  beh : List (Nat × List Act)

def pCase : P Case := do
  let check ← bool
  let _compiled ← bool
  let script ← list pOp
  let mounts ← list nat
  let route ← nat
  let path ← list nat
  let ver ← opt nat
  let beh ← list (do let h ← nat; let a ← pActs 8; pure (h, a))
  pure { check, script, target := { mounts, route }, path, ver, beh }

/-- observation in handler ids -/
structure Obs where
  probe : Option (List Nat)
  trace : List (Char × Nat)
  status : Nat
  body : List Nat
  escaped : Option Nat
  deriving BEq

def pEv : P (Char × Nat) := do
  let t ← tok
  match t.toList with
  | c :: rest =>
    match (String.ofList rest).toNat? with
    | some n => if c == 'e' || c == 'x' || c == 'u' then pure (c, n) else failure
    | none => failure
  | [] => failure

def pObs : P Obs := do
  let probe ← opt (list nat)
  let trace ← list pEv
  let status ← nat
  let body ← list nat
  let escaped ← opt nat
  pure { probe, trace, status, body, escaped }

def recChunk : Nat := 100000

/-- position-indexed machine output rendered in handler ids -/
def evId (chain : List Nat) : Ev → Char × Nat
  | .enter k => ('e', chain.getD k 0)
  | .exit k => ('x', chain.getD k 0)
  | .unwound k => ('u', chain.getD k 0)

def chunkId (chain : List Nat) : Chunk → Nat
  | .h k => chain.getD k 0
  | .rec500 => recChunk

/-- status code a chunk's writer sends: handler `h` answers `210 + h % 80`, recovery 500 -/
def chunkStatus (chain : List Nat) : Option Chunk → Nat
  | none => 200
  | some (.h k) => 210 + chain.getD k 0 % 80
  | some .rec500 => 500

def progsOf (c : Case) (chain : List Nat) : Option (List Prog) :=
  chain.mapM fun h => (c.beh.find? (·.1 == h)).map fun p => ({ acts := p.2 } : Prog)

def showObs (o : Obs) : String :=
  let pr := match o.probe with
    | none => "0"
    | some ch => s!"1 {ch.length} " ++ " ".intercalate (ch.map toString)
  let tr := " ".intercalate (o.trace.map fun (c, n) => s!"{c}{n}")
  let bd := " ".intercalate (o.body.map toString)
  let es := match o.escaped with | none => "0" | some v => s!"1 {v}"
  s!"{pr} {o.trace.length} {tr} {o.status} {o.body.length} {bd} {es}"

/-- the model's observation: compose the chain, run the machine on it -/
def modelObs (c : Case) : Option Obs :=
  let cfg : Cfg := { check := c.check }
  match compose c.script c.ver c.path with
  | none => some { probe := none, trace := [], status := 404, body := [], escaped := none }
  | some chain =>
    match progsOf c chain with
    | none => none
    | some progs =>
      let s := exec cfg progs
      if !s.stack.isEmpty then none   -- out of fuel: never happens (Props/C02 `halts`)
      else some { probe := some chain, trace := s.trace.map (evId chain), status := chunkStatus chain s.status,
                  body := s.body.map (chunkId chain), escaped := s.escaped }

/-- the oracle on what the implementation did: the observed chain is admitted by the composition
    relation, and the observed trace is the reference interpreter's on that chain -/
def specOK (c : Case) (o : Obs) : Bool :=
  match o.probe with
  | none => false
  | some chain =>
    chainOK c.script c.target chain &&
    (match progsOf c chain with
     | none => false
     | some progs =>
       let (r, esc) := ref c.check progs
       o.trace == r.trace.map (evId chain) && o.escaped == esc)

def step (line : String) : String :=
  match splitCase line with
  | none => "? bad-line"
  | some (id, inp, obs) =>
    match runP pCase inp, runP pObs obs with
    | some c, some o =>
      if !wfB c.script then s!"{id} bad-case script is not well-formed (a reference to an object that does not exist yet, or a repeated route segment)"
      else
      match levels c.script c.target with
      | none => s!"{id} bad-case target does not resolve in the script"
      | some (ver, path, _) =>
        if ver != c.ver || path != c.path then s!"{id} bad-case path/version of the target disagree with the script"
        else
          match modelObs c with
          | none => s!"{id} bad-case model could not run (missing behaviour or fuel)"
          | some m =>
            verdict id (m == o) (specOK c o) "-" (showObs m)
    | _, _ => s!"{id} bad-case"

end Rivaas.DriverC02

def main : IO UInt32 := Rivaas.Proto.driverMain Rivaas.DriverC02.step
