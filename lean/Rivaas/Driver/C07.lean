import Rivaas.Proto
/- Driver for C07 (stub: not built yet) -/
def main : IO UInt32 := do
  IO.eprintln "driver for C07 is not built yet"
  return 2
