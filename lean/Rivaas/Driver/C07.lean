import Rivaas.Proto
import Rivaas.Spec.OpenAPI
/-
Driver for C07. Case line:

  <id> <30|31> <strict> <nenv> ENV* <nops> OP* <nservers> <url>* <info summary>  =>  OFF ON <metaValid> <refsResolve> <stable> <validatorAgrees> <served> <coldStart> <dataIntact>

  ENV := <tid> S <name> <pkgPath> <n> FIELD*  |  <tid> A TY
  FIELD := F <name> <exported> <json> <validate> <query> <path> <header> <cookie> <default> <style> <explode> <doc> <example> <enum> <format> <typeIs> TY | E <tid>
  TY := P <kind> | T | Ptr TY | Sl TY | Ar TY | Mp <0|1> TY | N <tid>
  OP := <method> <path> <summary> <description> <opID> (0 | 1 TY) <nresp> { <status> <statusText> (0 | 1 TY) }* … <nopts> { <status> <nil> <nonzero> <n> <example name>* }*
        <ntags> <tag>* <deprecated> <nsec> { <scheme> <nscopes> <scope>* }* <nconsumes> <ct>* <nproduces> <ct>*
  OFF := CP (an operation constructor panicked: invalid path) | P (Generate panicked) | E <class> | D JSON
  ON  := CP | P | E <class> | S (same bytes as OFF's document) | X (a different document)
  JSON := O <n> {<key> JSON}* | A <n> JSON* | S <str> | N <str> | T | F | Z
  <str> := h:<hex> | r:<raw>

OFF is `API.Generate` with validation off, ON with `WithValidation(true)`. `metaValid` is the verdict of
the jsonschema library on OFF's document against the repository's embedded meta-schema (the validator
is a parameter of the model), `refsResolve` the harness' own JSON-pointer resolution of every `$ref`
in the raw JSON, `stable` byte equality of repeated generations, `validatorAgrees` whether the
repository's own `validate.Validator` gives the same verdicts as the jsonschema library on the
document and on a damaged variant of it (part of MI: the validator the model takes as a parameter is
the one the code is wired to), `served` (cases flagged for it; otherwise 1): two app instances serve
byte-identical specifications with the same ETag = quoted SHA-256 of the body, and answer 304 to it;
`coldStart` (cases flagged for it; otherwise 1): in a fresh process — nothing compiled yet — 8 goroutines
released on a barrier call Generate with validation on, and 8 more a fresh `validate.New()`, for this
(meta-schema-valid) document, and none of them is rejected.

The produced JSON is read *strictly* into `Doc Schema`: a member the grammar does not know makes the
case `unparsed` (MI=0), so nothing in the document is ignored silently — except literal DATA, which is
skipped here and compared by the harness instead (`dataIntact`, part of MI): `x-*` members of the root,
the info object and operations, and `example` / `examples` of a media type. Data is never a reference
position: a `$ref` member inside it is payload.
-/
namespace Rivaas.DriverC07
open Rivaas.Proto Rivaas.OpenAPI

abbrev M := StateT (List String) (Except String)

def tk : M String := fun st => match st with
  | [] => .error "unexpected end of line"
  | t :: r => .ok (t, r)

def fail {α} (msg : String) : M α := fun _ => .error msg

def pNat : M Nat := do
  let t ← tk
  match t.toNat? with
  | some n => pure n
  | none => fail s!"not a number: {t}"

def pBool : M Bool := do
  let t ← tk
  if t == "1" then pure true else if t == "0" then pure false else fail s!"not a bool: {t}"

def pStr : M B := do
  let t ← tk
  if t.startsWith "h:" then
    match unhexBytes (t.drop 2).toString.toList with
    | some bs => pure (bytesOfU8 bs)
    | none => fail s!"bad hex: {t}"
  else if t.startsWith "r:" then pure (t.drop 2).toString.toList
  else fail s!"not a string token: {t}"

def many {α} : Nat → M α → M (List α)
  | 0, _ => pure []
  | n+1, p => do
    let a ← p
    let r ← many n p
    pure (a :: r)

def pList {α} (p : M α) : M (List α) := do
  let n ← pNat
  many n p

def pOpt {α} (p : M α) : M (Option α) := do
  let b ← pBool
  if b then some <$> p else pure none

def pKind : M PKind := do
  let t ← tk
  match t with
  | "bool" => pure .bool | "int" => pure .int | "int8" => pure .int8 | "int16" => pure .int16
  | "int32" => pure .int32 | "int64" => pure .int64 | "uint" => pure .uint | "uint8" => pure .uint8
  | "uint16" => pure .uint16 | "uint32" => pure .uint32 | "uint64" => pure .uint64
  | "float32" => pure .float32 | "float64" => pure .float64 | "string" => pure .string
  | "iface" => pure .iface | "other" => pure .other
  | _ => fail s!"unknown kind {t}"

partial def pTy : M Ty := do
  let t ← tk
  match t with
  | "P" => Ty.prim <$> pKind
  | "T" => pure .time
  | "Ptr" => Ty.ptr <$> pTy
  | "Sl" => Ty.slice <$> pTy
  | "Ar" => Ty.array <$> pTy
  | "Mp" => do let b ← pBool; Ty.map b <$> pTy
  | "N" => Ty.named <$> pNat
  | _ => fail s!"unknown type token {t}"

def pField : M Field := do
  let t ← tk
  match t with
  | "F" => do
    let name ← pStr; let ex ← pBool; let json ← pStr; let validate ← pStr
    let query ← pStr; let path ← pStr; let header ← pStr; let cookie ← pStr; let dflt ← pStr
    let style ← pStr; let explode ← pStr
    let docT ← pStr; let exampleT ← pStr; let enumT ← pStr; let formatT ← pStr
    let typeIs ← pStr
    let ty ← pTy
    pure (.field { name, exported := ex, json, validate, query, path, header, cookie, dflt, style, explode, typeIs,
                   docT, exampleT, enumT, formatT } ty)
  | "E" => Field.embed <$> pNat
  | _ => fail s!"unknown field token {t}"

def pEnvEntry : M (Nat × Def) := do
  let id ← pNat
  let t ← tk
  match t with
  | "S" => do
    let name ← pStr; let pkg ← pStr
    let fs ← pList pField
    pure (id, .struct name pkg fs)
  | "A" => do let ty ← pTy; pure (id, .alias ty)
  | _ => fail s!"unknown env token {t}"

def pOp : M OpIn := do
  let method ← pStr; let path ← pStr; let summary ← pStr; let description ← pStr; let opID ← pStr
  let req ← pOpt pTy
  let resps ← pList (do let st ← pNat; let text ← pStr; let ty ← pOpt pTy; pure (st, text, ty))
  let tags ← pList pStr
  let deprecated ← pBool
  let security ← pList (do let sc ← pStr; let scopes ← pList pStr; pure (sc, scopes))
  let consumes ← pList pStr
  let produces ← pList pStr
  let respOpts ← pList (do
    let status ← pNat; let nilValue ← pBool; let nonZero ← pBool; let named ← pList pStr
    pure ({ status, nilValue, nonZero, named } : RespOpt))
  pure { method, path, summary, description, opID, req, resps, tags, deprecated, security, consumes, produces, respOpts }

structure Input where
  v : Version
  strict : Bool
  env : Env
  ops : List OpIn
  servers : List B      -- configured server urls ([] = none configured)
  summary : B           -- WithInfoSummary ("" = not configured)

def pInput : M Input := do
  let vt ← tk
  let v ← (if vt == "30" then pure Version.v30 else if vt == "31" then pure Version.v31 else fail s!"bad version {vt}")
  let strict ← pBool
  let env ← pList pEnvEntry
  let ops ← pList pOp
  let servers ← pList pStr
  let summary ← pStr
  pure { v, strict, env, ops, servers, summary }

/-! ## reading the produced JSON strictly into `Doc Schema` -/

/-- iterate over the members of an object: `f key` parses the value into the accumulator -/
def pObj {σ} (init : σ) (f : B → σ → M σ) : M σ := do
  let t ← tk
  if t != "O" then fail s!"expected an object, got {t}"
  let n ← pNat
  let rec go : Nat → σ → M σ
    | 0, acc => pure acc
    | k+1, acc => do
      let key ← pStr
      let acc' ← f key acc
      go k acc'
  go n init

/-- skip one JSON value (literal data) -/
partial def pSkip : M Unit := do
  let t ← tk
  match t with
  | "O" => do
    let n ← pNat
    for _ in [0:n] do
      let _ ← pStr
      pSkip
  | "A" => do
    let n ← pNat
    for _ in [0:n] do
      pSkip
  | "S" => do let _ ← pStr; pure ()
  | "N" => do let _ ← pStr; pure ()
  | "T" | "F" | "Z" => pure ()
  | _ => fail s!"unexpected JSON token {t}"

def isExtKey (k : B) : Bool := hasPrefix (s "x-") k

def pJStr : M B := do
  let t ← tk
  if t != "S" then fail s!"expected a string value, got {t}"
  pStr

def pJBool : M Bool := do
  let t ← tk
  if t == "T" then pure true else if t == "F" then pure false else fail s!"expected a boolean value, got {t}"

def pJStrs : M (List B) := do
  let t ← tk
  if t != "A" then fail s!"expected an array, got {t}"
  pList pJStr

def pJArr {α} (p : M α) : M (List α) := do
  let t ← tk
  if t != "A" then fail s!"expected an array, got {t}"
  pList p

def insertAttr (x : B × Sc) : Attrs → Attrs
  | [] => [x]
  | y :: ys => if bytesLe x.1 y.1 then x :: y :: ys else y :: insertAttr x ys

/-- a scalar member value: string, number, boolean or array of strings -/
def pScalar : M Sc := do
  let t ← tk
  match t with
  | "S" => Sc.str <$> pStr
  | "N" => Sc.num <$> pStr
  | "T" => pure (.bool true)
  | "F" => pure (.bool false)
  | "A" => Sc.strs <$> pList pJStr
  | _ => fail s!"unexpected scalar {t}"

structure SchemaAcc where
  ref : Option B := none
  attrs : Attrs := []
  items : OTree Attrs := .none
  props : PTree Attrs := .nil
  addl : OTree Attrs := .none

partial def pSchema : M Schema := do
  let acc ← pObj ({} : SchemaAcc) fun key acc => do
    if key = s "$ref" then do let r ← pJStr; pure { acc with ref := some r }
    else if key = s "items" then do let t ← pSchema; pure { acc with items := .some t }
    else if key = s "additionalProperties" then do let t ← pSchema; pure { acc with addl := .some t }
    else if key = s "properties" then do
      let ps ← pObj (PTree.nil : PTree Attrs) fun k p => do
        let t ← pSchema
        pure (PTree.insertSorted k t p)
      pure { acc with props := ps }
    else do
      let v ← pScalar
      pure { acc with attrs := insertAttr (key, v) acc.attrs }
  match acc.ref with
  | some r =>
    if acc.attrs.isEmpty then pure (.ref r) else fail "a $ref schema with sibling members"
  | none => pure (.node acc.attrs acc.items acc.props acc.addl)

/-- `{<media type>: {"schema": …, "example": …, "examples": {…}}}` — exactly one media type; returns its key, its
    schema, whether it has the single `example`, and the keys of `examples` (in the order they are written) -/
def pContent : M (Option (B × Schema × Bool × List B)) := do
  pObj none fun ct acc => do
    if acc.isSome then fail "two media types"
    else
      let r ← pObj ((none : Option Schema), false, ([] : List B)) fun k a => do
        if k = s "schema" then do let t ← pSchema; pure (some t, a.2)
        else if k = s "example" then do pSkip; pure (a.1, true, a.2.2)
        else if k = s "examples" then do
          let names ← pObj ([] : List B) fun name ns => do pSkip; pure (ns ++ [name])
          pure (a.1, a.2.1, names)
        else fail s!"unknown media type member {String.ofList k}"
      match r.1 with
      | some t => pure (some (ct, t, r.2.1, r.2.2))
      | none => fail "media type without schema"

structure ParamAcc where
  name : B := []
  loc : B := []
  required : Bool := false
  schema : Option Schema := none
  style : B := []
  explode : Bool := false
  description : B := []
  exampleP : Option DV := none

def pParam : M (Param Schema) := do
  let r ← pObj ({} : ParamAcc) fun k acc => do
    if k = s "name" then do let v ← pJStr; pure { acc with name := v }
    else if k = s "in" then do let v ← pJStr; pure { acc with loc := v }
    else if k = s "required" then do let v ← pJBool; pure { acc with required := v }
    else if k = s "schema" then do let v ← pSchema; pure { acc with schema := some v }
    else if k = s "style" then do let v ← pJStr; pure { acc with style := v }
    else if k = s "explode" then do let v ← pJBool; pure { acc with explode := v }
    else if k = s "description" then do let v ← pJStr; pure { acc with description := v }
    else if k = s "example" then do
      let v ← pScalar
      match v with
      | .str x => pure { acc with exampleP := some (.str x) }
      | .num x => pure { acc with exampleP := some (.num x) }
      | .bool x => pure { acc with exampleP := some (.bool x) }
      | .strs _ => fail "parameter example is an array"
    else fail s!"unknown parameter member {String.ofList k}"
  match r.schema with
  | some sch => pure { name := r.name, loc := r.loc, required := r.required, schema := sch, style := r.style, explode := r.explode,
                       description := r.description, exampleP := r.exampleP }
  | none => fail "parameter without schema"

def insertRespD (x : Resp Schema) : List (Resp Schema) → List (Resp Schema) := insertResp x

/-- responses, and the media type key of those that have content (all must use the same one) -/
def pResponses : M (List (Resp Schema) × B) :=
  pObj ([], []) fun code acc => do
    let r ← pObj (([] : B), (none : Option (B × Schema × Bool × List B))) fun k a => do
      if k = s "description" then do let v ← pJStr; pure (v, a.2)
      else if k = s "content" then do let c ← pContent; pure (a.1, c)
      else fail s!"unknown response member {String.ofList k}"
    let ct ← match r.2 with
      | some (c, _) => if acc.2 = [] ∨ acc.2 = c then pure c else fail "responses with different media types"
      | none => pure acc.2
    pure (insertResp { code := code, description := r.1, schema := r.2.map (·.2.1),
                       hasExample := (r.2.map (·.2.2.1)).getD false, exampleNames := (r.2.map (·.2.2.2)).getD [] } acc.1, ct)

def pOperation : M (Operation Schema) := do
  let init : Operation Schema := { opId := [], summary := [], description := [], params := [], body := none, resps := [] }
  pObj init fun k o => do
    if k = s "operationId" then do let v ← pJStr; pure { o with opId := v }
    else if k = s "summary" then do let v ← pJStr; pure { o with summary := v }
    else if k = s "description" then do let v ← pJStr; pure { o with description := v }
    else if k = s "tags" then do let v ← pJStrs; pure { o with tags := v }
    else if k = s "deprecated" then do let v ← pJBool; pure { o with deprecated := v }
    else if k = s "security" then do
      let v ← pJArr (do
        let r ← pObj ([] : List (B × List B)) fun sc acc => do
          let scopes ← pJStrs
          pure (acc ++ [(sc, scopes)])
        match r with
        | [x] => pure x
        | _ => fail "a security requirement with other than one scheme")
      pure { o with security := v }
    else if k = s "parameters" then do let v ← pJArr pParam; pure { o with params := v }
    else if k = s "responses" then do
      let v ← pResponses
      pure { o with resps := v.1, respCT := v.2 }
    else if k = s "requestBody" then do
      let r ← pObj (false, (none : Option (B × Schema))) fun kk a => do
        if kk = s "required" then do let v ← pJBool; pure (v, a.2)
        else if kk = s "content" then do let c ← pContent; pure (a.1, c.map fun x => (x.1, x.2.1))
        else fail s!"unknown requestBody member {String.ofList kk}"
      if !r.1 then fail "requestBody not required"
      match r.2 with
      | some (ct, sch) => pure { o with body := some sch, reqCT := ct }
      | none => fail "requestBody without content"
    else if isExtKey k then do pSkip; pure o
    else fail s!"unknown operation member {String.ofList k}"

def pPathItem : M (PathItem Schema) :=
  pObj [] fun k item => do
    let o ← pOperation
    pure (insertKey (k, o) item)

structure DocAcc where
  openapi : B := []
  dialect : B := []
  servers : List B := []
  paths : List (B × PathItem Schema) := []
  schemas : List (B × Schema) := []
  info : Bool := false
  infoSummary : B := []

def pDoc : M (Doc Schema) := do
  let acc ← pObj ({} : DocAcc) fun k d => do
    if k = s "openapi" then do let v ← pJStr; pure { d with openapi := v }
    else if k = s "jsonSchemaDialect" then do let v ← pJStr; pure { d with dialect := v }
    else if k = s "info" then do
      let r ← pObj ((false, false), ([] : B)) fun kk a => do
        if kk = s "title" then do let _ ← pJStr; pure ((true, a.1.2), a.2)
        else if kk = s "version" then do let _ ← pJStr; pure ((a.1.1, true), a.2)
        else if kk = s "summary" then do let v ← pJStr; pure (a.1, v)
        else if isExtKey kk then do pSkip; pure a
        -- API-level configuration objects: compared by the harness (`configIntact`)
        else if kk = s "description" ∨ kk = s "termsOfService" ∨ kk = s "contact" ∨ kk = s "license" then do
          pSkip; pure a
        else fail s!"unknown info member {String.ofList kk}"
      if r.1.1 && r.1.2 then pure { d with info := true, infoSummary := r.2 } else fail "info without title/version"
    else if k = s "servers" then do
      let v ← pJArr (do
        let u ← pObj (none : Option B) fun kk acc => do
          if kk = s "url" then do let x ← pJStr; pure (some x)
          else if kk = s "description" then do pSkip; pure acc
          else fail "unknown server member"
        match u with
        | some x => pure x
        | none => fail "server without url")
      pure { d with servers := v }
    else if k = s "paths" then do
      let v ← pObj ([] : List (B × PathItem Schema)) fun p acc => do
        let item ← pPathItem
        pure (insertKey (p, item) acc)
      pure { d with paths := v }
    else if k = s "components" then do
      let v ← pObj ([] : List (B × Schema)) fun kk acc => do
        if kk = s "schemas" then
          pObj acc fun name a => do
            let t ← pSchema
            pure (insertKey (name, t) a)
        else if kk = s "securitySchemes" then do pSkip; pure acc     -- configuration: compared by the harness
        else fail s!"unknown components member {String.ofList kk}"
      pure { d with schemas := v }
    else if isExtKey k then do pSkip; pure d
    else if k = s "externalDocs" ∨ k = s "tags" ∨ k = s "security" then do pSkip; pure d   -- configuration (harness)
    else fail s!"unknown document member {String.ofList k}"
  if !acc.info then fail "document without info"
  pure { openapi := acc.openapi, dialect := acc.dialect, servers := acc.servers, paths := acc.paths, schemas := acc.schemas,
         infoSummary := acc.infoSummary }

/-! ## observations -/

inductive Res
  | ctorPanic
  | panic
  | err (e : String)
  | doc (d : Doc Schema)
  | same
  | other
  | unparsed (why : String)

def pErrClass : M String := tk

/-- OFF; the JSON is consumed from the token stream even when it cannot be read into a Doc -/
def pOff : M Res := do
  let t ← tk
  match t with
  | "CP" => pure .ctorPanic
  | "P" => pure .panic
  | "E" => Res.err <$> pErrClass
  | "D" => fun st =>
    match pDoc st with
    | .ok (d, rest) => .ok (.doc d, rest)
    | .error why => .ok (.unparsed why, st)      -- flags are read from the end of the line instead
  | _ => fail s!"bad OFF token {t}"

/-! ## comparing documents -/

def showSc : Sc → String
  | .str v => "\"" ++ String.ofList v ++ "\""
  | .num v => String.ofList v
  | .bool b => toString b
  | .strs vs => "[" ++ ",".intercalate (vs.map String.ofList) ++ "]"

def showAttrs (a : Attrs) : String := "{" ++ ",".intercalate (a.map fun kv => String.ofList kv.1 ++ ":" ++ showSc kv.2) ++ "}"

/-- field names are non-empty (hypothesis `EnvNamed` of the theorems; a fact about reflect) -/
def envNamedB (env : Env) : Bool :=
  env.all fun e => match e.2 with
    | .struct _ _ fs => fs.all fun f => match f with
      | .field m _ => !m.name.isEmpty
      | .embed _ => true
    | .alias _ => true

mutual
  partial def diffSchema (path : String) : Schema → Schema → Option String
    | .ref a, .ref b => if a = b then none else some s!"{path}: $ref {String.ofList a} vs {String.ofList b}"
    | .node h1 i1 p1 a1, .node h2 i2 p2 a2 =>
      if h1 ≠ h2 then some s!"{path}: members {showAttrs h1} vs {showAttrs h2}"
      else (diffO (path ++ "/items") i1 i2).orElse fun _ =>
        (diffP (path ++ "/properties") p1 p2).orElse fun _ => diffO (path ++ "/additionalProperties") a1 a2
    | .ref _, .node .. => some s!"{path}: $ref vs node"
    | .node .., .ref _ => some s!"{path}: node vs $ref"
  partial def diffO (path : String) : OTree Attrs → OTree Attrs → Option String
    | .none, .none => none
    | .some a, .some b => diffSchema path a b
    | _, _ => some s!"{path}: presence differs"
  partial def diffP (path : String) : PTree Attrs → PTree Attrs → Option String
    | .nil, .nil => none
    | .cons k1 t1 r1, .cons k2 t2 r2 =>
      if k1 ≠ k2 then some s!"{path}: key {String.ofList k1} vs {String.ofList k2}"
      else (diffSchema (path ++ "/" ++ String.ofList k1) t1 t2).orElse fun _ => diffP path r1 r2
    | .nil, .cons k _ _ => some s!"{path}: model lacks {String.ofList k}"
    | .cons k _ _, .nil => some s!"{path}: impl lacks {String.ofList k}"
end

def diffOptSchema (path : String) : Option Schema → Option Schema → Option String
  | none, none => none
  | some a, some b => diffSchema path a b
  | _, _ => some s!"{path}: presence differs"

def diffList {α} (path : String) (f : String → α → α → Option String) : List α → List α → Option String
  | [], [] => none
  | a :: as, b :: bs => (f path a b).orElse fun _ => diffList path f as bs
  | _, _ => some s!"{path}: lengths differ"

def diffOperation (path : String) (m i : Operation Schema) : Option String :=
  if m.opId ≠ i.opId then some s!"{path}: operationId {String.ofList m.opId} vs {String.ofList i.opId}"
  else if m.summary ≠ i.summary then some s!"{path}: summary"
  else if m.description ≠ i.description then some s!"{path}: description"
  else if m.tags ≠ i.tags then some s!"{path}: tags {m.tags.map String.ofList} vs {i.tags.map String.ofList}"
  else if m.deprecated ≠ i.deprecated then some s!"{path}: deprecated"
  else if m.security ≠ i.security then some s!"{path}: security"
  else if m.reqCT ≠ i.reqCT then some s!"{path}: request media type {String.ofList m.reqCT} vs {String.ofList i.reqCT}"
  else if m.respCT ≠ i.respCT then some s!"{path}: response media type {String.ofList m.respCT} vs {String.ofList i.respCT}"
  else
    (diffList (path ++ "/parameters") (fun p a b =>
      if a.style ≠ b.style ∨ a.explode ≠ b.explode then
        some s!"{p}: {String.ofList a.name} style/explode {String.ofList a.style}/{a.explode} vs {String.ofList b.style}/{b.explode}"
      else if a.description ≠ b.description ∨ a.exampleP ≠ b.exampleP then
        some s!"{p}: {String.ofList a.name} description/example {String.ofList a.description} vs {String.ofList b.description}"
      else if a.name ≠ b.name ∨ a.loc ≠ b.loc ∨ a.required ≠ b.required then
        some s!"{p}: {String.ofList a.loc}:{String.ofList a.name}:{a.required} vs {String.ofList b.loc}:{String.ofList b.name}:{b.required}"
      else diffSchema (p ++ "/" ++ String.ofList a.name) a.schema b.schema) m.params i.params).orElse fun _ =>
    (diffOptSchema (path ++ "/requestBody") m.body i.body).orElse fun _ =>
    diffList (path ++ "/responses") (fun p a b =>
      if a.code ≠ b.code ∨ a.description ≠ b.description then some s!"{p}: {String.ofList a.code} vs {String.ofList b.code}"
      else if a.hasExample ≠ b.hasExample ∨ a.exampleNames ≠ b.exampleNames then
        some s!"{p}: {String.ofList a.code} example/examples {a.hasExample}/{a.exampleNames.map String.ofList} vs {b.hasExample}/{b.exampleNames.map String.ofList}"
      else diffOptSchema (p ++ "/" ++ String.ofList a.code) a.schema b.schema) m.resps i.resps

/-- first difference between the model's document and the implementation's, `none` if equal -/
def diffDoc (m i : Doc Schema) : Option String :=
  if m.openapi ≠ i.openapi then some "openapi"
  else if m.dialect ≠ i.dialect then some "jsonSchemaDialect"
  else if m.servers ≠ i.servers then some "servers"
  else if m.infoSummary ≠ i.infoSummary then some "info.summary"
  else
    (diffList "paths" (fun p a b =>
      if a.1 ≠ b.1 then some s!"{p}: key {String.ofList a.1} vs {String.ofList b.1}"
      else diffList (p ++ String.ofList a.1) (fun q x y =>
        if x.1 ≠ y.1 then some s!"{q}: member {String.ofList x.1} vs {String.ofList y.1}"
        else diffOperation (q ++ "/" ++ String.ofList x.1) x.2 y.2) a.2 b.2) m.paths i.paths).orElse fun _ =>
    diffList "components" (fun p a b =>
      if a.1 ≠ b.1 then some s!"{p}: key {String.ofList a.1} vs {String.ofList b.1}"
      else diffSchema (p ++ "/" ++ String.ofList a.1) a.2 b.2) m.schemas i.schemas

def errName : Err → String
  | .dupOp => "dupop"
  | .status => "status"
  | .noPaths => "nopaths"
  | .validation => "validation"
  | .style => "style"
  | .strict => "strict"

def clean (x : String) : String := x.map fun c => if c = ' ' ∨ c = '\n' then '_' else c

def step (line : String) : String :=
  match splitCase line with
  | none => "? bad-line"
  | some (id, inp, obs) =>
    match (pInput.run inp) with
    | .error why => s!"{id} bad-case input: {clean why}"
    | .ok (x, restIn) =>
      if !restIn.isEmpty then s!"{id} bad-case trailing-input" else
      if !envNamedB x.env then s!"{id} bad-case a struct field without a name" else
      match pOff.run obs with
      | .error why => s!"{id} bad-case observation: {clean why}"
      | .ok (off, _) =>
        -- ON and the three flags are the last tokens of the line
        let rev := obs.reverse
        let flags := (rev.take 7).reverse
        let t4 := (rev.drop 7).head?.getD ""
        let t5 := (rev.drop 8).head?.getD ""
        let on : Res :=
          if t5 == "E" then .err t4
          else match t4 with
            | "CP" => .ctorPanic
            | "P" => .panic
            | "S" => .same
            | "X" => .other
            | _ => .unparsed "on"
        match flags with
        | [mv, rr, stb, vag, srv, cold, dat] =>
          let dataIntact := dat == "1"
          let coldStart := cold == "1"
          let validatorAgrees := vag == "1"
          let served := srv == "1"
          let metaValid := mv == "1"
          let refsResolve := rr == "1"
          let stable := stb == "1"
          -- the model
          let pathsValid := x.ops.all fun op => validatePath op.path
          let cfg : ApiCfg := { servers := x.servers, summary := x.summary }
          let mOff := generate cfg x.v x.strict none x.env x.ops
          let mOn := generate cfg x.v x.strict (some fun _ => metaValid) x.env x.ops
          -- MI
          let (miOff, why) : Bool × String :=
            if !pathsValid then (match off with | .ctorPanic => (true, "") | _ => (false, "model:ctor-panic"))
            else match mOff, off with
              | .error e, .err c => (errName e == c, s!"model:E_{errName e}")
              | .ok md, .doc d =>
                (match diffDoc md d with | none => (true, "") | some w => (false, "diff:" ++ clean w))
              | .error e, _ => (false, s!"model:E_{errName e}")
              | .ok _, .unparsed w => (false, "unparsed:" ++ clean w)
              | .ok _, _ => (false, "model:doc")
          let miOn : Bool :=
            if !pathsValid then (match on with | .ctorPanic => true | _ => false)
            else match mOn, on with
              | .error e, .err c => errName e == c
              | .ok _, .same => true
              | _, _ => false
          -- S: the oracle on what the implementation did
          let sOK : Bool :=
            match off with
            | .ctorPanic => true                    -- no operation was constructed, Generate was not called
            | .panic => false                       -- neither an error nor a document
            | .err _ => (match on with | .panic => false | _ => true)
            | .doc d =>
              docOK x.v x.ops d && metaValid && refsResolve && stable && served && coldStart &&
              (match on with | .same => true | _ => false)   -- validation must not reject (or change) a valid document
            | .unparsed _ =>                        -- the document could not be read: the oracle's Lean part cannot be
              -- evaluated (correspondence broken), what the harness observed on the raw JSON still counts
              metaValid && refsResolve && stable && served && coldStart &&
              (match on with | .same => true | _ => false)
            | _ => false
          -- which clause of S failed (for the reader of a replay file)
          let failing : String := match off with
            | .doc d =>
              String.intercalate "," (
                (if refsClosed d then [] else ["refsClosed"]) ++ (if pathParamsOK x.ops d then [] else ["pathParams"]) ++
                (if opIdsUnique d then [] else ["opIdsUnique"]) ++ (if namesOK d then [] else ["names"]) ++
                (if wfDoc x.v d then [] else ["WF"]) ++ (if metaValid then [] else ["metaValid"]) ++
                (if refsResolve then [] else ["refsResolve"]) ++ (if stable then [] else ["stable"]) ++
                (if served then [] else ["served"]) ++ (if coldStart then [] else ["coldStart"]) ++
                (match on with | .same => [] | _ => ["validationOn"]))
            | .panic => "panic"
            | .unparsed _ =>
              String.intercalate "," (
                (if metaValid then [] else ["metaValid"]) ++ (if refsResolve then [] else ["refsResolve"]) ++
                (if stable then [] else ["stable"]) ++ (if served then [] else ["served"]) ++
                (if coldStart then [] else ["coldStart"]) ++ (match on with | .same => [] | _ => ["validationOn"]))
            | _ => ""
          let detail0 := if miOff then (if miOn then (if validatorAgrees then (if dataIntact then "ok" else "data-changed") else "validator-disagrees") else "on-mismatch") else why
          let detail := if sOK then detail0 else detail0 ++ " failed:" ++ failing
          verdict id (miOff && miOn && validatorAgrees && dataIntact) sOK "-" detail
        | _ => s!"{id} bad-case flags"

end Rivaas.DriverC07

def main : IO UInt32 := Rivaas.Proto.driverMain Rivaas.DriverC07.step
