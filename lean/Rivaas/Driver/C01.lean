import Rivaas.Proto
/- Driver for C01 (stub: not built yet) -/
def main : IO UInt32 := do
  IO.eprintln "driver for C01 is not built yet"
  return 2
