import Rivaas.Driver.RouteCase
/-
Driver for C01. Case line: `<id> <input> => <obs> <routeExists 0|1>` (see Driver/RouteCase.lean).
MI  : the tree model (Model/Radix `serve`, `routeExists`) reproduces the observation exactly.
S   : the reference matcher's oracle (Spec/Match `specOK`, or `soundOK` outside the canonical domain)
      holds on what the implementation did.
D   : class of the recorded finding the request falls into (Spec/MatchClass `classify`).
-/
namespace Rivaas.DriverC01
open Rivaas.Proto Rivaas.Route Rivaas.Radix Rivaas.Match Rivaas.RouteCase

def pObsX : P (Option (Obs × Bool)) := do
  let o ← pObs
  match o with
  | none => pure none
  | some o => do
    let e ← bool
    pure (some (o, e))

def step (line : String) : String :=
  match splitCase line with
  | none => "? bad-line"
  | some (id, inp, obs) =>
    match runP pCase inp, runP pObsX obs with
    | some c, some o =>
      let sat := satOf c.satTab
      let r := build c.noRoute c.script
      let m := serve sat r c.req
      let me := routeExists sat r c.req.method c.req.path
      match o with
      | some (oi, ei) =>
        let (s, d) := judge c oi
        verdict id (m == oi && me == ei) s d (encObs m ++ (if me then " 1" else " 0"))
      | none => verdict id false false "-" (encObs m ++ (if me then " 1" else " 0"))
    | _, _ => s!"{id} bad-case"

end Rivaas.DriverC01

def main : IO UInt32 := Rivaas.Proto.driverMain Rivaas.DriverC01.step
