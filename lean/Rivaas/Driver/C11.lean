import Rivaas.Proto
/- Driver for C11 (stub: not built yet) -/
def main : IO UInt32 := do
  IO.eprintln "driver for C11 is not built yet"
  return 2
