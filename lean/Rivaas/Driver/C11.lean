import Rivaas.Driver.RouteCase
import Rivaas.Model.Compiler
import Rivaas.Spec.CompiledClass
/-
Driver for C11. Case line:
  <id> <compiled> <bloomSize> <bloomK> <versioned> <warmAt+1 or 0> <input as C01> => <obs plain engine> <obs configured engine>
MI : Model/Radix `serve` (or the versioned variant with default options) reproduces the plain observation
     and Model/Compiler `serveWith` reproduces the observation of the configured engine.
S  : the two *implementation* observations are equal (the oracle of C11 is the tree engine itself).
D  : class of the recorded finding (Spec/CompiledClass `classify11`).
-/
namespace Rivaas.DriverC11
open Rivaas.Proto Rivaas.Route Rivaas.Radix Rivaas.Match Rivaas.RouteCase Rivaas.Compiler

/-- FNV-1a, 64 bit (`hash/fnv.New64a`, and the inline copy in compiler/static.go) -/
def fnv64a (bs : Bytes) : Nat :=
  (bs.foldl (fun (h : UInt64) c => (h ^^^ UInt64.ofNat c.toNat) * 1099511628211) 14695981039346656037).toNat

def pOpts : P Opts := do
  let c ← bool
  let s ← nat
  let k ← nat
  let v ← bool
  let w ← nat   -- 0: no explicit Warmup(); k+1: Warmup() before the k-th registration
  pure { compiled := c, bloomSize := s, bloomK := k, versioned := v, warmAt := if w = 0 then none else some (w - 1) }

def step (line : String) : String :=
  match splitCase line with
  | none => "? bad-line"
  | some (id, inp, obs) =>
    match runP (do let o ← pOpts; let c ← pCase; pure (o, c)) inp,
          runP (do let a ← pObs; let b ← pObs; pure (a, b)) obs with
    | some (o, c), some (oa, ob) =>
      let sat := satOf c.satTab
      let base : Opts := { compiled := false, bloomSize := 0, bloomK := 0, versioned := o.versioned, warmAt := o.warmAt }
      let ma := serveWith fnv64a sat base c.script c.noRoute c.req
      let mb := serveWith fnv64a sat o c.script c.noRoute c.req
      let mi := oa == some ma && ob == some mb
      -- outside the vocabulary of the property (a malformed pattern, a path without leading slash) no claim
      let R? := specRoutes c.script
      let inDomain := R?.isSome && c.req.path.head? == some '/'
      let s := !inDomain || (oa.isSome && oa == ob)
      let d := match R? with
        | some R => if s then "-" else classify11 sat R c.req (cutAny c.req.path)
        | none => "-"
      verdict id mi s d (encObs ma ++ " " ++ encObs mb)
    | _, _ => s!"{id} bad-case"

end Rivaas.DriverC11

def main : IO UInt32 := Rivaas.Proto.driverMain Rivaas.DriverC11.step
