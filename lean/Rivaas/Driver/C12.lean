import Rivaas.Proto
import Rivaas.Spec.Phases
import Rivaas.Spec.Reverse
/-
Driver for C12. Case lines:

  <id> P <nActors> { Q <target> <valInt> | G <target> <valInt> | F | W | R <r> <routeKind> | H <r> | N <r> | U <r> | B <r> }*
         <nSched> <actor>*  <nIds> <id>*
    => <nEv> { <vis> <out> }*  <nFinal> <vis>*  <nProbes> { {0|1 <id>} {0|1 <id>} }*

  vis: N E FF WD WR WC FD SF RC B D        out: - | G | M a|r|n | H {0 | 1 <id>} | U o|f|n | X
  (routeKind — direct / group / mount / version — is not a model input: all four go through the same checks)
-/
namespace Rivaas.DriverC12
open Rivaas Rivaas.Proto Rivaas.Phases

def pKind : P Kind := do
  let k ← tok
  if k == "Q" then (do let t ← nat; let v ← bool; pure (Kind.request t v))
  else if k == "G" then (do let t ← nat; let v ← bool; pure (Kind.request t v true))
  else if k == "F" then pure Kind.freeze
  else if k == "W" then pure Kind.warmup
  else if k == "R" then (do let r ← nat; let _ ← nat; pure (Kind.register r))
  else if k == "H" then Kind.whereInt <$> nat
  else if k == "N" then Kind.setName <$> nat
  else if k == "U" then Kind.urlFor <$> nat
  else if k == "B" then Kind.whereBad <$> nat
  else failure

def pVis : P Vis := do
  let k ← tok
  match k with
  | "N" => pure .notStarted | "E" => pure .serveEntry | "FF" => pure .freezeFlags
  | "WD" => pure .warmupDrained | "WR" => pure .warmupRegistered | "WC" => pure .warmupCompiled
  | "FD" => pure .freezeDone | "SF" => pure .serveFrozen | "RC" => pure .registerChecked
  | "B" => pure .blocked | "D" => pure .done
  | _ => failure

def pOut : P Out := do
  let k ← tok
  if k == "-" then pure .none
  else if k == "X" then pure .crash
  else if k == "G" then pure .gone
  else if k == "M" then do
    let r ← tok
    if r == "a" then pure (.mut .accepted) else if r == "r" then pure (.mut .rejected)
    else if r == "n" then pure (.mut .na) else failure
  else if k == "H" then Out.hit <$> opt nat
  else if k == "U" then do
    let r ← tok
    if r == "o" then pure (.url .ok) else if r == "f" then pure (.url .notFrozen)
    else if r == "n" then pure (.url .notFound) else failure
  else failure

def pInput : P (List Kind × List Nat × List Nat) := do
  lit "P"
  let ks ← list pKind
  let sched ← list nat
  let ids ← list nat
  pure (ks, sched, ids)

structure Obs where
  evs : List (Vis × Out)
  final : List Vis
  probes : List (Option Nat × Option Nat)
  deriving DecidableEq

def pObs : P Obs := do
  let evs ← list (do let v ← pVis; let o ← pOut; pure (v, o))
  let fin ← list pVis
  let pr ← list (do let a ← opt nat; let b ← opt nat; pure (a, b))
  pure { evs := evs, final := fin, probes := pr }

def encVis : Vis → String
  | .notStarted => "N" | .serveEntry => "E" | .freezeFlags => "FF" | .warmupDrained => "WD"
  | .warmupRegistered => "WR" | .warmupCompiled => "WC" | .freezeDone => "FD" | .serveFrozen => "SF"
  | .registerChecked => "RC" | .blocked => "B" | .done => "D"

def encOptNat : Option Nat → String
  | none => "0"
  | some n => s!"1 {n}"

def encOut : Out → String
  | .none => "-"
  | .crash => "X"
  | .gone => "G"
  | .mut .accepted => "M a" | .mut .rejected => "M r" | .mut .na => "M n"
  | .hit h => "H " ++ encOptNat h
  | .url .ok => "U o" | .url .notFrozen => "U f" | .url .notFound => "U n"

def encObs (o : Obs) : String :=
  s!"{o.evs.length}" ++ String.join (o.evs.map fun (v, out) => " " ++ encVis v ++ " " ++ encOut out) ++
  s!" {o.final.length}" ++ String.join (o.final.map fun v => " " ++ encVis v) ++
  s!" {o.probes.length}" ++ String.join (o.probes.map fun (a, b) => " " ++ encOptNat a ++ " " ++ encOptNat b)

/-- the model's observation of a case -/
def modelObs (kinds : List Kind) (sched ids : List Nat) : Obs :=
  let (s, evs) := run kinds sched
  { evs := evs.map fun e => (e.vis, e.out),
    final := s.status.map (vis s),
    probes := probes s.core ids }

/-! ### URLFor round trip:
  <id> U <pattern> <n> { <name> <value> <escaped> <decodesBack> }*
    => E | O <url> B | O <url> M <status> | O <url> T <n> { <name> <value> }*      (parameters in pattern order) -/

open Rivaas.Reverse in
def pUInput : P (Bytes × List (Bytes × Bytes × Bytes × Bool)) := do
  lit "U"
  let pat ← str
  let vals ← list (do let n ← str; let v ← str; let e ← str; let b ← bool; pure (n, v, e, b))
  pure (pat, vals)

def pUObs : P Reverse.Obs := do
  let k ← tok
  if k == "E" then pure .error
  else if k == "O" then do
    let u ← str
    let r ← tok
    if r == "B" then pure (.notRequestURI u)
    else if r == "M" then (do let _ ← nat; pure (.notRouted u))
    else if r == "T" then (do let ps ← list (do let n ← str; let v ← str; pure (n, v)); pure (.routedBack u ps))
    else failure
  else failure

def encUObs : Reverse.Obs → String
  | .error => "E"
  | .notRequestURI u => "O " ++ encStr u ++ " B"
  | .notRouted u => "O " ++ encStr u ++ " M 404"
  | .routedBack u ps =>
    "O " ++ encStr u ++ s!" T {ps.length}" ++ String.join (ps.map fun (n, v) => " " ++ encStr n ++ " " ++ encStr v)

/-- the model's observation of a round-trip case -/
def modelU (pat : Bytes) (vals : List (Bytes × Bytes × Bytes × Bool)) : Reverse.Obs :=
  Reverse.roundTrip pat (vals.map fun q => (q.1, q.2.1, q.2.2.1))

def stepU (id : String) (inp obs : List String) : String :=
  match runP pUInput inp, runP pUObs obs with
  | some (pat, vals), some o =>
    let m := modelU pat vals
    verdict id (o == m) (Reverse.Spec.specOK pat vals o) "-" (encUObs m)
  | _, _ => s!"{id} bad-case"

def step (line : String) : String :=
  match splitCase line with
  | none => "? bad-line"
  | some (id, inp, obs) =>
    if inp.head? == some "U" then stepU id inp obs else
    -- K12f probe: `<id> B <which> => <panicked> <served>`: a direct call of Router.AddRouteToTree (0) / AddVersionRoute (1)
    -- after the first request. Oracle: rejected, or at least without effect. Classifier: the line kind itself.
    if inp.head? == some "B" then
      (match runP (do let p ← bool; let s ← bool; pure (p, s)) obs with
       | some (panicked, served) =>
         let c := [Op.register 1, .enterFreeze, .freezeCallWarmup, .warmupStep, .warmupStep, .warmupStep, .freezeFinish].foldl Core.step Core.init
         let m := bridgeProbeAsIs c 2
         verdict id ((panicked, served) == m) (panicked || !served) "K12f-registrar-bridge"
           ((if m.1 then "1" else "0") ++ " " ++ (if m.2 then "1" else "0"))
       | none => s!"{id} bad-case") else
    -- free-running stress run: the harness reports whether the interleaving-independent facts held
    if inp.head? == some "S" then
      (let ok := obs.head? == some "OK"
       verdict id ok ok "-" "OK") else
    match runP pInput inp, runP pObs obs with
    | some (kinds, sched, ids), some o =>
      let m := modelObs kinds sched ids
      let mi := o == m
      let trace : List Ev :=
        (sched.zip o.evs).map fun (i, (v, out)) => { actor := i, vis := v, out := out }
      let sOK := o.evs.length == sched.length && Spec.specOK kinds ids trace o.final o.probes
      verdict id mi sOK "-" (encObs m)
    | _, _ => s!"{id} bad-case"

end Rivaas.DriverC12

def main : IO UInt32 := Rivaas.Proto.driverMain Rivaas.DriverC12.step
