import Rivaas.Proto
/- Driver for C12 (stub: not built yet) -/
def main : IO UInt32 := do
  IO.eprintln "driver for C12 is not built yet"
  return 2
